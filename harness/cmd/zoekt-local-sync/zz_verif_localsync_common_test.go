//go:build verif

package main

// Shared machinery of the C33 / C34 checks: the history case (JSON data), its
// generator, the "world" (root directories with git repositories + an
// independent model of them), deterministic repository templates, index
// directory snapshots and parsers for the command's output.

import (
	"bytes"
	"crypto/sha256"
	"encoding/json"
	"errors"
	"fmt"
	"io"
	"io/fs"
	"log"
	"os"
	"os/exec"
	"path"
	"path/filepath"
	"regexp"
	"sort"
	"strings"
	"sync"

	"pgregory.net/rapid"

	"github.com/sourcegraph/zoekt"
	"github.com/sourcegraph/zoekt/index"
	"github.com/sourcegraph/zoekt/internal/verifkit/kit"
)

// ---------------------------------------------------------------------------
// The case: a history.

type lsCase struct {
	IndexExists bool   // the index directory exists (empty) before the first step
	Form        string // "" = `zoekt-local-sync <flags>`, "sync" = `zoekt-local-sync sync <flags>`
	// ShardLimit is the -shard_limit of every sync of the history (0 = 1 MiB,
	// i.e. one shard per repository). With a small limit the "big" contents
	// (ids >= lsSmallContents) span several shards.
	ShardLimit int `json:",omitempty"`
	Steps      []lsStep
}

// lsStep = mutations of the root directories (and, for Op "shard", of the
// index directory), then one command. The command is always run with -f on
// the state; Apply says whether that result is kept (true) or the index
// directory is restored to the state before the command (false = the user
// only previewed).
type lsStep struct {
	Muts  []lsMut
	Cmd   lsCmd
	Apply bool
}

type lsMut struct {
	Op      string // add | del | move | update | cfg | shard | stray
	Root    int
	Path    string
	Kind    string `json:",omitempty"` // add: nonbare | bare | gitfile | fake
	Content int    `json:",omitempty"` // add: which deterministic content line
	ToRoot  int    `json:",omitempty"` // move
	ToPath  string `json:",omitempty"` // move
	// shard: a shard written straight into the index directory (a prior
	// index state not produced by the history itself): repository Name with
	// source <Root>/<Path> (or a path outside every root).
	Name     string `json:",omitempty"`
	Outside  bool   `json:",omitempty"`
	RealHead bool   `json:",omitempty"` // version = HEAD of the repository at Root/Path if there is one
	Meta     bool   `json:",omitempty"` // also write a .meta sidecar
	// stray (Path "."): something that is not a finished shard is put into the
	// index directory. Kind: tmp (<shard>.<digits>.tmp, the partly written
	// shard of a killed or concurrently running indexer) | metatmp
	// (<shard>.meta.<digits>.tmp) | file (unrelated file) | dir (sub-directory
	// with shard-like and *.tmp files inside). Content selects the shard the
	// temporary file belongs to (mod the shards present) / the name from
	// lsStrayFiles / lsStrayDirs.
}

type lsArg struct {
	Root int
	Sub  string `json:",omitempty"` // root argument is <root>/<Sub> (overlapping roots, renames without moving)
	// Link != "": the argument is not the directory's own path but reaches it
	// through a symbolic link named Link. Via "" = the link points at the
	// directory itself (an alias); Via "parent" = the link points at the
	// directory's parent and the argument is <link>/<base name of the directory>
	// (a link in a leading path component).
	Link string `json:",omitempty"`
	Via  string `json:",omitempty"`
}

// lsSel is one remove selector. "name"/"source" are literal; the "nth-*"
// kinds are resolved against the index as it is when the command runs: the
// N-th (mod count) indexed repository's name, its source path, or a near
// miss derived from its name (Junk: prefix | dotgit | longer | base).
type lsSel struct {
	Kind string // name | source | nth-name | nth-source | nth-junk
	Text string `json:",omitempty"` // name
	Root int    `json:",omitempty"` // source: <root>/<Path>
	Path string `json:",omitempty"`
	N    int    `json:",omitempty"`
	Junk string `json:",omitempty"`
}

type lsCmd struct {
	Op    string  // sync | remove
	Roots []lsArg `json:",omitempty"`
	Sels  []lsSel `json:",omitempty"`
}

const lsMaxRev = 3
const lsContents = 8      // content ids 0..7
const lsSmallContents = 5 // ids below: two tiny files; ids from here: lsBigFiles files of ~700 bytes
const lsBigFiles = 6

func lsBig(content int) bool { return content >= lsSmallContents }

// lsBigText is the deterministic text of one file of a big content.
func lsBigText(content, file int) string {
	var sb strings.Builder
	for line := 0; sb.Len() < 700; line++ {
		fmt.Fprintf(&sb, "content %d file %d line %d needle alpha%d beta%d gamma%d\n", content, file, line, content*7+line, file*11+line, line*line+content)
	}
	return sb.String()
}

// Root directories live at <base>/roots/<entry>. Two roots share the base
// name "alpha" (root-level repositories collide), one ends in ".git" (can
// itself be a bare repository).
var lsRootPool = []string{"p1/alpha", "p2/src", "p3/alpha", "p4/beta.git"}

var lsPathPool = []string{
	".", "x", "x.git", "team/x", "team/x.git", "team/y", "team", "alpha", "alpha.git",
	"src", "beta", "deep/a/y.git", "deep/a/y", "team/x/inner", "x/sub/x", "team.git",
}

var lsSubPool = []string{"team", "deep/a", "team/x", "x", "deep"}

// Names of the symbolic links root arguments are given through. They differ
// from the linked directory's name (an alias), or equal a root's / a
// repository's name, or end in ".git".
var lsLinkPool = []string{"alias", "mirror.git", "alpha", "x", "team"}

// Unrelated files / sub-directories found in an index directory.
var lsStrayFiles = []string{"notes.txt", "README", ".DS_Store", "old_v16.00000.zoekt.bak", "compound-1234.zoekt.tmp", "nohup.out"}
var lsStrayDirs = []string{"scratch", "old.zoekt.d", ".trash"}

// ---------------------------------------------------------------------------
// Generator.

type lsGenRepo struct {
	Root int
	Path string
	Kind string
}

type lsGenModel struct{ repos []lsGenRepo }

func lsUnder(p, anc string) bool {
	if anc == "." {
		return true
	}
	return p == anc || strings.HasPrefix(p, anc+"/")
}

func (m *lsGenModel) find(root int, p string) int {
	for i, r := range m.repos {
		if r.Root == root && r.Path == p {
			return i
		}
	}
	return -1
}

func lsModelName(rootPath, rel, kind string) string {
	name := rel
	if rel == "." {
		name = path.Base(rootPath)
	}
	if kind == "bare" {
		name = strings.TrimSuffix(name, ".git")
	}
	return name
}

func lsGitSuffixed(root int, p string) bool {
	if p == "." {
		return strings.HasSuffix(lsRootPool[root], ".git")
	}
	return strings.HasSuffix(p, ".git")
}

func lsGenMut(g kit.G, m *lsGenModel, def []int, later bool, bigPct int) lsMut {
	pickRoot := func(label string) int {
		if g.Bool(88, label+"-def") {
			return kit.Pick(g, def, label)
		}
		return g.Int(0, len(lsRootPool)-1, label)
	}
	op := "add"
	if len(m.repos) > 0 && later {
		// after the first command: mostly changes to what is (probably) indexed
		op = kit.Pick(g, []string{
			"add", "add", "add", "twin",
			"move", "move", "move", "move", "move", "move",
			"update", "update", "update",
			"del", "del",
			"cfg",
			"shard",
		}, "op-later")
	} else if len(m.repos) > 0 {
		op = kit.Pick(g, []string{
			"add", "add", "add", "add", "add", "add", "twin", "twin",
			"move", "move", "move", "move", "move",
			"update", "update", "update",
			"del", "del",
			"cfg",
			"shard", "shard",
		}, "op")
	} else if g.Bool(8, "shard-first") {
		op = "shard"
	}
	content := func() int {
		if bigPct > 0 && g.Bool(bigPct, "bigcontent") {
			return g.Int(lsSmallContents, lsContents-1, "content-big")
		}
		return g.Int(0, lsSmallContents-1, "content")
	}
	if op == "twin" {
		// a worktree X next to a bare X.git in the same directory: both are
		// named X (same-root name collision)
		var cands []lsGenRepo
		for _, r := range m.repos {
			if r.Path == "." {
				continue
			}
			if r.Kind == "bare" && strings.HasSuffix(r.Path, ".git") && m.find(r.Root, strings.TrimSuffix(r.Path, ".git")) < 0 {
				cands = append(cands, lsGenRepo{r.Root, strings.TrimSuffix(r.Path, ".git"), "nonbare"})
			} else if (r.Kind == "nonbare" || r.Kind == "gitfile") && !strings.HasSuffix(r.Path, ".git") && m.find(r.Root, r.Path+".git") < 0 {
				cands = append(cands, lsGenRepo{r.Root, r.Path + ".git", "bare"})
			}
		}
		if len(cands) == 0 {
			op = "add"
		} else {
			t := kit.Pick(g, cands, "twin")
			m.repos = append(m.repos, t)
			return lsMut{Op: "add", Root: t.Root, Path: t.Path, Kind: t.Kind, Content: content()}
		}
	}
	switch op {
	case "add":
		var mu lsMut
		wantDup := g.Bool(10, "wantdup") // name collisions are wanted, but not in most histories
		for attempt := 0; attempt < 4; attempt++ {
			mu = lsMut{Op: "add", Root: pickRoot("root"), Path: kit.Pick(g, lsPathPool, "path"), Content: content()}
			if lsGitSuffixed(mu.Root, mu.Path) {
				mu.Kind = kit.Pick(g, []string{"bare", "bare", "bare", "bare", "bare", "nonbare", "fake"}, "kind")
			} else {
				mu.Kind = kit.Pick(g, []string{"nonbare", "nonbare", "nonbare", "nonbare", "nonbare", "gitfile"}, "kind")
			}
			name := lsModelName(lsRootPool[mu.Root], mu.Path, mu.Kind)
			dup := false
			for _, r := range m.repos {
				if lsModelName(lsRootPool[r.Root], r.Path, r.Kind) == name {
					dup = true
				}
			}
			if dup == wantDup || (!dup && attempt > 0) {
				break
			}
		}
		if m.find(mu.Root, mu.Path) < 0 && mu.Kind != "fake" {
			m.repos = append(m.repos, lsGenRepo{mu.Root, mu.Path, mu.Kind})
		}
		return mu
	case "shard":
		mu := lsMut{Op: "shard", Outside: g.Bool(35, "outside"), RealHead: g.Bool(60, "realhead"), Meta: g.Bool(30, "meta")}
		if len(m.repos) > 0 && g.Bool(75, "shard-existing") {
			r := kit.Pick(g, m.repos, "shard-repo")
			mu.Root, mu.Path = r.Root, r.Path
			mu.Name = lsModelName(lsRootPool[r.Root], r.Path, r.Kind)
			if g.Bool(35, "shard-othername") {
				mu.Name = kit.Pick(g, []string{"x", "team/x", "old/gone", "alpha", "y"}, "shard-name")
			}
		} else {
			mu.Root, mu.Path = pickRoot("root"), kit.Pick(g, lsPathPool[1:], "path")
			mu.Name = kit.Pick(g, []string{"x", "team/x", "old/gone", "alpha", "y"}, "shard-name")
		}
		return mu
	}
	i := g.Int(0, len(m.repos)-1, "target")
	r := m.repos[i]
	mu := lsMut{Op: op, Root: r.Root, Path: r.Path}
	switch op {
	case "del":
		var keep []lsGenRepo
		for _, q := range m.repos {
			if !(q.Root == r.Root && lsUnder(q.Path, r.Path)) {
				keep = append(keep, q)
			}
		}
		m.repos = keep
	case "move":
		if r.Path == "." {
			mu.Op = "update"
			return mu
		}
		mu.ToRoot = r.Root
		if g.Bool(70, "move-otherroot") {
			var others []int
			for _, d := range def {
				if d != r.Root {
					others = append(others, d)
				}
			}
			if len(others) > 0 && g.Bool(80, "move-defroot") {
				mu.ToRoot = kit.Pick(g, others, "toroot")
			} else {
				mu.ToRoot = g.Int(0, len(lsRootPool)-1, "toroot-any")
			}
		}
		mu.ToPath = r.Path
		if mu.ToRoot == r.Root || g.Bool(35, "move-rename") {
			var cands []string
			for _, p := range lsPathPool[1:] {
				if strings.HasSuffix(p, ".git") == (r.Kind == "bare") {
					cands = append(cands, p)
				}
			}
			mu.ToPath = kit.Pick(g, cands, "topath")
		}
		if m.find(mu.ToRoot, mu.ToPath) < 0 {
			for j := range m.repos {
				q := &m.repos[j]
				if q.Root == r.Root && lsUnder(q.Path, r.Path) {
					q.Root = mu.ToRoot
					q.Path = mu.ToPath + strings.TrimPrefix(q.Path, r.Path)
				}
			}
		}
	}
	return mu
}

func lsGenCmd(g kit.G, m *lsGenModel, def []lsArg, step, nsteps int) lsCmd {
	if step > 0 && step < nsteps-1 && g.Bool(24, "remove") || (step == nsteps-1 && step > 0 && g.Bool(8, "remove-last")) {
		cmd := lsCmd{Op: "remove"}
		n := 1
		if g.Bool(15, "twosel") {
			n = 2
		}
		for i := 0; i < n; i++ {
			var s lsSel
			k := g.Int(0, 99, "selkind")
			switch {
			case k < 40:
				s = lsSel{Kind: "nth-name", N: g.Int(0, 5, "seln")}
			case k < 58:
				s = lsSel{Kind: "nth-source", N: g.Int(0, 5, "seln")}
			case k < 88:
				s = lsSel{Kind: "nth-junk", N: g.Int(0, 5, "seln"), Junk: kit.Pick(g, []string{"prefix", "prefix", "prefix", "dotgit", "longer", "base"}, "junk")}
			case len(m.repos) > 0 && k < 92:
				r := kit.Pick(g, m.repos, "selrepo")
				s = lsSel{Kind: "source", Root: r.Root, Path: r.Path}
			case len(m.repos) > 0 && k < 97:
				r := kit.Pick(g, m.repos, "selrepo")
				s = lsSel{Kind: "name", Text: lsModelName(lsRootPool[r.Root], r.Path, r.Kind)}
			default:
				s = lsSel{Kind: "name", Text: "no/such"}
			}
			cmd.Sels = append(cmd.Sels, s)
		}
		return cmd
	}
	cmd := lsCmd{Op: "sync"}
	if g.Bool(80, "defroots") {
		cmd.Roots = append(cmd.Roots, def...)
	} else {
		cmd.Roots = lsGenRoots(g, "alt")
	}
	// a directory that (probably) exists: an ancestor of, or the directory of, a repository of that root
	subsOf := func(root int) []string {
		var subs []string
		for _, r := range m.repos {
			if r.Root == root && r.Path != "." {
				subs = append(subs, r.Path)
				for _, a := range lsAncestors(r.Path) {
					if a != "." {
						subs = append(subs, a, a) // ancestors twice as likely
					}
				}
			}
		}
		if len(subs) == 0 {
			subs = lsSubPool
		}
		return subs
	}
	if g.Bool(16, "subarg") {
		i := g.Int(0, len(cmd.Roots)-1, "subarg-i")
		cmd.Roots = append([]lsArg(nil), cmd.Roots...)
		sub := kit.Pick(g, subsOf(cmd.Roots[i].Root), "sub")
		if g.Bool(40, "subarg-extra") {
			// overlapping: keep the root and add a sub-directory of it
			cmd.Roots = append(cmd.Roots, lsArg{Root: cmd.Roots[i].Root, Sub: sub})
		} else {
			cmd.Roots[i].Sub = sub
		}
	}
	if g.Bool(15, "linkarg") {
		// a root argument given through a symbolic link
		i := kit.Pick(g, []int{0, 0, len(cmd.Roots) - 1, g.Int(0, len(cmd.Roots)-1, "linkarg-i")}, "linkarg-which")
		cmd.Roots = append([]lsArg(nil), cmd.Roots...)
		a := cmd.Roots[i]
		a.Link = kit.Pick(g, lsLinkPool, "link")
		if g.Bool(25, "link-via-parent") {
			a.Via = "parent"
		}
		switch kit.Pick(g, []string{"replace", "replace", "replace", "alias-extra", "sub-extra", "sub-extra"}, "linkmode") {
		case "replace":
			// the directory is named only through the link
			cmd.Roots[i] = a
		case "alias-extra":
			// the directory by its own path and once more through the link
			cmd.Roots = append(cmd.Roots, a)
		default:
			// a root and a link into a sub-directory of it (or to a repository of it):
			// overlapping only after the link is resolved
			a.Sub = kit.Pick(g, subsOf(a.Root), "link-sub")
			if g.Bool(50, "link-first") {
				cmd.Roots = append([]lsArg{a}, cmd.Roots...)
			} else {
				cmd.Roots = append(cmd.Roots, a)
			}
		}
	}
	return cmd
}

func lsGenRoots(g kit.G, label string) []lsArg {
	n := kit.Pick(g, []int{1, 2, 2, 2, 3}, label+"-n")
	left := []int{0, 1, 2, 3}
	var out []lsArg
	for i := 0; i < n; i++ {
		j := g.Int(0, len(left)-1, label+"-root")
		out = append(out, lsArg{Root: left[j]})
		left = append(left[:j:j], left[j+1:]...)
	}
	return out
}

func lsGen(rt *rapid.T) lsCase {
	g := kit.G{T: rt}
	c := lsCase{IndexExists: g.Bool(60, "indexexists"), Form: kit.Pick(g, []string{"", "sync"}, "form")}
	def := lsGenRoots(g, "def")
	var defIdx []int
	for _, a := range def {
		defIdx = append(defIdx, a.Root)
	}
	bigPct := 0
	if g.Bool(35, "smallshards") {
		// repositories with big contents span 2-4 shards
		c.ShardLimit = kit.Pick(g, []int{1500, 2200, 3000}, "shardlimit")
		bigPct = 65
	}
	strays := g.Bool(40, "strays")
	m := &lsGenModel{}
	nsteps := g.Int(2, 6, "nsteps")
	for s := 0; s < nsteps; s++ {
		var st lsStep
		nm := g.Int(0, 3, "nmuts")
		if g.Bool(20, "nomuts") {
			nm = 0 // a command on an unchanged layout (everything up to date)
		}
		if s == 0 {
			nm = 2 + kit.Pick(g, []int{1, 2, 3, 4, 5}, "nmuts0")
		}
		for j := 0; j < nm; j++ {
			st.Muts = append(st.Muts, lsGenMut(g, m, defIdx, s > 0, bigPct))
		}
		if strays && g.Bool(55, "stray-step") {
			// leftovers in the index directory: temporary files of a killed or
			// concurrently running indexer, unrelated files, sub-directories
			for j, n := 0, kit.Pick(g, []int{1, 1, 2, 3}, "nstray"); j < n; j++ {
				st.Muts = append(st.Muts, lsMut{
					Op: "stray", Path: ".",
					Kind:    kit.Pick(g, []string{"tmp", "tmp", "tmp", "metatmp", "metatmp", "file", "file", "dir"}, "stray-kind"),
					Content: g.Int(0, 11, "stray-which"),
				})
			}
		}
		st.Cmd = lsGenCmd(g, m, def, s, nsteps)
		st.Apply = g.Bool(72, "apply")
		c.Steps = append(c.Steps, st)
	}
	return c
}

// ---------------------------------------------------------------------------
// Deterministic repository templates (built once per process with the git
// binary, fixed identities and dates; repositories in a case are copies).

type lsTemplates struct {
	mu    sync.Mutex
	dir   string
	heads map[string]string
}

var lsTpl = &lsTemplates{heads: map[string]string{}}

func (t *lsTemplates) cleanup() {
	t.mu.Lock()
	defer t.mu.Unlock()
	if t.dir != "" {
		os.RemoveAll(t.dir)
		t.dir = ""
		t.heads = map[string]string{}
	}
}

func (t *lsTemplates) git(dir string, rev int, args ...string) (string, error) {
	cmd := exec.Command("git", args...)
	cmd.Dir = dir
	date := fmt.Sprintf("2021-03-%02dT12:00:00+00:00", rev+1)
	cmd.Env = []string{
		"PATH=" + os.Getenv("PATH"),
		"HOME=" + t.dir,
		"LC_ALL=C",
		"GIT_CONFIG_GLOBAL=/dev/null",
		"GIT_CONFIG_SYSTEM=/dev/null",
		"GIT_CONFIG_NOSYSTEM=1",
		"GIT_TERMINAL_PROMPT=0",
		"GIT_AUTHOR_NAME=Verif",
		"GIT_AUTHOR_EMAIL=verif@example.com",
		"GIT_COMMITTER_NAME=Verif",
		"GIT_COMMITTER_EMAIL=verif@example.com",
		"GIT_AUTHOR_DATE=" + date,
		"GIT_COMMITTER_DATE=" + date,
	}
	out, err := cmd.CombinedOutput()
	if err != nil {
		return "", fmt.Errorf("git %s (in %s): %v\n%s", strings.Join(args, " "), dir, err, out)
	}
	return strings.TrimSpace(string(out)), nil
}

// get returns the worktree template (<dir>/wt with .git inside), the bare
// template (<dir>/bare.git) and the HEAD commit of (content, rev).
func (t *lsTemplates) get(content, rev int) (wt, bare, head string, err error) {
	t.mu.Lock()
	defer t.mu.Unlock()
	return t.getLocked(content, rev)
}

func (t *lsTemplates) getLocked(content, rev int) (wt, bare, head string, err error) {
	if t.dir == "" {
		d, err := os.MkdirTemp("", "lstpl")
		if err != nil {
			return "", "", "", err
		}
		t.dir = d
	}
	key := fmt.Sprintf("c%dr%d", content, rev)
	dir := filepath.Join(t.dir, key)
	wt, bare = filepath.Join(dir, "wt"), filepath.Join(dir, "bare.git")
	if h, ok := t.heads[key]; ok {
		return wt, bare, h, nil
	}
	fail := func(err error) (string, string, string, error) {
		os.RemoveAll(dir)
		return "", "", "", err
	}
	if err := os.MkdirAll(dir, 0o755); err != nil {
		return fail(err)
	}
	file := fmt.Sprintf("f%d.txt", content)
	if rev == 0 {
		if _, err := t.git(dir, rev, "init", "-q", "--template=", "-b", "main", wt); err != nil {
			return fail(err)
		}
		if err := os.WriteFile(filepath.Join(wt, file), []byte(fmt.Sprintf("content %d needle\nrev 0\n", content)), 0o644); err != nil {
			return fail(err)
		}
		if lsBig(content) {
			if err := os.MkdirAll(filepath.Join(wt, "src"), 0o755); err != nil {
				return fail(err)
			}
			for i := 0; i < lsBigFiles; i++ {
				if err := os.WriteFile(filepath.Join(wt, "src", fmt.Sprintf("big%d.txt", i)), []byte(lsBigText(content, i)), 0o644); err != nil {
					return fail(err)
				}
			}
		}
		if err := os.WriteFile(filepath.Join(wt, "README.md"), []byte("local repository\n"), 0o644); err != nil {
			return fail(err)
		}
	} else {
		pwt, _, _, err := t.getLocked(content, rev-1)
		if err != nil {
			return fail(err)
		}
		if err := lsCopyTree(pwt, wt); err != nil {
			return fail(err)
		}
		f, err := os.OpenFile(filepath.Join(wt, file), os.O_APPEND|os.O_WRONLY, 0o644)
		if err != nil {
			return fail(err)
		}
		fmt.Fprintf(f, "rev %d\n", rev)
		f.Close()
	}
	if _, err := t.git(wt, rev, "add", "."); err != nil {
		return fail(err)
	}
	if _, err := t.git(wt, rev, "commit", "-q", "-m", fmt.Sprintf("content %d rev %d", content, rev)); err != nil {
		return fail(err)
	}
	head, err = t.git(wt, rev, "rev-parse", "HEAD")
	if err != nil {
		return fail(err)
	}
	if _, err := t.git(dir, rev, "clone", "-q", "--bare", "--template=", wt, bare); err != nil {
		return fail(err)
	}
	if _, err := t.git(bare, rev, "remote", "remove", "origin"); err != nil {
		return fail(err)
	}
	if len(head) != 40 {
		return fail(fmt.Errorf("unexpected HEAD %q", head))
	}
	t.heads[key] = head
	return wt, bare, head, nil
}

func lsCopyFile(src, dst string, info fs.FileInfo) error {
	in, err := os.Open(src)
	if err != nil {
		return err
	}
	defer in.Close()
	out, err := os.OpenFile(dst, os.O_CREATE|os.O_WRONLY|os.O_TRUNC, info.Mode().Perm()|0o200)
	if err != nil {
		return err
	}
	if _, err := io.Copy(out, in); err != nil {
		out.Close()
		return err
	}
	if err := out.Close(); err != nil {
		return err
	}
	return os.Chtimes(dst, info.ModTime(), info.ModTime())
}

// lsCopyTree copies src into dst (merging into an existing directory),
// preserving modification times.
func lsCopyTree(src, dst string) error {
	type dirTime struct {
		p    string
		info fs.FileInfo
	}
	var dirs []dirTime
	err := filepath.Walk(src, func(p string, info fs.FileInfo, err error) error {
		if err != nil {
			return err
		}
		rel, _ := filepath.Rel(src, p)
		target := filepath.Join(dst, rel)
		switch {
		case info.IsDir():
			if err := os.MkdirAll(target, 0o755); err != nil {
				return err
			}
			dirs = append(dirs, dirTime{target, info})
		case info.Mode().IsRegular():
			return lsCopyFile(p, target, info)
		}
		return nil
	})
	if err != nil {
		return err
	}
	for i := len(dirs) - 1; i >= 0; i-- {
		os.Chtimes(dirs[i].p, dirs[i].info.ModTime(), dirs[i].info.ModTime())
	}
	return nil
}

// ---------------------------------------------------------------------------
// The world: file system + independent model.

type lsRepo struct {
	Kind    string // nonbare | bare | gitfile | fake
	Content int
	Rev     int
	Cfg     int
	Store   string // gitfile: absolute path of the git directory
}

func (r *lsRepo) isRepo() bool { return r.Kind != "fake" }

type lsWorld struct {
	base   string
	index  string
	roots  []string // absolute
	repos  []map[string]*lsRepo
	nstore int
	nbak   int
	// bookkeeping for evidence
	movesApplied   int
	mutsApplied    int
	mutsSkipped    int
	movedPending   bool // a move was applied since the last sync command
	nestedSeen     bool
	bareSeen       bool
	rootLevelSeen  bool
	gitfileSeen    bool
	foreignShards  int
	renamedPending bool
	strayTmp       bool // a *.tmp leftover was put into the index directory
	strayOther     bool // an unrelated file / sub-directory was put into the index directory
}

func lsNewWorld(c *lsCase) (*lsWorld, error) {
	base, err := os.MkdirTemp("", "ls")
	if err != nil {
		return nil, err
	}
	if b, err := filepath.EvalSymlinks(base); err == nil {
		base = b
	}
	w := &lsWorld{base: base, index: filepath.Join(base, "index")}
	for _, r := range lsRootPool {
		p := filepath.Join(base, "roots", filepath.FromSlash(r))
		if err := os.MkdirAll(p, 0o755); err != nil {
			os.RemoveAll(base)
			return nil, err
		}
		w.roots = append(w.roots, p)
		w.repos = append(w.repos, map[string]*lsRepo{})
	}
	if c.IndexExists {
		if err := os.MkdirAll(w.index, 0o755); err != nil {
			os.RemoveAll(base)
			return nil, err
		}
	}
	return w, nil
}

func (w *lsWorld) close() { os.RemoveAll(w.base) }

func (w *lsWorld) norm(s string) string { return strings.ReplaceAll(s, w.base, "$B") }

func lsValidRel(p string) bool {
	if p == "" || path.Clean(p) != p || strings.HasPrefix(p, "/") || p == ".." || strings.HasPrefix(p, "../") {
		return false
	}
	return true
}

func (w *lsWorld) abs(root int, rel string) string {
	return filepath.Join(w.roots[root], filepath.FromSlash(rel))
}

// ancestors returns the proper ancestors of rel inside one root, nearest
// first, ending with ".".
func lsAncestors(rel string) []string {
	if rel == "." {
		return nil
	}
	var out []string
	for p := path.Dir(rel); ; p = path.Dir(p) {
		out = append(out, p)
		if p == "." {
			return out
		}
	}
}

func (w *lsWorld) hasUnder(root int, rel string, includeSelf bool) bool {
	for p := range w.repos[root] {
		if p == rel {
			if includeSelf {
				return true
			}
			continue
		}
		if lsUnder(p, rel) {
			return true
		}
	}
	return false
}

func (w *lsWorld) head(r *lsRepo) (string, error) {
	_, _, h, err := lsTpl.get(r.Content, r.Rev)
	return h, err
}

func (w *lsWorld) gitDir(root int, rel string, r *lsRepo) string {
	switch r.Kind {
	case "nonbare":
		return filepath.Join(w.abs(root, rel), ".git")
	case "gitfile":
		return r.Store
	}
	return w.abs(root, rel)
}

// writeGit (re)creates the git directory (and worktree files) of r.
func (w *lsWorld) writeGit(root int, rel string, r *lsRepo) error {
	wt, bare, _, err := lsTpl.get(r.Content, r.Rev)
	if err != nil {
		return err
	}
	dir := w.abs(root, rel)
	switch r.Kind {
	case "nonbare":
		if err := os.RemoveAll(filepath.Join(dir, ".git")); err != nil {
			return err
		}
		if err := lsCopyTree(wt, dir); err != nil {
			return err
		}
	case "gitfile":
		if err := os.RemoveAll(r.Store); err != nil {
			return err
		}
		if err := lsCopyTree(filepath.Join(wt, ".git"), r.Store); err != nil {
			return err
		}
		if err := os.MkdirAll(dir, 0o755); err != nil {
			return err
		}
		entries, _ := os.ReadDir(wt)
		for _, e := range entries {
			if e.Name() == ".git" || e.IsDir() {
				continue
			}
			info, err := e.Info()
			if err != nil {
				return err
			}
			if err := lsCopyFile(filepath.Join(wt, e.Name()), filepath.Join(dir, e.Name()), info); err != nil {
				return err
			}
		}
		if err := os.WriteFile(filepath.Join(dir, ".git"), []byte("gitdir: "+r.Store+"\n"), 0o644); err != nil {
			return err
		}
	case "bare":
		// remove the previous contents but keep the directory itself (it may be a root)
		entries, _ := os.ReadDir(dir)
		for _, e := range entries {
			if err := os.RemoveAll(filepath.Join(dir, e.Name())); err != nil {
				return err
			}
		}
		if err := lsCopyTree(bare, dir); err != nil {
			return err
		}
	}
	return w.writeCfg(root, rel, r)
}

// writeCfg appends a remote (which changes URL templates of the indexed
// repository, i.e. a metadata-only change) to the repository's config.
func (w *lsWorld) writeCfg(root int, rel string, r *lsRepo) error {
	if r.Cfg == 0 {
		return nil
	}
	wt, bare, _, err := lsTpl.get(r.Content, r.Rev)
	if err != nil {
		return err
	}
	tplCfg := filepath.Join(wt, ".git", "config")
	if r.Kind == "bare" {
		tplCfg = filepath.Join(bare, "config")
	}
	b, err := os.ReadFile(tplCfg)
	if err != nil {
		return err
	}
	b = append(b, []byte(fmt.Sprintf("[remote \"origin\"]\n\turl = https://github.com/verif/r%d\n\tfetch = +refs/heads/*:refs/remotes/origin/*\n", r.Cfg))...)
	return os.WriteFile(filepath.Join(w.gitDir(root, rel, r), "config"), b, 0o644)
}

// apply interprets one mutation. Mutations that do not make sense in the
// current state are skipped (ok=false) so that every JSON case is runnable.
func (w *lsWorld) apply(m lsMut) (ok bool, err error) {
	if m.Root < 0 || m.Root >= len(w.roots) || !lsValidRel(m.Path) {
		return false, nil
	}
	repos := w.repos[m.Root]
	switch m.Op {
	case "add":
		if _, exists := repos[m.Path]; exists || m.Content < 0 || m.Content >= lsContents {
			return false, nil
		}
		switch m.Kind {
		case "nonbare", "gitfile":
		case "bare", "fake":
			if !lsGitSuffixed(m.Root, m.Path) || w.hasUnder(m.Root, m.Path, false) {
				return false, nil
			}
		default:
			return false, nil
		}
		nested := false
		for _, a := range lsAncestors(m.Path) {
			if q, ok := repos[a]; ok {
				if q.Kind == "bare" || q.Kind == "fake" {
					return false, nil
				}
				nested = true
			}
		}
		dir := w.abs(m.Root, m.Path)
		if m.Kind == "bare" || m.Kind == "fake" {
			// the directory must be absent or empty
			if entries, err := os.ReadDir(dir); err == nil && len(entries) > 0 {
				return false, nil
			}
		} else if _, err := os.Lstat(filepath.Join(dir, ".git")); err == nil {
			return false, nil
		}
		if err := os.MkdirAll(dir, 0o755); err != nil {
			return false, err
		}
		r := &lsRepo{Kind: m.Kind, Content: m.Content}
		switch m.Kind {
		case "fake":
			// "*.git" directory that is not a repository: no objects directory
			if err := os.WriteFile(filepath.Join(dir, "HEAD"), []byte("ref: refs/heads/main\n"), 0o644); err != nil {
				return false, err
			}
		case "gitfile":
			w.nstore++
			r.Store = filepath.Join(w.base, "store", fmt.Sprintf("s%d.git", w.nstore))
			if err := os.MkdirAll(filepath.Dir(r.Store), 0o755); err != nil {
				return false, err
			}
			w.gitfileSeen = true
			fallthrough
		default:
			if err := w.writeGit(m.Root, m.Path, r); err != nil {
				return false, err
			}
		}
		repos[m.Path] = r
		if nested || (r.isRepo() && w.hasUnder(m.Root, m.Path, false)) {
			w.nestedSeen = true
		}
		if m.Kind == "bare" {
			w.bareSeen = true
		}
		if m.Path == "." && r.isRepo() {
			w.rootLevelSeen = true
		}
		return true, nil
	case "update":
		r, exists := repos[m.Path]
		if !exists || !r.isRepo() || r.Rev >= lsMaxRev {
			return false, nil
		}
		r.Rev++
		return true, w.writeGit(m.Root, m.Path, r)
	case "cfg":
		r, exists := repos[m.Path]
		if !exists || !r.isRepo() {
			return false, nil
		}
		r.Cfg++
		return true, w.writeCfg(m.Root, m.Path, r)
	case "del":
		if !w.hasUnder(m.Root, m.Path, true) {
			return false, nil
		}
		dir := w.abs(m.Root, m.Path)
		if m.Path == "." {
			entries, _ := os.ReadDir(dir)
			for _, e := range entries {
				if err := os.RemoveAll(filepath.Join(dir, e.Name())); err != nil {
					return false, err
				}
			}
		} else if err := os.RemoveAll(dir); err != nil {
			return false, err
		}
		for p := range repos {
			if lsUnder(p, m.Path) {
				delete(repos, p)
			}
		}
		return true, nil
	case "move":
		r, exists := repos[m.Path]
		if !exists || m.Path == "." || m.ToPath == "." || !lsValidRel(m.ToPath) || m.ToRoot < 0 || m.ToRoot >= len(w.roots) {
			return false, nil
		}
		if (r.Kind == "bare" || r.Kind == "fake") && !strings.HasSuffix(m.ToPath, ".git") {
			return false, nil
		}
		if m.ToRoot == m.Root && lsUnder(m.ToPath, m.Path) {
			return false, nil
		}
		if w.hasUnder(m.ToRoot, m.ToPath, true) {
			return false, nil
		}
		for _, a := range lsAncestors(m.ToPath) {
			if q, ok := w.repos[m.ToRoot][a]; ok && (q.Kind == "bare" || q.Kind == "fake") {
				return false, nil
			}
		}
		src, dst := w.abs(m.Root, m.Path), w.abs(m.ToRoot, m.ToPath)
		if _, err := os.Lstat(dst); err == nil {
			return false, nil
		}
		if err := os.MkdirAll(filepath.Dir(dst), 0o755); err != nil {
			return false, err
		}
		if err := os.Rename(src, dst); err != nil {
			return false, err
		}
		moved := map[string]*lsRepo{}
		for p, q := range repos {
			if lsUnder(p, m.Path) {
				moved[m.ToPath+strings.TrimPrefix(p, m.Path)] = q
				delete(repos, p)
			}
		}
		for p, q := range moved {
			w.repos[m.ToRoot][p] = q
		}
		for _, a := range lsAncestors(m.ToPath) {
			if _, ok := w.repos[m.ToRoot][a]; ok {
				w.nestedSeen = true
			}
		}
		if r.isRepo() {
			w.movesApplied++
			w.movedPending = true
		}
		return true, nil
	case "shard":
		if m.Name == "" || m.Path == "." {
			return false, nil
		}
		source := w.abs(m.Root, m.Path)
		if m.Outside {
			source = filepath.Join(w.base, "elsewhere", filepath.FromSlash(m.Path))
		}
		version := "00000000000000000000000000000000000000a1"
		if r, ok := repos[m.Path]; ok && r.isRepo() && m.RealHead && !m.Outside {
			h, err := w.head(r)
			if err != nil {
				return false, err
			}
			version = h
		}
		if err := os.MkdirAll(w.index, 0o755); err != nil {
			return false, err
		}
		opts := index.Options{
			IndexDir: w.index,
			RepositoryDescription: zoekt.Repository{
				Name:     m.Name,
				Source:   source,
				Branches: []zoekt.RepositoryBranch{{Name: "HEAD", Version: version}},
			},
			DisableCTags: true,
		}
		opts.SetDefaults()
		if len(opts.FindAllShards()) > 0 {
			return false, nil // do not overwrite an existing repository of that name
		}
		b, err := index.NewBuilder(opts)
		if err != nil {
			return false, err
		}
		if err := b.AddFile("README.md", []byte("stale repository\n")); err != nil {
			return false, err
		}
		if err := b.Finish(); err != nil {
			return false, err
		}
		shards := opts.FindAllShards()
		if len(shards) != 1 {
			return false, fmt.Errorf("foreign shard: got %d shards", len(shards))
		}
		if m.Meta {
			repos, _, err := index.ReadMetadataPathAlive(shards[0])
			if err != nil || len(repos) != 1 {
				return false, fmt.Errorf("foreign shard metadata: %v", err)
			}
			tmp, final, err := index.JsonMarshalRepoMetaTemp(shards[0], repos[0])
			if err != nil {
				return false, err
			}
			if err := os.Rename(tmp, final); err != nil {
				return false, err
			}
		}
		w.foreignShards++
		return true, nil
	case "stray":
		if m.Content < 0 {
			return false, nil
		}
		if err := os.MkdirAll(w.index, 0o755); err != nil {
			return false, err
		}
		entries, err := os.ReadDir(w.index)
		if err != nil {
			return false, err
		}
		var shards []string
		for _, e := range entries {
			if !e.IsDir() && strings.HasSuffix(e.Name(), ".zoekt") {
				shards = append(shards, e.Name())
			}
		}
		sort.Strings(shards)
		// the shard the temporary file belongs to: one that is there, else the
		// first shard of a repository that is not indexed yet
		shard, partial := "alpha_v16.00000.zoekt", []byte("partly written shard\n")
		if len(shards) > 0 {
			shard = shards[m.Content%len(shards)]
			if b, err := os.ReadFile(filepath.Join(w.index, shard)); err == nil {
				partial = b[:len(b)/2]
			}
		}
		// os.CreateTemp puts a decimal number in place of the "*"
		digits := fmt.Sprint(1000003*(m.Content+1) + 97*len(entries))
		write := func(rel string, data []byte) (bool, error) {
			p := filepath.Join(w.index, filepath.FromSlash(rel))
			if _, err := os.Lstat(p); err == nil {
				return false, nil
			}
			if err := os.MkdirAll(filepath.Dir(p), 0o755); err != nil {
				return false, err
			}
			return true, os.WriteFile(p, data, 0o600)
		}
		var ok bool
		switch m.Kind {
		case "tmp":
			ok, err = write(shard+"."+digits+".tmp", partial)
			w.strayTmp = w.strayTmp || ok
		case "metatmp":
			ok, err = write(shard+".meta."+digits+".tmp", []byte(`{"Name":"half written`))
			w.strayTmp = w.strayTmp || ok
		case "file":
			ok, err = write(lsStrayFiles[m.Content%len(lsStrayFiles)], []byte("not a shard\n"))
			w.strayOther = w.strayOther || ok
		case "dir":
			d := lsStrayDirs[m.Content%len(lsStrayDirs)]
			if ok, err = write(d+"/inner_v16.00000.zoekt", []byte("not a shard either\n")); ok && err == nil {
				_, err = write(d+"/inner_v16.00000.zoekt."+digits+".tmp", partial)
			}
			w.strayOther = w.strayOther || ok
		}
		return ok, err
	}
	return false, nil
}

func (w *lsWorld) applyAll(muts []lsMut) error {
	for _, m := range muts {
		ok, err := w.apply(m)
		if err != nil {
			return fmt.Errorf("harness: mutation %+v: %w", m, err)
		}
		if ok {
			w.mutsApplied++
		} else {
			w.mutsSkipped++
		}
	}
	return nil
}

// ---------------------------------------------------------------------------
// Independent discovery model. It walks the *layout description* (w.repos),
// never the file system.

type lsExpect struct {
	Name   string
	Source string
	Head   string
	Big    bool // content of several KB (spans several shards under a small -shard_limit)
}

type lsResolvedArg struct {
	Root   int
	Sub    string // "" = the root itself
	Abs    string // the directory (a path without symbolic links)
	Arg    string // the command-line word: Abs, or a path through a symbolic link
	Linked bool
}

var lsLinkNameRe = regexp.MustCompile(`^[A-Za-z0-9_][A-Za-z0-9_.-]*$`)

// resolveArgs turns the case's root arguments into paths. A Sub is only used
// when the layout has something at or under it (so that the directory
// exists); otherwise the argument falls back to the root itself. For an
// argument with a Link the symbolic link <base>/links/<position>/<Link> is
// (re)created and the command-line word goes through it; Abs stays the
// directory's real path, which is what the discovery model works on.
func (w *lsWorld) resolveArgs(args []lsArg) []lsResolvedArg {
	var out []lsResolvedArg
	seen := map[string]bool{}
	for i, a := range args {
		if a.Root < 0 || a.Root >= len(w.roots) {
			continue
		}
		ra := lsResolvedArg{Root: a.Root, Abs: w.roots[a.Root]}
		if a.Sub != "" && a.Sub != "." && lsValidRel(a.Sub) && w.hasUnder(a.Root, a.Sub, true) {
			ra.Sub = a.Sub
			ra.Abs = w.abs(a.Root, a.Sub)
		}
		ra.Arg = ra.Abs
		if a.Link != "" && lsLinkNameRe.MatchString(a.Link) {
			dir := filepath.Join(w.base, "links", fmt.Sprint(i))
			link := filepath.Join(dir, a.Link)
			target := ra.Abs
			ra.Arg = link
			if a.Via == "parent" {
				target = filepath.Dir(ra.Abs)
				ra.Arg = filepath.Join(link, filepath.Base(ra.Abs))
			}
			err := os.RemoveAll(dir)
			if err == nil {
				err = os.MkdirAll(dir, 0o755)
			}
			if err == nil {
				err = os.Symlink(target, link)
			}
			if err != nil {
				panic(fmt.Sprintf("harness: cannot create symbolic link %s: %v", link, err))
			}
			ra.Linked = true
		}
		if seen[ra.Arg] {
			continue // the same command-line word twice is not an interesting root set
		}
		seen[ra.Arg] = true
		out = append(out, ra)
	}
	return out
}

// discover returns the repositories a sync over args must index, or the
// reason why the sync has to be rejected.
func (w *lsWorld) discover(args []lsResolvedArg) (exp []lsExpect, reject string, err error) {
	byName := map[string]string{}
	nameArg := map[string]string{}
	bySource := map[string]string{}
	seenArg := map[string]bool{}
	for _, a := range args {
		if seenArg[a.Abs] {
			return nil, "duplicate-root", nil
		}
		seenArg[a.Abs] = true
	}
	for _, a := range args {
		// view of the layout relative to the argument
		view := map[string]*lsRepo{}
		for p, r := range w.repos[a.Root] {
			switch {
			case a.Sub == "":
				view[p] = r
			case p == a.Sub:
				view["."] = r
			case strings.HasPrefix(p, a.Sub+"/"):
				view[strings.TrimPrefix(p, a.Sub+"/")] = r
			}
		}
		rels := make([]string, 0, len(view))
		for p := range view {
			rels = append(rels, p)
		}
		sort.Strings(rels)
		for _, rel := range rels {
			r := view[rel]
			if !r.isRepo() {
				continue
			}
			shadowed := false
			for _, anc := range lsAncestors(rel) {
				if q, ok := view[anc]; ok && q.isRepo() {
					shadowed = true // inside another repository's directory
					break
				}
			}
			if shadowed {
				continue
			}
			name := rel
			if rel == "." {
				name = filepath.Base(a.Abs)
			}
			if r.Kind == "bare" {
				name = strings.TrimSuffix(name, ".git")
			}
			source := a.Abs
			if rel != "." {
				source = filepath.Join(a.Abs, filepath.FromSlash(rel))
			}
			head, err := w.head(r)
			if err != nil {
				return nil, "", err
			}
			if reject == "" {
				if _, dup := byName[name]; dup {
					reject = "duplicate-name"
					if nameArg[name] == a.Abs {
						reject = "duplicate-name-same-root" // worktree X next to bare X.git
					}
				} else if _, dup := bySource[source]; dup {
					reject = "duplicate-source"
				}
			}
			byName[name] = source
			nameArg[name] = a.Abs
			bySource[source] = name
			exp = append(exp, lsExpect{Name: name, Source: source, Head: head, Big: lsBig(r.Content)})
		}
	}
	sort.Slice(exp, func(i, j int) bool {
		if exp[i].Name != exp[j].Name {
			return exp[i].Name < exp[j].Name
		}
		return exp[i].Source < exp[j].Source
	})
	return exp, reject, nil
}

// ---------------------------------------------------------------------------
// Command lines.

// cmdArgs builds the preview and the -f command line of a step's command; ok
// is false when the command cannot be formed (no roots / no selectors).
func (w *lsWorld) cmdArgs(c *lsCase, cmd lsCmd) (preview, force []string, ok bool) {
	switch cmd.Op {
	case "sync":
		ras := w.resolveArgs(cmd.Roots)
		if len(ras) == 0 {
			return nil, nil, false
		}
		var head []string
		if c.Form == "sync" {
			head = []string{"sync"}
		}
		// build options are constant across the history
		limit := 1 << 20
		if c.ShardLimit >= 500 && c.ShardLimit <= 1<<20 {
			limit = c.ShardLimit
		}
		head = append(head, "-index", w.index, "-disable_ctags", "-submodules=false", "-shard_limit", fmt.Sprint(limit))
		var tail []string
		for _, a := range ras {
			tail = append(tail, a.Arg)
		}
		preview = append(append([]string{}, head...), tail...)
		force = append(append(append([]string{}, head...), "-f"), tail...)
		return preview, force, true
	case "remove":
		inv, err := w.inventory()
		if err != nil {
			return nil, nil, false
		}
		sels := w.selectors(cmd, inv)
		if len(sels) == 0 {
			return nil, nil, false
		}
		preview = append([]string{"remove", "-index", w.index}, sels...)
		force = append([]string{"remove", "-index", w.index, "-f"}, sels...)
		return preview, force, true
	}
	return nil, nil, false
}

// selectors resolves the step's selectors to command-line words; inv is the
// inventory of the index at that moment (for the nth-* kinds).
func (w *lsWorld) selectors(cmd lsCmd, inv []lsShard) []string {
	type rec struct{ name, source string }
	var recs []rec
	seen := map[rec]bool{}
	for _, s := range inv {
		r := rec{s.Name, s.Source}
		if !seen[r] {
			seen[r] = true
			recs = append(recs, r)
		}
	}
	sort.Slice(recs, func(i, j int) bool {
		if recs[i].name != recs[j].name {
			return recs[i].name < recs[j].name
		}
		return recs[i].source < recs[j].source
	})
	var out []string
	add := func(s string) {
		if s != "" && !strings.HasPrefix(s, "-") {
			out = append(out, s)
		}
	}
	for _, s := range cmd.Sels {
		switch s.Kind {
		case "name":
			add(s.Text)
		case "source":
			if s.Root >= 0 && s.Root < len(w.roots) && lsValidRel(s.Path) {
				add(w.abs(s.Root, s.Path))
			}
		case "nth-name", "nth-source", "nth-junk":
			if len(recs) == 0 || s.N < 0 {
				add("no/such")
				continue
			}
			r := recs[s.N%len(recs)]
			switch {
			case s.Kind == "nth-name":
				add(r.name)
			case s.Kind == "nth-source":
				add(r.source)
			case s.Junk == "prefix":
				if i := strings.Index(r.name, "/"); i > 0 {
					add(r.name[:i])
				} else if len(r.name) > 1 {
					add(r.name[:len(r.name)-1])
				} else {
					add("no/such")
				}
			case s.Junk == "dotgit":
				add(r.name + ".git")
			case s.Junk == "longer":
				add(r.name + "x")
			default:
				add(path.Base(r.name) + "/" + path.Base(r.name))
			}
		}
	}
	return out
}

// lsExec runs the command in-process. A panic is returned as pan.
func lsExec(args []string) (stdout string, cmdErr error, pan *kit.Discrepancy) {
	var out, errOut bytes.Buffer
	err := kit.Guard(func() error { return execute(args, &out, &errOut) })
	var d *kit.Discrepancy
	if errors.As(err, &d) && d.Kind == "panic" {
		return out.String(), nil, d
	}
	return out.String(), err, nil
}

// ---------------------------------------------------------------------------
// Output parsing.

type lsRemoval struct{ Shard, Name, Source string }

type lsOutput struct {
	Removals []lsRemoval // "Would remove" (preview) / "Removing" (-f)
	Index    []string    // name\x00source of "Would index" / "Indexed"
	UpToDate []string    // name\x00source of "Up to date"
	Other    []string
}

var (
	lsRemovalRe = regexp.MustCompile(`^(Would remove|Removing) (.+) \(repository "(.*)", source (.*?): .*\)$`)
	lsRepoRe    = regexp.MustCompile(`^(Would index|Indexed|Up to date|Indexing) "(.*)" from (.*)$`)
)

func lsParse(out string, preview bool) lsOutput {
	var o lsOutput
	for _, line := range strings.Split(out, "\n") {
		if line == "" || line == "Pass -f to apply these changes." {
			continue
		}
		if m := lsRemovalRe.FindStringSubmatch(line); m != nil && (m[1] == "Would remove") == preview {
			o.Removals = append(o.Removals, lsRemoval{Shard: m[2], Name: m[3], Source: m[4]})
			continue
		}
		if m := lsRepoRe.FindStringSubmatch(line); m != nil {
			key := m[2] + "\x00" + m[3]
			switch {
			case m[1] == "Would index" && preview, m[1] == "Indexed" && !preview:
				o.Index = append(o.Index, key)
				continue
			case m[1] == "Up to date":
				o.UpToDate = append(o.UpToDate, key)
				continue
			case m[1] == "Indexing" && !preview:
				continue
			}
		}
		o.Other = append(o.Other, line)
	}
	sort.Slice(o.Removals, func(i, j int) bool { return o.Removals[i].Shard < o.Removals[j].Shard })
	sort.Strings(o.Index)
	sort.Strings(o.UpToDate)
	return o
}

func lsShowKeys(keys []string) string {
	var parts []string
	for _, k := range keys {
		parts = append(parts, strings.ReplaceAll(k, "\x00", " from "))
	}
	return "[" + strings.Join(parts, "; ") + "]"
}

func lsNameOf(key string) string {
	if i := strings.IndexByte(key, 0); i >= 0 {
		return key[:i]
	}
	return key
}

// ---------------------------------------------------------------------------
// Index directory snapshots and inventory.

type lsFile struct {
	Dir   bool
	Mode  uint32
	Size  int64
	MTime int64
	Hash  string
}

// lsSnap maps paths relative to the index directory ("." = the directory
// itself) to their state. An empty snapshot = the directory does not exist.
type lsSnap map[string]lsFile

func (w *lsWorld) snap() (lsSnap, error) {
	s := lsSnap{}
	err := filepath.Walk(w.index, func(p string, info fs.FileInfo, err error) error {
		if err != nil {
			if p == w.index && errors.Is(err, fs.ErrNotExist) {
				return filepath.SkipDir
			}
			return err
		}
		rel, _ := filepath.Rel(w.index, p)
		f := lsFile{Dir: info.IsDir(), Mode: uint32(info.Mode()), MTime: info.ModTime().UnixNano()}
		if info.Mode().IsRegular() {
			f.Size = info.Size()
			b, err := os.ReadFile(p)
			if err != nil {
				return err
			}
			f.Hash = fmt.Sprintf("%x", sha256.Sum256(b))
		}
		s[filepath.ToSlash(rel)] = f
		return nil
	})
	if err != nil && !errors.Is(err, fs.ErrNotExist) {
		return nil, err
	}
	return s, nil
}

// lsDiff lists the differences between two snapshots, skipping paths for
// which ignore returns true.
func lsDiff(a, b lsSnap, ignore func(rel string) bool) []string {
	var out []string
	for p, fa := range a {
		if ignore != nil && ignore(p) {
			continue
		}
		fb, ok := b[p]
		switch {
		case !ok:
			out = append(out, "deleted "+p)
		case fa != fb:
			what := "changed"
			if fa.Hash == fb.Hash && fa.Size == fb.Size && fa.Mode == fb.Mode {
				what = "touched (mtime)"
			}
			out = append(out, what+" "+p)
		}
	}
	for p := range b {
		if ignore != nil && ignore(p) {
			continue
		}
		if _, ok := a[p]; !ok {
			out = append(out, "created "+p)
		}
	}
	sort.Strings(out)
	return out
}

func lsIsShard(rel string) bool {
	return !strings.Contains(rel, "/") && strings.HasSuffix(rel, ".zoekt")
}

type lsShard struct {
	Rel      string
	Name     string
	Source   string
	Branches []zoekt.RepositoryBranch
}

// inventory reads every shard of the index directory.
func (w *lsWorld) inventory() ([]lsShard, error) {
	entries, err := os.ReadDir(w.index)
	if errors.Is(err, fs.ErrNotExist) {
		return nil, nil
	}
	if err != nil {
		return nil, err
	}
	var out []lsShard
	for _, e := range entries {
		if e.IsDir() || !strings.HasSuffix(e.Name(), ".zoekt") {
			continue
		}
		repos, _, err := index.ReadMetadataPathAlive(filepath.Join(w.index, e.Name()))
		if err != nil {
			return nil, kit.Fail("unreadable-shard", "%s: %v", e.Name(), err)
		}
		if len(repos) != 1 {
			return nil, kit.Fail("shard-repository-count", "%s holds %d live repositories, want 1", e.Name(), len(repos))
		}
		out = append(out, lsShard{Rel: e.Name(), Name: repos[0].Name, Source: repos[0].Source, Branches: repos[0].Branches})
	}
	sort.Slice(out, func(i, j int) bool { return out[i].Rel < out[j].Rel })
	return out, nil
}

// backup copies the index directory aside; restore puts it back.
func (w *lsWorld) backup() (string, error) {
	if _, err := os.Lstat(w.index); err != nil {
		return "", nil
	}
	w.nbak++
	bak := filepath.Join(w.base, fmt.Sprintf("bak%d", w.nbak))
	return bak, lsCopyTree(w.index, bak)
}

func (w *lsWorld) restore(bak string) error {
	if err := os.RemoveAll(w.index); err != nil {
		return err
	}
	if bak == "" {
		return nil
	}
	return os.Rename(bak, w.index)
}

func (w *lsWorld) discard(bak string) {
	if bak != "" {
		os.RemoveAll(bak)
	}
}

// ---------------------------------------------------------------------------
// Evidence helpers.

type lsStats struct {
	removals, reindexes, indexes, upToDate int
	moveSynced                             bool
	labels                                 []string
}

func (s *lsStats) label(l string) { s.labels = append(s.labels, l) }

func (s *lsStats) nontrivial() bool {
	return (s.removals > 0 && s.reindexes > 0) || s.moveSynced
}

func lsCaseKey(c lsCase) string {
	b, _ := json.Marshal(c)
	return string(b)
}

func (w *lsWorld) layoutLabels() []string {
	var out []string
	add := func(b bool, l string) {
		if b {
			out = append(out, l)
		}
	}
	add(w.nestedSeen, "layout:nested")
	add(w.bareSeen, "layout:bare")
	add(w.rootLevelSeen, "layout:root-level")
	add(w.gitfileSeen, "layout:gitfile")
	add(w.foreignShards > 0, "prior:foreign-shard")
	add(w.strayTmp, "prior:leftover-tmp-files")
	add(w.strayOther, "prior:unrelated-files-or-directories")
	add(w.movesApplied > 0, "history:moved")
	return out
}

func lsSetup(t interface{ Cleanup(func()) }) {
	log.SetOutput(io.Discard)
	t.Cleanup(lsTpl.cleanup)
}
