//go:build verif

package main

// C34: `zoekt-local-sync -f` makes the index match the repositories
// discovered under the roots (independent discovery model over the generated
// layout description), rejects duplicate names before changing the index,
// and `remove -f` deletes exactly the selected repository's shards.

import (
	"fmt"
	"path/filepath"
	"regexp"
	"sort"
	"strconv"
	"strings"
	"testing"

	"github.com/sourcegraph/zoekt/internal/verifkit/kit"
)

func c34IgnoreLock(rel string) bool { return rel == "." || rel == lockFileNameC34 }

// The lock file is not part of "the index"; its name is spelled out here
// rather than taken from the command's constant so that the oracle does not
// depend on the code under test.
const lockFileNameC34 = ".zoekt-local-sync.lock"

func c34ShowInventory(w *lsWorld, inv []lsShard) string {
	var parts []string
	for _, s := range inv {
		v := ""
		for _, b := range s.Branches {
			v += b.Name + "@" + b.Version + " "
		}
		parts = append(parts, fmt.Sprintf("%s{%q from %s %s}", s.Rel, s.Name, w.norm(s.Source), strings.TrimSpace(v)))
	}
	return "[" + strings.Join(parts, ", ") + "]"
}

// c34CheckSync is the oracle for one `sync -f`.
var c34ShardFileRe = regexp.MustCompile(`^(.*_v[0-9]+)\.([0-9]{5})\.zoekt$`)

func c34CheckSync(w *lsWorld, where string, exp []lsExpect, reject string, multiShard bool, cmdErr error, before, after lsSnap, st *lsStats) error {
	if reject != "" {
		// two repositories with one name (or one repository reachable from two
		// root arguments): the command must fail and the index stays as it was.
		if cmdErr == nil {
			return kit.Fail("collision-not-rejected", "%s: the model rejects this root set (%s) but sync -f succeeded", where, reject)
		}
		if d := lsDiff(before, after, c34IgnoreLock); len(d) > 0 {
			return kit.Fail("failed-sync-changed-index", "%s: sync -f failed (%v; model: %s) but the index directory changed: %s", where, w.norm(cmdErr.Error()), reject, strings.Join(d, ", "))
		}
		return nil
	}
	if cmdErr != nil {
		return kit.Fail("unexpected-sync-failure", "%s: every generated repository is valid and names are unique, yet sync -f failed: %s", where, w.norm(cmdErr.Error()))
	}
	inv, err := w.inventory()
	if err != nil {
		return err
	}
	want := map[string]lsExpect{}
	for _, e := range exp {
		want[e.Name] = e
	}
	var problems []string
	seen := map[string]int{}
	for _, s := range inv {
		e, ok := want[s.Name]
		if !ok {
			problems = append(problems, fmt.Sprintf("shard %s holds repository %q (source %s) which is not under the roots", s.Rel, s.Name, w.norm(s.Source)))
			continue
		}
		seen[s.Name]++
		if filepath.Clean(s.Source) != e.Source {
			problems = append(problems, fmt.Sprintf("repository %q has source %s, want %s", s.Name, w.norm(s.Source), w.norm(e.Source)))
		}
		if len(s.Branches) != 1 || s.Branches[0].Name != "HEAD" || s.Branches[0].Version != e.Head {
			problems = append(problems, fmt.Sprintf("repository %q is indexed at %v, its HEAD is %s", s.Name, s.Branches, e.Head))
		}
	}
	for _, e := range exp {
		switch n := seen[e.Name]; {
		case n == 0:
			problems = append(problems, fmt.Sprintf("repository %q (%s) is not in the index", e.Name, w.norm(e.Source)))
		case n > 1 && !(e.Big && multiShard):
			// a few bytes of content, or a 1 MiB shard limit: one shard
			problems = append(problems, fmt.Sprintf("repository %q is in %d shards", e.Name, n))
		}
		// all shards of the repository are present: one file-name prefix,
		// numbered 00000 .. n-1 without gaps
		var nums []int
		prefixes := map[string]bool{}
		for _, s := range inv {
			if s.Name != e.Name {
				continue
			}
			m := c34ShardFileRe.FindStringSubmatch(s.Rel)
			if m == nil {
				problems = append(problems, fmt.Sprintf("shard file name %s of %q is not <prefix>_v<N>.<NNNNN>.zoekt", s.Rel, e.Name))
				continue
			}
			k, _ := strconv.Atoi(m[2])
			nums = append(nums, k)
			prefixes[m[1]] = true
		}
		sort.Ints(nums)
		for i, k := range nums {
			if k != i {
				problems = append(problems, fmt.Sprintf("shards of %q are numbered %v, want 0..%d without gaps", e.Name, nums, len(nums)-1))
				break
			}
		}
		if len(prefixes) > 1 {
			problems = append(problems, fmt.Sprintf("shards of %q use %d different file-name prefixes", e.Name, len(prefixes)))
		}
		if len(nums) > 1 {
			st.label("sync:multi-shard-repository")
		}
	}
	if len(problems) > 0 {
		sort.Strings(problems)
		return kit.Fail("index-does-not-match-roots", "%s: %s; inventory %s", where, strings.Join(problems, " | "), c34ShowInventory(w, inv))
	}
	return nil
}

// c34CheckRemove is the oracle for one `remove -f`.
func c34CheckRemove(w *lsWorld, where string, selectors []string, invBefore []lsShard, cmdErr error, before, after lsSnap, st *lsStats) error {
	// selection model: a selector names a repository by its exact name or,
	// failing that, by its exact source path.
	selected := map[string]bool{} // files that may / must go
	allMatched := true
	for _, sel := range selectors {
		for _, s := range invBefore {
			if strings.HasPrefix(s.Name, sel+"/") {
				st.label("remove:selector-is-directory-of-indexed-name")
				break
			}
		}
		for _, s := range invBefore {
			if s.Name != sel && strings.HasPrefix(s.Name, sel) {
				st.label("remove:selector-is-prefix-of-indexed-name")
				break
			}
		}
		type key struct{ name, source string }
		matches := map[key][]string{}
		for _, s := range invBefore {
			if s.Name == sel {
				k := key{s.Name, filepath.Clean(s.Source)}
				matches[k] = append(matches[k], s.Rel)
			}
		}
		if len(matches) == 0 {
			for _, s := range invBefore {
				if s.Source != "" && filepath.Clean(s.Source) == filepath.Clean(sel) {
					k := key{s.Name, filepath.Clean(s.Source)}
					matches[k] = append(matches[k], s.Rel)
				}
			}
		}
		if len(matches) != 1 {
			allMatched = false
			if len(matches) == 0 {
				st.label("remove:selector-matches-nothing")
			} else {
				st.label("remove:selector-ambiguous")
			}
			continue
		}
		for _, rels := range matches {
			if len(rels) > 1 {
				st.label("remove:multi-shard-repository")
			}
			for _, rel := range rels {
				selected[rel] = true
				selected[rel+".meta"] = true
			}
		}
	}
	var problems []string
	for _, d := range lsDiff(before, after, c34IgnoreLock) {
		if p, ok := strings.CutPrefix(d, "deleted "); ok && selected[p] {
			continue
		}
		problems = append(problems, d+" (not selected)")
	}
	if cmdErr == nil {
		if allMatched {
			st.label("remove:ok")
		}
		for p := range selected {
			if _, was := before[p]; was {
				if _, still := after[p]; still {
					problems = append(problems, "selected "+p+" still present")
				}
			}
		}
	} else {
		st.label("remove:error")
		if allMatched {
			return kit.Fail("unexpected-remove-failure", "%s: every selector names exactly one indexed repository, yet remove -f failed: %s", where, w.norm(cmdErr.Error()))
		}
	}
	if len(problems) > 0 {
		sort.Strings(problems)
		return kit.Fail("remove-not-exact", "%s (error: %v): %s; inventory before %s", where, cmdErr, strings.Join(problems, ", "), c34ShowInventory(w, invBefore))
	}
	return nil
}

func runC34(rec *kit.Recorder, c lsCase) (err error) {
	w, err := lsNewWorld(&c)
	if err != nil {
		return err
	}
	defer w.close()
	st := &lsStats{}
	defer func() {
		nt := st.nontrivial()
		rec.Eval(lsCaseKey(c), nt, append(st.labels, w.layoutLabels()...)...)
		rec.Sample(c, nt)
	}()

	for i, step := range c.Steps {
		if err := w.applyAll(step.Muts); err != nil {
			return err
		}
		_, force, ok := w.cmdArgs(&c, step.Cmd)
		if !ok {
			st.label("cmd:skipped")
			continue
		}
		where := fmt.Sprintf("step %d (%s)", i, w.norm(strings.Join(force, " ")))
		before, err := w.snap()
		if err != nil {
			return err
		}
		invBefore, err := w.inventory()
		if err != nil {
			return err
		}
		bak, err := w.backup()
		if err != nil {
			return err
		}
		fOut, fErr, pan := lsExec(force)
		if pan != nil {
			pan.Detail = where + ": " + pan.Detail
			return pan
		}
		after, err := w.snap()
		if err != nil {
			return err
		}
		perf := lsParse(fOut, false)

		switch step.Cmd.Op {
		case "sync":
			ras := w.resolveArgs(step.Cmd.Roots)
			exp, reject, err := w.discover(ras)
			if err != nil {
				return err
			}
			if err := c34CheckSync(w, where, exp, reject, c.ShardLimit >= 500 && c.ShardLimit < 4000, fErr, before, after, st); err != nil {
				return err
			}
			linked := false
			for _, a := range ras {
				linked = linked || a.Linked
			}
			if linked {
				st.label("sync:root-through-symlink")
				if reject != "" {
					st.label("sync:root-through-symlink-rejected-" + reject)
				} else if len(ras) > 1 {
					st.label("sync:root-through-symlink-multi-root-ok")
				}
			}
			if reject != "" {
				st.label("sync:rejected-" + reject)
			} else {
				st.label("sync:ok")
				st.label(fmt.Sprintf("sync:repos=%d", min(len(exp), 6)))
				if len(ras) > 1 {
					st.label("sync:multi-root")
				}
				for _, a := range ras {
					if a.Sub != "" {
						st.label("sync:sub-directory-root")
					}
				}
			}
			if w.movedPending && reject == "" {
				st.moveSynced = true
				w.movedPending = false
				st.label("sync:after-move")
			}
		case "remove":
			if err := c34CheckRemove(w, where, w.selectors(step.Cmd, invBefore), invBefore, fErr, before, after, st); err != nil {
				return err
			}
		}

		// evidence (what happened is taken from the output only for counting)
		had := map[string]bool{}
		for _, s := range invBefore {
			had[s.Name] = true
		}
		st.removals += len(perf.Removals)
		for _, k := range perf.Index {
			st.indexes++
			if had[lsNameOf(k)] {
				st.reindexes++
			}
		}
		st.upToDate += len(perf.UpToDate)
		st.label("cmd:" + step.Cmd.Op)
		if len(perf.Removals) > 0 {
			st.label(step.Cmd.Op + ":removes")
		}
		if len(perf.Index) > 0 {
			st.label("sync:indexes")
		}
		if len(perf.UpToDate) > 0 {
			st.label("sync:up-to-date")
		}

		if step.Apply {
			w.discard(bak)
			st.label("step:applied")
		} else {
			if err := w.restore(bak); err != nil {
				return err
			}
			st.label("step:not-kept")
		}
	}
	if st.removals > 0 && st.reindexes > 0 {
		st.label("history:removal+reindex")
	}
	return nil
}

func TestVerif_C34(t *testing.T) {
	lsSetup(t)
	rec := kit.Open(t, "C34",
		"rapid-generated histories of 2-6 steps over 4 root directories (two with the same base name, one ending in .git): each step mutates the roots (add non-bare / bare / gitfile / root-level / nested repositories and *.git look-alikes, delete, move between roots, rename, new commit, config change, foreign shard written into the index) and then runs `sync -f <roots>` (root sets vary, sub-directories of roots and overlapping roots included; in a seventh of the syncs one root argument is given through a symbolic link - as the only name of a root / sub-directory / repository, as an alias next to the directory's own path, or as a link into a sub-directory of another root argument, the link being the last or a leading path component; in 40% of the histories leftover <shard>.N.tmp / <shard>.meta.N.tmp files, unrelated files and sub-directories are put into the index directory) or `remove -f <selectors>`; a case = one history; non-trivial = the history performed >= 1 removal and >= 1 re-index of an already indexed name, or synced after a repository move; distinct by hash of the JSON case",
		"build options are constant across a history (-disable_ctags -submodules=false -shard_limit N)",
		"discovery model (independent, over the layout description): a directory with .git (directory or gitfile) is a repository named by its slash path relative to the root argument (the root's base name for the root itself); a directory named *.git with an objects directory is a bare repository named likewise minus the .git suffix; directories inside a repository are not searched; a *.git directory without objects is not a repository",
		"a root set in which one repository is reachable from two root arguments is expected to be rejected like a duplicate name (the tool documents this error); duplicate root arguments likewise",
		"the discovery model works on resolved paths, as discover.go does (resolveRoots canonicalises every root with EvalSymlinks before the duplicate-root / discovered-by-more-than-one-root / naming decisions): a root argument that is a symbolic link stands for the directory it points at - names and sources are those of the real directory, two arguments that resolve to one directory are a duplicate root, a link into another root's sub-directory makes the repositories below it discovered twice; the link's own name is irrelevant. Links are only used as root arguments, never placed inside a root",
		"files in the index directory that are not *.zoekt shards or their .meta sidecars (leftover temporary files, unrelated files, sub-directories) are not part of the index: they are not repositories, and remove -f / a rejected sync -f must leave them alone like everything else that is not selected",
		"'index unchanged' after a rejected sync is judged without the lock file and the index directory's own mtime/existence (the lock is taken before discovery)",
		"every generated repository is a valid git repository with a HEAD commit, so a failing sync -f / remove -f whose selectors each name exactly one indexed repository is reported (unexpected-*-failure)",
		"a third of the histories use a small -shard_limit (1500-3000) and repositories of ~4.5 KB that then span several shards; a repository must be present as one file-name prefix with shards numbered 0..n-1 without gaps, every shard naming the same repository, source and HEAD; small repositories (or the 1 MiB limit) must be exactly one shard; up to date = every shard's only branch is HEAD at the repository's HEAD commit and its source is the repository's path",
		"remove: a selector matches a repository by exact name, else by exact source path; on success exactly the shards (and sidecars) of the matched repositories are gone; on failure nothing but shards of matched repositories may be gone; nothing is ever created or rewritten",
	)
	kit.Property(t, rec, lsGen, func(c lsCase) error { return runC34(rec, c) })
}
