//go:build verif

package main

// C33: previews of zoekt-local-sync (sync and remove without -f) are free of
// side effects on the index directory and faithful: what they announce is
// what the same command with -f then performs on the same state.

import (
	"fmt"
	"net/url"
	"regexp"
	"sort"
	"strings"
	"testing"

	"github.com/sourcegraph/zoekt/internal/verifkit/kit"
)

// The one recorded defect class of C33 (see the recognizer in c33Faithful).
const c33KnownUpToDate = "C33-preview-uptodate-after-own-removal"

var c33ShardFileRE = regexp.MustCompile(`^(.*)_v\d+\.\d{5}\.zoekt$`)

func lsSortedKeys(m map[string]bool) []string {
	out := make([]string, 0, len(m))
	for k := range m {
		out = append(out, k)
	}
	sort.Strings(out)
	return out
}

// c33Faithful compares what the preview announced with what -f printed and
// with what -f did to the index directory (before/after snapshots and the
// inventory read from the resulting shards).
func c33Faithful(w *lsWorld, where string, ann, perf lsOutput, before, after lsSnap, inv []lsShard) error {
	var problems []string
	knownOnly := true
	problem := func(known bool, format string, args ...any) {
		problems = append(problems, w.norm(fmt.Sprintf(format, args...)))
		if !known {
			knownOnly = false
		}
	}

	// --- what -f did, from the directory -----------------------------------
	gone := map[string]bool{}    // shard files that disappeared
	changed := map[string]bool{} // shard files that are new or rewritten
	for rel, fb := range before {
		if !lsIsShard(rel) {
			continue
		}
		fa, ok := after[rel]
		if !ok {
			gone[rel] = true
		} else if fa != fb {
			changed[rel] = true
		}
	}
	for rel := range after {
		if lsIsShard(rel) {
			if _, ok := before[rel]; !ok {
				changed[rel] = true
			}
		}
	}
	nameOfShard := map[string]string{}
	shardsOfName := map[string][]string{}
	for _, s := range inv {
		nameOfShard[s.Rel] = s.Name
		shardsOfName[s.Name] = append(shardsOfName[s.Name], s.Rel)
	}

	rel := func(shard string) string {
		return strings.TrimPrefix(shard, w.index+"/")
	}

	// --- removals ----------------------------------------------------------
	annRm := map[string]bool{}
	annRmNames := map[string]bool{}
	for _, r := range ann.Removals {
		annRm[rel(r.Shard)] = true
		annRmNames[r.Name] = true
	}
	perfRm := map[string]bool{}
	for _, r := range perf.Removals {
		perfRm[rel(r.Shard)] = true
	}
	for _, s := range lsSortedKeys(annRm) {
		if !perfRm[s] {
			problem(false, "preview announced removal of %s, -f did not print it", s)
		}
		if _, existed := before[s]; !existed {
			problem(false, "preview announced removal of %s which is not in the index directory", s)
		} else if !gone[s] && !changed[s] {
			problem(false, "preview announced removal of %s, after -f the file is still there unchanged", s)
		}
	}
	for _, s := range lsSortedKeys(perfRm) {
		if !annRm[s] {
			problem(false, "-f printed removal of %s, the preview did not announce it", s)
		}
	}
	// names the preview announces to (re)index: re-indexing a repository
	// replaces all of its shards, so a higher-numbered shard of such a
	// repository may disappear (the new index has fewer shards) without a
	// removal line of its own
	reindexed := map[string]bool{}
	for _, k := range ann.Index {
		reindexed[lsNameOf(k)] = true
	}
	shardName := func(s string) string {
		if n := nameOfShard[s]; n != "" {
			return n
		}
		// a shard the inventory does not list by itself (a higher-numbered
		// shard): the repository name is the escaped prefix of the file name
		if m := c33ShardFileRE.FindStringSubmatch(s); m != nil {
			if n, err := url.QueryUnescape(m[1]); err == nil {
				return n
			}
		}
		return ""
	}
	for _, s := range lsSortedKeys(gone) {
		if n := shardName(s); !annRm[s] && !(n != "" && reindexed[n]) {
			problem(false, "-f deleted %s (repository %q), the preview did not announce it (announced for indexing: %v, for removal: %v)", s, shardName(s), lsSortedKeys(reindexed), lsSortedKeys(annRm))
		}
	}
	// sidecars may only disappear together with an announced removal or a rewrite
	for p := range before {
		if strings.HasSuffix(p, ".zoekt.meta") {
			if _, ok := after[p]; !ok {
				shard := strings.TrimSuffix(p, ".meta")
				if !annRm[shard] && !changed[shard] {
					problem(false, "-f deleted sidecar %s, the preview announced nothing for its shard", p)
				}
			}
		}
	}

	// --- (re)indexing ------------------------------------------------------
	annIdx := map[string]bool{}
	annIdxNames := map[string]bool{}
	for _, k := range ann.Index {
		annIdx[k] = true
		annIdxNames[lsNameOf(k)] = true
	}
	annUpNames := map[string]bool{}
	for _, k := range ann.UpToDate {
		annUpNames[lsNameOf(k)] = true
	}
	perfIdx := map[string]bool{}
	for _, k := range perf.Index {
		perfIdx[k] = true
	}
	// recognizer of the recorded defect: the preview says "Up to date" for a
	// repository whose (same-named) shard the same preview announces to remove.
	isKnown := func(name string) bool { return annUpNames[name] && annRmNames[name] && !annIdxNames[name] }

	for _, k := range lsSortedKeys(annIdx) {
		name := lsNameOf(k)
		if !perfIdx[k] {
			problem(false, "preview announced indexing of %s, -f did not report it as indexed", lsShowKeys([]string{k}))
		}
		did := false
		for _, s := range shardsOfName[name] {
			if changed[s] {
				did = true
			}
		}
		if !did {
			problem(false, "preview announced indexing of %q, after -f there is no new or rewritten shard for it", name)
		}
	}
	for _, k := range lsSortedKeys(perfIdx) {
		if !annIdx[k] {
			problem(isKnown(lsNameOf(k)), "-f indexed %s, the preview did not announce it (preview said up to date: %v)", lsShowKeys([]string{k}), annUpNames[lsNameOf(k)])
		}
	}
	for _, s := range lsSortedKeys(changed) {
		name, ok := nameOfShard[s]
		if !ok {
			problem(false, "after -f shard %s is new or rewritten but unreadable", s)
			continue
		}
		if !annIdxNames[name] {
			problem(isKnown(name), "-f wrote shard %s of repository %q, the preview did not announce indexing it", s, name)
		}
	}

	if len(problems) == 0 {
		return nil
	}
	detail := fmt.Sprintf("%s: %s", where, strings.Join(problems, " | "))
	if knownOnly {
		return kit.FailKnown(c33KnownUpToDate, "unfaithful-preview", "%s", detail)
	}
	return kit.Fail("unfaithful-preview", "%s", detail)
}

func runC33(rec *kit.Recorder, c lsCase) (err error) {
	w, err := lsNewWorld(&c)
	if err != nil {
		return err
	}
	defer w.close()
	st := &lsStats{}
	defer func() {
		nt := st.nontrivial()
		rec.Eval(lsCaseKey(c), nt, append(st.labels, w.layoutLabels()...)...)
		rec.Sample(c, nt)
	}()

	var known error
	for i, step := range c.Steps {
		if err := w.applyAll(step.Muts); err != nil {
			return err
		}
		preview, force, ok := w.cmdArgs(&c, step.Cmd)
		if !ok {
			st.label("cmd:skipped")
			continue
		}
		where := fmt.Sprintf("step %d (%s)", i, w.norm(strings.Join(preview, " ")))

		before, err := w.snap()
		if err != nil {
			return err
		}
		pOut, pErr, pan := lsExec(preview)
		if pan != nil {
			pan.Detail = where + ": " + pan.Detail
			return pan
		}
		afterPreview, err := w.snap()
		if err != nil {
			return err
		}
		// Oracle 1: the preview leaves the index directory exactly as it was:
		// nothing created (not even the directory or a lock file), nothing
		// deleted, no content, mode or mtime changed.
		if d := lsDiff(before, afterPreview, nil); len(d) > 0 {
			return kit.Fail("preview-side-effect", "%s: index directory changed by a command without -f: %s", where, strings.Join(d, ", "))
		}

		// Oracle 2: run the same command with -f on the same state.
		bak, err := w.backup()
		if err != nil {
			return err
		}
		fOut, fErr, pan := lsExec(force)
		if pan != nil {
			pan.Detail = where + " -f: " + pan.Detail
			return pan
		}
		after, err := w.snap()
		if err != nil {
			return err
		}
		inv, err := w.inventory()
		if err != nil {
			return err
		}
		ann, perf := lsParse(pOut, true), lsParse(fOut, false)
		if d := c33Faithful(w, where, ann, perf, before, after, inv); d != nil {
			if dd, ok := d.(*kit.Discrepancy); ok && dd.Known != "" {
				st.label("known:uptodate-after-own-removal")
				if known == nil {
					known = d
				}
			} else {
				return d
			}
		}

		// evidence
		wasIndexed := map[string]bool{}
		for rel := range before {
			if lsIsShard(rel) {
				wasIndexed[rel] = true
			}
		}
		invBefore := map[string]bool{}
		for _, r := range perf.Removals {
			invBefore[r.Name] = true
		}
		st.removals += len(perf.Removals)
		for _, k := range perf.Index {
			st.indexes++
			// a re-index: the repository name had a shard before the command
			name := lsNameOf(k)
			re := invBefore[name]
			for _, s := range inv {
				if s.Name == name && wasIndexed[s.Rel] {
					re = true
				}
			}
			if re {
				st.reindexes++
			}
		}
		st.upToDate += len(perf.UpToDate)
		for _, k := range append(append([]string{}, perf.Index...), perf.UpToDate...) {
			if invBefore[lsNameOf(k)] {
				// the shard of a still wanted name is removed (moved repository, stale foreign shard)
				st.label("sync:removal-of-a-wanted-name")
				break
			}
		}
		kind := step.Cmd.Op
		st.label("cmd:" + kind)
		if pErr != nil {
			st.label(kind + ":preview-error")
		}
		if fErr != nil {
			st.label(kind + ":f-error")
		}
		if (pErr == nil) != (fErr == nil) {
			st.label(kind + ":preview-and-f-disagree-on-error")
		}
		if len(perf.Removals) > 0 {
			st.label(kind + ":removes")
		}
		if len(perf.Index) > 0 {
			st.label("sync:indexes")
		}
		if len(perf.UpToDate) > 0 {
			st.label("sync:up-to-date")
		}
		if len(ann.Other)+len(perf.Other) > 0 {
			st.label("output:unparsed-line")
		}
		if kind == "sync" {
			for _, a := range w.resolveArgs(step.Cmd.Roots) {
				if a.Linked {
					st.label("sync:root-through-symlink")
					break
				}
			}
		}
		if len(before) > 0 {
			strayTmp, strayOther := false, false
			for rel, f := range before {
				switch {
				case rel == "." || rel == ".zoekt-local-sync.lock" || lsIsShard(rel) || strings.HasSuffix(rel, ".zoekt.meta"):
				case !f.Dir && strings.HasSuffix(rel, ".tmp"):
					strayTmp = true
				default:
					strayOther = true
				}
			}
			if strayTmp {
				st.label("preview:index-holds-leftover-tmp-files")
			}
			if strayOther {
				st.label("preview:index-holds-unrelated-files-or-directories")
			}
		}
		if kind == "sync" && w.movedPending {
			st.moveSynced = true
			w.movedPending = false
			st.label("sync:after-move")
		}

		if step.Apply {
			w.discard(bak)
			st.label("step:applied")
		} else {
			if err := w.restore(bak); err != nil {
				return err
			}
			st.label("step:preview-only")
		}
	}
	if st.removals > 0 && st.reindexes > 0 {
		st.label("history:removal+reindex")
	}
	return known
}

func TestVerif_C33(t *testing.T) {
	lsSetup(t)
	rec := kit.Open(t, "C33",
		"rapid-generated histories of 2-6 steps over 4 root directories (two with the same base name, one ending in .git): each step mutates the roots (add non-bare / bare / gitfile / root-level / nested repositories and *.git look-alikes, delete, move between roots, rename, new commit, config change, foreign shard written into the index; in 40% of the histories also leftovers put into the index directory: <shard>.N.tmp / <shard>.meta.N.tmp files as a killed or concurrently running indexer leaves them (for a shard that is there, half its bytes, or for a repository not indexed yet), unrelated files, sub-directories holding shard-like and *.tmp files) and then runs `sync` or `remove <selectors>`; the preview runs first, then the same command with -f on the same state (index directory backed up and restored when the step is preview-only); a case = one history; non-trivial = the history performed >= 1 removal and >= 1 re-index of an already indexed name, or synced after a repository move; distinct by hash of the JSON case",
		"build options are constant across a history (-disable_ctags -submodules=false -shard_limit N; a third of the histories use a small N so that repositories span several shards)",
		"`performed` is read from the -f output (Removing / Indexed lines) and from the before/after snapshots of the index directory (deleted, new or rewritten shard files, attributed to repositories by reading the resulting shards); both must equal what the preview announced (Would remove / Would index lines)",
		"the -f run happens in place on the very same state (sources stored in shards are absolute, a copy at another path would be a different state); the index directory is restored from a byte-and-mtime preserving backup when the step is preview-only",
		"the no-side-effect rule covers every name and byte of the index directory, not only shards: leftover temporary files, unrelated files and sub-directories must survive a preview untouched too (what -f does to them is not judged)",
		"a seventh of the syncs name one root through a symbolic link (preview and -f get the same words)",
		"snapshot = names, kinds, modes, sizes, sha256 and mtimes of everything in the index directory (recursively) including the directory itself; the lock file and the index directory created by -f are not counted as removals/indexing",
	)
	kit.Property(t, rec, lsGen, func(c lsCase) error { return runC33(rec, c) })
}
