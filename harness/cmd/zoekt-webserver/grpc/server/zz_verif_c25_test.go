//go:build verif

package server

// C25: when results are streamed to a gRPC client, every file match produced
// by the shards is delivered exactly once and in the order produced, messages
// stay within the size budget unless a single file exceeds it, and for every
// statistics counter the sum over delivered messages equals the sum over the
// produced results.
//
// The real pipeline of Server.StreamSearch is assembled by hand
//   newSamplingSender(gRPCChunkSender(stream))  ...events...  sampler.Flush()
// over a fake grpc stream that serialises every message at Send (the chunker
// reuses its buffer, exactly what a real transport protects the client from).
//
// A second kind of case ("flush" cases) runs the whole handler end to end:
//   Server.StreamSearch -> search.NewDirectorySearcher over real shards on disk
//   (flush-collect layer, SearchOptions.FlushWallTime > 0) -> sampler -> chunker
//   -> a fake stream played by a slow client whose Send blocks under the
//   harness's control.

import (
	"context"
	"encoding/json"
	"fmt"
	"os"
	"path/filepath"
	"reflect"
	"sort"
	"strings"
	"sync"
	"testing"
	"time"

	"google.golang.org/grpc"
	"google.golang.org/protobuf/proto"
	"pgregory.net/rapid"

	"github.com/sourcegraph/zoekt"
	webserverv1 "github.com/sourcegraph/zoekt/grpc/protos/zoekt/webserver/v1"
	"github.com/sourcegraph/zoekt/internal/verifkit/kit"
	"github.com/sourcegraph/zoekt/query"
	"github.com/sourcegraph/zoekt/search"
)

// c25Budget mirrors grpc/chunk.maxMessageSize (unexported): the chunker sends
// the pending chunk before adding an item that would bring it to >= 1 MiB.
const c25Budget = 1 << 20

// Stats fields that zoekt.Stats.Add deliberately does not sum: Duration is a
// wall-clock time (Add leaves it out), FlushReason is a sticky enum ("first
// non-zero wins"). Every other numeric field must be conserved.
var c25NonAdditive = map[string]bool{"Duration": true, "FlushReason": true}

type c25File struct {
	// Size is the length of the Content field; the serialised FileMatch is a
	// few dozen bytes larger.
	Size int
	// Lines adds that many small line matches (structure, not only bulk).
	Lines int `json:",omitempty"`
}

type c25Event struct {
	// Files empty = a stats-only event.
	Files []c25File `json:",omitempty"`
	// Stats holds the non-zero numeric fields of zoekt.Stats by field name.
	Stats map[string]int64 `json:",omitempty"`
	// Repeat sends the event that many times (runs of stats-only events).
	Repeat   int
	Priority float64
	MaxPend  float64
}

type c25Case struct {
	Events []c25Event `json:",omitempty"`
	// Flush != nil: an end-to-end case through Server.StreamSearch over real
	// shards with a flush timer and a slow client (Events is unused).
	Flush *c25Flush `json:",omitempty"`
}

// ---------------------------------------------------------------- fake stream

// c25Msg is what the client would hold after receiving one message: copied
// out of the message while Send runs, because the chunker reuses its buffer
// once Send returns.
type c25Msg struct {
	files    []string
	sizes    []int
	stats    zoekt.Stats
	hasStats bool
}

type c25Stream struct {
	grpc.ServerStream // nil: only Send and Context are used by the pipeline
	msgs              []c25Msg
	buf               []byte
	err               error
}

func (s *c25Stream) Context() context.Context { return context.Background() }

func (s *c25Stream) Send(m *webserverv1.StreamSearchResponse) error {
	// serialise, as the transport would (into a reused buffer)
	b, err := proto.MarshalOptions{}.MarshalAppend(s.buf[:0], m)
	if err != nil {
		s.err = fmt.Errorf("message %d is not serialisable: %v", len(s.msgs), err)
		return err
	}
	s.buf = b
	chunk := m.GetResponseChunk()
	msg := c25Msg{hasStats: chunk.GetStats() != nil, stats: zoekt.StatsFromProto(chunk.GetStats())}
	for _, f := range chunk.GetFiles() {
		msg.files = append(msg.files, string(f.GetFileName()))
		msg.sizes = append(msg.sizes, proto.Size(f))
	}
	s.msgs = append(s.msgs, msg)
	return nil
}

// ---------------------------------------------------------------- stats by reflection

var c25StatsFields = func() []string {
	var out []string
	t := reflect.TypeOf(zoekt.Stats{})
	for i := 0; i < t.NumField(); i++ {
		switch t.Field(i).Type.Kind() {
		case reflect.Int, reflect.Int8, reflect.Int16, reflect.Int32, reflect.Int64,
			reflect.Uint, reflect.Uint8, reflect.Uint16, reflect.Uint32, reflect.Uint64, reflect.Float32, reflect.Float64:
			out = append(out, t.Field(i).Name)
		default:
			panic("zoekt.Stats has a non-numeric field " + t.Field(i).Name + ": extend the C25 harness")
		}
	}
	return out
}()

func c25MakeStats(m map[string]int64) zoekt.Stats {
	var s zoekt.Stats
	v := reflect.ValueOf(&s).Elem()
	for name, x := range m {
		f := v.FieldByName(name)
		if !f.IsValid() {
			continue // replay file from an older tree
		}
		switch f.Kind() {
		case reflect.Uint, reflect.Uint8, reflect.Uint16, reflect.Uint32, reflect.Uint64:
			f.SetUint(uint64(x))
		case reflect.Float32, reflect.Float64:
			f.SetFloat(float64(x))
		default:
			f.SetInt(x)
		}
	}
	return s
}

func c25AddStats(sum map[string]int64, s zoekt.Stats, times int64) {
	v := reflect.ValueOf(s)
	for _, name := range c25StatsFields {
		f := v.FieldByName(name)
		var x int64
		switch f.Kind() {
		case reflect.Uint, reflect.Uint8, reflect.Uint16, reflect.Uint32, reflect.Uint64:
			x = int64(f.Uint())
		case reflect.Float32, reflect.Float64:
			x = int64(f.Float())
		default:
			x = f.Int()
		}
		sum[name] += x * times
	}
}

// ---------------------------------------------------------------- run

var c25Zeros = make([]byte, 2<<20)

type c25Facts struct {
	files, msgs      int
	run100           bool // >= 100 consecutive stats-only events
	oversized        bool // a file whose serialised size alone reaches the budget
	finalFlush       bool // Flush had aggregated stats to send
	multiChunk       bool // one event was split over several messages
	mergedIntoFiles  bool // aggregated stats rode along with a file event
	emptyFirstChunk  bool
	statsOnly, withF int
}

func runC25(c c25Case) (facts c25Facts, err error) {
	stream := &c25Stream{}
	sampler := newSamplingSender(gRPCChunkSender(stream))

	produced := map[string]int64{}
	var producedFiles []string
	nextID := 0
	runLen := 0
	pendingAgg := false
	for _, ev := range c.Events {
		rep := ev.Repeat
		if rep < 1 {
			rep = 1
		}
		if len(ev.Files) > 0 {
			rep = 1
		}
		st := c25MakeStats(ev.Stats)
		for r := 0; r < rep; r++ {
			sr := &zoekt.SearchResult{
				Stats:    st,
				Progress: zoekt.Progress{Priority: ev.Priority, MaxPendingPriority: ev.MaxPend},
			}
			for _, f := range ev.Files {
				name := fmt.Sprintf("f%06d", nextID)
				nextID++
				fm := zoekt.FileMatch{
					FileName:   name,
					Repository: "r",
					Content:    c25Zeros[:f.Size], // shared, never written
				}
				for l := 0; l < f.Lines; l++ {
					fm.LineMatches = append(fm.LineMatches, zoekt.LineMatch{Line: []byte("line"), LineNumber: l + 1,
						LineFragments: []zoekt.LineFragmentMatch{{LineOffset: 0, MatchLength: 4}}})
				}
				if proto.Size(fm.ToProto()) >= c25Budget {
					facts.oversized = true
				}
				sr.Files = append(sr.Files, fm)
				producedFiles = append(producedFiles, name)
			}
			c25AddStats(produced, st, 1)
			if len(sr.Files) == 0 {
				facts.statsOnly++
				runLen++
				if runLen >= 100 {
					facts.run100 = true
				}
				if !st.Zero() {
					pendingAgg = true
				}
				if runLen%100 == 0 {
					pendingAgg = false // informative only; exact bookkeeping is the code under test
				}
			} else {
				facts.withF++
				runLen = 0
				if pendingAgg {
					facts.mergedIntoFiles = true
				}
				pendingAgg = false
			}
			before := len(stream.msgs)
			sampler.Send(sr)
			if len(sr.Files) > 0 && len(stream.msgs)-before > 1 {
				facts.multiChunk = true
			}
		}
	}
	before := len(stream.msgs)
	sampler.Flush() // Server.StreamSearch does this when the search returned no error
	facts.finalFlush = len(stream.msgs) > before

	if stream.err != nil {
		return facts, kit.Fail("send-error", "%v", stream.err)
	}

	// oracle 1: files delivered once, in order
	var delivered []string
	got := map[string]int64{}
	for i, m := range stream.msgs {
		total := 0
		for j, f := range m.files {
			delivered = append(delivered, f)
			total += m.sizes[j]
		}
		// oracle 2: size budget
		if len(m.files) > 1 && total >= c25Budget {
			return facts, kit.Fail("budget", "message %d carries %d files with %d bytes in total (budget %d); only a single oversized file may exceed it", i, len(m.files), total, c25Budget)
		}
		if len(m.files) == 0 && m.hasStats && i+1 < len(stream.msgs) && len(stream.msgs[i+1].files) > 0 && !stream.msgs[i+1].hasStats {
			facts.emptyFirstChunk = true
		}
		c25AddStats(got, m.stats, 1)
	}
	facts.files = len(producedFiles)
	facts.msgs = len(stream.msgs)
	if len(delivered) != len(producedFiles) {
		return facts, kit.Fail("file-count", "%d files produced, %d delivered (first difference: %s)", len(producedFiles), len(delivered), c25FirstDiff(producedFiles, delivered))
	}
	for i := range producedFiles {
		if producedFiles[i] != delivered[i] {
			return facts, kit.Fail("file-order", "position %d: produced %s, delivered %s", i, producedFiles[i], delivered[i])
		}
	}
	// oracle 3: every additive counter is conserved
	for _, name := range c25StatsFields {
		if c25NonAdditive[name] {
			continue
		}
		if produced[name] != got[name] {
			return facts, kit.Fail("stats", "Stats.%s: produced events sum to %d, delivered messages sum to %d (%d events, %d messages)", name, produced[name], got[name], facts.statsOnly+facts.withF, len(stream.msgs))
		}
	}
	return facts, nil
}

func c25FirstDiff(a, b []string) string {
	for i := 0; i < len(a) || i < len(b); i++ {
		var x, y string
		if i < len(a) {
			x = a[i]
		}
		if i < len(b) {
			y = b[i]
		}
		if x != y {
			return fmt.Sprintf("position %d: produced %q delivered %q", i, x, y)
		}
	}
	return "none"
}

// ---------------------------------------------------------------- flush cases (end to end)

// c25Flush describes one end-to-end case: a directory of simple shards, a
// query that matches every "needle" document, a flush timer placed at a
// fraction of the measured duration of that search, and a slow client.
type c25Flush struct {
	Shards int // simple shards (one repository each)
	Docs   int // shard i holds 1 + i%Docs matching documents (plus one that does not match)
	DocKB  int // approximate size of a document
	Whole  bool
	Chunks bool // SearchOptions.ChunkMatches
	Regex  bool // regexp instead of substring query
	// TimerPermille places SearchOptions.FlushWallTime at that many thousandths
	// of the wall time the same search just took without a flush window
	// (> 1000: the search normally finishes first and only the final flush
	// runs). 0 = no flush window at all (FlushWallTime 0, pass-through).
	TimerPermille int
	// Stalls: the client does not take the k-th file-carrying message for up
	// to HoldMS milliseconds (gRPC flow control blocks Send). The stall ends
	// early when the handler returns or another Send shows up meanwhile - both
	// of which are violations.
	Stalls []c25Stall `json:",omitempty"`
}

type c25Stall struct{ Msg, HoldMS int }

// c25FlushTimed: wall-clock counters; all the others are a function of shards
// and query only and must come out the same with and without a flush window.
var c25FlushTimed = map[string]bool{"Wait": true, "MatchTreeConstruction": true, "MatchTreeSearch": true}

type c25FMsg struct {
	files    []string // repo/name
	total    int      // sum of proto.Size of the files
	stats    zoekt.Stats
	hasStats bool
	stalled  bool
}

// c25SlowStream is the client side of one StreamSearch call. Messages are
// recorded when Send completes (that is when the client has them).
type c25SlowStream struct {
	grpc.ServerStream
	mu        sync.Mutex
	stalls    map[int]time.Duration
	entered   int
	fileMsgs  int
	inflight  int
	done      bool
	returned  chan struct{}
	overlap   chan struct{}
	overlapOn bool
	msgs      []c25FMsg
	fail      error
}

func newC25SlowStream(stalls []c25Stall) *c25SlowStream {
	s := &c25SlowStream{stalls: map[int]time.Duration{}, returned: make(chan struct{}), overlap: make(chan struct{})}
	for _, st := range stalls {
		s.stalls[st.Msg] = time.Duration(st.HoldMS) * time.Millisecond
	}
	return s
}

func (s *c25SlowStream) Context() context.Context { return context.Background() }

func (s *c25SlowStream) failf(kind, format string, args ...any) {
	if s.fail == nil {
		s.fail = kit.Fail(kind, format, args...)
	}
}

func (s *c25SlowStream) Send(m *webserverv1.StreamSearchResponse) error {
	chunk := m.GetResponseChunk()
	s.mu.Lock()
	idx := s.entered
	s.entered++
	s.inflight++
	if s.done {
		s.failf("sent-after-return", "message %d (%d files) was handed to the stream after the StreamSearch handler had returned", idx, len(chunk.GetFiles()))
	}
	if s.inflight > 1 {
		s.failf("overtaking", "message %d (%d files) was handed to the stream while an earlier message was still being delivered to the slow client: results are sent concurrently and overtake each other", idx, len(chunk.GetFiles()))
		if !s.overlapOn {
			s.overlapOn = true
			close(s.overlap)
		}
	}
	fileIdx := -1
	if len(chunk.GetFiles()) > 0 {
		fileIdx = s.fileMsgs
		s.fileMsgs++
	}
	hold := s.stalls[fileIdx]
	s.mu.Unlock()

	// serialise, as the transport would
	if _, err := proto.Marshal(m); err != nil {
		s.mu.Lock()
		s.failf("send-error", "message %d is not serialisable: %v", idx, err)
		s.inflight--
		s.mu.Unlock()
		return err
	}
	msg := c25FMsg{hasStats: chunk.GetStats() != nil, stats: zoekt.StatsFromProto(chunk.GetStats()), stalled: fileIdx >= 0 && hold > 0}
	for _, f := range chunk.GetFiles() {
		msg.files = append(msg.files, f.GetRepository()+"/"+string(f.GetFileName()))
		msg.total += proto.Size(f)
	}

	if fileIdx >= 0 && hold > 0 {
		tm := time.NewTimer(hold)
		select {
		case <-s.overlap:
		case <-s.returned:
		case <-tm.C:
		}
		tm.Stop()
	}

	s.mu.Lock()
	s.msgs = append(s.msgs, msg)
	s.inflight--
	s.mu.Unlock()
	return nil
}

// handlerReturned is called right after Server.StreamSearch returned: a real
// transport closes the stream at that point.
func (s *c25SlowStream) handlerReturned() {
	s.mu.Lock()
	s.done = true
	if s.inflight > 0 {
		s.failf("returned-early", "the StreamSearch handler returned while %d message(s) were still being delivered to the slow client (%d delivered so far): the stream is closed before everything collected was sent", s.inflight, len(s.msgs))
	}
	close(s.returned)
	s.mu.Unlock()
	// let stragglers (only on a broken tree) finish so that they cannot touch the next case
	for i := 0; i < 2000; i++ {
		s.mu.Lock()
		n := s.inflight
		s.mu.Unlock()
		if n == 0 {
			return
		}
		time.Sleep(time.Millisecond)
	}
}

type c25Corpus struct {
	dir      string
	searcher zoekt.Streamer
	server   *Server
	want     map[string]bool         // repo/name of every matching document
	perRepo  map[string]int          // matching documents per repository
	refs     map[string]*c25Observed // reference observation by option key
}

type c25Observed struct {
	events [][]string // files of each file-carrying event, in delivery order
	marked []int      // indices (into events) of events whose first message carried a FlushReason; -1 entries never occur
	reason zoekt.FlushReason
	// stats-only marked events are counted too
	markedEvents int
	stats        map[string]int64
	msgs         int
	multiChunk   bool // the marked event was split over several messages
	stalledAgg   bool // a stall hit a message of the marked event
}

var (
	c25Corpora  = map[string]*c25Corpus{}
	c25Cleanups []func()
)

func c25CloseAll() {
	for _, f := range c25Cleanups {
		f()
	}
	c25Cleanups = nil
	c25Corpora = map[string]*c25Corpus{}
}

var c25Exts = []string{".go", ".txt", ".md", ".c", ".py"}

// c25Shard is one built simple shard; layouts with the same document
// parameters share the builds (a ShardBuilder costs ~60 ms, much more on a
// busy machine).
type c25Shard struct {
	data  []byte
	repo  string
	files []string // repo/name of the matching documents
}

var c25ShardPool = map[string]*c25Shard{}

// c25MakeShard: shard i holds 1 + i%docs matching documents and one that does
// not match. Documents differ in size (1/4 .. 7/4 of kb KiB) and in match
// density, so that shards take different times - their results arrive spread
// over the search - and files get different scores.
func c25MakeShard(docs, kb, i int) (*c25Shard, error) {
	r := kit.Repo{Name: fmt.Sprintf("repo%02d", i), ID: uint32(i + 1), Branches: []kit.Branch{{Name: "HEAD", Version: "v1"}}}
	sh := &c25Shard{repo: r.Name}
	n := 1 + i%docs
	for j := 0; j <= n; j++ {
		match := j < n
		var sb strings.Builder
		lines := kb * 1024 / 48 * (1 + (i*5+j)%7) / 4
		if lines < 3 {
			lines = 3
		}
		every := 3 + (i+2*j)%5
		for l := 0; l < lines; l++ {
			if match && l%every == 1 {
				fmt.Fprintf(&sb, "line %05d of doc %d.%d holds the needle%d here ....\n", l, i, j, l%3)
			} else {
				fmt.Fprintf(&sb, "line %05d of doc %d.%d is plain haystack filling\n", l, i, j)
			}
		}
		name := fmt.Sprintf("dir%d/doc%d%s", j%2, j, c25Exts[(i+j)%len(c25Exts)])
		r.Docs = append(r.Docs, kit.Doc{Name: name, Content: kit.Text(sb.String()), Branches: []string{"HEAD"}})
		if match {
			sh.files = append(sh.files, r.Name+"/"+name)
		}
	}
	data, err := kit.BuildSimple(&r)
	sh.data = data
	return sh, err
}

func c25GetCorpus(f *c25Flush) (*c25Corpus, error) {
	key := fmt.Sprintf("%d/%d/%d", f.Shards, f.Docs, f.DocKB)
	if c, ok := c25Corpora[key]; ok {
		return c, nil
	}
	if f.Shards < 1 || f.Docs < 1 || f.DocKB < 1 {
		return nil, fmt.Errorf("bad layout %s", key)
	}
	shards := make([]*c25Shard, f.Shards)
	errs := make([]error, f.Shards)
	var wg sync.WaitGroup
	for i := range shards {
		if shards[i] = c25ShardPool[fmt.Sprintf("%d/%d/%d", f.Docs, f.DocKB, i)]; shards[i] == nil {
			wg.Add(1)
			go func(i int) {
				defer wg.Done()
				shards[i], errs[i] = c25MakeShard(f.Docs, f.DocKB, i)
			}(i)
		}
	}
	wg.Wait()
	for _, err := range errs {
		if err != nil {
			return nil, err
		}
	}
	dir, err := os.MkdirTemp("", "c25-flush-")
	if err != nil {
		return nil, err
	}
	c := &c25Corpus{dir: dir, want: map[string]bool{}, perRepo: map[string]int{}, refs: map[string]*c25Observed{}}
	for i, sh := range shards {
		c25ShardPool[fmt.Sprintf("%d/%d/%d", f.Docs, f.DocKB, i)] = sh
		for _, name := range sh.files {
			c.want[name] = true
		}
		c.perRepo[sh.repo] = len(sh.files)
		if err := os.WriteFile(filepath.Join(dir, fmt.Sprintf("%s_v16.00000.zoekt", sh.repo)), sh.data, 0o644); err != nil {
			os.RemoveAll(dir)
			return nil, err
		}
	}
	ss, err := search.NewDirectorySearcher(dir)
	if err != nil {
		os.RemoveAll(dir)
		return nil, err
	}
	c.searcher = ss
	c.server = NewServer(ss)
	c25Cleanups = append(c25Cleanups, func() { ss.Close(); os.RemoveAll(dir) })
	c25Corpora[key] = c
	return c, nil
}

func (f *c25Flush) query() (query.Q, error) {
	if f.Regex {
		return query.Parse("nee+dle[0-9]")
	}
	return query.Parse("needle")
}

func (f *c25Flush) opts(flush time.Duration) *zoekt.SearchOptions {
	return &zoekt.SearchOptions{Whole: f.Whole, ChunkMatches: f.Chunks, FlushWallTime: flush}
}

// c25Serve runs the real handler against a slow client and reports what the
// client received.
func c25Serve(c *c25Corpus, q query.Q, opts *zoekt.SearchOptions, stalls []c25Stall) (*c25Observed, error) {
	stream := newC25SlowStream(stalls)
	req := &webserverv1.StreamSearchRequest{Request: &webserverv1.SearchRequest{Query: query.QToProto(q), Opts: opts.ToProto()}}
	errc := make(chan error, 1)
	go func() {
		err := kit.Guard(func() error { return c.server.StreamSearch(req, stream) })
		stream.handlerReturned()
		errc <- err
	}()
	select {
	case err := <-errc:
		if err != nil {
			return nil, kit.Fail("search-error", "StreamSearch: %v", err)
		}
	case <-time.After(120 * time.Second):
		return nil, kit.Fail("hang", "StreamSearch did not return within 120 s")
	}
	stream.mu.Lock()
	defer stream.mu.Unlock()
	if stream.fail != nil {
		return nil, stream.fail
	}
	o := &c25Observed{stats: map[string]int64{}, msgs: len(stream.msgs)}
	cur := -1          // index of the open file-carrying event
	curMarked := false // the open event (file-carrying or not) is a marked one
	filesBefore := 0   // file-carrying messages seen so far
	for i, m := range stream.msgs {
		if len(m.files) > 1 && m.total >= c25Budget {
			return nil, kit.Fail("budget", "message %d carries %d files with %d bytes in total (budget %d); only a single oversized file may exceed it", i, len(m.files), m.total, c25Budget)
		}
		c25AddStats(o.stats, m.stats, 1)
		if m.hasStats { // first message of an event
			cur = -1
			curMarked = m.stats.FlushReason != 0
			if curMarked {
				o.markedEvents++
				o.reason = m.stats.FlushReason
				if filesBefore > 0 {
					return nil, kit.Fail("file-order", "message %d is the flush of the collected results (FlushReason %s) but %d file-carrying message(s) were delivered before it: results produced after the flush point overtook the collected ones", i, m.stats.FlushReason, filesBefore)
				}
			}
		}
		if len(m.files) == 0 {
			continue
		}
		filesBefore++
		if cur < 0 {
			o.events = append(o.events, nil)
			cur = len(o.events) - 1
			if curMarked {
				o.marked = append(o.marked, cur)
			}
		} else if curMarked {
			o.multiChunk = true
		}
		if curMarked && m.stalled {
			o.stalledAgg = true
		}
		o.events[cur] = append(o.events[cur], m.files...)
	}
	return o, nil
}

type c25FlushFacts struct {
	timerMid, timerEnd, finalOnly, timerEarly, passThrough bool
	stalledAgg, multiChunk                                 bool
	files, msgs                                            int
}

func runC25Flush(f *c25Flush) (facts c25FlushFacts, err error) {
	c, err := c25GetCorpus(f)
	if err != nil {
		return facts, fmt.Errorf("building the shards: %v", err)
	}
	q, err := f.query()
	if err != nil {
		return facts, err
	}
	okey := fmt.Sprintf("%v/%v/%v", f.Whole, f.Chunks, f.Regex)
	ref := c.refs[okey]
	if ref == nil {
		// what the same search delivers without a flush window and with a
		// client that takes everything at once: one event per shard
		ref, err = c25Serve(c, q, f.opts(0), nil)
		if err != nil {
			return facts, err
		}
		seen := map[string]bool{}
		for _, ev := range ref.events {
			for _, name := range ev {
				if seen[name] || !c.want[name] {
					return facts, kit.Fail("file-set", "no flush window: file %s delivered twice or not a matching document", name)
				}
				seen[name] = true
			}
		}
		if len(seen) != len(c.want) || ref.markedEvents != 0 {
			return facts, kit.Fail("file-set", "no flush window: %d files delivered, %d documents match (%d flush-marked events)", len(seen), len(c.want), ref.markedEvents)
		}
		c.refs[okey] = ref
	}
	refEvent := map[string][]string{} // repository -> its files in the order the shard produced them
	for _, ev := range ref.events {
		repo := ev[0][:strings.IndexByte(ev[0], '/')]
		refEvent[repo] = append(refEvent[repo], ev...)
	}

	var flush time.Duration
	if f.TimerPermille > 0 {
		// steer the timer into the search: measure what this search takes right now
		t0 := time.Now()
		if err := c.searcher.StreamSearch(context.Background(), q, f.opts(0), zoekt.SenderFunc(func(*zoekt.SearchResult) {})); err != nil {
			return facts, kit.Fail("search-error", "StreamSearch: %v", err)
		}
		flush = time.Since(t0) * time.Duration(f.TimerPermille) / 1000
		if flush <= 0 {
			flush = 1
		}
	}
	got, err := c25Serve(c, q, f.opts(flush), f.Stalls)
	if err != nil {
		return facts, err
	}
	facts.msgs = got.msgs
	facts.stalledAgg = got.stalledAgg
	facts.multiChunk = got.multiChunk

	// every file exactly once
	seen := map[string]bool{}
	for _, ev := range got.events {
		for _, name := range ev {
			if seen[name] {
				return facts, kit.Fail("file-twice", "file %s delivered twice", name)
			}
			if !c.want[name] {
				return facts, kit.Fail("file-set", "file %s delivered but it is not a matching document", name)
			}
			seen[name] = true
		}
	}
	facts.files = len(seen)
	if len(seen) != len(c.want) {
		var missing []string
		for name := range c.want {
			if !seen[name] {
				missing = append(missing, name)
			}
		}
		sort.Strings(missing)
		return facts, kit.Fail("file-count", "%d documents match, %d files delivered before the handler returned; missing e.g. %s", len(c.want), len(seen), missing[0])
	}
	// the flush of the collected results comes at most once (and, checked in
	// c25Serve, before every other file); everything else is delivered shard
	// by shard exactly as produced
	if got.markedEvents > 1 {
		return facts, kit.Fail("flush-twice", "%d events carry a FlushReason", got.markedEvents)
	}
	if flush == 0 && got.markedEvents > 0 {
		return facts, kit.Fail("flush-unexpected", "FlushWallTime 0 but an event carries FlushReason %s", got.reason)
	}
	isMarked := map[int]bool{}
	for _, i := range got.marked {
		isMarked[i] = true
	}
	later := 0
	for i, ev := range got.events {
		if isMarked[i] {
			// ranked union of whole shard results
			n := map[string]int{}
			for _, name := range ev {
				n[name[:strings.IndexByte(name, '/')]]++
			}
			for repo, k := range n {
				if k != c.perRepo[repo] {
					return facts, kit.Fail("file-order", "the flushed aggregate holds %d of the %d files of %s; a shard's result is collected as a whole", k, c.perRepo[repo], repo)
				}
			}
			continue
		}
		later++
		repo := ev[0][:strings.IndexByte(ev[0], '/')]
		if !reflect.DeepEqual(ev, refEvent[repo]) {
			return facts, kit.Fail("file-order", "event %d delivers %v; shard %s produced %v", i, ev, repo, refEvent[repo])
		}
	}
	for _, name := range c25Additive {
		if c25FlushTimed[name] {
			continue
		}
		if got.stats[name] != ref.stats[name] {
			return facts, kit.Fail("stats", "Stats.%s: delivered messages sum to %d with FlushWallTime %v, to %d without a flush window", name, got.stats[name], flush, ref.stats[name])
		}
	}
	switch {
	case flush == 0:
		facts.passThrough = true
	case got.markedEvents == 0:
		facts.timerEarly = true
	case got.reason == zoekt.FlushReasonTimerExpired && later > 0:
		facts.timerMid = true
	case got.reason == zoekt.FlushReasonTimerExpired:
		facts.timerEnd = true
	default:
		facts.finalOnly = true
	}
	return facts, nil
}

// shards, matching documents per shard (shard i has 1 + i%docs), document
// size in KiB (x 1/4 .. 7/4). The last layout needs several messages for its
// aggregate when whole files are requested.
var c25Layouts = [][3]int{{2, 3, 24}, {4, 3, 24}, {8, 3, 24}, {3, 2, 200}}

func c25GenFlush(rt *rapid.T) *c25Flush {
	f := &c25Flush{}
	// a handful of layouts (each is built once and kept open; a shard build costs ~60 ms)
	lay := c25Pick(rt, c25Layouts, "layout")
	f.Shards, f.Docs, f.DocKB = lay[0], lay[1], lay[2]
	f.Whole = c25U(rt, 3, "whole") == 0
	if f.DocKB >= 200 && c25U(rt, 2, "wholebig") == 0 {
		f.Whole = true
	}
	f.Chunks = c25U(rt, 3, "chunks") == 0
	f.Regex = c25U(rt, 3, "regex") == 0
	switch c25U(rt, 10, "timer") {
	case 0:
		f.TimerPermille = 0
	case 1:
		f.TimerPermille = 1000 + c25U(rt, 1000, "permille")
	default:
		f.TimerPermille = 50 + c25U(rt, 800, "permille")
	}
	hold := func() int { return c25Pick(rt, []int{2, 5, 10, 25}, "hold") }
	switch c25U(rt, 10, "stalls") {
	case 0:
	case 1:
		f.Stalls = []c25Stall{{Msg: 1, HoldMS: hold()}}
	case 2:
		f.Stalls = []c25Stall{{Msg: 0, HoldMS: hold()}, {Msg: 1 + c25U(rt, 3, "msg"), HoldMS: hold()}}
	default:
		f.Stalls = []c25Stall{{Msg: 0, HoldMS: hold()}}
	}
	return f
}

// ---------------------------------------------------------------- generator

// c25U draws a uniform integer in [0,n) from coin flips (rapid's integer
// generators favour small values, which is wrong for "x% of the cases").
func c25U(rt *rapid.T, n int, label string) int {
	if n <= 1 {
		return 0
	}
	bits := 0
	for 1<<bits < n {
		bits++
	}
	bits += 3
	v := 0
	for i := 0; i < bits; i++ {
		if rapid.Bool().Draw(rt, label) {
			v |= 1 << i
		}
	}
	return v * n >> bits
}

func c25Pick[T any](rt *rapid.T, xs []T, label string) T { return xs[c25U(rt, len(xs), label)] }

var c25Additive = func() []string {
	var out []string
	for _, n := range c25StatsFields {
		if !c25NonAdditive[n] {
			out = append(out, n)
		}
	}
	sort.Strings(out)
	return out
}()

func c25GenStats(rt *rapid.T) map[string]int64 {
	m := map[string]int64{}
	switch c25U(rt, 10, "statskind") {
	case 0:
		return nil // all zero
	case 1, 2, 3:
		// a single counter
		m[c25Pick(rt, c25Additive, "field")] = int64(rapid.IntRange(1, 1000).Draw(rt, "val"))
	case 4:
		// every counter
		for _, n := range c25Additive {
			m[n] = int64(rapid.IntRange(1, 1000000).Draw(rt, "val"))
		}
	default:
		k := rapid.IntRange(2, 6).Draw(rt, "nfields")
		for i := 0; i < k; i++ {
			m[c25Pick(rt, c25Additive, "field")] = int64(rapid.IntRange(1, 5000).Draw(rt, "val"))
		}
	}
	// the non-additive ones vary freely
	if c25U(rt, 3, "dur") == 0 {
		m["Duration"] = int64(rapid.IntRange(1, int(time.Second)).Draw(rt, "duration"))
	}
	if c25U(rt, 4, "fr") == 0 {
		m["FlushReason"] = int64(c25Pick(rt, []zoekt.FlushReason{zoekt.FlushReasonTimerExpired, zoekt.FlushReasonFinalFlush, zoekt.FlushReasonMaxSize}, "flushreason"))
	}
	return m
}

var c25BigSizes = []int{
	c25Budget/2 - 100, c25Budget/2 - 20, c25Budget / 2, c25Budget/3 + 7, c25Budget - 4096, c25Budget - 64, c25Budget - 30, c25Budget - 10,
	c25Budget, c25Budget + 1, c25Budget + 5000, 3 * c25Budget / 2, 2 * c25Budget,
}

func c25GenCase(rt *rapid.T) c25Case {
	var c c25Case
	if c25U(rt, 100, "flushcase") < c25FlushPercent {
		c.Flush = c25GenFlush(rt)
		return c
	}
	n := rapid.IntRange(1, 14).Draw(rt, "groups")
	bulk := 0
	for i := 0; i < n; i++ {
		ev := c25Event{Repeat: 1}
		ev.Priority = float64(rapid.IntRange(-3, 50).Draw(rt, "prio"))
		ev.MaxPend = float64(rapid.IntRange(-3, 50).Draw(rt, "maxpend"))
		kind := c25U(rt, 100, "kind")
		switch {
		case kind < 45: // stats-only run
			ev.Stats = c25GenStats(rt)
			switch c25U(rt, 8, "replen") {
			case 0, 1:
				ev.Repeat = 1
			case 2:
				ev.Repeat = rapid.IntRange(2, 98).Draw(rt, "rep")
			case 3, 4:
				ev.Repeat = c25Pick(rt, []int{99, 100, 101, 199, 200, 201}, "rep")
			default:
				ev.Repeat = rapid.IntRange(100, 350).Draw(rt, "rep")
			}
		default: // event with files
			ev.Stats = c25GenStats(rt)
			nf := 1
			switch c25U(rt, 4, "nfk") {
			case 0:
				nf = 1
			case 1, 2:
				nf = rapid.IntRange(2, 8).Draw(rt, "nf")
			default:
				nf = rapid.IntRange(9, 60).Draw(rt, "nf")
			}
			for j := 0; j < nf; j++ {
				f := c25File{}
				sk := c25U(rt, 100, "sizek")
				switch {
				case sk < 55:
					f.Size = rapid.IntRange(1, 4000).Draw(rt, "size")
				case sk < 75:
					f.Size = rapid.IntRange(4001, 300000).Draw(rt, "size")
				case sk < 90:
					f.Size = c25Pick(rt, c25BigSizes, "size")
				default:
					f.Size = rapid.IntRange(300001, 2<<20).Draw(rt, "size")
				}
				if bulk+f.Size > 8<<20 { // keep a case below ~8 MiB of content
					f.Size = rapid.IntRange(1, 200).Draw(rt, "size")
				}
				bulk += f.Size
				if c25U(rt, 5, "lines") == 0 {
					f.Lines = rapid.IntRange(1, 20).Draw(rt, "nlines")
				}
				ev.Files = append(ev.Files, f)
			}
		}
		c.Events = append(c.Events, ev)
	}
	return c
}

// c25FlushPercent of the cases are end-to-end flush cases.
const c25FlushPercent = 8

func c25FlushCase(rec *kit.Recorder, c c25Case) error {
	facts, err := runC25Flush(c.Flush)
	var labels []string
	add := func(b bool, l string) {
		if b {
			labels = append(labels, l)
		}
	}
	labels = append(labels, "flush-case")
	add(facts.timerMid, "flush:timer-expired-while-shards-still-produce")
	add(facts.timerEnd, "flush:timer-expired-after-last-result")
	add(facts.finalOnly, "flush:final-flush-only")
	add(facts.timerEarly, "flush:timer-expired-before-first-result")
	add(facts.passThrough, "flush:no-window")
	add(facts.stalledAgg, "flush:slow-client-stalls-the-aggregate")
	add(facts.timerMid && facts.stalledAgg, "flush:result-produced-while-aggregate-is-being-delivered")
	add(facts.multiChunk, "flush:aggregate-split-into-chunks")
	nt := facts.timerMid && facts.stalledAgg
	b, _ := json.Marshal(c)
	rec.Eval(string(b), nt, labels...)
	rec.Add("flush_files_delivered", facts.files)
	rec.Add("flush_messages_received", facts.msgs)
	rec.Sample(c, nt)
	return err
}

func TestVerif_C25(t *testing.T) {
	t.Cleanup(c25CloseAll)
	rec := kit.Open(t, "C25",
		"two kinds of rapid-generated cases. (a) 92%: sequences of 1-14 event groups pushed through newSamplingSender -> gRPCChunkSender -> a fake stream that marshals and unmarshals every message at Send, then sampler.Flush(): stats-only events (all-zero, one counter, several, all counters) repeated 1-350 times, and events with 1-60 files of 1 B - 2 MiB (many sizes at 1/3, 1/2 and 1x the 1 MiB chunk budget +- a few bytes). Non-trivial: the sequence has both stats-only and file events and the stream produced >= 2 messages. (b) 8% 'flush cases', end to end: Server.StreamSearch over search.NewDirectorySearcher on 2-8 real simple shards of different cost (1-3 matching documents each, 6-350 KiB; substring or regexp query; Whole / ChunkMatches options), with SearchOptions.FlushWallTime placed at 5-85% (sometimes 100-200%, sometimes 0 = no window) of the wall time the same search has just taken, so that the flush timer expires while shards are still producing, and a slow client: Send on the fake stream blocks under the harness's control on chosen file-carrying messages (the first one = the flushed aggregate, and/or a later one) for up to 2-25 ms or until the handler returns or another Send shows up. Non-trivial flush case: the timer expired in mid-search (results followed the aggregate) and the aggregate's delivery was stalled. Distinct by hash of the JSON case",
		"counters are non-negative (Stats.Zero and the sampler test them with > 0); the search succeeded, so Flush is called as Server.StreamSearch does",
		"Stats.Duration and Stats.FlushReason are excluded from conservation: Stats.Add leaves Duration out and keeps the first non-zero FlushReason; every other field of zoekt.Stats (enumerated by reflection) must be conserved",
		"budget: sum of proto.Size over the files of one message < 1 MiB (grpc/chunk.maxMessageSize) unless the message carries a single file",
		"flush cases: a message counts as delivered when Send returns. Oracle, valid for every schedule: no Send begins while another is in progress, none begins or is still in progress when the handler has returned; every matching document is delivered exactly once; at most one event carries a FlushReason and no file precedes it; that event is a union of whole shard results, every other file event is exactly one shard's result in the order the shard produced it (taken from the same search without a flush window); the per-message budget; every counter of zoekt.Stats except the wall-clock ones (Duration, Wait, MatchTreeConstruction, MatchTreeSearch) sums to the same value as without a flush window. No display or match limits (all files are expected). Where the timer falls relative to the shard results depends on the wall clock: it only decides which labelled class a case lands in, never the verdict",
	)
	rec.Set("stats_fields_checked", c25Additive)
	kit.Property(t, rec, c25GenCase, func(c c25Case) error {
		if c.Flush != nil {
			return c25FlushCase(rec, c)
		}
		facts, err := runC25(c)
		var labels []string
		add := func(b bool, l string) {
			if b {
				labels = append(labels, l)
			}
		}
		add(facts.run100, "run>=100-stats-only")
		add(facts.oversized, "oversized-file")
		add(facts.finalFlush, "final-flush-sent")
		add(facts.multiChunk, "event-split-into-chunks")
		add(facts.mergedIntoFiles, "aggregate-merged-into-file-event")
		add(facts.emptyFirstChunk, "empty-first-chunk-before-oversized")
		add(facts.statsOnly > 0, "has-stats-only-events")
		add(facts.withF > 0, "has-file-events")
		add(facts.files == 0, "no-files-at-all")
		nt := facts.statsOnly > 0 && facts.withF > 0 && facts.msgs >= 2
		b, _ := json.Marshal(c)
		rec.Eval(string(b), nt, labels...)
		rec.Add("events_sent", facts.statsOnly+facts.withF)
		rec.Add("files_sent", facts.files)
		rec.Add("messages_received", facts.msgs)
		rec.Sample(c, nt && facts.files < 6)
		return err
	})
}
