//go:build verif

package server

// C25: when results are streamed to a gRPC client, every file match produced
// by the shards is delivered exactly once and in the order produced, messages
// stay within the size budget unless a single file exceeds it, and for every
// statistics counter the sum over delivered messages equals the sum over the
// produced results.
//
// The real pipeline of Server.StreamSearch is assembled by hand
//   newSamplingSender(gRPCChunkSender(stream))  ...events...  sampler.Flush()
// over a fake grpc stream that serialises every message at Send (the chunker
// reuses its buffer, exactly what a real transport protects the client from).

import (
	"context"
	"encoding/json"
	"fmt"
	"reflect"
	"sort"
	"testing"
	"time"

	"google.golang.org/grpc"
	"google.golang.org/protobuf/proto"
	"pgregory.net/rapid"

	"github.com/sourcegraph/zoekt"
	webserverv1 "github.com/sourcegraph/zoekt/grpc/protos/zoekt/webserver/v1"
	"github.com/sourcegraph/zoekt/internal/verifkit/kit"
)

// c25Budget mirrors grpc/chunk.maxMessageSize (unexported): the chunker sends
// the pending chunk before adding an item that would bring it to >= 1 MiB.
const c25Budget = 1 << 20

// Stats fields that zoekt.Stats.Add deliberately does not sum: Duration is a
// wall-clock time (Add leaves it out), FlushReason is a sticky enum ("first
// non-zero wins"). Every other numeric field must be conserved.
var c25NonAdditive = map[string]bool{"Duration": true, "FlushReason": true}

type c25File struct {
	// Size is the length of the Content field; the serialised FileMatch is a
	// few dozen bytes larger.
	Size int
	// Lines adds that many small line matches (structure, not only bulk).
	Lines int `json:",omitempty"`
}

type c25Event struct {
	// Files empty = a stats-only event.
	Files []c25File `json:",omitempty"`
	// Stats holds the non-zero numeric fields of zoekt.Stats by field name.
	Stats map[string]int64 `json:",omitempty"`
	// Repeat sends the event that many times (runs of stats-only events).
	Repeat   int
	Priority float64
	MaxPend  float64
}

type c25Case struct {
	Events []c25Event
}

// ---------------------------------------------------------------- fake stream

// c25Msg is what the client would hold after receiving one message: copied
// out of the message while Send runs, because the chunker reuses its buffer
// once Send returns.
type c25Msg struct {
	files    []string
	sizes    []int
	stats    zoekt.Stats
	hasStats bool
}

type c25Stream struct {
	grpc.ServerStream // nil: only Send and Context are used by the pipeline
	msgs              []c25Msg
	buf               []byte
	err               error
}

func (s *c25Stream) Context() context.Context { return context.Background() }

func (s *c25Stream) Send(m *webserverv1.StreamSearchResponse) error {
	// serialise, as the transport would (into a reused buffer)
	b, err := proto.MarshalOptions{}.MarshalAppend(s.buf[:0], m)
	if err != nil {
		s.err = fmt.Errorf("message %d is not serialisable: %v", len(s.msgs), err)
		return err
	}
	s.buf = b
	chunk := m.GetResponseChunk()
	msg := c25Msg{hasStats: chunk.GetStats() != nil, stats: zoekt.StatsFromProto(chunk.GetStats())}
	for _, f := range chunk.GetFiles() {
		msg.files = append(msg.files, string(f.GetFileName()))
		msg.sizes = append(msg.sizes, proto.Size(f))
	}
	s.msgs = append(s.msgs, msg)
	return nil
}

// ---------------------------------------------------------------- stats by reflection

var c25StatsFields = func() []string {
	var out []string
	t := reflect.TypeOf(zoekt.Stats{})
	for i := 0; i < t.NumField(); i++ {
		switch t.Field(i).Type.Kind() {
		case reflect.Int, reflect.Int8, reflect.Int16, reflect.Int32, reflect.Int64,
			reflect.Uint, reflect.Uint8, reflect.Uint16, reflect.Uint32, reflect.Uint64, reflect.Float32, reflect.Float64:
			out = append(out, t.Field(i).Name)
		default:
			panic("zoekt.Stats has a non-numeric field " + t.Field(i).Name + ": extend the C25 harness")
		}
	}
	return out
}()

func c25MakeStats(m map[string]int64) zoekt.Stats {
	var s zoekt.Stats
	v := reflect.ValueOf(&s).Elem()
	for name, x := range m {
		f := v.FieldByName(name)
		if !f.IsValid() {
			continue // replay file from an older tree
		}
		switch f.Kind() {
		case reflect.Uint, reflect.Uint8, reflect.Uint16, reflect.Uint32, reflect.Uint64:
			f.SetUint(uint64(x))
		case reflect.Float32, reflect.Float64:
			f.SetFloat(float64(x))
		default:
			f.SetInt(x)
		}
	}
	return s
}

func c25AddStats(sum map[string]int64, s zoekt.Stats, times int64) {
	v := reflect.ValueOf(s)
	for _, name := range c25StatsFields {
		f := v.FieldByName(name)
		var x int64
		switch f.Kind() {
		case reflect.Uint, reflect.Uint8, reflect.Uint16, reflect.Uint32, reflect.Uint64:
			x = int64(f.Uint())
		case reflect.Float32, reflect.Float64:
			x = int64(f.Float())
		default:
			x = f.Int()
		}
		sum[name] += x * times
	}
}

// ---------------------------------------------------------------- run

var c25Zeros = make([]byte, 2<<20)

type c25Facts struct {
	files, msgs      int
	run100           bool // >= 100 consecutive stats-only events
	oversized        bool // a file whose serialised size alone reaches the budget
	finalFlush       bool // Flush had aggregated stats to send
	multiChunk       bool // one event was split over several messages
	mergedIntoFiles  bool // aggregated stats rode along with a file event
	emptyFirstChunk  bool
	statsOnly, withF int
}

func runC25(c c25Case) (facts c25Facts, err error) {
	stream := &c25Stream{}
	sampler := newSamplingSender(gRPCChunkSender(stream))

	produced := map[string]int64{}
	var producedFiles []string
	nextID := 0
	runLen := 0
	pendingAgg := false
	for _, ev := range c.Events {
		rep := ev.Repeat
		if rep < 1 {
			rep = 1
		}
		if len(ev.Files) > 0 {
			rep = 1
		}
		st := c25MakeStats(ev.Stats)
		for r := 0; r < rep; r++ {
			sr := &zoekt.SearchResult{
				Stats:    st,
				Progress: zoekt.Progress{Priority: ev.Priority, MaxPendingPriority: ev.MaxPend},
			}
			for _, f := range ev.Files {
				name := fmt.Sprintf("f%06d", nextID)
				nextID++
				fm := zoekt.FileMatch{
					FileName:   name,
					Repository: "r",
					Content:    c25Zeros[:f.Size], // shared, never written
				}
				for l := 0; l < f.Lines; l++ {
					fm.LineMatches = append(fm.LineMatches, zoekt.LineMatch{Line: []byte("line"), LineNumber: l + 1,
						LineFragments: []zoekt.LineFragmentMatch{{LineOffset: 0, MatchLength: 4}}})
				}
				if proto.Size(fm.ToProto()) >= c25Budget {
					facts.oversized = true
				}
				sr.Files = append(sr.Files, fm)
				producedFiles = append(producedFiles, name)
			}
			c25AddStats(produced, st, 1)
			if len(sr.Files) == 0 {
				facts.statsOnly++
				runLen++
				if runLen >= 100 {
					facts.run100 = true
				}
				if !st.Zero() {
					pendingAgg = true
				}
				if runLen%100 == 0 {
					pendingAgg = false // informative only; exact bookkeeping is the code under test
				}
			} else {
				facts.withF++
				runLen = 0
				if pendingAgg {
					facts.mergedIntoFiles = true
				}
				pendingAgg = false
			}
			before := len(stream.msgs)
			sampler.Send(sr)
			if len(sr.Files) > 0 && len(stream.msgs)-before > 1 {
				facts.multiChunk = true
			}
		}
	}
	before := len(stream.msgs)
	sampler.Flush() // Server.StreamSearch does this when the search returned no error
	facts.finalFlush = len(stream.msgs) > before

	if stream.err != nil {
		return facts, kit.Fail("send-error", "%v", stream.err)
	}

	// oracle 1: files delivered once, in order
	var delivered []string
	got := map[string]int64{}
	for i, m := range stream.msgs {
		total := 0
		for j, f := range m.files {
			delivered = append(delivered, f)
			total += m.sizes[j]
		}
		// oracle 2: size budget
		if len(m.files) > 1 && total >= c25Budget {
			return facts, kit.Fail("budget", "message %d carries %d files with %d bytes in total (budget %d); only a single oversized file may exceed it", i, len(m.files), total, c25Budget)
		}
		if len(m.files) == 0 && m.hasStats && i+1 < len(stream.msgs) && len(stream.msgs[i+1].files) > 0 && !stream.msgs[i+1].hasStats {
			facts.emptyFirstChunk = true
		}
		c25AddStats(got, m.stats, 1)
	}
	facts.files = len(producedFiles)
	facts.msgs = len(stream.msgs)
	if len(delivered) != len(producedFiles) {
		return facts, kit.Fail("file-count", "%d files produced, %d delivered (first difference: %s)", len(producedFiles), len(delivered), c25FirstDiff(producedFiles, delivered))
	}
	for i := range producedFiles {
		if producedFiles[i] != delivered[i] {
			return facts, kit.Fail("file-order", "position %d: produced %s, delivered %s", i, producedFiles[i], delivered[i])
		}
	}
	// oracle 3: every additive counter is conserved
	for _, name := range c25StatsFields {
		if c25NonAdditive[name] {
			continue
		}
		if produced[name] != got[name] {
			return facts, kit.Fail("stats", "Stats.%s: produced events sum to %d, delivered messages sum to %d (%d events, %d messages)", name, produced[name], got[name], facts.statsOnly+facts.withF, len(stream.msgs))
		}
	}
	return facts, nil
}

func c25FirstDiff(a, b []string) string {
	for i := 0; i < len(a) || i < len(b); i++ {
		var x, y string
		if i < len(a) {
			x = a[i]
		}
		if i < len(b) {
			y = b[i]
		}
		if x != y {
			return fmt.Sprintf("position %d: produced %q delivered %q", i, x, y)
		}
	}
	return "none"
}

// ---------------------------------------------------------------- generator

// c25U draws a uniform integer in [0,n) from coin flips (rapid's integer
// generators favour small values, which is wrong for "x% of the cases").
func c25U(rt *rapid.T, n int, label string) int {
	if n <= 1 {
		return 0
	}
	bits := 0
	for 1<<bits < n {
		bits++
	}
	bits += 3
	v := 0
	for i := 0; i < bits; i++ {
		if rapid.Bool().Draw(rt, label) {
			v |= 1 << i
		}
	}
	return v * n >> bits
}

func c25Pick[T any](rt *rapid.T, xs []T, label string) T { return xs[c25U(rt, len(xs), label)] }

var c25Additive = func() []string {
	var out []string
	for _, n := range c25StatsFields {
		if !c25NonAdditive[n] {
			out = append(out, n)
		}
	}
	sort.Strings(out)
	return out
}()

func c25GenStats(rt *rapid.T) map[string]int64 {
	m := map[string]int64{}
	switch c25U(rt, 10, "statskind") {
	case 0:
		return nil // all zero
	case 1, 2, 3:
		// a single counter
		m[c25Pick(rt, c25Additive, "field")] = int64(rapid.IntRange(1, 1000).Draw(rt, "val"))
	case 4:
		// every counter
		for _, n := range c25Additive {
			m[n] = int64(rapid.IntRange(1, 1000000).Draw(rt, "val"))
		}
	default:
		k := rapid.IntRange(2, 6).Draw(rt, "nfields")
		for i := 0; i < k; i++ {
			m[c25Pick(rt, c25Additive, "field")] = int64(rapid.IntRange(1, 5000).Draw(rt, "val"))
		}
	}
	// the non-additive ones vary freely
	if c25U(rt, 3, "dur") == 0 {
		m["Duration"] = int64(rapid.IntRange(1, int(time.Second)).Draw(rt, "duration"))
	}
	if c25U(rt, 4, "fr") == 0 {
		m["FlushReason"] = int64(c25Pick(rt, []zoekt.FlushReason{zoekt.FlushReasonTimerExpired, zoekt.FlushReasonFinalFlush, zoekt.FlushReasonMaxSize}, "flushreason"))
	}
	return m
}

var c25BigSizes = []int{
	c25Budget/2 - 100, c25Budget/2 - 20, c25Budget / 2, c25Budget/3 + 7, c25Budget - 4096, c25Budget - 64, c25Budget - 30, c25Budget - 10,
	c25Budget, c25Budget + 1, c25Budget + 5000, 3 * c25Budget / 2, 2 * c25Budget,
}

func c25GenCase(rt *rapid.T) c25Case {
	var c c25Case
	n := rapid.IntRange(1, 14).Draw(rt, "groups")
	bulk := 0
	for i := 0; i < n; i++ {
		ev := c25Event{Repeat: 1}
		ev.Priority = float64(rapid.IntRange(-3, 50).Draw(rt, "prio"))
		ev.MaxPend = float64(rapid.IntRange(-3, 50).Draw(rt, "maxpend"))
		kind := c25U(rt, 100, "kind")
		switch {
		case kind < 45: // stats-only run
			ev.Stats = c25GenStats(rt)
			switch c25U(rt, 8, "replen") {
			case 0, 1:
				ev.Repeat = 1
			case 2:
				ev.Repeat = rapid.IntRange(2, 98).Draw(rt, "rep")
			case 3, 4:
				ev.Repeat = c25Pick(rt, []int{99, 100, 101, 199, 200, 201}, "rep")
			default:
				ev.Repeat = rapid.IntRange(100, 350).Draw(rt, "rep")
			}
		default: // event with files
			ev.Stats = c25GenStats(rt)
			nf := 1
			switch c25U(rt, 4, "nfk") {
			case 0:
				nf = 1
			case 1, 2:
				nf = rapid.IntRange(2, 8).Draw(rt, "nf")
			default:
				nf = rapid.IntRange(9, 60).Draw(rt, "nf")
			}
			for j := 0; j < nf; j++ {
				f := c25File{}
				sk := c25U(rt, 100, "sizek")
				switch {
				case sk < 55:
					f.Size = rapid.IntRange(1, 4000).Draw(rt, "size")
				case sk < 75:
					f.Size = rapid.IntRange(4001, 300000).Draw(rt, "size")
				case sk < 90:
					f.Size = c25Pick(rt, c25BigSizes, "size")
				default:
					f.Size = rapid.IntRange(300001, 2<<20).Draw(rt, "size")
				}
				if bulk+f.Size > 8<<20 { // keep a case below ~8 MiB of content
					f.Size = rapid.IntRange(1, 200).Draw(rt, "size")
				}
				bulk += f.Size
				if c25U(rt, 5, "lines") == 0 {
					f.Lines = rapid.IntRange(1, 20).Draw(rt, "nlines")
				}
				ev.Files = append(ev.Files, f)
			}
		}
		c.Events = append(c.Events, ev)
	}
	return c
}

func TestVerif_C25(t *testing.T) {
	rec := kit.Open(t, "C25",
		"rapid-generated sequences of 1-14 event groups pushed through newSamplingSender -> gRPCChunkSender -> a fake stream that marshals and unmarshals every message at Send, then sampler.Flush(): stats-only events (all-zero, one counter, several, all counters) repeated 1-350 times, and events with 1-60 files of 1 B - 2 MiB (many sizes at 1/3, 1/2 and 1x the 1 MiB chunk budget +- a few bytes). Non-trivial: the sequence has both stats-only and file events and the stream produced >= 2 messages. Distinct by hash of the JSON case",
		"counters are non-negative (Stats.Zero and the sampler test them with > 0); the search succeeded, so Flush is called as Server.StreamSearch does",
		"Stats.Duration and Stats.FlushReason are excluded from conservation: Stats.Add leaves Duration out and keeps the first non-zero FlushReason; every other field of zoekt.Stats (enumerated by reflection) must be conserved",
		"budget: sum of proto.Size over the files of one message < 1 MiB (grpc/chunk.maxMessageSize) unless the message carries a single file",
	)
	rec.Set("stats_fields_checked", c25Additive)
	kit.Property(t, rec, c25GenCase, func(c c25Case) error {
		facts, err := runC25(c)
		var labels []string
		add := func(b bool, l string) {
			if b {
				labels = append(labels, l)
			}
		}
		add(facts.run100, "run>=100-stats-only")
		add(facts.oversized, "oversized-file")
		add(facts.finalFlush, "final-flush-sent")
		add(facts.multiChunk, "event-split-into-chunks")
		add(facts.mergedIntoFiles, "aggregate-merged-into-file-event")
		add(facts.emptyFirstChunk, "empty-first-chunk-before-oversized")
		add(facts.statsOnly > 0, "has-stats-only-events")
		add(facts.withF > 0, "has-file-events")
		add(facts.files == 0, "no-files-at-all")
		nt := facts.statsOnly > 0 && facts.withF > 0 && facts.msgs >= 2
		b, _ := json.Marshal(c)
		rec.Eval(string(b), nt, labels...)
		rec.Add("events_sent", facts.statsOnly+facts.withF)
		rec.Add("files_sent", facts.files)
		rec.Add("messages_received", facts.msgs)
		rec.Sample(c, nt && facts.files < 6)
		return err
	})
}
