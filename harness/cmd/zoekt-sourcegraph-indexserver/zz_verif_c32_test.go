//go:build verif

package main

// C32: cleanup never loses an assigned repository.
//
// A case describes an index directory (simple shards, compound shards with
// per-member tombstones, a .trash directory with dated entries, temp files),
// and 1-3 rounds of (assigned set, how far the clock moved). The directory is
// materialised from a pool of pre-built tiny shards, cleanup() is called with
// a harness-owned `now`, and the four clauses of the property are checked over
// an inventory (repository -> where it lives) taken before and after every
// round with an independent directory reader.
//
// Two further dimensions: the shards in the index carry generated mtimes (3h
// to 3 days old: a repository indexed long ago), and the harness keeps its
// own record of when a shard entered the trash, so "older than 24 hours" is
// judged over the history and not only over the mtimes cleanup itself writes;
// repository names come in look-alike styles (containing "compound-", starting
// with "compound", containing "_v16" / ".zoekt", host/path names that are
// escaped in the shard file name).

import (
	"bytes"
	"crypto/sha1"
	"encoding/json"
	"fmt"
	"net/url"
	"os"
	"path/filepath"
	"sort"
	"strings"
	"sync"
	"testing"
	"time"

	"pgregory.net/rapid"

	"github.com/sourcegraph/zoekt"
	"github.com/sourcegraph/zoekt/index"
	"github.com/sourcegraph/zoekt/internal/verifkit/kit"
)

type c32Simple struct {
	ID   uint32
	Name string
	N    int  // shard number in the file name
	Meta bool `json:",omitempty"` // has a .meta sidecar
	// AgeMin: mtime of the shard = first now - AgeMin minutes (when it was
	// last indexed); 0 = the default of 3 hours.
	AgeMin int `json:",omitempty"`
}

type c32Trash struct {
	ID     uint32
	Name   string
	N      int
	AgeMin int // mtime = first now - AgeMin minutes (negative: in the future)
}

type c32Compound struct {
	Pool int      // which pre-built compound shard
	Tomb []uint32 `json:",omitempty"` // members tombstoned in the sidecar
}

type c32Round struct {
	Assigned   []uint32
	AdvanceMin int // minutes the clock moved since the previous round
}

type c32Case struct {
	ShardMerging bool
	// Overlap keeps a repository alive in a compound shard although it is also
	// alive in simple shards: the directory a crash leaves between writing the
	// new shards and tombstoning / deleting the old ones (Builder.Finish,
	// zoekt-merge-index).
	Overlap  bool          `json:",omitempty"`
	Simple   []c32Simple   `json:",omitempty"`
	Trash    []c32Trash    `json:",omitempty"`
	Compound []c32Compound `json:",omitempty"`
	Tmp      []string      `json:",omitempty"`
	Rounds   []c32Round
}

const c32MaxID = 7

// c32NameReuse widens the generator to directories in which two different
// repository ids use the same repository name (index vs trash), i.e. map to
// the same shard file name. cleanup.go is known to overwrite one with the
// other there (finding c32KnownNameReuse); off by default.
var c32NameReuse = os.Getenv("VERIF_C32_NAME_REUSE") == "1"

const c32KnownNameReuse = "C32-shard-file-name-shared-by-two-ids"

var c32Epoch = time.Date(2024, 3, 10, 12, 0, 0, 0, time.UTC)

// members of the pre-built compound shards (repository 3 and 5 occur twice)
var c32PoolMembers = [][]uint32{{1, 2, 3}, {3, 4, 5}, {5, 6}, {1, 2, 4}}

func c32Name(id uint32) string { return fmt.Sprintf("r%d", id) }

// c32CompoundPrefix widens the generator to repositories whose name starts
// with "compound-": their SIMPLE shards are called compound-..._v16.00000.zoekt
// and cleanup.go, which recognises compound shards by that file name prefix,
// deletes / tombstones them instead of moving them (finding
// c32KnownCompoundPrefix, listed in known_findings.json); on by default,
// VERIF_C32_COMPOUND_PREFIX=0 leaves them out.
var c32CompoundPrefix = os.Getenv("VERIF_C32_COMPOUND_PREFIX") != "0"

const c32KnownCompoundPrefix = "C32-repository-name-starts-with-compound-dash"

// c32NameStyles are the look-alike styles a repository's name is drawn from.
// The pre-built compound shards always use the plain style for their members.
var c32NameStyles = []string{
	"plain",             // r3
	"host-path",         // github.com/acme/r3 (escaped in the file name)
	"contains-compound", // github.com/acme/compound-r3
	"infix-compound",    // x-compound-r3 (no escaping needed)
	"starts-compound",   // compoundr3
	"starts-compound_",  // compound_r3
	"contains-_v16",     // r3_v16
	"contains-.zoekt",   // r3.zoekt
	"shard-like",        // r3_v16.00000.zoekt
	"compound-prefix",   // compound-r3 (known finding; not with VERIF_C32_COMPOUND_PREFIX=0)
}

func c32StyledName(style string, id uint32) string {
	r := c32Name(id)
	switch style {
	case "host-path":
		return "github.com/acme/" + r
	case "contains-compound":
		return "github.com/acme/compound-" + r
	case "infix-compound":
		return "x-compound-" + r
	case "starts-compound":
		return "compound" + r
	case "starts-compound_":
		return "compound_" + r
	case "contains-_v16":
		return r + fmt.Sprintf("_v%d", index.IndexFormatVersion)
	case "contains-.zoekt":
		return r + ".zoekt"
	case "shard-like":
		return r + fmt.Sprintf("_v%d.00000.zoekt", index.IndexFormatVersion)
	case "compound-prefix":
		return "compound-" + r
	}
	return r
}

// c32NameStyle classifies a repository name (for labels and the recogniser of
// the compound-prefix finding).
func c32NameStyle(name string) string {
	switch {
	case strings.HasPrefix(name, "compound-"):
		return "compound-prefix"
	case strings.Contains(name, "compound-"):
		return "contains-compound-"
	case strings.HasPrefix(name, "compound"):
		return "starts-compound"
	case strings.Contains(name, ".zoekt") || strings.Contains(name, "_v1"):
		return "shard-file-like"
	case strings.Contains(name, "/"):
		return "host-path"
	}
	return "plain"
}

func genC32(rt *rapid.T) c32Case {
	g := kit.G{T: rt}
	c := c32Case{ShardMerging: g.Int(0, 9, "merging") >= 2}
	styles := c32NameStyles[:len(c32NameStyles)-1]
	if c32CompoundPrefix {
		styles = c32NameStyles
	}
	// when each shard of the index was last written (its mtime)
	indexAges := []int{180, 180, 180, 1, 23 * 60, 24 * 60, 24*60 + 1, 30 * 60, 72 * 60, 72 * 60}
	for id := uint32(1); id <= c32MaxID; id++ {
		// the repository's name: plain in half of the cases, else a look-alike
		base := c32Name(id)
		if g.Int(0, 9, "styled") >= 5 {
			base = c32StyledName(kit.Pick(g, styles[1:], "namestyle"), id)
		}
		name := func(id uint32) string {
			switch v := g.Int(0, 19, "namekind"); {
			case v == 7 || v == 8 || v == 9:
				return base + "x" // renamed
			case v == 13 && c32NameReuse:
				return c32Name(id%c32MaxID + 1) // the name of another repository id
			default:
				return base
			}
		}
		age := kit.Pick(g, indexAges, "indexage")
		// index placement
		switch g.Int(0, 9, "index") {
		case 0, 1: // absent
		case 2, 3:
			c.Simple = append(c.Simple, c32Simple{ID: id, Name: name(id), N: 0, Meta: g.Int(0, 9, "meta") == 5, AgeMin: age})
		case 4: // two shards, possibly written at different times
			n := name(id)
			c.Simple = append(c.Simple, c32Simple{ID: id, Name: n, N: 0, AgeMin: age}, c32Simple{ID: id, Name: n, N: 1, AgeMin: kit.Pick(g, indexAges, "indexage2")})
		case 5: // renamed: two shards, two names
			c.Simple = append(c.Simple, c32Simple{ID: id, Name: base, N: 0, AgeMin: age}, c32Simple{ID: id, Name: base + "x", N: 0, AgeMin: kit.Pick(g, indexAges, "indexage2")})
		default: // left to the compound shards (if any)
		}
		// trash placement
		ages := []int{60, 25 * 60, 24 * 60, 24*60 + 1, 24*60 - 1, -60, 5, 47 * 60, 23 * 60}
		switch g.Int(0, 7, "trash") {
		case 0, 1, 2, 3:
		case 4, 5:
			c.Trash = append(c.Trash, c32Trash{ID: id, Name: name(id), N: 0, AgeMin: kit.Pick(g, ages, "age")})
		case 6:
			n := name(id)
			c.Trash = append(c.Trash, c32Trash{ID: id, Name: n, N: 0, AgeMin: kit.Pick(g, ages, "age")},
				c32Trash{ID: id, Name: n, N: 1, AgeMin: kit.Pick(g, ages, "age2")})
		default:
			c.Trash = append(c.Trash, c32Trash{ID: id, Name: base, N: 0, AgeMin: kit.Pick(g, ages, "age")},
				c32Trash{ID: id, Name: base + "x", N: 0, AgeMin: kit.Pick(g, ages, "age2")})
		}
	}
	if c.ShardMerging {
		c.Overlap = g.Bool(25, "overlap")
		for p := range c32PoolMembers {
			if g.Int(0, 9, "compound") < 3 {
				continue
			}
			cs := c32Compound{Pool: p}
			for _, id := range c32PoolMembers[p] {
				if g.Int(0, 9, "tomb") >= 5 {
					cs.Tomb = append(cs.Tomb, id)
				}
			}
			c.Compound = append(c.Compound, cs)
		}
	}
	for i, n := 0, g.Int(0, 2, "ntmp"); i < n; i++ {
		c.Tmp = append(c.Tmp, kit.Pick(g, []string{"crash.tmp", "r1_v16.00000.zoekt.123.tmp", "compound-x_v17.00000.zoekt.9.tmp", "empty.tmp"}, "tmp"))
	}
	nr := g.Int(1, 3, "rounds")
	for i := 0; i < nr; i++ {
		r := c32Round{AdvanceMin: kit.Pick(g, []int{0, 0, 30, 60, 23 * 60, 24 * 60, 24*60 + 1, 25 * 60, 49 * 60}, "advance")}
		if i == 0 {
			r.AdvanceMin = 0
		}
		shape := g.Int(0, 9, "assigned-shape")
		for id := uint32(1); id <= c32MaxID+1; id++ {
			switch {
			case shape == 0: // nothing assigned
			case shape == 1 && id <= c32MaxID: // everything
				r.Assigned = append(r.Assigned, id)
			case shape > 1 && g.Int(0, 9, "assigned") >= 5:
				r.Assigned = append(r.Assigned, id)
			}
		}
		c.Rounds = append(c.Rounds, r)
	}
	return c
}

// c32Normalize enforces the input domain on a case (generated or replayed):
//   - compound shards exist only with shard merging (the only configuration
//     that creates them);
//   - a repository is alive in at most one compound shard and, unless Overlap
//     (crash window), not alive in a compound shard and a simple shard at once
//     (re-indexing tombstones the compound copy);
//   - one file per name in a directory.
func c32Normalize(c *c32Case) {
	if !c.ShardMerging {
		c.Compound = nil
	}
	aliveSimple := map[uint32]bool{}
	seen := map[string]bool{}
	var simple []c32Simple
	for _, s := range c.Simple {
		fn := c32ShardFile(s.Name, s.N)
		if seen[fn] || s.ID == 0 {
			continue
		}
		seen[fn] = true
		aliveSimple[s.ID] = true
		simple = append(simple, s)
	}
	c.Simple = simple
	seen = map[string]bool{}
	var trash []c32Trash
	for _, s := range c.Trash {
		fn := c32ShardFile(s.Name, s.N)
		if seen[fn] || s.ID == 0 {
			continue
		}
		seen[fn] = true
		trash = append(trash, s)
	}
	c.Trash = trash
	aliveCompound := map[uint32]bool{}
	usedPool := map[int]bool{}
	var comp []c32Compound
	for _, cs := range c.Compound {
		if cs.Pool < 0 || cs.Pool >= len(c32PoolMembers) || usedPool[cs.Pool] {
			continue
		}
		usedPool[cs.Pool] = true
		tomb := map[uint32]bool{}
		for _, id := range cs.Tomb {
			tomb[id] = true
		}
		for _, id := range c32PoolMembers[cs.Pool] {
			if !tomb[id] && ((aliveSimple[id] && !c.Overlap) || aliveCompound[id]) {
				tomb[id] = true
			}
			if !tomb[id] {
				aliveCompound[id] = true
			}
		}
		cs.Tomb = nil
		for _, id := range c32PoolMembers[cs.Pool] {
			if tomb[id] {
				cs.Tomb = append(cs.Tomb, id)
			}
		}
		comp = append(comp, cs)
	}
	c.Compound = comp
}

// c32ShardFile names a simple shard the way the indexer does (escaped
// repository name; the names used here are far below the length at which the
// indexer truncates).
func c32ShardFile(name string, n int) string {
	return fmt.Sprintf("%s_v%d.%05d.zoekt", url.QueryEscape(name), index.IndexFormatVersion, n)
}

// ---- shard pool ------------------------------------------------------------

var c32Pool struct {
	mu       sync.Mutex
	simple   map[string][]byte // id|name -> shard bytes
	once     sync.Once
	compound []struct {
		name string
		data []byte
	}
	err error
}

// c32SimpleBytes returns a tiny simple shard for (id, name). The copies used
// in the trash have different content than the ones used in the index, so a
// stale trashed copy overwriting an indexed shard is visible to the oracle.
func c32SimpleBytes(id uint32, name string, version string) ([]byte, error) {
	key := fmt.Sprintf("%d|%s|%s", id, name, version)
	c32Pool.mu.Lock()
	defer c32Pool.mu.Unlock()
	if b, ok := c32Pool.simple[key]; ok {
		return b, nil
	}
	sb, err := index.NewShardBuilder(&zoekt.Repository{ID: id, Name: name})
	if err != nil {
		return nil, err
	}
	if err := sb.AddFile("f.txt", []byte("content of "+name+" "+version+"\n")); err != nil {
		return nil, err
	}
	var buf bytes.Buffer
	if err := sb.Write(&buf); err != nil {
		return nil, err
	}
	if c32Pool.simple == nil {
		c32Pool.simple = map[string][]byte{}
	}
	c32Pool.simple[key] = buf.Bytes()
	return buf.Bytes(), nil
}

// c32BuildCompounds builds the pooled compound shards once per process, the
// way the merge job does: simple shards written by index.Builder, merged with
// index.Merge.
func c32BuildCompounds() error {
	c32Pool.once.Do(func() {
		dir, err := os.MkdirTemp("", "c32pool")
		if err != nil {
			c32Pool.err = err
			return
		}
		defer os.RemoveAll(dir)
		for p, members := range c32PoolMembers {
			sub := filepath.Join(dir, fmt.Sprint(p))
			var files []index.IndexFile
			var closers []func()
			for _, id := range members {
				opts := index.Options{
					IndexDir: sub,
					RepositoryDescription: zoekt.Repository{
						ID: id, Name: c32Name(id),
						RawConfig:        map[string]string{"public": "1"},
						LatestCommitDate: c32Epoch.Add(-time.Duration(p+1) * time.Hour),
					},
				}
				opts.SetDefaults()
				b, err := index.NewBuilder(opts)
				if err != nil {
					c32Pool.err = err
					return
				}
				if err := b.AddFile("F", []byte(strings.Repeat("abc", 20)+fmt.Sprint(id))); err != nil {
					c32Pool.err = err
					return
				}
				if err := b.Finish(); err != nil {
					c32Pool.err = err
					return
				}
				for _, fn := range opts.FindAllShards() {
					f, err := os.Open(fn)
					if err != nil {
						c32Pool.err = err
						return
					}
					inf, err := index.NewIndexFile(f)
					if err != nil {
						c32Pool.err = err
						return
					}
					files = append(files, inf)
					closers = append(closers, func() { inf.Close(); f.Close() })
				}
			}
			tmp, dst, err := index.Merge(sub, files...)
			for _, cl := range closers {
				cl()
			}
			if err != nil {
				c32Pool.err = err
				return
			}
			data, err := os.ReadFile(tmp)
			if err != nil {
				c32Pool.err = err
				return
			}
			c32Pool.compound = append(c32Pool.compound, struct {
				name string
				data []byte
			}{filepath.Base(dst), data})
		}
	})
	return c32Pool.err
}

func c32Materialize(c *c32Case, dir string) error {
	trash := filepath.Join(dir, ".trash")
	if err := os.MkdirAll(trash, 0o755); err != nil {
		return err
	}
	for _, s := range c.Simple {
		b, err := c32SimpleBytes(s.ID, s.Name, "indexed")
		if err != nil {
			return err
		}
		p := filepath.Join(dir, c32ShardFile(s.Name, s.N))
		if err := os.WriteFile(p, b, 0o644); err != nil {
			return err
		}
		if s.Meta {
			// v16 (simple) shards carry a single repository object in the
			// sidecar, as mergeMeta writes it
			mb, err := json.Marshal(&zoekt.Repository{ID: s.ID, Name: s.Name, RawConfig: map[string]string{"public": "1"}})
			if err != nil {
				return err
			}
			if err := os.WriteFile(p+".meta", mb, 0o644); err != nil {
				return err
			}
		}
		age := s.AgeMin
		if age == 0 {
			age = 180
		}
		mt := c32Epoch.Add(-time.Duration(age) * time.Minute)
		for _, f := range []string{p, p + ".meta"} {
			if err := os.Chtimes(f, mt, mt); err != nil && (f == p || !os.IsNotExist(err)) {
				return err
			}
		}
	}
	for _, s := range c.Trash {
		b, err := c32SimpleBytes(s.ID, s.Name, "trashed")
		if err != nil {
			return err
		}
		p := filepath.Join(trash, c32ShardFile(s.Name, s.N))
		if err := os.WriteFile(p, b, 0o644); err != nil {
			return err
		}
		mt := c32Epoch.Add(-time.Duration(s.AgeMin) * time.Minute)
		if err := os.Chtimes(p, mt, mt); err != nil {
			return err
		}
	}
	if len(c.Compound) > 0 {
		if err := c32BuildCompounds(); err != nil {
			return err
		}
	}
	for _, cs := range c.Compound {
		pc := c32Pool.compound[cs.Pool]
		p := filepath.Join(dir, pc.name)
		if err := os.WriteFile(p, pc.data, 0o644); err != nil {
			return err
		}
		for _, id := range cs.Tomb {
			if err := index.SetTombstone(p, id); err != nil {
				return err
			}
		}
	}
	for _, t := range c.Tmp {
		if err := os.WriteFile(filepath.Join(dir, t), []byte("x"), 0o644); err != nil {
			return err
		}
	}
	return nil
}

// ---- inventory -------------------------------------------------------------

type c32File struct {
	Base  string
	Name  string // repository name recorded in the shard
	Hash  string // of the .zoekt file
	MTime time.Time
}

type c32Loc struct {
	Simple   []c32File // alive in a simple shard of the index
	Compound []c32File // alive in a compound shard of the index
	Tomb     []c32File // tombstoned in a compound shard of the index
	Trash    []c32File // alive in a shard in .trash
}

func (l *c32Loc) alive() bool { return l != nil && len(l.Simple)+len(l.Compound) > 0 }

func (l *c32Loc) names() map[string]bool {
	out := map[string]bool{}
	if l == nil {
		return out
	}
	for _, f := range l.Simple {
		out[f.Name] = true
	}
	for _, f := range l.Compound {
		out[f.Name] = true
	}
	return out
}

func (l *c32Loc) String() string {
	if l == nil {
		return "nowhere"
	}
	var parts []string
	add := func(kind string, fs []c32File) {
		for _, f := range fs {
			parts = append(parts, kind+":"+f.Base)
		}
	}
	add("simple", l.Simple)
	add("compound", l.Compound)
	add("tombstoned", l.Tomb)
	add("trash", l.Trash)
	if len(parts) == 0 {
		return "nowhere"
	}
	return strings.Join(parts, " ")
}

func c32Has(fs []c32File, base, hash string) bool {
	for _, f := range fs {
		if f.Base == base && (hash == "" || f.Hash == hash) {
			return true
		}
	}
	return false
}

// c32Inventory reads the directory independently of cleanup.go's getShards.
func c32Inventory(dir string) (map[uint32]*c32Loc, error) {
	inv := map[uint32]*c32Loc{}
	loc := func(id uint32) *c32Loc {
		if inv[id] == nil {
			inv[id] = &c32Loc{}
		}
		return inv[id]
	}
	scan := func(d string, trash bool) error {
		ents, err := os.ReadDir(d)
		if err != nil {
			if os.IsNotExist(err) {
				return nil
			}
			return err
		}
		for _, e := range ents {
			if e.IsDir() || !strings.HasSuffix(e.Name(), ".zoekt") {
				continue
			}
			p := filepath.Join(d, e.Name())
			data, err := os.ReadFile(p)
			if err != nil {
				return err
			}
			fi, err := os.Stat(p)
			if err != nil {
				return err
			}
			repos, md, err := index.ReadMetadataPath(p)
			if err != nil {
				return fmt.Errorf("unreadable shard %s: %v", p, err)
			}
			h := fmt.Sprintf("%x", sha1.Sum(data))[:12]
			// a compound shard is recognised by what it is (written in the
			// merged format, several repositories), not by its file name
			compound := md.IndexFormatVersion == index.NextIndexFormatVersion || len(repos) > 1
			for _, r := range repos {
				f := c32File{Base: e.Name(), Name: r.Name, Hash: h, MTime: fi.ModTime()}
				l := loc(r.ID)
				switch {
				case trash && !r.Tombstone:
					l.Trash = append(l.Trash, f)
				case trash:
				case r.Tombstone && compound:
					l.Tomb = append(l.Tomb, f)
				case r.Tombstone:
				case compound:
					l.Compound = append(l.Compound, f)
				default:
					l.Simple = append(l.Simple, f)
				}
			}
		}
		return nil
	}
	if err := scan(dir, false); err != nil {
		return nil, err
	}
	if err := scan(filepath.Join(dir, ".trash"), true); err != nil {
		return nil, err
	}
	return inv, nil
}

// ---- oracle ----------------------------------------------------------------

// c32Check judges one cleanup round. It returns labels describing what the
// round exercised.
//
// entered is the harness's own record of when a file (c32Key) that is in the
// trash before this round was moved there by an earlier round; files that
// were in the trash from the start are dated by their mtime. The time a shard
// has spent in the trash is judged by that record, so a cleanup that trashes
// a shard without dating it is seen to delete it early in the next round.
func c32Check(before, after map[uint32]*c32Loc, assigned map[uint32]bool, entered map[string]time.Time, now time.Time, round int) (labels []string, interesting bool, err error) {
	minAge := now.Add(-24 * time.Hour)
	since := func(f c32File) time.Time {
		if t, ok := entered[c32Key(f)]; ok {
			return t
		}
		return f.MTime
	}
	ids := map[uint32]bool{}
	for id := range before {
		ids[id] = true
	}
	for id := range after {
		ids[id] = true
	}
	var sorted []uint32
	for id := range ids {
		sorted = append(sorted, id)
	}
	sort.Slice(sorted, func(i, j int) bool { return sorted[i] < sorted[j] })
	lab := map[string]bool{}
	assignedRestored, unassignedCompound := false, false
	for _, id := range sorted {
		b, a := before[id], after[id]
		if b == nil {
			b = &c32Loc{}
		}
		if a == nil {
			a = &c32Loc{}
		}
		inconsistent := len(b.names()) > 1
		old := false
		for _, f := range b.Trash {
			if since(f).Before(minAge) {
				old = true
			}
			if _, ok := entered[c32Key(f)]; ok {
				lab["trash:entered-in-earlier-round"] = true
				if f.MTime.Before(minAge) && !since(f).Before(minAge) {
					lab["trash:mtime-older-than-stay"] = true
				}
			}
		}
		freshTrash := len(b.Trash) > 0 && !old
		ctx := fmt.Sprintf("round %d, repository %d (assigned=%v): before [%s], after [%s]", round, id, assigned[id], b, a)

		if assigned[id] {
			switch {
			case b.alive() && inconsistent:
				lab["assigned:names-disagree"] = true // exception of clause 1: anything goes
			case b.alive():
				// clause 1: never deleted or trashed
				lab["assigned:indexed-kept"] = true
				for _, f := range b.Simple {
					if !c32Has(a.Simple, f.Base, f.Hash) {
						return nil, false, kit.Fail("assigned-lost", "%s: shard %s of an assigned repository is no longer in the index", ctx, f.Base)
					}
				}
				for _, f := range b.Compound {
					if !c32Has(a.Compound, f.Base, "") {
						return nil, false, kit.Fail("assigned-lost", "%s: the assigned repository is no longer alive in compound shard %s", ctx, f.Base)
					}
				}
				if len(b.Trash) > 0 {
					lab["assigned:indexed-and-trashed"] = true
				}
			case freshTrash:
				// clause 2: restored from the trash
				lab["assigned:restored-from-trash"] = true
				assignedRestored = true
				for _, f := range b.Trash {
					if !c32Has(a.Simple, f.Base, f.Hash) {
						return nil, false, kit.Fail("not-restored", "%s: trashed shard %s of an assigned repository was not moved back into the index", ctx, f.Base)
					}
				}
				if len(a.Trash) > 0 {
					return nil, false, kit.Fail("not-restored", "%s: assigned repository still has shards in the trash", ctx)
				}
			case len(b.Tomb) > 0:
				// restored by removing the tombstone
				lab["assigned:tombstone-removed"] = true
				assignedRestored = true
				if !a.alive() {
					return nil, false, kit.Fail("not-restored", "%s: tombstoned assigned repository was not revived", ctx)
				}
				if old {
					lab["assigned:old-trash-and-tombstone"] = true
				}
			case old:
				lab["assigned:only-old-trash"] = true
			default:
				lab["assigned:not-on-disk"] = true
			}
		} else {
			// clause 3: out of the searchable index
			if a.alive() {
				return nil, false, kit.Fail("unassigned-still-indexed", "%s: a repository that is not assigned is still alive in the index", ctx)
			}
			if b.alive() && !inconsistent {
				for _, f := range b.Simple {
					lab["unassigned:simple-trashed"] = true
					if f.MTime.Before(minAge) {
						lab["unassigned:simple-trashed-indexed-over-24h-ago"] = true
					}
					if !c32Has(a.Trash, f.Base, f.Hash) {
						return nil, false, kit.Fail("unassigned-deleted", "%s: shard %s left the index but is not in the trash", ctx, f.Base)
					}
					// clause 4: the 24 hours count from now on. The trash is
					// dated by mtime (cleanup_test.go: trashed shards carry the
					// time of trashing), so a shard that arrives with an mtime
					// before now is deleted before it has been there for 24h.
					for _, t := range a.Trash {
						if t.Base == f.Base && t.Hash == f.Hash && t.MTime.Before(now) {
							return nil, false, kit.Fail("trash-entry-backdated", "%s: shard %s was moved to the trash at %s but carries mtime %s: it will be deleted permanently %s before it has been in the trash for 24h", ctx, f.Base, now.Format(time.RFC3339), t.MTime.Format(time.RFC3339), now.Sub(t.MTime))
						}
					}
				}
				for _, f := range b.Compound {
					lab["unassigned:compound-tombstoned"] = true
					unassignedCompound = true
					if !c32Has(a.Tomb, f.Base, "") {
						return nil, false, kit.Fail("unassigned-deleted", "%s: not tombstoned in compound shard %s", ctx, f.Base)
					}
				}
			} else if b.alive() {
				lab["unassigned:names-disagree"] = true
			}
		}

		// clause 4: a trashed repository is permanently deleted only when old
		// or in conflict with an indexed copy
		if len(b.Trash) > 0 {
			switch {
			case old:
				lab["trash:old"] = true
				if len(a.Trash) > 0 && !b.alive() && !assigned[id] {
					lab["trash:old-kept"] = true
				}
			case b.alive():
				lab["trash:conflicts-with-index"] = true
			default:
				lab["trash:fresh"] = true
				for _, f := range b.Trash {
					if since(f).After(now) {
						lab["trash:future-dated"] = true
					}
					if since(f).Equal(minAge) {
						lab["trash:exactly-24h"] = true
					}
					if !c32Has(a.Trash, f.Base, f.Hash) && !c32Has(a.Simple, f.Base, f.Hash) {
						return nil, false, kit.Fail("trash-deleted-early", "%s: trashed shard %s (in the trash since %s, mtime %s, now %s) was permanently deleted although it has been in the trash for less than 24h and nothing in the index conflicts", ctx, f.Base, since(f).Format(time.RFC3339), f.MTime.Format(time.RFC3339), now.Format(time.RFC3339))
					}
				}
			}
		}
	}
	for l := range lab {
		labels = append(labels, l)
	}
	sort.Strings(labels)
	return labels, assignedRestored && unassignedCompound, nil
}

func c32Key(f c32File) string { return f.Base + "|" + f.Hash }

// c32Entered carries the record of trash arrivals over one round: a file that
// is in the trash after the round and was there before keeps its date, a file
// that was in the index before the round arrived at `now`.
func c32Entered(prev map[string]time.Time, before, after map[uint32]*c32Loc, now time.Time) map[string]time.Time {
	next := map[string]time.Time{}
	for id, a := range after {
		b := before[id]
		if b == nil {
			b = &c32Loc{}
		}
		for _, f := range a.Trash {
			k := c32Key(f)
			switch {
			case c32Has(b.Simple, f.Base, f.Hash):
				// moved (or moved over an identical trashed copy) in this round
				next[k] = now
			case c32Has(b.Trash, f.Base, f.Hash):
				if t, ok := prev[k]; ok {
					next[k] = t
				}
			}
		}
	}
	return next
}

// c32Domain reports whether the directory is still inside the input domain
// (a repository alive in at most one compound shard).
func c32Domain(inv map[uint32]*c32Loc) bool {
	for _, l := range inv {
		if len(l.Compound) > 1 {
			return false
		}
	}
	return true
}

func runC32(rec *kit.Recorder, c c32Case) error {
	if os.Getenv("VERIF_REPLAY") != "" {
		rec.Sample(c, false)
	}
	c32Normalize(&c)
	dir, err := os.MkdirTemp("", "c32")
	if err != nil {
		return err
	}
	defer os.RemoveAll(dir)
	if err := c32Materialize(&c, dir); err != nil {
		return fmt.Errorf("materialize: %w", err)
	}
	clash := c32NameClash(&c)
	now := c32Epoch
	entered := map[string]time.Time{}
	styles := map[string]bool{}
	prefixed := false
	for _, s := range c.Simple {
		styles["name:"+c32NameStyle(s.Name)] = true
		prefixed = prefixed || strings.HasPrefix(s.Name, "compound-")
	}
	for _, s := range c.Trash {
		styles["name:"+c32NameStyle(s.Name)] = true
		prefixed = prefixed || strings.HasPrefix(s.Name, "compound-")
	}
	key, _ := json.Marshal(c)
	layout := "layout:simple-only"
	if len(c.Compound) > 0 {
		layout = "layout:with-compound"
	}
	// claim attributes a discrepancy to one of the two recorded classes of
	// directories outside the default generator (both off by default).
	claim := func(err error) error {
		if d, ok := err.(*kit.Discrepancy); ok && clash {
			d.Known = c32KnownNameReuse
			d.Detail += " [two repository ids share a shard file name in this directory]"
		} else if ok && prefixed {
			d.Known = c32KnownCompoundPrefix
			d.Detail += " [a repository name in this directory starts with \"compound-\": its simple shards are taken for compound shards]"
		}
		return err
	}
	var styleLabels []string
	for l := range styles {
		styleLabels = append(styleLabels, l)
	}
	sort.Strings(styleLabels)
	for i, r := range c.Rounds {
		now = now.Add(time.Duration(r.AdvanceMin) * time.Minute)
		before, err := c32Inventory(dir)
		if err != nil {
			return kit.Fail("unreadable", "before round %d: %v", i, err)
		}
		if i > 0 && !c32Domain(before) {
			// A previous cleanup produced a directory outside the domain the
			// generator is restricted to (never observed on the pinned tree).
			// Counted; the following rounds are still judged by the clauses,
			// since the history started inside the domain.
			rec.Label("domain:left-after-cleanup")
		}
		assigned := map[uint32]bool{}
		for _, id := range r.Assigned {
			assigned[id] = true
		}
		cleanup(dir, r.Assigned, now, c.ShardMerging)
		after, err := c32Inventory(dir)
		if err != nil {
			return claim(kit.Fail("unreadable", "after round %d: %v", i, err))
		}
		labels, nt, err := c32Check(before, after, assigned, entered, now, i)
		if err != nil {
			return claim(err)
		}
		entered = c32Entered(entered, before, after, now)
		labels = append(labels, styleLabels...)
		if tmps, _ := filepath.Glob(filepath.Join(dir, "*.tmp")); len(c.Tmp) > 0 && len(tmps) == 0 {
			labels = append(labels, "tmp:removed")
		}
		labels = append(labels, layout, fmt.Sprintf("round:%d", i))
		if clash {
			labels = append(labels, "names:clash-across-ids")
		}
		rec.Eval(fmt.Sprintf("%s|%d", key, i), nt, labels...)
	}
	rec.Sample(c, len(c.Compound) > 0 && len(c.Trash) > 0)
	return nil
}

// c32NameClash reports whether two different repository ids use one name
// (then two different repositories map to the same shard file name).
func c32NameClash(c *c32Case) bool {
	owner := map[string]uint32{}
	clash := false
	note := func(name string, id uint32) {
		if o, ok := owner[name]; ok && o != id {
			clash = true
		}
		owner[name] = id
	}
	for _, s := range c.Simple {
		note(s.Name, s.ID)
	}
	for _, s := range c.Trash {
		note(s.Name, s.ID)
	}
	for _, cs := range c.Compound {
		for _, id := range c32PoolMembers[cs.Pool] {
			note(c32Name(id), id)
		}
	}
	return clash
}

func TestVerif_C32(t *testing.T) {
	rec := kit.Open(t, "C32",
		"rapid-generated index directories over 7 repository ids: per repository a name (half plain r<id>, half look-alikes: host/path names escaped in the shard file name, names containing \"compound-\" after the first character, names starting with \"compound\" / \"compound_\", names containing \"_v16\", \".zoekt\" or a whole shard-file suffix), absent / 1-2 simple shards / renamed (two names) / left to compound shards, index shards last written 1min..3 days ago (40% more than 24h: mtimes of the shards themselves), a trash entry (1-2 shards, ages 5min..47h, exactly 24h, +-1min, future-dated, two names), 0-4 pre-built compound shards with per-member tombstones (only with shard merging on), temp files; x 1-3 rounds of (assigned subset, clock advance 0..49h). A case = (directory history, round); non-trivial = in that round an assigned repository is restored (from trash or by removing a tombstone) and an unassigned one is tombstoned in a compound shard; distinct by hash of case+round",
		"input domain: compound shards only together with shard merging; a repository is alive in at most one compound shard; alive in a compound and in simple shards at once only in the 25% of directories modelling a crash between writing new shards and tombstoning the old copy; one repository id per name",
		"the trash is judged per repository as cleanup_test.go documents: a repository's trash entry is old as soon as one of its shards is older than 24h (strictly)",
		"'older than 24 hours' = in the trash for 24 hours (cleanup's doc comment): entries present from the start are dated by their mtime, entries trashed by an earlier round by the harness's own record of that round's now; a shard moved to the trash must carry an mtime not before that round's now (cleanup_test.go expects exactly now), since the mtime is what the next cleanup judges",
		"repository names starting with \"compound-\" are generated too: their simple shards are named compound-..._v16.00000.zoekt and cleanup.go takes them for compound shards (known finding C32-repository-name-starts-with-compound-dash; discrepancies in directories holding such a name are attributed to it)",
		"compound shards are recognised in the inventory by format version / member count, not by file name",
		"repositories whose alive shards disagree on the name may be deleted outright whether assigned or not (documented in cleanup.go)",
		"an assigned repository that is only present as an old (>24h) trash entry need not be restored; a tombstoned assigned repository must be revived (cleanup.go: 'Restore deleted or tombstoned repos')",
		"time is the `now` argument of cleanup and explicit mtimes; no wall clock",
	)
	kit.Property(t, rec, genC32, func(c c32Case) error { return runC32(rec, c) })
}
