//go:build verif && !race

package main

const c31RaceEnabled = false
