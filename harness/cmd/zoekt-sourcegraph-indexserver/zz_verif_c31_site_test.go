//go:build verif

package main

// C31, "site" part: the global operations as the Server runs them.
//
// indexMutex can be perfectly correct and the property still broken, if a call
// site keeps only part of its work on the index directory inside Global. So a
// fraction of the cases put the Server's own global operations into the
// schedule: Server.doMerge (shard merging), Server.vacuum (explode small
// compound shards, remove tombstones) and Server.DeleteAllData (explode the
// tenant's compound shards, purge its shards), next to With(name) and plain
// Global operations on the same Server.muIndexDir.
//
// All three do their work on the index directory by running
// `zoekt-merge-index merge|explode ...`. The harness puts a stand-in with that
// name first in PATH (a small sh script): it announces "S <slot> <args>" on a
// FIFO and waits for the harness' verdict on a FIFO of its own; when the
// harness lets it go on, the command's work - delete the input shards, (merge)
// leave a compound shard - is done to the index directory, the stand-in
// announces "F <slot>", waits for the acknowledgement and exits. Between S and F
// the command is a critical section of a global operation and is entered in the
// same occupancy table as the With/Global bodies: whatever enters while
// something else is inside is reported.
//
// Quiescence: an operation of this kind is in a stable state when it has
// returned, is parked in indexMutex's RWMutex, or sits in os/exec.(*Cmd).Wait
// for a stand-in that is being held (number of waiting operations == number of
// held stand-ins, in one stop-the-world goroutine dump). As in the sched part
// the dump only decides when the harness proceeds.
//
// Not reachable: the cleanup call site (a closure inside Server.Run, which
// never returns and is driven by wall-clock tickers).

import (
	"bufio"
	"bytes"
	"context"
	"encoding/json"
	"fmt"
	"os"
	"os/exec"
	"path/filepath"
	"regexp"
	"runtime"
	"sort"
	"strconv"
	"strings"
	"sync"
	"syscall"
	"testing"
	"time"

	"github.com/sourcegraph/log/logtest"
	"google.golang.org/grpc/metadata"

	"github.com/sourcegraph/zoekt"
	indexserverv1 "github.com/sourcegraph/zoekt/cmd/zoekt-sourcegraph-indexserver/grpc/protos/zoekt/indexserver/v1"
	"github.com/sourcegraph/zoekt/internal/tenant"
	"github.com/sourcegraph/zoekt/internal/verifkit/kit"
)

// c31SitePct: share (%) of the cases that run the Server's call sites. A site
// case costs one process start and two round trips with the process per command
// (some 50 ms on a quiet machine, up to a second on a heavily loaded one), a
// sched case a few milliseconds. VERIF_C31_SITEPCT overrides the share
// (registry "env", e.g. for a tier that should spend more on this part).
const c31SitePct = 2

func c31SitePctEff() int {
	if v, err := strconv.Atoi(os.Getenv("VERIF_C31_SITEPCT")); err == nil {
		return v
	}
	return c31SitePct
}

// c31Layout: content of the index directory and the Server's merge options.
type c31Layout struct {
	// Simple: which of the 6 pool shards (one repository each, tenants 1,2
	// alternating, old enough to be merged) are present.
	Simple []int `json:",omitempty"`
	// Fresh: number (0-2) of shards whose repository has a commit in the future:
	// never candidates for merging.
	Fresh int `json:",omitempty"`
	// Compound: real compound shards (0: repositories of tenants 1 and 2; 1: two
	// repositories of tenant 2), with tombstones on the listed members.
	Compound []c31Compound `json:",omitempty"`
	// Dummy: number of small unreadable files named compound-*.zoekt (vacuum
	// explodes them by size); DummyFirst: they sort before the real ones.
	Dummy      int  `json:",omitempty"`
	DummyFirst bool `json:",omitempty"`
	// TargetK: mergeOpts.targetSizeBytes needs at least K candidates (1: the
	// first candidate suffices, i.e. nothing to merge; 9: unreachable).
	TargetK int
	// MinSize: mergeOpts.minSizeBytes 0: 0 (vacuum removes tombstones), 1:
	// between the dummies and the real compound shards, 2: above everything
	// (vacuum explodes every compound shard).
	MinSize int
	// Tenant of the DeleteAllData requests (3 owns nothing).
	Tenant int
}

type c31Compound struct {
	Which int
	Tomb  []int `json:",omitempty"` // member positions (0, 1) carrying a tombstone
}

var c31SiteKinds = []string{"merge", "merge", "vacuum", "vacuum", "delete"}

func genC31Site(g kit.G) c31Case {
	c := c31Case{Mode: "site"}
	names := []string{"a", "b", "c", "d"}[:g.Int(1, 4, "nnames")]
	l := &c31Layout{}
	for i := 0; i < 6; i++ {
		if g.Bool(65, "simple") {
			l.Simple = append(l.Simple, i)
		}
	}
	l.Fresh = kit.Pick(g, []int{0, 0, 1, 2}, "fresh")
	for i := 0; i < 2; i++ {
		if g.Bool(60, "compound") {
			cp := c31Compound{Which: i}
			for m := 0; m < 2; m++ {
				if g.Bool(45, "tomb") {
					cp.Tomb = append(cp.Tomb, m)
				}
			}
			l.Compound = append(l.Compound, cp)
		}
	}
	l.Dummy = kit.Pick(g, []int{0, 0, 1, 2}, "dummy")
	l.DummyFirst = g.Bool(50, "dummyfirst")
	l.TargetK = kit.Pick(g, []int{2, 2, 2, 3, 4, 1, 9}, "targetk")
	l.MinSize = kit.Pick(g, []int{0, 1, 2}, "minsize")
	l.Tenant = kit.Pick(g, []int{1, 2, 3}, "tenant")
	c.Layout = l

	n := g.Int(2, 6, "nops-site")
	sites := 0
	for i := 0; i < n; i++ {
		switch {
		case g.Bool(35, "site-op"):
			c.Ops = append(c.Ops, c31Op{Site: kit.Pick(g, c31SiteKinds, "site-kind")})
			sites++
		case g.Bool(12, "global"):
			c.Ops = append(c.Ops, c31Op{Global: true})
		default:
			c.Ops = append(c.Ops, c31Op{Name: kit.Pick(g, names, "name")})
		}
	}
	if sites == 0 {
		c.Ops[g.U(n, "site-at")] = c31Op{Site: kit.Pick(g, c31SiteKinds, "site-kind")}
	}
	ns := g.Int(n, 3*n, "nsteps")
	for i := 0; i < ns; i++ {
		if g.Bool(65, "start") {
			c.Steps = append(c.Steps, -1)
		} else {
			c.Steps = append(c.Steps, g.Int(0, 5, "release"))
		}
	}
	nf := g.Int(1, 3, "nfail")
	for i := 0; i < nf; i++ {
		c.Fail = append(c.Fail, g.Bool(25, "fail"))
	}
	return c
}

// ---- process-wide fixtures ---------------------------------------------------

// c31Stub stands in for zoekt-merge-index. POSIX sh, no external commands (a
// process start is the expensive part of a site case) and no subshells. It
// claims one of c31Slots reply FIFOs (exclusive create of claim.<slot> through
// noclobber; "true" because a failed redirection on a special built-in such as
// ":" would end the shell), announces
// "S <slot> <args>", waits for "ok <output>" / "fail", announces "F <slot>" and
// waits for the acknowledgement. The work of the real command on the index
// directory is done by the harness on the command's behalf while it is being
// let go (see releaseInvLocked), i.e. between S and F.
const c31Stub = `#!/bin/sh
ctl="$VERIF_C31_CTL"
[ -n "$ctl" ] || exit 97
i=0
set -C
until true > "$ctl/claim.$i"; do
  i=$((i+1))
  [ $i -lt 16 ] || exit 98
done 2>/dev/null
set +C
echo "S $i $*" > "$ctl/ev"
read verdict out < "$ctl/go.$i"
rc=1
if [ "$verdict" = ok ]; then
  rc=0
  printf %s "$out"
fi
echo "F $i" > "$ctl/ev"
read ack < "$ctl/go.$i"
exit $rc
`

const c31Slots = 16

type c31File struct {
	name string
	data []byte
	meta []byte // content of the .meta sidecar (overrides the repository metadata), if any
}

// c31Fixtures: shard files are taken from /repo/testdata/shards (building
// shards is far too slow under the race detector); what the Server's call
// sites look at - repository name, id, tenant, tombstones, commit date, one
// repository or several - is put into the .meta sidecar, which zoekt reads in
// place of the metadata section (that is how tombstones are stored).
type c31Fixtures struct {
	err       error
	root      string
	ctl       string
	v16       [][]byte // simple shards, index format 16 (.meta holds one repository)
	v17       []byte   // index format 17 (.meta holds a list of repositories)
	maxSimple int64
	reply     []*os.File
}

var (
	c31FixOnce sync.Once
	c31Fix     c31Fixtures
	c31T       *testing.T

	c31SiteMu  sync.Mutex
	c31SiteCur *c31Harness
)

var c31Old = time.Date(2001, 2, 3, 4, 5, 6, 0, time.UTC)

// simple is pool shard i (0-5) or, from 6, a shard with a commit in the future.
func (fx *c31Fixtures) simple(i int) c31File {
	name := string(rune('a' + i))
	repo := zoekt.Repository{ID: uint32(i + 1), Name: name, TenantID: 1 + i%2, LatestCommitDate: c31Old}
	if i >= 6 {
		repo.LatestCommitDate = time.Date(2200, 1, 1, 0, 0, 0, 0, time.UTC)
	}
	meta, _ := json.Marshal(&repo)
	return c31File{name: name + "_v16.00000.zoekt", data: fx.v16[i%len(fx.v16)], meta: meta}
}

// compound is a shard holding two repositories: which 0: tenants 1 and 2, which 1: tenant 2 twice.
func (fx *c31Fixtures) compound(which int, tomb []int) c31File {
	var repos []*zoekt.Repository
	for m := 0; m < 2; m++ {
		id := uint32(11 + 2*which + m)
		r := &zoekt.Repository{ID: id, Name: fmt.Sprintf("m%d", id), TenantID: 2, LatestCommitDate: c31Old}
		if which == 0 && m == 0 {
			r.TenantID = 1
		}
		for _, t := range tomb {
			if t == m {
				r.Tombstone = true
			}
		}
		repos = append(repos, r)
	}
	meta, _ := json.Marshal(repos)
	return c31File{name: fmt.Sprintf("compound-c31real%d_v17.00000.zoekt", which), data: fx.v17, meta: meta}
}

func c31Fixtures1() *c31Fixtures {
	c31FixOnce.Do(func() {
		fx := &c31Fix
		fail := func(err error) { fx.err = err }
		for _, tool := range []string{"sh", "mkfifo", "rm"} {
			if _, err := exec.LookPath(tool); err != nil {
				fail(err)
				return
			}
		}
		repo := os.Getenv("VERIF_REPO")
		if repo == "" {
			repo = "/repo"
		}
		for _, n := range []string{"repo_v16.00000.zoekt", "repo2_v16.00000.zoekt", "ctagsrepo_v16.00000.zoekt"} {
			b, err := os.ReadFile(filepath.Join(repo, "testdata", "shards", n))
			if err != nil {
				fail(err)
				return
			}
			fx.v16 = append(fx.v16, b)
			fx.maxSimple = max(fx.maxSimple, int64(len(b)))
		}
		b, err := os.ReadFile(filepath.Join(repo, "testdata", "shards", "repo17_v17.00000.zoekt"))
		if err != nil {
			fail(err)
			return
		}
		fx.v17 = b
		root, err := os.MkdirTemp("", "c31site")
		if err != nil {
			fail(err)
			return
		}
		fx.root = root

		// the stand-in, first in PATH; its control directory
		bin := filepath.Join(root, "bin")
		fx.ctl = filepath.Join(root, "ctl")
		for _, d := range []string{bin, fx.ctl} {
			if err := os.Mkdir(d, 0o700); err != nil {
				fail(err)
				return
			}
		}
		if err := os.WriteFile(filepath.Join(bin, "zoekt-merge-index"), []byte(c31Stub), 0o700); err != nil {
			fail(err)
			return
		}
		if err := syscall.Mkfifo(filepath.Join(fx.ctl, "ev"), 0o600); err != nil {
			fail(err)
			return
		}
		ev, err := os.OpenFile(filepath.Join(fx.ctl, "ev"), os.O_RDWR, 0)
		if err != nil {
			fail(err)
			return
		}
		// reply FIFOs, held open for reading and writing so that neither side
		// ever blocks in open
		for i := 0; i < c31Slots; i++ {
			p := filepath.Join(fx.ctl, fmt.Sprintf("go.%d", i))
			if err := syscall.Mkfifo(p, 0o600); err != nil {
				fail(err)
				return
			}
			f, err := os.OpenFile(p, os.O_RDWR, 0)
			if err != nil {
				fail(err)
				return
			}
			fx.reply = append(fx.reply, f)
		}
		os.Setenv("VERIF_C31_CTL", fx.ctl)
		os.Setenv("PATH", bin+string(os.PathListSeparator)+os.Getenv("PATH"))
		if p, err := exec.LookPath("zoekt-merge-index"); err != nil || filepath.Dir(p) != bin {
			fail(fmt.Errorf("stand-in not first in PATH: %q %v", p, err))
			return
		}
		go c31EventLoop(ev, fx)
		if c31T != nil {
			c31T.Cleanup(func() { os.RemoveAll(root) })
		}
	})
	return &c31Fix
}

// c31EventLoop reads the stand-ins' announcements for the whole process.
func c31EventLoop(ev *os.File, fx *c31Fixtures) {
	sc := bufio.NewScanner(ev)
	sc.Buffer(make([]byte, 1<<16), 1<<20)
	for sc.Scan() {
		f := strings.Fields(sc.Text())
		if len(f) < 2 {
			continue
		}
		slot, err := strconv.Atoi(f[1])
		if err != nil || slot < 0 || slot >= len(fx.reply) {
			continue
		}
		reply := fx.reply[slot]
		c31SiteMu.Lock()
		h := c31SiteCur
		c31SiteMu.Unlock()
		switch f[0] {
		case "S":
			if h == nil {
				// nobody's command (a case that was given up): let it fail and go
				reply.WriteString("fail\nack\n")
				continue
			}
			h.onCmdStart(slot, f[2:], reply)
		case "F":
			os.Remove(filepath.Join(fx.ctl, "claim."+f[1]))
			if h != nil {
				h.onCmdFinish(slot)
			}
		}
	}
}

// ---- per case ------------------------------------------------------------------

// c31Inv is one run of the zoekt-merge-index stand-in.
type c31Inv struct {
	slot     int
	seq      int
	args     []string
	reply    *os.File
	fail     bool
	released bool // guarded by h.mu
}

func (inv *c31Inv) kind() string {
	switch {
	case len(inv.args) > 0 && inv.args[0] == "explode":
		return "explode"
	case len(inv.args) == 2 && inv.args[0] == "merge":
		return "merge-one-compound-shard(remove-tombstones)"
	case len(inv.args) > 0 && inv.args[0] == "merge":
		return "merge-shards"
	}
	return "other"
}

func (inv *c31Inv) describe() string {
	var a []string
	for _, x := range inv.args {
		a = append(a, filepath.Base(x))
	}
	return "zoekt-merge-index " + strings.Join(a, " ")
}

type c31Site struct {
	h   *c31Harness
	srv *Server
	dir string
	ctx context.Context
	c   c31Case
}

func c31OpenSite(h *c31Harness, c c31Case) (*c31Site, error) {
	fx := c31Fixtures1()
	if fx.err != nil {
		return nil, fx.err
	}
	l := c.Layout
	if l == nil {
		l = &c31Layout{TargetK: 2}
	}
	dir, err := os.MkdirTemp("", "c31idx")
	if err != nil {
		return nil, err
	}
	put := func(f c31File) {
		p := filepath.Join(dir, f.name)
		if err := os.WriteFile(p, f.data, 0o600); err != nil {
			panic(err)
		}
		if f.meta != nil {
			if err := os.WriteFile(p+".meta", f.meta, 0o600); err != nil {
				panic(err)
			}
		}
	}
	for _, i := range l.Simple {
		if i >= 0 && i < 6 {
			put(fx.simple(i))
		}
	}
	for i := 0; i < l.Fresh && i < 2; i++ {
		put(fx.simple(6 + i))
	}
	seen := map[int]bool{}
	for _, cp := range l.Compound {
		if cp.Which < 0 || cp.Which > 1 || seen[cp.Which] {
			continue
		}
		seen[cp.Which] = true
		put(fx.compound(cp.Which, cp.Tomb))
	}
	for i := 0; i < l.Dummy; i++ {
		pre := "z"
		if l.DummyFirst {
			pre = "0"
		}
		put(c31File{name: fmt.Sprintf("compound-%sdummy%d_v17.00000.zoekt", pre, i), data: []byte("notshard")})
	}
	opts := mergeOpts{}
	switch {
	case l.TargetK <= 1:
		opts.targetSizeBytes = 1
	case l.TargetK >= 9:
		opts.targetSizeBytes = 1 << 40
	default:
		opts.targetSizeBytes = int64(l.TargetK-1)*fx.maxSimple + 1
	}
	switch l.MinSize {
	case 1:
		opts.minSizeBytes = 64
	case 2:
		opts.minSizeBytes = 1 << 30
	}
	ctx, err := tenant.Propagator{}.InjectContext(context.Background(), metadata.MD{"x-sourcegraph-tenant-id": {strconv.Itoa(max(l.Tenant, 1))}})
	if err != nil {
		os.RemoveAll(dir)
		return nil, err
	}
	srv := &Server{IndexDir: dir, mergeOpts: opts, shardMerging: true, logger: logtest.NoOp(c31T)}
	st := &c31Site{h: h, srv: srv, dir: dir, ctx: ctx, c: c}
	h.site = st
	h.m = &srv.muIndexDir
	h.inCmd = map[int]*c31Inv{}
	h.wake = make(chan struct{}, 1)
	h.cmdKinds = map[string]bool{}
	c31SiteMu.Lock()
	c31SiteCur = h
	c31SiteMu.Unlock()
	return st, nil
}

func (st *c31Site) close() {
	c31SiteMu.Lock()
	if c31SiteCur == st.h {
		c31SiteCur = nil
	}
	c31SiteMu.Unlock()
	os.RemoveAll(st.dir)
}

// call runs one global operation through the Server's own call site.
func (st *c31Site) call(op c31Op) {
	defer func() {
		if r := recover(); r != nil {
			st.h.mu.Lock()
			st.h.fail("panic", "%s panicked: %v", c31OpString(op), r)
			st.h.mu.Unlock()
		}
	}()
	switch op.Site {
	case "merge":
		st.srv.doMerge()
	case "vacuum":
		st.srv.vacuum()
	case "delete":
		_, _ = st.srv.DeleteAllData(st.ctx, &indexserverv1.DeleteAllDataRequest{})
	}
}

// onCmdStart: a stand-in announced itself. It is a critical section of a
// global operation from now until onCmdFinish.
func (h *c31Harness) onCmdStart(slot int, args []string, reply *os.File) {
	h.mu.Lock()
	defer h.mu.Unlock()
	inv := &c31Inv{slot: slot, seq: h.invSeq, args: args, reply: reply}
	if fl := h.site.c.Fail; len(fl) > 0 {
		inv.fail = fl[inv.seq%len(fl)]
	}
	h.invSeq++
	for j := range h.inBody {
		h.fail("global-not-exclusive", "a global operation's command started on the index directory (%s) while operation %d (%s) was inside its critical section", inv.describe(), j, c31OpString(h.ops[j]))
	}
	for _, o := range h.inCmd {
		h.fail("global-not-exclusive", "a global operation's command started on the index directory (%s) while another one was running (%s)", inv.describe(), o.describe())
	}
	h.inCmd[slot] = inv
	h.cmdKinds[inv.kind()] = true
	defer h.poke()
	if h.draining {
		inv.fail = true
		h.releaseInvLocked(inv)
	}
}

func (h *c31Harness) onCmdFinish(slot int) {
	h.mu.Lock()
	inv := h.inCmd[slot]
	delete(h.inCmd, slot)
	h.mu.Unlock()
	if inv != nil {
		inv.reply.WriteString("ack\n")
	}
	h.poke()
}

// releaseInvLocked lets a held command go on. Unless it is to fail, the
// harness first does to the index directory what the real command does: merge
// deletes its input shards and leaves a compound shard (an empty file here)
// whose name it prints; explode deletes the compound shard.
func (h *c31Harness) releaseInvLocked(inv *c31Inv) {
	if inv.released {
		return
	}
	inv.released = true
	if inv.fail || len(inv.args) < 2 {
		inv.reply.WriteString("fail\n")
		return
	}
	out := "-"
	for _, p := range inv.args[1:] {
		os.Remove(p)
		os.Remove(p + ".meta")
	}
	if inv.args[0] == "merge" {
		out = filepath.Join(filepath.Dir(inv.args[1]), fmt.Sprintf("compound-c31stub%d_v17.00000.zoekt", inv.seq))
		os.WriteFile(out, nil, 0o600)
	}
	inv.reply.WriteString("ok " + out + "\n")
}

func (h *c31Harness) releaseInv(inv *c31Inv) {
	h.mu.Lock()
	h.releaseInvLocked(inv)
	h.mu.Unlock()
}

// drainSite lets every command fail at once until all operations have returned.
func (h *c31Harness) drainSite() {
	h.mu.Lock()
	h.draining = true
	for _, inv := range h.inCmd {
		if !inv.released {
			inv.fail = true
			h.releaseInvLocked(inv)
		}
	}
	h.mu.Unlock()
	deadline := time.Now().Add(30 * time.Second)
	for {
		all := true
		for _, w := range h.workers {
			if !c31Closed(w.done) {
				all = false
			}
		}
		if all || time.Now().After(deadline) {
			return
		}
		time.Sleep(200 * time.Microsecond)
	}
}

type c31GState struct {
	parked  bool // blocked in indexMutex.With/Global acquiring the RWMutex
	cmdWait bool // inside os/exec.(*Cmd).Wait
}

// a goroutine blocked in the RWMutex of an indexMutex: the frame below
// sync.(*RWMutex).Lock/RLock is indexMutex.Global/With.
var c31InIndexMutex = regexp.MustCompile(`sync\.\(\*RWMutex\)\.R?Lock\([^\n]*\n[^\n]*\n[^\n]*\(\*indexMutex\)\.(Global|With)\(`)

func c31DumpSite() map[int64]c31GState {
	buf := make([]byte, 1<<17)
	for {
		n := runtime.Stack(buf, true)
		if n < len(buf) {
			buf = buf[:n]
			break
		}
		buf = make([]byte, 2*len(buf))
	}
	out := map[int64]c31GState{}
	for _, blk := range bytes.Split(buf, []byte("\n\n")) {
		m := c31Header.FindSubmatch(blk)
		if m == nil {
			continue
		}
		id, _ := strconv.ParseInt(string(m[1]), 10, 64)
		out[id] = c31GState{
			parked:  c31ParkedState(string(m[2])) && c31InIndexMutex.Match(blk),
			cmdWait: bytes.Contains(blk, []byte("os/exec.(*Cmd).Wait(")),
		}
	}
	return out
}

// quiesceSite is quiesce for site cases: besides the states of quiesce, an
// operation run through a Server call site is stable when it waits for a
// stand-in that the harness holds.
func (h *c31Harness) quiesceSite() (running []c31Rel, parked []*c31Worker, err error) {
	deadline := time.Now().Add(30 * time.Second)
	pause := 100 * time.Microsecond
	for spin := 0; ; spin++ {
		running, parked = running[:0], parked[:0]
		var undecided []*c31Worker
		stable := true
		for _, w := range h.workers {
			switch {
			case c31Closed(w.done):
			case w.op.Site != "":
				undecided = append(undecided, w)
			case c31Closed(w.entered) && !w.released:
				running = append(running, c31Rel{w: w})
			case c31Closed(w.entered):
				stable = false // released, on its way out
			default:
				undecided = append(undecided, w)
			}
		}
		held := 0
		h.mu.Lock()
		total := len(h.inCmd)
		for _, inv := range h.inCmd {
			if inv.released {
				stable = false // told to go on, not finished yet
			} else {
				held++
				running = append(running, c31Rel{inv: inv})
			}
		}
		failed := h.violation != nil
		h.mu.Unlock()
		if failed {
			// the verdict is known; the caller gives the case up and drains
			return running, nil, nil
		}
		if stable && (len(undecided) > 0 || held > 0) {
			dump := c31DumpSite()
			waiting := 0
			for _, w := range undecided {
				st := dump[w.gid]
				switch {
				case st.parked:
					parked = append(parked, w)
				case w.op.Site != "" && st.cmdWait:
					waiting++
				default:
					stable = false
				}
			}
			if waiting != held {
				stable = false
			}
			h.mu.Lock()
			if len(h.inCmd) != total {
				stable = false
			}
			h.mu.Unlock()
		}
		if stable {
			for _, w := range parked {
				w.parked = true
			}
			sort.Slice(parked, func(i, j int) bool { return parked[i].idx < parked[j].idx })
			return running, parked, nil
		}
		if time.Now().After(deadline) {
			return nil, nil, kit.Fail("no-quiescence", "site: operations neither finish, enter a critical section, wait for a held command nor park in the mutex within 30s")
		}
		// Wait for something to happen (a command announcing itself, a body
		// being entered, an operation returning) rather than polling: every
		// look at a transient state costs a stop-the-world dump, which also
		// holds up the very process start it is waiting for.
		if spin < 5 {
			runtime.Gosched()
			continue
		}
		tm := time.NewTimer(pause)
		select {
		case <-h.wake:
		case <-tm.C:
			pause = min(2*pause, 8*time.Millisecond)
		}
		tm.Stop()
	}
}

// poke wakes quiesceSite (site mode only; no-op otherwise).
func (h *c31Harness) poke() {
	if h.wake != nil {
		select {
		case h.wake <- struct{}{}:
		default:
		}
	}
}
