//go:build verif

package main

// C30: the indexing queue behaves as a priority queue.
//
// Stateful model-based check. The generator produces an operation history as
// data; the run function interprets it against a real *Queue and against a
// small reference model written from the comments in queue.go / backoff.go and
// the property statement. Every observable result is compared: Pop (options
// and ok), Len, the ids returned by Bump and MaybeRemoveMissing, and the set of
// tracked ids after every operation. At the end the queue is drained and the
// complete pop order is compared.
//
// Time: queue.go and backoff.go call time.Now() directly (no clock hook), so
// the harness owns time through the configured durations: a back-off of one
// hour can never expire during a case ("blocked"), a back-off of a few
// nanoseconds is waited out by the harness (bounded spin on the item's own
// backoffUntil) before the next operation ("expired"). No assertion depends on
// how long anything takes.

import (
	"encoding/json"
	"fmt"
	"os"
	"reflect"
	"sort"
	"testing"
	"time"

	"pgregory.net/rapid"

	sglog "github.com/sourcegraph/log"

	"github.com/sourcegraph/zoekt"
	"github.com/sourcegraph/zoekt/internal/verifkit/kit"
)

// c30KnownRemoveKey is the finding id of the one recognised defect class:
// MaybeRemoveMissing looks items up by the RepoID stored in their options
// instead of the id they are tracked under.
const c30KnownRemoveKey = "C30-remove-missing-wrong-key"

type c30Op struct {
	Kind  string   // add | pop | bump | ok | fail | remove
	ID    uint32   `json:",omitempty"` // add, ok, fail
	Ver   int      `json:",omitempty"` // add, ok, fail: options version (-1: bare options)
	State string   `json:",omitempty"` // ok: which non-failure indexState
	IDs   []uint32 `json:",omitempty"` // bump, remove
}

type c30Case struct {
	BackoffNS    int64 // NewQueue backoffDuration
	MaxBackoffNS int64 // NewQueue maxBackoffDuration
	Ops          []c30Op
}

const c30Long = int64(time.Hour)

func c30Opts(id uint32, ver int) IndexOptions {
	if ver < 0 {
		// bare options; for id 0 this is the zero value, which equals the
		// options of an item the queue created itself.
		return IndexOptions{RepoID: id}
	}
	return IndexOptions{
		RepoID:   id,
		Name:     fmt.Sprintf("repo%d", id),
		Branches: []zoekt.RepositoryBranch{{Name: "HEAD", Version: fmt.Sprintf("v%d", ver)}},
	}
}

func genC30(rt *rapid.T) c30Case {
	g := kit.G{T: rt}
	durs := [][2]int64{
		{c30Long, c30Long},     // every failure blocks
		{1, 1},                 // every failure expires at once
		{1, c30Long},           // n ns: expires
		{c30Long, 3 * c30Long}, // 1h, 2h, 3h, 3h: blocks
		{c30Long, 1},           // capped to 1ns: expires
		{0, 0},                 // disabled
		{-1, c30Long},          // negative: disabled
		{1, 2},                 // 1ns, 2ns, capped 2ns
		{c30Long / 2, c30Long}, // 30min (treated as blocked), 1h
	}
	d := kit.Pick(g, durs, "durations")
	c := c30Case{BackoffNS: d[0], MaxBackoffNS: d[1]}
	nIDs := g.Int(2, 6, "nids")
	id := func(label string) uint32 { return uint32(g.Int(0, nIDs-1, label)) }
	idList := func(label string) []uint32 {
		var out []uint32
		switch g.Int(0, 9, label+"-shape") {
		case 0: // everything
			for i := 0; i < nIDs; i++ {
				out = append(out, uint32(i))
			}
		case 1: // nothing
		default:
			for i := 0; i < nIDs; i++ {
				if g.Bool(55, label+"-in") {
					out = append(out, uint32(i))
				}
			}
		}
		if g.Bool(15, label+"-extra") {
			out = append(out, uint32(nIDs+g.Int(0, 2, label+"-extraid")))
		}
		if len(out) > 0 && g.Bool(8, label+"-dup") {
			out = append(out, out[g.Int(0, len(out)-1, label+"-dupidx")])
		}
		if len(out) > 1 && g.Bool(30, label+"-rev") {
			for i, j := 0, len(out)-1; i < j; i, j = i+1, j-1 {
				out[i], out[j] = out[j], out[i]
			}
		}
		return out
	}
	lastVer := map[uint32]int{}
	n := g.Int(4, 40, "nops")
	for i := 0; i < n; i++ {
		var op c30Op
		switch k := g.Int(0, 99, "kind"); {
		case k < 32:
			op = c30Op{Kind: "add", ID: id("id"), Ver: g.Int(-1, 2, "ver")}
			if v, ok := lastVer[op.ID]; ok && g.Bool(40, "samever") {
				op.Ver = v
			}
			lastVer[op.ID] = op.Ver
		case k < 52:
			op = c30Op{Kind: "pop"}
		case k < 64:
			op = c30Op{Kind: "bump", IDs: idList("bump")}
		case k < 78:
			op = c30Op{Kind: "ok", ID: id("id"), Ver: g.Int(-1, 2, "ver"),
				State: kit.Pick(g, []string{"success", "success", "success_meta", "noop", "empty"}, "state")}
			if v, ok := lastVer[op.ID]; ok && g.Bool(70, "samever") {
				op.Ver = v
			}
		case k < 90:
			op = c30Op{Kind: "fail", ID: id("id"), Ver: g.Int(-1, 2, "ver")}
			if v, ok := lastVer[op.ID]; ok && g.Bool(70, "samever") {
				op.Ver = v
			}
		default:
			op = c30Op{Kind: "remove", IDs: idList("remove")}
		}
		c.Ops = append(c.Ops, op)
	}
	return c
}

// ---- reference model -------------------------------------------------------

type c30Item struct {
	opts    IndexOptions
	indexed bool
	failed  bool
	onQueue bool
	seq     int64
	fails   int  // consecutive failures counted by the back-off
	blocked bool // a back-off that cannot expire during the case is pending
}

type c30Model struct {
	backoff, maxBackoff int64
	items               map[uint32]*c30Item
	seq                 int64
}

func newC30Model(bo, max int64) *c30Model {
	if bo < 0 || max < 0 {
		bo, max = 0, 0
	}
	return &c30Model{backoff: bo, maxBackoff: max, items: map[uint32]*c30Item{}}
}

func (m *c30Model) getOrAdd(id uint32) *c30Item {
	it := m.items[id]
	if it == nil {
		it = &c30Item{}
		m.items[id] = it
	}
	return it
}

func (m *c30Model) enqueue(it *c30Item) bool {
	if it.onQueue || it.blocked {
		return false
	}
	m.seq++
	it.seq = m.seq
	it.onQueue = true
	return true
}

// less is the documented priority: options not yet indexed first, then
// non-failed before failed, then first-in first-out.
func c30Less(x, y *c30Item) bool {
	if x.indexed != y.indexed {
		return !x.indexed
	}
	if x.failed != y.failed {
		return !x.failed
	}
	return x.seq < y.seq
}

func (m *c30Model) min() (uint32, *c30Item) {
	var best *c30Item
	var bestID uint32
	for _, id := range m.sortedIDs() {
		it := m.items[id]
		if it.onQueue && (best == nil || c30Less(it, best)) {
			best, bestID = it, id
		}
	}
	return bestID, best
}

func (m *c30Model) queued() (n int, minSeqIsMin bool) {
	var bySeq *c30Item
	for _, it := range m.items {
		if it.onQueue {
			n++
			if bySeq == nil || it.seq < bySeq.seq {
				bySeq = it
			}
		}
	}
	_, best := m.min()
	return n, best == bySeq
}

func (m *c30Model) sortedIDs() []uint32 {
	ids := make([]uint32, 0, len(m.items))
	for id := range m.items {
		ids = append(ids, id)
	}
	sort.Slice(ids, func(i, j int) bool { return ids[i] < ids[j] })
	return ids
}

// foreignKeyed reports whether some tracked item's stored options name a
// different repository id than the id it is tracked under. Such items are
// created by SetIndexed on an id the queue does not know (their options are
// the zero value until AddOrUpdate supplies real ones).
func (m *c30Model) foreignKeyed() bool {
	for id, it := range m.items {
		if it.opts.RepoID != id {
			return true
		}
	}
	return false
}

// fail applies backoff.Fail; it returns the back-off that was set.
func (m *c30Model) fail(it *c30Item) int64 {
	d := int64(it.fails+1) * m.backoff
	if d > m.maxBackoff {
		d = m.maxBackoff
	} else {
		it.fails++
	}
	return d
}

// ---- interpretation --------------------------------------------------------

func c30Tracked(q *Queue) []uint32 {
	q.mu.Lock()
	defer q.mu.Unlock()
	ids := make([]uint32, 0, len(q.items))
	for id := range q.items {
		ids = append(ids, id)
	}
	sort.Slice(ids, func(i, j int) bool { return ids[i] < ids[j] })
	return ids
}

func c30Sorted(ids []uint32) []uint32 {
	out := append([]uint32{}, ids...)
	sort.Slice(out, func(i, j int) bool { return out[i] < out[j] })
	return out
}

// c30AwaitExpiry waits until the back-off of id has expired. It is only
// called when the configured back-off is a few nanoseconds.
func c30AwaitExpiry(q *Queue, id uint32) error {
	q.mu.Lock()
	it := q.items[id]
	var until time.Time
	if it != nil {
		until = it.backoff.backoffUntil
	}
	q.mu.Unlock()
	if it == nil {
		return nil // the tracked-set comparison reports this
	}
	start := time.Now()
	for !until.Before(time.Now()) {
		if time.Since(start) > 5*time.Second {
			return kit.Fail("backoff-too-long", "id %d: a back-off of a few nanoseconds is still pending after 5s (until %v)", id, until)
		}
	}
	return nil
}

func c30State(s string) indexState {
	switch s {
	case "success_meta":
		return indexStateSuccessMeta
	case "noop":
		return indexStateNoop
	case "empty":
		return indexStateEmpty
	}
	return indexStateSuccess
}

func runC30(rec *kit.Recorder, c c30Case) error {
	q := NewQueue(time.Duration(c.BackoffNS), time.Duration(c.MaxBackoffNS), sglog.NoOp())
	m := newC30Model(c.BackoffNS, c.MaxBackoffNS)
	labels := map[string]bool{}
	nt := false
	if os.Getenv("VERIF_REPLAY") != "" {
		rec.Sample(c, false) // a failing replay must still leave a sample for the driver
	}

	popCheck := func(step string, drain bool) error {
		n, fifo := m.queued()
		id, want := m.min()
		got, ok := q.Pop()
		if want == nil {
			if !drain {
				labels["pop:empty"] = true
			}
			if ok {
				return kit.Fail("pop-phantom", "%s: Pop returned %+v although every enqueued repository was already yielded", step, got.Opts)
			}
			return nil
		}
		if n >= 3 {
			labels["pop:among>=3"] = true
			nt = true
		}
		if !fifo {
			labels["pop:priority-beats-fifo"] = true
		}
		if want.failed {
			labels["pop:failed-item"] = true
		}
		if want.indexed {
			labels["pop:indexed-item"] = true
		}
		if !ok {
			return kit.Fail("pop-lost", "%s: Pop reported an empty queue, %d repositories are enqueued (next: id %d)", step, n, id)
		}
		if !reflect.DeepEqual(got.Opts, want.opts) {
			return kit.Fail("pop-order", "%s: Pop returned %+v, the model's next item is id %d with %+v (%d enqueued)", step, got.Opts, id, want.opts, n)
		}
		want.onQueue = false
		return nil
	}

	for i, op := range c.Ops {
		step := fmt.Sprintf("op %d %s", i, op.Kind)
		switch op.Kind {
		case "add":
			opts := c30Opts(op.ID, op.Ver)
			q.AddOrUpdate(opts)
			_, known := m.items[op.ID]
			it := m.getOrAdd(op.ID)
			if !reflect.DeepEqual(it.opts, opts) {
				it.indexed = false
				it.opts = opts
				if known {
					labels["add:new-options"] = true
				}
			} else if known {
				labels["add:same-options"] = true
			}
			switch {
			case it.onQueue:
				labels["add:already-queued"] = true
			case it.blocked:
				labels["add:blocked-by-backoff"] = true
			default:
				m.enqueue(it)
			}
		case "pop":
			if err := popCheck(step, false); err != nil {
				return err
			}
		case "bump":
			got := q.Bump(op.IDs)
			var want []uint32
			for _, id := range op.IDs {
				it, ok := m.items[id]
				if !ok {
					want = append(want, id)
					continue
				}
				if it.blocked && !it.onQueue {
					labels["bump:blocked-by-backoff"] = true
				}
				if m.enqueue(it) {
					labels["bump:re-enqueued"] = true
				}
			}
			if !reflect.DeepEqual(c30Sorted(got), c30Sorted(want)) {
				return kit.Fail("bump-missing", "%s %v: reported unknown ids %v, model %v", step, op.IDs, got, want)
			}
		case "ok":
			opts := c30Opts(op.ID, op.Ver)
			if _, known := m.items[op.ID]; !known {
				labels["setindexed:unknown-id"] = true
			}
			q.SetIndexed(opts, c30State(op.State))
			it := m.getOrAdd(op.ID)
			it.failed = false
			it.indexed = reflect.DeepEqual(opts, it.opts)
			it.fails = 0
			it.blocked = false
			if it.indexed {
				labels["ok:up-to-date"] = true
			} else {
				labels["ok:stale"] = true
			}
		case "fail":
			opts := c30Opts(op.ID, op.Ver)
			if _, known := m.items[op.ID]; !known {
				labels["setindexed:unknown-id"] = true
			}
			q.SetIndexed(opts, indexStateFail)
			it := m.getOrAdd(op.ID)
			it.failed = true
			if it.onQueue {
				labels["fail:removed-from-queue"] = true
			}
			it.onQueue = false
			d := m.fail(it)
			if d >= c30Long/2 {
				it.blocked = true
				labels["fail:blocked"] = true
			} else {
				it.blocked = false
				labels["fail:expired"] = true
				if err := c30AwaitExpiry(q, op.ID); err != nil {
					return err
				}
			}
		case "remove":
			foreign := m.foreignKeyed()
			got := q.MaybeRemoveMissing(op.IDs)
			var want []uint32
			if len(m.items) == len(op.IDs) {
				// documented heuristic: same size means "nothing to do"
				labels["remove:same-size-shortcut"] = true
			} else {
				labels["remove:ran"] = true
				keep := map[uint32]bool{}
				for _, id := range op.IDs {
					keep[id] = true
				}
				for _, id := range m.sortedIDs() {
					if !keep[id] {
						want = append(want, id)
						if m.items[id].onQueue {
							labels["remove:queued-item"] = true
						}
						delete(m.items, id)
					}
				}
				if len(want) > 0 {
					labels["remove:removed-some"] = true
				}
				if foreign {
					labels["remove:after-setindexed-on-unknown-id"] = true
					nt = true
				}
			}
			tracked := c30Tracked(q)
			if !reflect.DeepEqual(c30Sorted(got), c30Sorted(want)) || !reflect.DeepEqual(tracked, m.sortedIDs()) {
				msg := fmt.Sprintf("%s %v: reported removing %v and now tracks %v; model: removes %v, tracks %v", step, op.IDs, c30Sorted(got), tracked, c30Sorted(want), m.sortedIDs())
				if foreign {
					return kit.FailKnown(c30KnownRemoveKey, "remove-missing", "%s (an item created by SetIndexed on an unknown id is tracked)", msg)
				}
				return kit.Fail("remove-missing", "%s", msg)
			}
		default:
			return fmt.Errorf("bad op kind %q", op.Kind)
		}
		// after every operation: queue length and tracked set
		n, _ := m.queued()
		if l := q.Len(); l != n {
			return kit.Fail("len", "after %s: Len()=%d, model has %d enqueued", step, l, n)
		}
		if tracked := c30Tracked(q); !reflect.DeepEqual(tracked, m.sortedIDs()) {
			return kit.Fail("tracked", "after %s: queue tracks %v, model %v", step, tracked, m.sortedIDs())
		}
	}
	// drain: the complete remaining order
	for k := 0; ; k++ {
		n, _ := m.queued()
		if err := popCheck(fmt.Sprintf("drain %d", k), true); err != nil {
			return err
		}
		if n == 0 {
			break
		}
	}
	if l := q.Len(); l != 0 {
		return kit.Fail("len", "after draining: Len()=%d", l)
	}

	ls := make([]string, 0, len(labels)+1)
	for l := range labels {
		ls = append(ls, l)
	}
	sort.Strings(ls)
	ls = append(ls, fmt.Sprintf("backoff:%s/%s", time.Duration(c.BackoffNS), time.Duration(c.MaxBackoffNS)))
	b, _ := json.Marshal(c)
	rec.Eval(string(b), nt, ls...)
	rec.Sample(c, nt)
	return nil
}

func TestVerif_C30(t *testing.T) {
	rec := kit.Open(t, "C30",
		"rapid-generated histories of 4-40 operations (AddOrUpdate, Pop, Bump, SetIndexed success/failure, MaybeRemoveMissing) over 2-6 repository ids incl. ids the queue does not know, x 9 back-off configurations (blocking 1h / expiring ns / disabled); a case = one history, interpreted against the real Queue and a reference model, then drained; non-trivial = it pops among >= 3 enqueued items or runs a remove-missing after SetIndexed on an unknown id; distinct by hash of the history",
		"time is owned through durations: a back-off >= 30min never expires during a case, a back-off of a few ns is waited out by the harness before the next operation",
		"the same-size shortcut of MaybeRemoveMissing is documented behaviour and is modelled (len(ids) == number of tracked items => no removal)",
		"an item created by SetIndexed on an unknown id carries zero-valued options until AddOrUpdate; Bump re-enqueues it with those ('last known') options",
		"ids returned by Bump / MaybeRemoveMissing are compared as sorted lists; DateAddedToQueue is not checked",
	)
	kit.Property(t, rec, genC30, func(c c30Case) error { return runC30(rec, c) })
}
