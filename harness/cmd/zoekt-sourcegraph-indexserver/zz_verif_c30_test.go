//go:build verif

package main

// C30: the indexing queue behaves as a priority queue.
//
// Stateful model-based check. The generator produces an operation history as
// data; the run function interprets it against a real *Queue and against a
// small reference model written from the comments in queue.go / backoff.go and
// the property statement. Every observable result is compared: Pop (options
// and ok), Len, the ids returned by Bump and MaybeRemoveMissing, and the set of
// tracked ids after every operation. At the end the queue is drained and the
// complete pop order is compared.
//
// Time: queue.go and backoff.go call time.Now() directly (no clock hook), so
// the harness owns time through the configured durations: a back-off of one
// hour can never expire during a case ("blocked"), a back-off of a few
// nanoseconds is waited out by the harness (bounded spin on the item's own
// backoffUntil) before the next operation ("expired"). No assertion depends on
// how long anything takes. The configuration itself is generated: both
// durations come from the two classes (ns / >= 30 min) and from zero and
// negative values, in every relation to one another (see genC30Durations).

import (
	"encoding/json"
	"fmt"
	"os"
	"reflect"
	"sort"
	"testing"
	"time"

	"pgregory.net/rapid"

	sglog "github.com/sourcegraph/log"

	"github.com/sourcegraph/zoekt"
	"github.com/sourcegraph/zoekt/internal/verifkit/kit"
)

// c30KnownRemoveKey is the finding id of the one recognised defect class:
// MaybeRemoveMissing looks items up by the RepoID stored in their options
// instead of the id they are tracked under.
const c30KnownRemoveKey = "C30-remove-missing-wrong-key"

type c30Op struct {
	Kind  string   // add | pop | bump | ok | fail | remove
	ID    uint32   `json:",omitempty"` // add, ok, fail
	Ver   int      `json:",omitempty"` // add, ok, fail: options version (-1: bare options)
	State string   `json:",omitempty"` // ok: which non-failure indexState
	IDs   []uint32 `json:",omitempty"` // bump, remove
}

type c30Case struct {
	BackoffNS    int64  // NewQueue backoffDuration
	MaxBackoffNS int64  // NewQueue maxBackoffDuration
	Relation     string `json:",omitempty"` // how the generator related the two (label only)
	Ops          []c30Op
}

const c30Long = int64(time.Hour)

func c30Opts(id uint32, ver int) IndexOptions {
	if ver < 0 {
		// bare options; for id 0 this is the zero value, which equals the
		// options of an item the queue created itself.
		return IndexOptions{RepoID: id}
	}
	return IndexOptions{
		RepoID:   id,
		Name:     fmt.Sprintf("repo%d", id),
		Branches: []zoekt.RepositoryBranch{{Name: "HEAD", Version: fmt.Sprintf("v%d", ver)}},
	}
}

// genC30Durations draws the queue configuration. Every positive value is
// either "short" (1-6 ns: the harness waits it out) or "long" (30 min and
// more: it cannot expire during a case), so that whatever back-off a failure
// computes - (consecutive failures + 1) x backoffDuration, capped at
// maxBackoffDuration - falls into one of the two classes the harness can own.
// All relations between the two values are produced: per-failure back-off
// below, equal to and above the maximum (the very first failure is capped
// then), either or both zero (back-off of zero length), and negative values
// (NewQueue documents those as "disabled": both become zero).
func genC30Durations(g kit.G) c30Case {
	short := []int64{1, 2, 3}
	long := []int64{c30Long / 2, c30Long, 2 * c30Long, 3 * c30Long, 5 * c30Long}
	val := func(label string) int64 {
		if g.Bool(65, label+"-long") {
			return kit.Pick(g, long, label)
		}
		return kit.Pick(g, short, label)
	}
	two := func() (lo, hi int64) {
		lo, hi = val("dur-a"), val("dur-b")
		if lo == hi {
			hi = 2 * lo // stays in its class: <= 6ns or >= 1h
		}
		if lo > hi {
			lo, hi = hi, lo
		}
		return lo, hi
	}
	c := c30Case{}
	c.Relation = kit.Pick(g, []string{"below-max", "above-max", "above-max", "equal", "free", "zero-backoff", "zero-max", "both-zero", "negative"}, "relation")
	switch c.Relation {
	case "below-max":
		c.BackoffNS, c.MaxBackoffNS = two()
	case "above-max":
		c.MaxBackoffNS, c.BackoffNS = two()
	case "equal":
		c.BackoffNS = val("dur-a")
		c.MaxBackoffNS = c.BackoffNS
	case "free":
		c.BackoffNS, c.MaxBackoffNS = val("dur-a"), val("dur-b")
	case "zero-backoff":
		c.MaxBackoffNS = val("dur-b")
	case "zero-max":
		c.BackoffNS = val("dur-a")
	case "both-zero":
	case "negative":
		c.BackoffNS, c.MaxBackoffNS = val("dur-a"), val("dur-b")
		switch g.U(3, "negative-which") {
		case 0:
			c.BackoffNS = -1
		case 1:
			c.MaxBackoffNS = -1
		default:
			c.BackoffNS, c.MaxBackoffNS = -1, -1
		}
	}
	return c
}

func c30DurClass(ns int64) string {
	switch {
	case ns < 0:
		return "negative"
	case ns == 0:
		return "zero"
	case ns < c30Long/2:
		return "ns"
	}
	return "long"
}

func genC30(rt *rapid.T) c30Case {
	g := kit.G{T: rt}
	c := genC30Durations(g)
	nIDs := g.Int(2, 6, "nids")
	// ids are "sticky": a third of the operations address the repository of
	// the previous single-id operation, so that chains such as fail, success,
	// add on one repository are common.
	lastID, haveLast := uint32(0), false
	id := func(label string) uint32 {
		if haveLast && g.Bool(33, label+"-sticky") {
			return lastID
		}
		lastID, haveLast = uint32(g.Int(0, nIDs-1, label)), true
		return lastID
	}
	idList := func(label string) []uint32 {
		var out []uint32
		switch g.Int(0, 9, label+"-shape") {
		case 0: // everything
			for i := 0; i < nIDs; i++ {
				out = append(out, uint32(i))
			}
		case 1: // nothing
		default:
			for i := 0; i < nIDs; i++ {
				if g.Bool(55, label+"-in") {
					out = append(out, uint32(i))
				}
			}
		}
		if g.Bool(15, label+"-extra") {
			out = append(out, uint32(nIDs+g.Int(0, 2, label+"-extraid")))
		}
		if haveLast && g.Bool(30, label+"-last") {
			seen := false
			for _, x := range out {
				seen = seen || x == lastID
			}
			if !seen {
				out = append(out, lastID)
			}
		}
		if len(out) > 0 && g.Bool(8, label+"-dup") {
			out = append(out, out[g.Int(0, len(out)-1, label+"-dupidx")])
		}
		if len(out) > 1 && g.Bool(30, label+"-rev") {
			for i, j := 0, len(out)-1; i < j; i, j = i+1, j-1 {
				out[i], out[j] = out[j], out[i]
			}
		}
		return out
	}
	lastVer := map[uint32]int{}
	n := g.Int(4, 40, "nops")
	for i := 0; i < n; i++ {
		var op c30Op
		switch k := g.U(100, "kind"); {
		case k < 32:
			op = c30Op{Kind: "add", ID: id("id"), Ver: g.Int(-1, 2, "ver")}
			if v, ok := lastVer[op.ID]; ok && g.Bool(40, "samever") {
				op.Ver = v
			}
			lastVer[op.ID] = op.Ver
		case k < 52:
			op = c30Op{Kind: "pop"}
		case k < 64:
			op = c30Op{Kind: "bump", IDs: idList("bump")}
		case k < 78:
			op = c30Op{Kind: "ok", ID: id("id"), Ver: g.Int(-1, 2, "ver"),
				State: kit.Pick(g, []string{"success", "success", "success_meta", "noop", "empty"}, "state")}
			if v, ok := lastVer[op.ID]; ok && g.Bool(70, "samever") {
				op.Ver = v
			}
		case k < 90:
			op = c30Op{Kind: "fail", ID: id("id"), Ver: g.Int(-1, 2, "ver")}
			if v, ok := lastVer[op.ID]; ok && g.Bool(70, "samever") {
				op.Ver = v
			}
		default:
			op = c30Op{Kind: "remove", IDs: idList("remove")}
		}
		c.Ops = append(c.Ops, op)
	}
	return c
}

// ---- reference model -------------------------------------------------------

type c30Item struct {
	opts    IndexOptions
	indexed bool
	failed  bool
	onQueue bool
	seq     int64
	fails   int  // consecutive failures counted by the back-off
	blocked bool // a back-off that cannot expire during the case is pending
	cleared bool // a success ended a pending blocking back-off and the item was not enqueued since (label only)
}

type c30Model struct {
	backoff, maxBackoff int64
	items               map[uint32]*c30Item
	seq                 int64
}

func newC30Model(bo, max int64) *c30Model {
	if bo < 0 || max < 0 {
		bo, max = 0, 0
	}
	return &c30Model{backoff: bo, maxBackoff: max, items: map[uint32]*c30Item{}}
}

func (m *c30Model) getOrAdd(id uint32) *c30Item {
	it := m.items[id]
	if it == nil {
		it = &c30Item{}
		m.items[id] = it
	}
	return it
}

func (m *c30Model) enqueue(it *c30Item) bool {
	if it.onQueue || it.blocked {
		return false
	}
	m.seq++
	it.seq = m.seq
	it.onQueue = true
	it.cleared = false
	return true
}

// less is the documented priority: options not yet indexed first, then
// non-failed before failed, then first-in first-out.
func c30Less(x, y *c30Item) bool {
	if x.indexed != y.indexed {
		return !x.indexed
	}
	if x.failed != y.failed {
		return !x.failed
	}
	return x.seq < y.seq
}

func (m *c30Model) min() (uint32, *c30Item) {
	var best *c30Item
	var bestID uint32
	for _, id := range m.sortedIDs() {
		it := m.items[id]
		if it.onQueue && (best == nil || c30Less(it, best)) {
			best, bestID = it, id
		}
	}
	return bestID, best
}

func (m *c30Model) queued() (n int, minSeqIsMin bool) {
	var bySeq *c30Item
	for _, it := range m.items {
		if it.onQueue {
			n++
			if bySeq == nil || it.seq < bySeq.seq {
				bySeq = it
			}
		}
	}
	_, best := m.min()
	return n, best == bySeq
}

func (m *c30Model) sortedIDs() []uint32 {
	ids := make([]uint32, 0, len(m.items))
	for id := range m.items {
		ids = append(ids, id)
	}
	sort.Slice(ids, func(i, j int) bool { return ids[i] < ids[j] })
	return ids
}

// foreignKeyed reports whether some tracked item's stored options name a
// different repository id than the id it is tracked under. Such items are
// created by SetIndexed on an id the queue does not know (their options are
// the zero value until AddOrUpdate supplies real ones).
func (m *c30Model) foreignKeyed() bool {
	for id, it := range m.items {
		if it.opts.RepoID != id {
			return true
		}
	}
	return false
}

// fail applies backoff.Fail as documented in backoff.go: the back-off is
// (consecutive failures + 1) x backoffDuration; when that exceeds maxBackoff
// the back-off is maxBackoff and the failure is not counted (so with
// backoffDuration > maxBackoff the counter never leaves zero). It returns the
// back-off that was set and whether it was capped.
func (m *c30Model) fail(it *c30Item) (d int64, capped bool) {
	d = int64(it.fails+1) * m.backoff
	if d > m.maxBackoff {
		return m.maxBackoff, true
	}
	it.fails++
	return d, false
}

// ---- interpretation --------------------------------------------------------

func c30Tracked(q *Queue) []uint32 {
	q.mu.Lock()
	defer q.mu.Unlock()
	ids := make([]uint32, 0, len(q.items))
	for id := range q.items {
		ids = append(ids, id)
	}
	sort.Slice(ids, func(i, j int) bool { return ids[i] < ids[j] })
	return ids
}

func c30Sorted(ids []uint32) []uint32 {
	out := append([]uint32{}, ids...)
	sort.Slice(out, func(i, j int) bool { return out[i] < out[j] })
	return out
}

// c30AwaitExpiry waits until the back-off of id has expired. It is only
// called when the configured back-off is a few nanoseconds.
func c30AwaitExpiry(q *Queue, id uint32) error {
	q.mu.Lock()
	it := q.items[id]
	var until time.Time
	if it != nil {
		until = it.backoff.backoffUntil
	}
	q.mu.Unlock()
	if it == nil {
		return nil // the tracked-set comparison reports this
	}
	start := time.Now()
	for !until.Before(time.Now()) {
		if time.Since(start) > 5*time.Second {
			return kit.Fail("backoff-too-long", "id %d: a back-off of a few nanoseconds is still pending after 5s (until %v)", id, until)
		}
	}
	return nil
}

func c30State(s string) indexState {
	switch s {
	case "success_meta":
		return indexStateSuccessMeta
	case "noop":
		return indexStateNoop
	case "empty":
		return indexStateEmpty
	}
	return indexStateSuccess
}

func runC30(rec *kit.Recorder, c c30Case) error {
	q := NewQueue(time.Duration(c.BackoffNS), time.Duration(c.MaxBackoffNS), sglog.NoOp())
	m := newC30Model(c.BackoffNS, c.MaxBackoffNS)
	labels := map[string]bool{}
	nt := false
	if os.Getenv("VERIF_REPLAY") != "" {
		rec.Sample(c, false) // a failing replay must still leave a sample for the driver
	}

	popCheck := func(step string, drain bool) error {
		n, fifo := m.queued()
		id, want := m.min()
		got, ok := q.Pop()
		if want == nil {
			if !drain {
				labels["pop:empty"] = true
			}
			if ok {
				return kit.Fail("pop-phantom", "%s: Pop returned %+v although every enqueued repository was already yielded", step, got.Opts)
			}
			return nil
		}
		if n >= 3 {
			labels["pop:among>=3"] = true
			nt = true
		}
		if !fifo {
			labels["pop:priority-beats-fifo"] = true
		}
		if want.failed {
			labels["pop:failed-item"] = true
		}
		if want.indexed {
			labels["pop:indexed-item"] = true
		}
		if !ok {
			return kit.Fail("pop-lost", "%s: Pop reported an empty queue, %d repositories are enqueued (next: id %d)", step, n, id)
		}
		if !reflect.DeepEqual(got.Opts, want.opts) {
			return kit.Fail("pop-order", "%s: Pop returned %+v, the model's next item is id %d with %+v (%d enqueued)", step, got.Opts, id, want.opts, n)
		}
		want.onQueue = false
		return nil
	}

	for i, op := range c.Ops {
		step := fmt.Sprintf("op %d %s", i, op.Kind)
		switch op.Kind {
		case "add":
			opts := c30Opts(op.ID, op.Ver)
			q.AddOrUpdate(opts)
			_, known := m.items[op.ID]
			it := m.getOrAdd(op.ID)
			if !reflect.DeepEqual(it.opts, opts) {
				it.indexed = false
				it.opts = opts
				if known {
					labels["add:new-options"] = true
				}
			} else if known {
				labels["add:same-options"] = true
			}
			switch {
			case it.onQueue:
				labels["add:already-queued"] = true
			case it.blocked:
				labels["add:blocked-by-backoff"] = true
			default:
				if it.cleared {
					labels["add:enqueued-after-success-cleared-backoff"] = true
					nt = true
				}
				m.enqueue(it)
			}
		case "pop":
			if err := popCheck(step, false); err != nil {
				return err
			}
		case "bump":
			got := q.Bump(op.IDs)
			var want []uint32
			for _, id := range op.IDs {
				it, ok := m.items[id]
				if !ok {
					want = append(want, id)
					continue
				}
				if it.blocked && !it.onQueue {
					labels["bump:blocked-by-backoff"] = true
				}
				cleared := it.cleared
				if m.enqueue(it) {
					labels["bump:re-enqueued"] = true
					if cleared {
						labels["bump:enqueued-after-success-cleared-backoff"] = true
						nt = true
					}
				}
			}
			if !reflect.DeepEqual(c30Sorted(got), c30Sorted(want)) {
				return kit.Fail("bump-missing", "%s %v: reported unknown ids %v, model %v", step, op.IDs, got, want)
			}
		case "ok":
			opts := c30Opts(op.ID, op.Ver)
			if _, known := m.items[op.ID]; !known {
				labels["setindexed:unknown-id"] = true
			}
			q.SetIndexed(opts, c30State(op.State))
			it := m.getOrAdd(op.ID)
			it.failed = false
			it.indexed = reflect.DeepEqual(opts, it.opts)
			// a success ends the back-off, however it was computed
			if it.blocked {
				labels["ok:ends-blocking-backoff"] = true
				if it.fails == 0 {
					labels["ok:ends-backoff-of-uncounted-failure"] = true
				}
				if !it.onQueue {
					it.cleared = true
				}
			}
			it.fails = 0
			it.blocked = false
			if it.indexed {
				labels["ok:up-to-date"] = true
			} else {
				labels["ok:stale"] = true
			}
		case "fail":
			opts := c30Opts(op.ID, op.Ver)
			if _, known := m.items[op.ID]; !known {
				labels["setindexed:unknown-id"] = true
			}
			q.SetIndexed(opts, indexStateFail)
			it := m.getOrAdd(op.ID)
			it.failed = true
			if it.onQueue {
				labels["fail:removed-from-queue"] = true
			}
			it.onQueue = false
			it.cleared = false
			d, capped := m.fail(it)
			switch {
			case capped && it.fails == 0:
				labels["fail:capped-uncounted-first"] = true
			case capped:
				labels["fail:capped"] = true
			case it.fails > 1:
				labels["fail:grown"] = true
			}
			if d == 0 {
				labels["fail:zero-length-backoff"] = true
			}
			if d >= c30Long/2 {
				it.blocked = true
				labels["fail:blocked"] = true
			} else {
				it.blocked = false
				labels["fail:expired"] = true
				if err := c30AwaitExpiry(q, op.ID); err != nil {
					return err
				}
			}
		case "remove":
			foreign := m.foreignKeyed()
			got := q.MaybeRemoveMissing(op.IDs)
			var want []uint32
			if len(m.items) == len(op.IDs) {
				// documented heuristic: same size means "nothing to do"
				labels["remove:same-size-shortcut"] = true
			} else {
				labels["remove:ran"] = true
				keep := map[uint32]bool{}
				for _, id := range op.IDs {
					keep[id] = true
				}
				for _, id := range m.sortedIDs() {
					if !keep[id] {
						want = append(want, id)
						if m.items[id].onQueue {
							labels["remove:queued-item"] = true
						}
						delete(m.items, id)
					}
				}
				if len(want) > 0 {
					labels["remove:removed-some"] = true
				}
				if foreign {
					labels["remove:after-setindexed-on-unknown-id"] = true
					nt = true
				}
			}
			tracked := c30Tracked(q)
			if !reflect.DeepEqual(c30Sorted(got), c30Sorted(want)) || !reflect.DeepEqual(tracked, m.sortedIDs()) {
				msg := fmt.Sprintf("%s %v: reported removing %v and now tracks %v; model: removes %v, tracks %v", step, op.IDs, c30Sorted(got), tracked, c30Sorted(want), m.sortedIDs())
				if foreign {
					return kit.FailKnown(c30KnownRemoveKey, "remove-missing", "%s (an item created by SetIndexed on an unknown id is tracked)", msg)
				}
				return kit.Fail("remove-missing", "%s", msg)
			}
		default:
			return fmt.Errorf("bad op kind %q", op.Kind)
		}
		// after every operation: queue length and tracked set
		n, _ := m.queued()
		if l := q.Len(); l != n {
			return kit.Fail("len", "after %s: Len()=%d, model has %d enqueued", step, l, n)
		}
		if tracked := c30Tracked(q); !reflect.DeepEqual(tracked, m.sortedIDs()) {
			return kit.Fail("tracked", "after %s: queue tracks %v, model %v", step, tracked, m.sortedIDs())
		}
	}
	// drain: the complete remaining order
	for k := 0; ; k++ {
		n, _ := m.queued()
		if err := popCheck(fmt.Sprintf("drain %d", k), true); err != nil {
			return err
		}
		if n == 0 {
			break
		}
	}
	if l := q.Len(); l != 0 {
		return kit.Fail("len", "after draining: Len()=%d", l)
	}

	ls := make([]string, 0, len(labels)+1)
	for l := range labels {
		ls = append(ls, l)
	}
	sort.Strings(ls)
	rel := c.Relation
	if rel == "" {
		rel = "unlabelled"
	}
	ls = append(ls, "config:"+rel, fmt.Sprintf("config-class:%s/%s", c30DurClass(c.BackoffNS), c30DurClass(c.MaxBackoffNS)))
	b, _ := json.Marshal(c)
	rec.Eval(string(b), nt, ls...)
	rec.Sample(c, nt)
	return nil
}

func TestVerif_C30(t *testing.T) {
	rec := kit.Open(t, "C30",
		"rapid-generated histories of 4-40 operations (AddOrUpdate, Pop, Bump, SetIndexed success/failure, MaybeRemoveMissing) over 2-6 repository ids incl. ids the queue does not know (a third of the operations stay on the repository of the previous one, so fail / success / bump chains on one repository are common), x generated queue configurations: backoffDuration and maxBackoffDuration each drawn from 1-6 ns (expiring) or 30 min - 10 h (blocking) in every relation - per-failure back-off below, equal to and above the maximum (first failure already capped and not counted), either or both zero, negative (disabled); a case = one history, interpreted against the real Queue and a reference model, then drained; non-trivial = it pops among >= 3 enqueued items, enqueues a repository whose blocking back-off was ended by a success, or runs a remove-missing after SetIndexed on an unknown id; distinct by hash of the history",
		"time is owned through durations (queue.go / backoff.go read time.Now() directly, there is no clock hook): a back-off >= 30min never expires during a case, a back-off of a few ns (or of zero length) is waited out by the harness before the next operation",
		"'honours failure back-off' is modelled from backoff.go: a failure takes the repository off the queue and blocks AddOrUpdate / Bump from enqueueing it for min((counted failures + 1) x backoffDuration, maxBackoffDuration), a capped failure is not counted, and any non-failure SetIndexed ends the back-off and the count whatever the configuration",
		"the same-size shortcut of MaybeRemoveMissing is documented behaviour and is modelled (len(ids) == number of tracked items => no removal)",
		"an item created by SetIndexed on an unknown id carries zero-valued options until AddOrUpdate; Bump re-enqueues it with those ('last known') options",
		"ids returned by Bump / MaybeRemoveMissing are compared as sorted lists; DateAddedToQueue is not checked",
	)
	kit.Property(t, rec, genC30, func(c c30Case) error { return runC30(rec, c) })
}
