//go:build verif

package main

// C31: index directory operations are mutually exclusive.
//
// Three parts, one Case type.
//
// "sched" (deterministic): the harness owns the schedule. A case is a list of
// operations (With(name) / Global) and a list of steps ("start the next
// operation" / "let the k-th running body return"). Every operation runs in
// its own goroutine; its body registers itself in the harness' occupancy table
// (checking the exclusion invariant at that moment) and then blocks on a
// channel only the harness closes. After every step the harness waits until
// the system is quiescent: every started goroutine has either returned, sits
// in its body waiting for the harness, or is parked inside the indexMutex's
// sync.RWMutex. "Parked" is read from a stop-the-world goroutine dump
// (runtime.Stack(all)), i.e. a consistent snapshot in which nothing is
// runnable: nothing can change until the harness acts, so the next step always
// meets the same state. The dump is only used to decide when to proceed, never
// as an oracle, so it cannot raise a false alarm.
//
// "stress": the same operations spread over free-running goroutines (bodies
// yield instead of blocking), occupancy checked with atomics. Scheduling is the
// Go runtime's; together with -race this half looks for races and crashes.
//
// "site" (deterministic, a fraction of the cases): the same harness-owned
// schedule, but the global operations are the Server's own call sites -
// Server.doMerge, Server.vacuum and Server.DeleteAllData on a Server whose index
// directory holds generated shards - mixed with With(name) and plain Global
// operations on the same Server.muIndexDir. Their work on the index directory
// is done by the `zoekt-merge-index` command; the harness puts a stand-in for
// that command first in PATH which reports "started" / "finished" over a FIFO
// and does nothing until the harness lets it continue. A command that runs is a
// critical section of a global operation: nothing else may be inside its
// critical section between the command's start and its end
// (zz_verif_c31_site_test.go).

import (
	"bytes"
	"encoding/json"
	"fmt"
	"os"
	"regexp"
	"runtime"
	"sort"
	"strconv"
	"sync"
	"sync/atomic"
	"testing"
	"time"

	"pgregory.net/rapid"

	"github.com/sourcegraph/zoekt/internal/verifkit/kit"
)

type c31Op struct {
	Global bool   `json:",omitempty"`
	Name   string `json:",omitempty"`
	// site mode only: "merge" (Server.doMerge), "vacuum" (Server.vacuum),
	// "delete" (Server.DeleteAllData): a global operation run through the
	// Server's own call site.
	Site string `json:",omitempty"`
}

type c31Case struct {
	Mode string // "sched" | "stress" | "site"
	Ops  []c31Op
	// sched: -1 = start the next operation; k >= 0 = let the (k mod n)-th of
	// the n bodies currently running (ordered by operation index) return.
	Steps []int `json:",omitempty"`
	// stress: number of goroutines (operation i runs on goroutine i mod Workers)
	// and how often a body yields.
	Workers int `json:",omitempty"`
	Yields  int `json:",omitempty"`
	// site: what the index directory holds and how the Server is configured;
	// Fail[i mod len]: the i-th run of the zoekt-merge-index stand-in fails.
	Layout *c31Layout `json:",omitempty"`
	Fail   []bool     `json:",omitempty"`
}

func genC31(rt *rapid.T) c31Case {
	g := kit.G{T: rt}
	c := c31Case{Mode: "sched"}
	if g.Bool(c31SitePctEff(), "site") {
		return genC31Site(g)
	}
	if v := g.Int(0, 99, "mode"); v >= 40 && v < 52 { // rapid favours small values: keep stress at ~12%
		c.Mode = "stress"
	}
	names := []string{"a", "b", "c", "d"}[:g.Int(1, 4, "nnames")]
	globalPct := kit.Pick(g, []int{0, 10, 25, 25, 50}, "globalpct")
	n := g.Int(2, 12, "nops")
	if c.Mode == "stress" {
		n = g.Int(8, 64, "nops-stress")
	}
	for i := 0; i < n; i++ {
		if g.Bool(globalPct, "global") {
			c.Ops = append(c.Ops, c31Op{Global: true})
		} else {
			c.Ops = append(c.Ops, c31Op{Name: kit.Pick(g, names, "name")})
		}
	}
	if c.Mode == "stress" {
		c.Workers = g.Int(2, 8, "workers")
		c.Yields = g.Int(0, 3, "yields")
		return c
	}
	ns := g.Int(n, 3*n, "nsteps")
	for i := 0; i < ns; i++ {
		if g.Bool(60, "start") {
			c.Steps = append(c.Steps, -1)
		} else {
			c.Steps = append(c.Steps, g.Int(0, 5, "release"))
		}
	}
	return c
}

// ---- deterministic half ----------------------------------------------------

type c31Worker struct {
	idx     int
	op      c31Op
	gid     int64
	started chan struct{} // gid is known
	entered chan struct{} // body registered
	release chan struct{} // closed by the harness: body may return
	done    chan struct{} // With/Global returned

	released bool // harness side
	ran      bool // written in body (before entered is closed)
	ret      bool // written before done is closed
	startTk  int64
	endTk    int64
	parked   bool // seen parked in the mutex at a quiescent point (harness side)
}

type c31Harness struct {
	m       *indexMutex
	ops     []c31Op
	workers []*c31Worker
	tick    atomic.Int64

	mu        sync.Mutex
	inBody    map[int]bool
	violation *kit.Discrepancy
	maxIn     int

	// site mode (nil / empty otherwise)
	site     *c31Site
	inCmd    map[int]*c31Inv // running runs of the zoekt-merge-index stand-in, by pid
	invSeq   int
	draining bool
	wake     chan struct{}
	cmdKinds map[string]bool
}

func (h *c31Harness) fail(kind, format string, args ...any) {
	// h.mu held or single-threaded
	if h.violation == nil {
		h.violation = kit.Fail(kind, format, args...)
	}
}

func c31GoID() int64 {
	var buf [64]byte
	n := runtime.Stack(buf[:], false)
	// "goroutine 123 [running]:"
	f := bytes.Fields(buf[:n])
	if len(f) < 2 {
		return -1
	}
	id, err := strconv.ParseInt(string(f[1]), 10, 64)
	if err != nil {
		return -1
	}
	return id
}

func (h *c31Harness) start(i int) *c31Worker {
	w := &c31Worker{idx: i, op: h.ops[i],
		started: make(chan struct{}), entered: make(chan struct{}),
		release: make(chan struct{}), done: make(chan struct{})}
	h.workers = append(h.workers, w)
	body := func() {
		h.mu.Lock()
		for _, inv := range h.inCmd {
			h.fail("global-not-exclusive", "operation %d (%s) entered its critical section while a global operation's command was running on the index directory (%s)", i, c31OpString(w.op), inv.describe())
		}
		for j := range h.inBody {
			o := h.ops[j]
			switch {
			case o.Global || w.op.Global:
				h.fail("global-not-exclusive", "operation %d (%s) entered its critical section while operation %d (%s) was inside", i, c31OpString(w.op), j, c31OpString(o))
			case o.Name == w.op.Name:
				h.fail("same-repository-concurrent", "operation %d (%s) entered its critical section while operation %d (%s) was inside", i, c31OpString(w.op), j, c31OpString(o))
			}
		}
		if w.ran {
			h.fail("body-ran-twice", "operation %d (%s): body invoked twice", i, c31OpString(w.op))
		}
		h.inBody[i] = true
		if len(h.inBody) > h.maxIn {
			h.maxIn = len(h.inBody)
		}
		w.ran = true
		h.mu.Unlock()
		close(w.entered)
		h.poke()
		<-w.release
		h.mu.Lock()
		delete(h.inBody, i)
		h.mu.Unlock()
	}
	go func() {
		w.gid = c31GoID()
		close(w.started)
		w.startTk = h.tick.Add(1)
		if w.op.Site != "" {
			h.site.call(w.op)
			w.ret = true
		} else if w.op.Global {
			h.m.Global(body)
			w.ret = true
		} else {
			w.ret = h.m.With(w.op.Name, body)
		}
		w.endTk = h.tick.Add(1)
		close(w.done)
		h.poke()
	}()
	<-w.started
	return w
}

func c31OpString(o c31Op) string {
	if o.Site != "" {
		return "Server." + map[string]string{"merge": "doMerge", "vacuum": "vacuum", "delete": "DeleteAllData"}[o.Site]
	}
	if o.Global {
		return "Global"
	}
	return fmt.Sprintf("With(%q)", o.Name)
}

func c31Closed(ch chan struct{}) bool {
	select {
	case <-ch:
		return true
	default:
		return false
	}
}

var c31Header = regexp.MustCompile(`^goroutine (\d+) \[([^\],]+)`)

// c31Dump returns, for every goroutine, its wait state and whether its stack
// is inside sync.RWMutex.Lock/RLock. runtime.Stack(all) stops the world, so
// the result is one consistent snapshot.
func c31Dump() map[int64][2]string {
	buf := make([]byte, 1<<16)
	for {
		n := runtime.Stack(buf, true)
		if n < len(buf) {
			buf = buf[:n]
			break
		}
		buf = make([]byte, 2*len(buf))
	}
	out := map[int64][2]string{}
	for _, blk := range bytes.Split(buf, []byte("\n\n")) {
		m := c31Header.FindSubmatch(blk)
		if m == nil {
			continue
		}
		id, _ := strconv.ParseInt(string(m[1]), 10, 64)
		in := ""
		if bytes.Contains(blk, []byte("sync.(*RWMutex).RLock(")) {
			in = "RLock"
		} else if bytes.Contains(blk, []byte("sync.(*RWMutex).Lock(")) {
			in = "Lock"
		}
		out[id] = [2]string{string(m[2]), in}
	}
	return out
}

func c31ParkedState(s string) bool {
	switch s {
	case "sync.RWMutex.RLock", "sync.RWMutex.Lock", "sync.Mutex.Lock", "semacquire":
		return true
	}
	return false
}

// quiesce waits until every started operation is in a stable state and
// returns the operations currently inside their body and those parked in the
// mutex. It fails only if no stable state is reached for a long time.
func (h *c31Harness) quiesce() (running, parked []*c31Worker, err error) {
	deadline := time.Now().Add(30 * time.Second)
	for spin := 0; ; spin++ {
		// Phase 1: states that only the harness can end (returned, or inside
		// the body and not yet released) are read from the channels.
		running, parked = running[:0], parked[:0]
		var undecided []*c31Worker
		stable := true
		for _, w := range h.workers {
			switch {
			case c31Closed(w.done):
			case c31Closed(w.entered) && !w.released:
				running = append(running, w)
			case c31Closed(w.entered):
				stable = false // released, on its way out
			default:
				undecided = append(undecided, w)
			}
		}
		// Phase 2: everything else must be parked in the mutex in one
		// snapshot taken after phase 1. At that instant every operation is in
		// a state it cannot leave by itself, so nothing moves until the
		// harness acts.
		if stable && len(undecided) > 0 {
			dump := c31Dump()
			for _, w := range undecided {
				st, ok := dump[w.gid]
				if ok && st[1] != "" && c31ParkedState(st[0]) {
					parked = append(parked, w)
				} else {
					stable = false
				}
			}
		}
		if stable {
			for _, w := range parked {
				w.parked = true
			}
			return running, parked, nil
		}
		if time.Now().After(deadline) {
			return nil, nil, kit.Fail("no-quiescence", "operations neither finish, enter their body nor park in the mutex within 30s")
		}
		if spin < 50 {
			runtime.Gosched()
		} else {
			time.Sleep(50 * time.Microsecond)
		}
	}
}

func runC31Sched(rec *kit.Recorder, c c31Case) error {
	outcome, err := runC31SchedOnce(rec, c, true)
	if err != nil {
		return err
	}
	ambiguous := len(outcome) > 0 && outcome[0] == '~'

	// Determinism self-check on a quarter of the cases: the same schedule must
	// produce the same per-operation outcome (recorded, not judged: operations
	// for one name that a finishing Global releases together may legitimately
	// swap roles).
	if len(c.Steps)%4 == 0 {
		again, err := runC31SchedOnce(rec, c, false)
		if err != nil {
			return err
		}
		rec.Add("determinism_rechecked", 1)
		if again != outcome {
			rec.Add("determinism_outcome_differs", 1)
			if !ambiguous {
				// not a property violation, but the harness claims determinism
				// outside that class: surface it in the evidence
				rec.Add("determinism_differs_unexplained", 1)
			}
		}
	}
	return nil
}

func runC31SchedOnce(rec *kit.Recorder, c c31Case, record bool) (string, error) {
	err := error(nil)
	outcome := ""
	func() { outcome, err = runC31SchedInner(rec, c, record) }()
	return outcome, err
}

// c31Rel is something the harness can let go on: the body of a With/Global
// operation or (site mode) a held run of the zoekt-merge-index stand-in.
type c31Rel struct {
	w   *c31Worker
	inv *c31Inv
}

func (r c31Rel) key() int {
	if r.inv != nil {
		return 1<<20 + r.inv.seq
	}
	return r.w.idx
}

func c31SortRels(rs []c31Rel) {
	sort.Slice(rs, func(i, j int) bool { return rs[i].key() < rs[j].key() })
}

func (h *c31Harness) releaseRel(r c31Rel) string {
	if r.inv != nil {
		h.releaseInv(r.inv)
		return "command " + r.inv.describe()
	}
	r.w.released = true
	close(r.w.release)
	return fmt.Sprintf("operation %d", r.w.idx)
}

func runC31SchedInner(rec *kit.Recorder, c c31Case, record bool) (outcome string, _ error) {
	h := &c31Harness{m: &indexMutex{}, ops: c.Ops, inBody: map[int]bool{}}
	if c.Mode == "site" {
		site, err := c31OpenSite(h, c)
		if err != nil {
			// no sh / mkfifo on this machine: the case cannot be run
			rec.Eval("site-unavailable", false, "mode:site", "site:unavailable")
			rec.Set("site_unavailable", err.Error())
			return "", nil
		}
		defer site.close()
	}
	next := 0
	labels := map[string]bool{}

	// settle waits for quiescence and checks that the system is not stuck.
	settle := func(when string) ([]c31Rel, error) {
		var running []c31Rel
		var parked []*c31Worker
		if h.site != nil {
			var err error
			running, parked, err = h.quiesceSite()
			if err != nil {
				return nil, err
			}
			h.mu.Lock()
			v := h.violation
			h.mu.Unlock()
			if v != nil {
				return nil, v
			}
		} else {
			rw, p, err := h.quiesce()
			if err != nil {
				return nil, err
			}
			parked = p
			for _, w := range rw {
				running = append(running, c31Rel{w: w})
			}
		}
		if len(running) == 0 && len(parked) > 0 {
			return nil, kit.Fail("stuck", "%s: no critical section is occupied, yet operation %d (%s) stays blocked in the mutex", when, parked[0].idx, c31OpString(parked[0].op))
		}
		cmdHeld := false
		for _, r := range running {
			if r.inv != nil {
				cmdHeld = true
			}
		}
		seen := map[string]bool{}
		for _, w := range parked {
			if cmdHeld {
				labels["site:operation-waited-behind-command"] = true
				if w.op.Site != "" || w.op.Global {
					labels["site:global-waited-behind-command"] = true
				} else {
					labels["site:with-waited-behind-command"] = true
				}
			}
			if w.op.Site != "" {
				labels["site:call-site-waited"] = true
			} else if w.op.Global {
				labels["global:waited"] = true
			} else {
				labels["with:waited-behind-global"] = true
				if seen[w.op.Name] {
					// released together later: who runs is the runtime's choice
					labels["with:same-name-waiting-together"] = true
				}
				seen[w.op.Name] = true
			}
		}
		return running, nil
	}
	// drainAll releases everything so that no goroutine outlives the case.
	drainAll := func() {
		for _, w := range h.workers {
			if !w.released && w.op.Site == "" {
				w.released = true
				close(w.release)
			}
		}
		if h.site != nil {
			h.drainSite()
		}
	}
	defer drainAll()

	startNext := func() error {
		if next >= len(c.Ops) {
			return nil
		}
		h.start(next)
		next++
		_, err := settle(fmt.Sprintf("after starting operation %d", next-1))
		return err
	}
	releaseK := func(k int) error {
		running, err := settle("before release")
		if err != nil {
			return err
		}
		if len(running) == 0 {
			return nil
		}
		c31SortRels(running)
		what := h.releaseRel(running[k%len(running)])
		_, err = settle("after releasing " + what)
		return err
	}
	for _, s := range c.Steps {
		var err error
		if s < 0 {
			err = startNext()
		} else {
			err = releaseK(s)
		}
		if err != nil {
			return "", err
		}
	}
	for next < len(c.Ops) {
		if err := startNext(); err != nil {
			return "", err
		}
	}
	// everything completes once the bodies are allowed to return
	for {
		running, err := settle("final phase")
		if err != nil {
			return "", err
		}
		alldone := true
		for _, w := range h.workers {
			if !c31Closed(w.done) {
				alldone = false
			}
		}
		if alldone {
			break
		}
		if len(running) == 0 {
			return "", kit.Fail("stuck", "final phase: operations remain unfinished although no body is running")
		}
		c31SortRels(running)
		h.releaseRel(running[0])
	}

	h.mu.Lock()
	v := h.violation
	maxIn := h.maxIn
	ncmd := h.invSeq
	for k := range h.cmdKinds {
		labels["site:command:"+k] = true
	}
	h.mu.Unlock()
	if v != nil {
		return "", v
	}
	skipped, ran, globals := 0, 0, 0
	for _, w := range h.workers {
		outcome += fmt.Sprintf("%d:%v ", w.idx, w.ran)
		if w.op.Site != "" {
			labels["site:"+w.op.Site] = true
			continue
		}
		if w.op.Global {
			globals++
			if !w.ran {
				return "", kit.Fail("global-not-run", "operation %d: Global returned without running its body", w.idx)
			}
			continue
		}
		if w.ret != w.ran {
			return "", kit.Fail("skip-misreported", "operation %d (%s): With returned %v but its body ran=%v", w.idx, c31OpString(w.op), w.ret, w.ran)
		}
		if w.ran {
			ran++
			continue
		}
		skipped++
		// a skip needs a reason: a running operation for the same name whose
		// call overlaps this call
		justified := false
		for _, o := range h.workers {
			if o != w && o.op.Site == "" && !o.op.Global && o.op.Name == w.op.Name && o.ran && o.startTk < w.endTk && w.startTk < o.endTk {
				justified = true
			}
		}
		if !justified {
			return "", kit.Fail("skip-unjustified", "operation %d (%s) was skipped although no operation for that repository was running during the call", w.idx, c31OpString(w.op))
		}
	}
	if skipped > 0 {
		labels["with:skipped"] = true
	}
	if ran > 0 {
		labels["with:ran"] = true
	}
	if globals > 0 {
		labels["global:ran"] = true
	}
	if maxIn >= 2 {
		labels["with:concurrent-different-names"] = true
	}
	if maxIn >= 3 {
		labels["with:>=3-concurrent"] = true
	}
	nt := skipped > 0 && (labels["global:waited"] || labels["with:waited-behind-global"])
	ls := []string{"mode:" + c.Mode}
	if h.site != nil {
		// site: some operation had to wait while a global operation's command
		// was running on the index directory
		nt = labels["site:operation-waited-behind-command"]
	}
	for l := range labels {
		ls = append(ls, l)
	}
	sort.Strings(ls)
	if labels["with:same-name-waiting-together"] {
		outcome = "~" + outcome
	}
	if record {
		b, _ := json.Marshal(c)
		rec.Eval(string(b), nt, ls...)
		if h.site != nil {
			rec.Add("site_operations", len(c.Ops))
			rec.Add("site_commands_run", ncmd)
		} else {
			rec.Add("sched_operations", len(c.Ops))
		}
		rec.Sample(c, nt)
	}
	return outcome, nil
}

// ---- stress half -----------------------------------------------------------

func runC31Stress(rec *kit.Recorder, c c31Case) error {
	m := &indexMutex{}
	var globalIn, withIn atomic.Int32
	nameIn := map[string]*atomic.Int32{}
	for _, o := range c.Ops {
		if !o.Global && nameIn[o.Name] == nil {
			nameIn[o.Name] = &atomic.Int32{}
		}
	}
	var vmu sync.Mutex
	var violation *kit.Discrepancy
	fail := func(kind, format string, args ...any) {
		vmu.Lock()
		if violation == nil {
			violation = kit.Fail(kind, format, args...)
		}
		vmu.Unlock()
	}
	var nRan, nSkipped, nGlobal atomic.Int32
	workers := c.Workers
	if workers < 1 {
		workers = 1
	}
	var wg sync.WaitGroup
	for wk := 0; wk < workers; wk++ {
		wg.Add(1)
		go func(wk int) {
			defer wg.Done()
			for i := wk; i < len(c.Ops); i += workers {
				o := c.Ops[i]
				ran := false
				if o.Global {
					m.Global(func() {
						ran = true
						if globalIn.Add(1) != 1 || withIn.Load() != 0 {
							fail("global-not-exclusive", "stress: Global body %d ran beside another critical section", i)
						}
						for y := 0; y < c.Yields; y++ {
							runtime.Gosched()
						}
						if withIn.Load() != 0 {
							fail("global-not-exclusive", "stress: a With body started while Global body %d was running", i)
						}
						globalIn.Add(-1)
					})
					nGlobal.Add(1)
					if !ran {
						fail("global-not-run", "stress: Global %d did not run its body", i)
					}
					continue
				}
				ret := m.With(o.Name, func() {
					ran = true
					withIn.Add(1)
					if nameIn[o.Name].Add(1) != 1 {
						fail("same-repository-concurrent", "stress: two With(%q) bodies at once (operation %d)", o.Name, i)
					}
					if globalIn.Load() != 0 {
						fail("global-not-exclusive", "stress: With body %d ran beside a Global body", i)
					}
					for y := 0; y < c.Yields; y++ {
						runtime.Gosched()
					}
					nameIn[o.Name].Add(-1)
					withIn.Add(-1)
				})
				if ret != ran {
					fail("skip-misreported", "stress: With(%q) returned %v, body ran=%v (operation %d)", o.Name, ret, ran, i)
				}
				if ran {
					nRan.Add(1)
				} else {
					nSkipped.Add(1)
				}
			}
		}(wk)
	}
	finished := make(chan struct{})
	go func() { wg.Wait(); close(finished) }()
	select {
	case <-finished:
	case <-time.After(60 * time.Second):
		return kit.Fail("stuck", "stress: operations did not finish within 60s")
	}
	if violation != nil {
		return violation
	}
	ls := []string{"mode:stress"}
	if nSkipped.Load() > 0 {
		ls = append(ls, "stress:some-skipped")
	}
	if nGlobal.Load() > 0 {
		ls = append(ls, "stress:with-global")
	}
	b, _ := json.Marshal(c)
	// stress cases are schedule dependent: never counted as non-trivial evidence
	rec.Eval(string(b), false, ls...)
	rec.Add("stress_operations", len(c.Ops))
	rec.Add("stress_skipped", int(nSkipped.Load()))
	rec.Add("stress_ran", int(nRan.Load()))
	return nil
}

func TestVerif_C31(t *testing.T) {
	rec := kit.Open(t, "C31",
		"rapid-generated schedules: 2-12 operations (With over 1-4 repository names, Global with probability 0-50%) and a step list (start next operation / let the k-th running body return), executed with harness-owned interleaving (bodies block on harness channels; the harness proceeds only at quiescent points taken from a stop-the-world goroutine dump); a case = one schedule; non-trivial = some With was skipped and some operation had to wait in the mutex; distinct by hash of the schedule. 12% of the cases are free-running stress runs (8-64 operations on 2-8 goroutines), never counted as non-trivial. 2% of the cases (VERIF_C31_SITEPCT) are call-site cases: 2-6 operations of which at least one is a global operation run through the Server's own call site (Server.doMerge, Server.vacuum, Server.DeleteAllData; cleanup's call site inside Server.Run is not reachable) next to With/Global on the same Server.muIndexDir, same kind of step list; the index directory holds 0-6 mergeable simple shards, 0-2 shards too recent to merge, 0-2 compound shards (repositories of tenants 1/2, tombstones on 0-2 members), 0-2 unreadable small compound-* files, with merge target size needing 1/2/3/4/unreachably many shards, minSizeBytes 0 / between / above all, tenant 1-3 for data deletion, and a pattern of failing commands; every zoekt-merge-index command the call sites run (merge of shards, merge of one compound shard to drop tombstones, explode) is a stand-in first in PATH that reports its start and end and is held until the harness lets it go; the time between a command's start and end counts as a critical section of a global operation in the same occupancy table as the With/Global bodies; non-trivial (call-site case) = some operation had to wait in the mutex while a command was running",
		"quiescence is observed through runtime.Stack wait reasons (sync.RWMutex.RLock/Lock, sync.Mutex.Lock); it only decides when the harness proceeds, never the verdict",
		"when several same-name operations are released together by a finishing Global, which of them runs and which is skipped is the runtime's choice; the oracle is symmetric in that choice",
		"a skipped With must overlap (logical clock around the calls) a running With for the same name",
		"call-site cases: shard files are copies of /repo/testdata/shards whose repository metadata (name, id, tenant, tombstones, commit date, one or two repositories) comes from the .meta sidecar; the stand-in command is a POSIX sh script (needs sh in PATH, otherwise these cases are skipped and counted under site:unavailable); what the real command does to the index directory (delete inputs, leave a compound shard) is done by the harness while the command is between start and end; an operation run through a call site is taken to be at rest when it is parked in indexMutex's RWMutex or sits in os/exec.(*Cmd).Wait for a held stand-in (goroutine dump; decides only when the harness proceeds)",
		"stress half: interleavings are chosen by the Go scheduler (not reproducible); oracle = occupancy counters, return values, termination, and the race detector when built with -race",
	)
	rec.Set("race_detector", c31RaceEnabled)
	c31T = t
	kit.Property(t, rec, genC31, func(c c31Case) error {
		if os.Getenv("VERIF_REPLAY") != "" {
			rec.Sample(c, false)
		}
		if c.Mode == "stress" {
			return runC31Stress(rec, c)
		}
		if c.Mode == "site" {
			_, err := runC31SchedOnce(rec, c, true)
			return err
		}
		return runC31Sched(rec, c)
	})
}
