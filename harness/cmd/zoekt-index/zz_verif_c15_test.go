//go:build verif

package main

import (
	"archive/tar"
	"archive/zip"
	"bytes"
	"compress/gzip"
	"context"
	"fmt"
	"io"
	"log"
	"os"
	"path"
	"path/filepath"
	"sort"
	"strings"
	"syscall"
	"testing"
	"time"
	"unicode/utf8"

	"pgregory.net/rapid"

	"github.com/sourcegraph/zoekt"
	"github.com/sourcegraph/zoekt/index"
	"github.com/sourcegraph/zoekt/internal/archive"
	"github.com/sourcegraph/zoekt/internal/verifkit/kit"
	"github.com/sourcegraph/zoekt/query"
)

// ---------------------------------------------------------------------------
// Case

// c15Entry is one entry of a directory tree, parents before children.
type c15Entry struct {
	Path    string   // relative to the root, '/'-separated
	Kind    string   // dir, file, symlink, fifo
	Content kit.Text `json:",omitempty"`
	Target  string   `json:",omitempty"` // symlink; "$OUT" stands for the directory next to the root
	Note    string   `json:",omitempty"` // what the generator meant (labels only)
}

// c15Member is one member of an archive, in archive order.
type c15Member struct {
	Name    string
	Type    string   // reg, dir, symlink, hardlink, fifo, xglobal
	Content kit.Text `json:",omitempty"`
	Link    string   `json:",omitempty"`
	Store   bool     `json:",omitempty"` // zip: stored instead of deflated
}

type c15Case struct {
	Kind string // "dir" or "archive"

	// build options (both kinds)
	SizeMax    int      // 0 = default
	TrigramMax int      // 0 = default
	ShardMax   int      // 0 = default
	LargeFiles []string `json:",omitempty"`

	// directory
	Entries    []c15Entry `json:",omitempty"`
	IgnoreDirs []string   `json:",omitempty"`
	RootSuffix string     `json:",omitempty"` // appended to the root argument: "", "/", "/."

	// archive
	Format        string      `json:",omitempty"` // tar, tgz, zip
	Members       []c15Member `json:",omitempty"`
	Strip         int
	TruncPermille int  `json:",omitempty"` // 0 = whole archive, else keep len*n/1000 bytes (crash oracle only)
	ZeroLength    bool `json:",omitempty"` // a zero-byte file instead of an archive
}

// ---------------------------------------------------------------------------
// Model of what the builder stores for a document

const (
	niTooLarge    = "NOT-INDEXED: exceeds the maximum size limit"
	niTooSmall    = "NOT-INDEXED: contains too few trigrams"
	niBinary      = "NOT-INDEXED: contains binary content"
	niTooManyTris = "NOT-INDEXED: contains too many trigrams"
)

type c15Opts struct {
	sizeMax, trigramMax int
	largeSuffix         string // files whose base name ends with this are exempt from the limits ("" = none)
}

func (c *c15Case) opts() c15Opts {
	o := c15Opts{sizeMax: c.SizeMax, trigramMax: c.TrigramMax}
	if o.sizeMax == 0 {
		o.sizeMax = 2 << 20
	}
	if o.trigramMax == 0 {
		o.trigramMax = 20000
	}
	if len(c.LargeFiles) > 0 {
		o.largeSuffix = strings.TrimPrefix(c.LargeFiles[0], "**/*")
	}
	return o
}

// stored returns the content of the document for a file (or link target) with
// this name and content: the content itself, or the explanation why the
// content is not indexed.
func (o c15Opts) stored(name string, content []byte) (string, string) {
	allowLarge := o.largeSuffix != "" && strings.HasSuffix(path.Base(name), o.largeSuffix)
	switch {
	case len(content) > o.sizeMax && !allowLarge:
		return niTooLarge, "too-large"
	case len(content) == 0:
		return "", "empty"
	case len(content) < 3:
		return niTooSmall, "too-small"
	case bytes.IndexByte(content, 0) >= 0:
		return niBinary, "binary"
	}
	if len(content)-2 > o.trigramMax && !allowLarge {
		// distinct rune trigrams
		seen := map[[3]rune]struct{}{}
		var cur [3]rune
		rest := content
		for len(rest) > 0 {
			r, sz := utf8.DecodeRune(rest)
			rest = rest[sz:]
			cur[0], cur[1], cur[2] = cur[1], cur[2], r
			if cur[0] == 0 {
				continue
			}
			seen[cur] = struct{}{}
			if len(seen) > o.trigramMax {
				return niTooManyTris, "too-many-trigrams"
			}
		}
	}
	if allowLarge && len(content) > o.sizeMax {
		return string(content), "large-allowed"
	}
	return string(content), "indexed"
}

// ---------------------------------------------------------------------------
// Model of the ignore file (ignore.ParseIgnoreFile as documented): one glob
// per line relative to the root, '#' comments, blank lines, an optional
// leading '/', "**" appended to patterns without glob characters. Globs:
// '*' = any run of non-separators, '**' = any run, '?' = one non-separator.

type c15Pattern []rune

func parseIgnore(content []byte) []c15Pattern {
	var ps []c15Pattern
	for _, line := range strings.Split(string(content), "\n") {
		line = strings.TrimSpace(line)
		if line == "" || strings.HasPrefix(line, "#") {
			continue
		}
		line = strings.TrimPrefix(line, "/")
		if !strings.ContainsAny(line, ".][*?") {
			line += "**"
		}
		ps = append(ps, c15Pattern(line))
	}
	return ps
}

func globMatch(p, s []rune) bool {
	for len(p) > 0 {
		switch {
		case len(p) >= 2 && p[0] == '*' && p[1] == '*':
			for len(p) > 0 && p[0] == '*' {
				p = p[1:]
			}
			for i := 0; i <= len(s); i++ {
				if globMatch(p, s[i:]) {
					return true
				}
			}
			return false
		case p[0] == '*':
			p = p[1:]
			for i := 0; i <= len(s); i++ {
				if globMatch(p, s[i:]) {
					return true
				}
				if i < len(s) && s[i] == '/' {
					break
				}
			}
			return false
		case p[0] == '?':
			if len(s) == 0 || s[0] == '/' {
				return false
			}
		default:
			if len(s) == 0 || s[0] != p[0] {
				return false
			}
		}
		p, s = p[1:], s[1:]
	}
	return len(s) == 0
}

// rowProne is the recognizer of the known finding C15-ignore-qmark-non-ascii:
// a pattern of fixed length ('?' but no '*') applied to a path with a
// multi-byte rune. gobwas/glob compiles such a pattern to match.Row, whose
// matchAll slices the path as if the last rune of every segment were one byte
// long, so the pattern can fail to match what it describes.
func rowProne(p c15Pattern, rel string) bool {
	s := string(p)
	return strings.Contains(s, "?") && !strings.Contains(s, "*") && len(rel) != utf8.RuneCountInString(rel)
}

func withoutRowProne(ps []c15Pattern, rel string) []c15Pattern {
	var out []c15Pattern
	for _, p := range ps {
		if !rowProne(p, rel) {
			out = append(out, p)
		}
	}
	return out
}

func ignoredByPattern(ps []c15Pattern, rel string) bool {
	for _, p := range ps {
		if globMatch(p, []rune(rel)) {
			return true
		}
	}
	return false
}

// ---------------------------------------------------------------------------
// Generators

var c15DirNames = []string{"src", "lib", "a", "docs", "pkg", "deep", "été", "with space", "vendor", "build", "x-y", "Src", "node_modules", "foo.egg-info", "old.bak", "testdata"}
var c15DefaultIgnore = []string{".git", ".hg", ".svn"}
var c15FileNames = []string{
	"main.go", "README.md", "a.txt", "b.txt", "x", "Makefile", "data.bin", "big.dat", "notes.md", "été.txt", "sp ace.txt",
	"-dash", "#hash", "semi;colon.c", "quote'q.py", "dq\"q.js", "star*.txt", "q?.md", "[br].go", ".hidden", "..dots", "a.txt.bak",
	"big.keep", "UPPER.TXT", "tab\tname", "nl\nname.txt", "日本.txt", "main.go.orig", "~tilde", "%25.txt", "a\\b.txt", "{brace}.md", "$var", "x.keep",
}
var c15Exts = []string{"md", "txt", "go", "keep", "bak"}

var c15Snippets = []string{
	"package main\n\nfunc main() {}\n", "hello world\n", "# Title\n\nsome text", "line1\r\nline2\r\n", "no newline at end",
	"é ü 日本語 😀\n", "\xff\xfe invalid utf-8 \xc0\n", "NOT-INDEXED: just text that looks like it\n", "\n", "\n\n\n", "   ", "abc", "ab\n",
	"#!/bin/sh\necho hi\n", "target.txt", "../x", "x := 1 // needle\n",
}

func c15GenContent(g kit.G, sizeMax int) ([]byte, string) {
	switch g.Int(0, 11, "contentkind") {
	case 0:
		return nil, "empty"
	case 1:
		return []byte(kit.Pick(g, []string{"a", "ab", "\n", "é", "x\n"}, "tiny")), "tiny"
	case 2:
		b := []byte(kit.Pick(g, c15Snippets, "binbase"))
		pos := g.Int(0, len(b), "nulpos")
		return append(append(append([]byte{}, b[:pos]...), 0), b[pos:]...), "binary"
	case 3:
		// around the size limit
		if sizeMax > 4096 {
			return []byte(strings.Repeat("large line of text\n", 10)), "text"
		}
		n := sizeMax + g.Int(-1, 40, "over")
		if n < 0 {
			n = 0
		}
		unit := kit.Pick(g, []string{"abc ", "x", "line\n", "é"}, "unit")
		s := strings.Repeat(unit, n/len(unit)+1)[:n]
		return []byte(s), "sized"
	case 4:
		// many distinct trigrams
		var sb strings.Builder
		n := g.Int(30, 120, "ntri")
		for i := 0; i < n; i++ {
			sb.WriteByte(byte('a' + (i*7+i/5+i/11)%26))
			if i%9 == 8 {
				sb.WriteByte(byte('A' + i%26))
			}
		}
		return []byte(sb.String()), "varied"
	default:
		s := kit.Pick(g, c15Snippets, "snippet")
		if g.Int(0, 3, "twice") == 3 {
			s += kit.Pick(g, c15Snippets, "snippet2")
		}
		return []byte(s), "text"
	}
}

type c15TreeGen struct {
	g        kit.G
	c        *c15Case
	sizeMax  int
	files    []string // paths of regular files
	dirs     []string // paths of real directories
	nentries int
}

func (t *c15TreeGen) uniq(used map[string]bool, name string) string {
	for i := 0; used[name]; i++ {
		ext := path.Ext(name)
		name = strings.TrimSuffix(name, ext) + fmt.Sprint(i) + ext
	}
	used[name] = true
	return name
}

func (t *c15TreeGen) genDir(prefix string, depth int) {
	g := t.g
	used := map[string]bool{}
	if prefix == "" {
		used[".sourcegraph"] = true // generated separately
	}
	// rapid favours small draws: small indexes map to mid-sized directories
	n := []int{3, 2, 4, 1, 6, 0, 5, 8}[g.Int(0, 7, "nentries")]
	if prefix == "" && n == 0 {
		n = g.Int(0, 2, "nentries-root")
	}
	for i := 0; i < n && t.nentries < 40; i++ {
		t.nentries++
		join := func(name string) string { return prefix + name }
		switch k := g.Int(0, 13, "entrykind"); {
		case k <= 4: // regular file
			name := t.uniq(used, kit.Pick(g, c15FileNames, "fname"))
			content, note := c15GenContent(g, t.sizeMax)
			t.c.Entries = append(t.c.Entries, c15Entry{Path: join(name), Kind: "file", Content: content, Note: note})
			t.files = append(t.files, join(name))
		case k <= 6 && depth < 3: // directory
			name := t.uniq(used, kit.Pick(g, c15DirNames, "dname"))
			t.c.Entries = append(t.c.Entries, c15Entry{Path: join(name), Kind: "dir"})
			t.dirs = append(t.dirs, join(name))
			t.genDir(join(name)+"/", depth+1)
		case k <= 9: // symbolic link
			name := t.uniq(used, kit.Pick(g, []string{"link", "link.txt", "ln.md", "current", "l", ".git", "vendor", "alias.go"}, "lname"))
			var target, note string
			switch g.Int(0, 8, "target") {
			case 0:
				if len(t.files) > 0 {
					f := kit.Pick(g, t.files, "tfile")
					rel, _ := filepath.Rel("/"+path.Dir(join(name)), "/"+f)
					target, note = rel, "to-file"
				} else {
					target, note = "missing.txt", "dangling"
				}
			case 1:
				if len(t.dirs) > 0 {
					d := kit.Pick(g, t.dirs, "tdir")
					rel, _ := filepath.Rel("/"+path.Dir(join(name)), "/"+d)
					target, note = rel, "to-dir"
				} else {
					target, note = ".", "to-dir"
				}
			case 2:
				target, note = "$OUT/secret.txt", "outside-abs"
			case 3:
				target, note = strings.Repeat("../", depth+1)+"outside/secret.txt", "outside-rel"
			case 4:
				target, note = kit.Pick(g, []string{"nonexistent", "no/such/file.txt", "../../../../../../nope"}, "dangling"), "dangling"
			case 5:
				target, note = kit.Pick(g, []string{".", "..", "x", "/"}, "short"), "short-target"
			case 6:
				target, note = name, "self-loop"
			case 7:
				target, note = "$OUT", "outside-dir"
			default:
				target, note = "some/long/"+strings.Repeat("component/", g.Int(1, 30, "longt"))+"file.txt", "long-dangling"
			}
			t.c.Entries = append(t.c.Entries, c15Entry{Path: join(name), Kind: "symlink", Target: target, Note: note})
		case k <= 11 && depth < 3: // a directory with an ignored name, with content
			pool := append([]string{}, t.c.IgnoreDirs...)
			if len(pool) == 0 {
				pool = c15DefaultIgnore
			}
			name := kit.Pick(g, pool, "igname")
			if used[name] {
				continue
			}
			used[name] = true
			t.c.Entries = append(t.c.Entries, c15Entry{Path: join(name), Kind: "dir", Note: "ignored-name"})
			t.genDir(join(name)+"/", depth+1)
		case k == 12: // a regular file with the name of an ignored directory
			name := kit.Pick(g, c15DefaultIgnore, "igfile")
			if used[name] {
				continue
			}
			used[name] = true
			t.c.Entries = append(t.c.Entries, c15Entry{Path: join(name), Kind: "file", Content: kit.Text("gitdir: ../.git/modules/x\n"), Note: "file-named-like-ignored-dir"})
			t.files = append(t.files, join(name))
		default:
			name := t.uniq(used, kit.Pick(g, []string{"fifo", "pipe.txt"}, "fifoname"))
			t.c.Entries = append(t.c.Entries, c15Entry{Path: join(name), Kind: "fifo"})
		}
	}
}

func patternSafe(p string) bool {
	if p == "" || strings.TrimSpace(p) != p || strings.HasPrefix(p, "#") || strings.HasPrefix(p, "/") {
		return false
	}
	return !strings.ContainsAny(p, "\\[]{}*?!,\n\r") && utf8.ValidString(p)
}

// contentDirs returns the real directories that hold at least one file or
// symbolic link somewhere below them (all real directories if there is none).
func (t *c15TreeGen) contentDirs() []string {
	has := map[string]bool{}
	for _, e := range t.c.Entries {
		if e.Kind != "file" && e.Kind != "symlink" {
			continue
		}
		for d := path.Dir(e.Path); d != "."; d = path.Dir(d) {
			has[d] = true
		}
	}
	var out []string
	for _, d := range t.dirs {
		if has[d] && patternSafe(d) {
			out = append(out, d)
		}
	}
	if len(out) == 0 {
		for _, d := range t.dirs {
			if patternSafe(d) {
				out = append(out, d)
			}
		}
	}
	return out
}

// genDirGlob makes a pattern that carries a glob character and is shaped
// after a directory of the tree: most forms end in "/" and therefore describe
// no file path at all (a relative file path never ends in a separator; no
// implicit "**" is appended to a pattern with a glob character), the others
// describe what lies below a directory but not the directory itself.
func (t *c15TreeGen) genDirGlob(dirs []string) string {
	g := t.g
	if len(dirs) == 0 {
		return kit.Pick(g, []string{"*/", "**/", "**/testdata/", "*.egg-info/", "*/*/"}, "dirglob-any")
	}
	d := kit.Pick(g, dirs, "gdir")
	parent, base := path.Split(d) // parent keeps its trailing "/"
	rs := []rune(base)
	switch g.U(12, "dirglob") {
	case 0:
		return "**/" + base + "/"
	case 1:
		return "*/"
	case 2:
		return parent + "*/"
	case 3: // first letter(s) of the last element, then a star
		return parent + string(rs[:g.Int(1, len(rs), "keep")]) + "*/"
	case 4:
		if i := strings.LastIndex(base, "."); i >= 0 {
			return "*" + base[i:] + "/"
		}
		return "*." + kit.Pick(g, []string{"bak", "egg-info", "keep"}, "dext") + "/"
	case 5:
		return "**/"
	case 6: // every element replaced by a star
		return strings.Repeat("*/", strings.Count(d, "/")+1)
	case 7: // fixed length: one character replaced by '?', no star (cf. rowProne)
		k := g.Int(0, len(rs)-1, "dqpos")
		if rs[k] == '.' {
			return "**/" + base + "/"
		}
		rs[k] = '?'
		return parent + string(rs) + "/"
	case 8:
		return "**" + base + "/"
	case 9:
		return d + "/*/"
	case 10: // below a directory of that name, at depth >= 1 (no trailing slash)
		return "**/" + base + "/**"
	default: // directly below the directory (no trailing slash)
		return d + "/*"
	}
}

// genIgnoreFile writes .sourcegraph/ignore from the paths of the tree: prefix
// patterns (implicit "**"), globs on file names, and globs shaped after
// directories, most of which end in "/".
func (t *c15TreeGen) genIgnoreFile() string {
	g := t.g
	var lines []string
	n := g.Int(1, 4, "npatterns")
	all := append(append([]string{}, t.dirs...), t.files...)
	cdirs := t.contentDirs()
	for i := 0; i < n; i++ {
		var p string
		switch g.Int(0, 13, "patkind") {
		case 0: // a directory, by its whole path
			if len(t.dirs) > 0 {
				p = kit.Pick(g, t.dirs, "pdir")
				if strings.Contains(p, ".") || !patternSafe(p) {
					p = ""
				} else if g.U(3, "pdirslash") == 2 {
					p += "/" // "dir/" + implicit "**": everything below, not the directory itself
				}
			}
		case 1: // a string prefix of some path
			if len(all) > 0 {
				full := kit.Pick(g, all, "ppre")
				rs := []rune(full)
				p = string(rs[:g.Int(1, len(rs), "cut")])
				if strings.Contains(p, ".") || !patternSafe(p) {
					p = ""
				}
			}
		case 2:
			p = "*." + kit.Pick(g, c15Exts, "ext")
		case 3:
			p = "**/*." + kit.Pick(g, c15Exts, "ext")
		case 4:
			p = "**." + kit.Pick(g, c15Exts, "ext")
		case 5:
			if len(t.dirs) > 0 {
				d := kit.Pick(g, t.dirs, "pdir2")
				if patternSafe(d) && !strings.Contains(d, ".") {
					p = d + "/*." + kit.Pick(g, c15Exts, "ext")
				}
			}
		case 6, 7: // one file exactly (only if no other path extends it, see assumptions)
			if len(t.files) > 0 {
				f := kit.Pick(g, t.files, "pfile")
				ok := patternSafe(f) && strings.Contains(f, ".")
				for _, e := range t.c.Entries {
					if e.Path != f && strings.HasPrefix(e.Path, f) {
						ok = false
					}
				}
				if ok {
					p = f
					if g.Int(0, 2, "qmark") == 2 {
						rs := []rune(f)
						k := g.Int(0, len(rs)-1, "qpos")
						if rs[k] != '/' && rs[k] != '.' {
							rs[k] = '?'
							p = string(rs)
						}
					}
				}
			}
		case 8:
			p = kit.Pick(g, []string{"# a comment", "", "   ", "#*.go", "\t", "#", " # indented comment", "#/"}, "noise")
			lines = append(lines, p)
			continue
		case 9:
			p = "nothing-matches-this"
		default: // 10-13: a glob shaped after a directory
			p = t.genDirGlob(cdirs)
		}
		if p == "" {
			continue
		}
		switch g.Int(0, 5, "decor") {
		case 4:
			p = "/" + p
		case 5:
			p = "  " + p + " \t"
		}
		lines = append(lines, p)
	}
	sep := "\n"
	if g.U(8, "crlf") == 7 {
		sep = "\r\n"
	}
	s := strings.Join(lines, sep)
	if g.Int(0, 2, "eol") != 2 {
		s += sep
	}
	return s
}

func c15GenOptions(g kit.G, c *c15Case) {
	c.SizeMax = []int{200, 0, 64, 200}[g.Int(0, 3, "sizemax")]
	c.TrigramMax = []int{0, 0, 20}[g.Int(0, 2, "trigrammax")]
	if g.Int(0, 9, "shardmax") == 7 {
		c.ShardMax = 1500
	}
	if g.Int(0, 3, "largefiles") == 3 {
		c.LargeFiles = []string{"**/*.keep"}
	}
}

func genC15Dir(g kit.G) c15Case {
	c := c15Case{Kind: "dir"}
	c15GenOptions(g, &c)
	switch g.Int(0, 5, "ignoredirs") {
	case 0, 1, 2, 3:
		c.IgnoreDirs = append([]string{}, c15DefaultIgnore...) // the flag's default
	case 4:
		c.IgnoreDirs = []string{".git", "node_modules", "vendor"}
	default:
		c.IgnoreDirs = nil
	}
	c.RootSuffix = []string{"", "", "/", "/."}[g.Int(0, 3, "rootsuffix")]
	t := &c15TreeGen{g: g, c: &c, sizeMax: c.opts().sizeMax}
	t.genDir("", 0)
	// .sourcegraph/ignore, in its variants
	switch g.Int(0, 9, "sgkind") {
	case 0, 1, 2, 3, 4, 5:
		c.Entries = append(c.Entries,
			c15Entry{Path: ".sourcegraph", Kind: "dir"},
			c15Entry{Path: ".sourcegraph/ignore", Kind: "file", Content: kit.Text(t.genIgnoreFile()), Note: "ignore-file"})
	case 6:
		// a symlinked .sourcegraph is not resolved
		c.Entries = append(c.Entries, c15Entry{Path: ".sourcegraph", Kind: "symlink", Target: "$OUT/sg", Note: "sourcegraph-dir-symlink"})
	case 7:
		// a symlinked ignore file is not read
		c.Entries = append(c.Entries,
			c15Entry{Path: ".sourcegraph", Kind: "dir"},
			c15Entry{Path: ".sourcegraph/ignore", Kind: "symlink", Target: "$OUT/sg/ignore", Note: "ignore-file-symlink"})
	case 8:
		c.Entries = append(c.Entries, c15Entry{Path: ".sourcegraph", Kind: "dir"}, c15Entry{Path: ".sourcegraph/ignore", Kind: "dir"})
	default:
	}
	return c
}

var c15Tops = []string{"repo-1a2b3c", "project", "r"}

func genC15Archive(g kit.G) c15Case {
	c := c15Case{Kind: "archive"}
	c15GenOptions(g, &c)
	c.Format = []string{"tar", "tgz", "zip"}[g.Int(0, 2, "format")]
	c.Strip = []int{1, 0, 2, 1}[g.Int(0, 3, "strip")]
	shape := g.Int(0, 11, "shape")
	switch {
	case shape == 9:
		c.ZeroLength = true
		return c
	case shape == 10:
		return c // no members at all
	}
	dirOnly := shape == 11
	top := ""
	if g.Int(0, 3, "top") != 3 {
		top = kit.Pick(g, c15Tops, "topname") + "/"
	}
	dot := ""
	if g.Int(0, 5, "dot") == 5 {
		dot = "./"
	}
	if c.Format != "zip" && g.Int(0, 3, "pax") == 3 {
		c.Members = append(c.Members, c15Member{Name: "pax_global_header", Type: "xglobal", Content: kit.Text("52 comment=0123456789abcdef0123456789abcdef01234567\n")})
	}
	used := map[string]bool{}
	n := g.Int(1, 10, "nmembers")
	for i := 0; i < n; i++ {
		depth := g.Int(0, 3, "depth")
		name := dot
		if g.Int(0, 7, "notop") != 7 {
			name += top
		}
		for d := 0; d < depth; d++ {
			name += kit.Pick(g, c15DirNames, "adir") + "/"
		}
		switch k := g.Int(0, 9, "mkind"); {
		case k <= 5 && !dirOnly:
			fn := kit.Pick(g, c15FileNames, "afile")
			if used[name+fn] && g.Int(0, 3, "dup") != 3 {
				fn = fmt.Sprint(i) + fn
			}
			used[name+fn] = true
			content, _ := c15GenContent(g, c.opts().sizeMax)
			c.Members = append(c.Members, c15Member{Name: name + fn, Type: "reg", Content: content, Store: g.Int(0, 2, "store") == 2})
		case k <= 7 || dirOnly && k <= 8:
			if name == "" {
				name = "d/"
			}
			c.Members = append(c.Members, c15Member{Name: name, Type: "dir"})
		case k == 8:
			c.Members = append(c.Members, c15Member{Name: name + "link" + fmt.Sprint(i), Type: "symlink", Link: kit.Pick(g, []string{"main.go", "../x", "/etc/passwd", "nonexistent"}, "alink")})
		default:
			if c.Format == "zip" {
				c.Members = append(c.Members, c15Member{Name: name + "link" + fmt.Sprint(i), Type: "symlink", Link: "a.txt"})
			} else if g.Int(0, 1, "hardorfifo") == 0 {
				c.Members = append(c.Members, c15Member{Name: name + "hard" + fmt.Sprint(i), Type: "hardlink", Link: top + "main.go"})
			} else {
				c.Members = append(c.Members, c15Member{Name: name + "fifo" + fmt.Sprint(i), Type: "fifo"})
			}
		}
	}
	if g.Int(0, 9, "truncate") == 8 {
		c.TruncPermille = g.Int(1, 999, "permille")
	}
	return c
}

func genC15(rt *rapid.T) c15Case {
	g := kit.G{T: rt}
	if g.Int(0, 4, "casekind") <= 2 {
		return genC15Dir(g)
	}
	return genC15Archive(g)
}

// ---------------------------------------------------------------------------
// Reading the documents back

func readDocs(dir string) (map[string][]string, int, error) {
	paths, err := filepath.Glob(filepath.Join(dir, "*.zoekt"))
	if err != nil {
		return nil, 0, err
	}
	sort.Strings(paths)
	out := map[string][]string{}
	for _, p := range paths {
		f, err := os.Open(p)
		if err != nil {
			return nil, 0, err
		}
		inf, err := index.NewIndexFile(f)
		if err != nil {
			f.Close()
			return nil, 0, fmt.Errorf("%s: %w", p, err)
		}
		s, err := index.NewSearcher(inf)
		if err != nil {
			inf.Close()
			return nil, 0, fmt.Errorf("%s: %w", p, err)
		}
		res, err := s.Search(context.Background(), &query.Const{Value: true}, &zoekt.SearchOptions{Whole: true})
		if err != nil {
			s.Close()
			return nil, 0, fmt.Errorf("%s: %w", p, err)
		}
		for _, fm := range res.Files {
			out[fm.FileName] = append(out[fm.FileName], string(fm.Content))
		}
		s.Close()
	}
	for _, v := range out {
		sort.Strings(v)
	}
	return out, len(paths), nil
}

func clipq(s string) string {
	if len(s) > 120 {
		return fmt.Sprintf("%q…(%d bytes)", s[:120], len(s))
	}
	return fmt.Sprintf("%q", s)
}

func diffDocs(want, got map[string][]string) string {
	var sb strings.Builder
	n := 0
	for _, k := range kit.SortedKeys(want) {
		w, g := want[k], got[k]
		if len(g) == 0 {
			fmt.Fprintf(&sb, "\n  missing document %q (%d expected)", k, len(w))
			n++
		} else if strings.Join(w, "\x00") != strings.Join(g, "\x00") {
			if len(w) != len(g) {
				fmt.Fprintf(&sb, "\n  %q: %d documents, expected %d", k, len(g), len(w))
			} else {
				for i := range w {
					if w[i] != g[i] {
						fmt.Fprintf(&sb, "\n  %q: content %s, expected %s", k, clipq(g[i]), clipq(w[i]))
					}
				}
			}
			n++
		}
	}
	for _, k := range kit.SortedKeys(got) {
		if len(want[k]) == 0 {
			fmt.Fprintf(&sb, "\n  unexpected document %q with content %s", k, clipq(got[k][0]))
			n++
		}
	}
	if n == 0 {
		return ""
	}
	return sb.String()
}

func (c *c15Case) buildOptions(indexDir, name string) index.Options {
	return index.Options{
		IndexDir:              indexDir,
		DisableCTags:          true,
		SizeMax:               c.SizeMax,
		TrigramMax:            c.TrigramMax,
		ShardMax:              c.ShardMax,
		LargeFiles:            c.LargeFiles,
		RepositoryDescription: zoekt.Repository{Name: name},
	}
}

// ---------------------------------------------------------------------------
// Directory trees through indexArg

func runC15Dir(rec *kit.Recorder, c c15Case) error {
	tmp, err := os.MkdirTemp("", "c15d")
	if err != nil {
		return err
	}
	defer os.RemoveAll(tmp)
	root := filepath.Join(tmp, "tree")
	out := filepath.Join(tmp, "outside")
	indexDir := filepath.Join(tmp, "index")
	for _, d := range []string{root, out, filepath.Join(out, "sg"), indexDir} {
		if err := os.MkdirAll(d, 0o755); err != nil {
			return err
		}
	}
	// what must never show up in the index
	if err := os.WriteFile(filepath.Join(out, "secret.txt"), []byte("c15-outside-secret content\n"), 0o644); err != nil {
		return err
	}
	if err := os.WriteFile(filepath.Join(out, "sg", "ignore"), []byte("**\n*\n"), 0o644); err != nil {
		return err
	}
	resolve := func(t string) string { return strings.ReplaceAll(t, "$OUT", out) }

	// materialise
	kind := map[string]string{}
	for _, e := range c.Entries {
		p := filepath.Join(root, filepath.FromSlash(e.Path))
		kind[e.Path] = e.Kind
		var err error
		switch e.Kind {
		case "dir":
			err = os.Mkdir(p, 0o755)
		case "file":
			err = os.WriteFile(p, e.Content, 0o644)
		case "symlink":
			err = os.Symlink(resolve(e.Target), p)
		case "fifo":
			err = syscall.Mkfifo(p, 0o644)
		default:
			err = fmt.Errorf("unknown entry kind %q", e.Kind)
		}
		if err != nil {
			return fmt.Errorf("harness: materialise %q: %v", e.Path, err)
		}
	}

	// model
	o := c.opts()
	var patterns []c15Pattern
	if kind[".sourcegraph"] == "dir" && kind[".sourcegraph/ignore"] == "file" {
		for _, e := range c.Entries {
			if e.Path == ".sourcegraph/ignore" {
				patterns = parseIgnore(e.Content)
			}
		}
	}
	ignoreDirs := map[string]struct{}{}
	for _, d := range c.IgnoreDirs {
		ignoreDirs[d] = struct{}{}
	}
	pruned := map[string]bool{}    // directories that are not descended into
	slashOnly := map[string]bool{} // walked directories whose path matches a pattern only with "/" appended
	want := map[string][]string{}
	maybe := map[string]string{} // ignored only through a pattern the known glob defect can break: path -> document if it is not ignored
	var labels []string
	nt := false
	for _, e := range c.Entries {
		parent := path.Dir(e.Path)
		if parent != "." && pruned[parent] {
			if e.Kind == "dir" {
				pruned[e.Path] = true
			}
			labels = append(labels, "skipped:inside-ignored-dir")
			nt = true
			continue
		}
		if e.Kind == "dir" {
			if _, ok := ignoreDirs[path.Base(e.Path)]; ok {
				pruned[e.Path] = true
				labels = append(labels, "skipped:ignored-dir-name")
				nt = true
				continue
			}
		}
		if e.Kind == "dir" && !ignoredByPattern(patterns, e.Path) && ignoredByPattern(patterns, e.Path+"/") {
			// a pattern describes "<dir>/" but not the directory's own path: the
			// directory is walked, and what lies below it is judged path by path
			labels = append(labels, "dir:walked-although-a-pattern-matches-it-with-a-trailing-slash")
			slashOnly[e.Path] = true
		}
		if p := path.Dir(e.Path); (e.Kind == "file" || e.Kind == "symlink") && slashOnly[p] && !ignoredByPattern(patterns, e.Path) {
			labels = append(labels, "kept:below-dir-matched-only-with-a-trailing-slash")
			nt = true
		}
		if ignoredByPattern(patterns, e.Path) {
			if e.Kind == "dir" {
				pruned[e.Path] = true
			} else if !ignoredByPattern(withoutRowProne(patterns, e.Path), e.Path) {
				switch e.Kind {
				case "file":
					maybe[e.Path], _ = o.stored(e.Path, e.Content)
				case "symlink":
					maybe[e.Path], _ = o.stored(e.Path, []byte(resolve(e.Target)))
				}
				labels = append(labels, "skipped:by-?-pattern-on-non-ascii-path")
			}
			labels = append(labels, "skipped:ignore-pattern/"+e.Kind)
			nt = true
			continue
		}
		switch e.Kind {
		case "file":
			s, why := o.stored(e.Path, e.Content)
			want[e.Path] = append(want[e.Path], s)
			labels = append(labels, "file:"+why)
			if e.Note != "" && e.Note != "text" {
				labels = append(labels, "filegen:"+e.Note)
			}
		case "symlink":
			s, why := o.stored(e.Path, []byte(resolve(e.Target)))
			want[e.Path] = append(want[e.Path], s)
			labels = append(labels, "symlink:"+e.Note, "symlinkdoc:"+why)
			nt = true
		case "fifo":
			labels = append(labels, "skipped:fifo")
		}
	}
	if len(patterns) > 0 {
		labels = append(labels, "ignore-file:active")
	}
	for _, p := range patterns {
		if ps := string(p); strings.HasSuffix(ps, "/") && strings.ContainsAny(ps, "*?") {
			labels = append(labels, "ignore-pattern:glob-ending-in-slash")
		}
	}

	opts := c.buildOptions(indexDir, "repo")
	opts.SetDefaults()
	err = kit.Guard(func() error { return indexArg(root+c.RootSuffix, opts, ignoreDirs) })
	key := fmt.Sprintf("%x", kit.Checksum([]byte(fmt.Sprintf("%+v", c))))
	sort.Strings(labels)
	labels = append(dedupe(labels), "kind:dir", fmt.Sprintf("docs:%s", bucket(len(want))))
	rec.Eval(key, nt, labels...)
	rec.Sample(c, nt)
	if err != nil {
		if d, ok := err.(*kit.Discrepancy); ok {
			return d
		}
		return kit.Fail("index-error", "indexArg: %v", err)
	}
	got, nshards, err := readDocs(indexDir)
	if err != nil {
		return kit.Fail("read-back", "%v", err)
	}
	if nshards > 1 {
		rec.Label("shards:several")
	}
	for _, contents := range got {
		for _, s := range contents {
			if strings.Contains(s, "c15-outside-secret") {
				return kit.Fail("followed-symlink", "a document holds the content of a file outside the tree: %s", diffDocs(want, got))
			}
		}
	}
	var notIgnored []string
	for _, p := range kit.SortedKeys(maybe) {
		if g := got[p]; len(g) == 1 && g[0] == maybe[p] {
			delete(got, p)
			notIgnored = append(notIgnored, p)
		}
	}
	if d := diffDocs(want, got); d != "" {
		return kit.Fail("docset", "directory tree indexed with ignore dirs %q:%s", c.IgnoreDirs, d)
	}
	if len(notIgnored) > 0 {
		return kit.FailKnown("C15-ignore-qmark-non-ascii", "ignore-pattern", "indexed although .sourcegraph/ignore excludes them with a '?' pattern: %q", notIgnored)
	}
	return nil
}

func dedupe(xs []string) []string {
	var out []string
	for i, x := range xs {
		if i == 0 || xs[i-1] != x {
			out = append(out, x)
		}
	}
	return out
}

func bucket(n int) string {
	switch {
	case n == 0:
		return "0"
	case n <= 3:
		return "1-3"
	case n <= 10:
		return "4-10"
	}
	return ">10"
}

// ---------------------------------------------------------------------------
// Archives through archive.Index

var c15ModTime = time.Date(2024, 9, 26, 0, 0, 0, 0, time.UTC)

func writeTar(w io.Writer, ms []c15Member) error {
	tw := tar.NewWriter(w)
	for _, m := range ms {
		h := &tar.Header{Name: m.Name, Mode: 0o644, ModTime: c15ModTime}
		switch m.Type {
		case "reg":
			h.Typeflag, h.Size = tar.TypeReg, int64(len(m.Content))
		case "dir":
			h.Typeflag, h.Mode = tar.TypeDir, 0o755
		case "symlink":
			h.Typeflag, h.Linkname = tar.TypeSymlink, m.Link
		case "hardlink":
			h.Typeflag, h.Linkname = tar.TypeLink, m.Link
		case "fifo":
			h.Typeflag = tar.TypeFifo
		case "xglobal":
			h = &tar.Header{Typeflag: tar.TypeXGlobalHeader, Name: m.Name, PAXRecords: map[string]string{"comment": "0123456789abcdef0123456789abcdef01234567"}, Format: tar.FormatPAX}
		default:
			return fmt.Errorf("member type %q", m.Type)
		}
		if err := tw.WriteHeader(h); err != nil {
			return fmt.Errorf("tar header %q: %v", m.Name, err)
		}
		if m.Type == "reg" {
			if _, err := tw.Write(m.Content); err != nil {
				return err
			}
		}
	}
	return tw.Close()
}

func writeZip(w io.Writer, ms []c15Member) error {
	zw := zip.NewWriter(w)
	for _, m := range ms {
		h := &zip.FileHeader{Name: m.Name, Method: zip.Deflate, Modified: c15ModTime}
		if m.Store {
			h.Method = zip.Store
		}
		var body []byte
		switch m.Type {
		case "reg":
			h.SetMode(0o644)
			body = m.Content
		case "dir":
			if !strings.HasSuffix(h.Name, "/") {
				h.Name += "/"
			}
			h.SetMode(os.ModeDir | 0o755)
			h.Method = zip.Store
		case "symlink":
			h.SetMode(os.ModeSymlink | 0o777)
			body = []byte(m.Link)
		default:
			return fmt.Errorf("member type %q in zip", m.Type)
		}
		f, err := zw.CreateHeader(h)
		if err != nil {
			return fmt.Errorf("zip header %q: %v", m.Name, err)
		}
		if len(body) > 0 {
			if _, err := f.Write(body); err != nil {
				return err
			}
		}
	}
	return zw.Close()
}

func (c *c15Case) archiveBytes() ([]byte, error) {
	if c.ZeroLength {
		return nil, nil
	}
	var buf bytes.Buffer
	var err error
	switch c.Format {
	case "tar":
		err = writeTar(&buf, c.Members)
	case "tgz":
		gw := gzip.NewWriter(&buf)
		if err = writeTar(gw, c.Members); err == nil {
			err = gw.Close()
		}
	case "zip":
		err = writeZip(&buf, c.Members)
	default:
		err = fmt.Errorf("format %q", c.Format)
	}
	if err != nil {
		return nil, err
	}
	b := buf.Bytes()
	if c.TruncPermille > 0 {
		b = b[:len(b)*c.TruncPermille/1000]
	}
	return b, nil
}

// regularMembersReadable counts the regular members a reader of the archive
// bytes gets to see (all of them for a whole archive; fewer for a cut one).
func regularMembersReadable(data []byte) int {
	n := 0
	if bytes.HasPrefix(data, []byte("PK\x03\x04")) {
		zr, err := zip.NewReader(bytes.NewReader(data), int64(len(data)))
		if err != nil {
			return -1 // not readable as zip at all: Index fails before it iterates
		}
		for _, f := range zr.File {
			if f.Mode().IsRegular() {
				n++
			}
		}
		return n
	}
	var r io.Reader = bytes.NewReader(data)
	if bytes.HasPrefix(data, []byte("\x1f\x8b\x08")) {
		gr, err := gzip.NewReader(r)
		if err != nil {
			return -1
		}
		r = gr
	}
	tr := tar.NewReader(r)
	for {
		h, err := tr.Next()
		if err != nil {
			return n
		}
		if h.Typeflag == tar.TypeReg {
			n++
		}
	}
}

// strip is the documented behaviour of the strip count: drop that many
// leading path elements; a name with fewer elements is dropped altogether.
func strip(name string, count int) string {
	parts := strings.Split(name, "/")
	if len(parts) <= count {
		return ""
	}
	return strings.Join(parts[count:], "/")
}

func runC15Archive(rec *kit.Recorder, c c15Case) error {
	tmp, err := os.MkdirTemp("", "c15a")
	if err != nil {
		return err
	}
	defer os.RemoveAll(tmp)
	indexDir := filepath.Join(tmp, "index")
	if err := os.MkdirAll(indexDir, 0o755); err != nil {
		return err
	}
	data, err := c.archiveBytes()
	if err != nil {
		return fmt.Errorf("harness: %v", err)
	}
	ext := map[string]string{"tar": ".tar", "tgz": ".tar.gz", "zip": ".zip"}[c.Format]
	apath := filepath.Join(tmp, "archive"+ext)
	if err := os.WriteFile(apath, data, 0o644); err != nil {
		return err
	}

	// model
	o := c.opts()
	want := map[string][]string{}
	var labels []string
	nt := false
	nreg := 0
	if !c.ZeroLength {
		for _, m := range c.Members {
			labels = append(labels, "member:"+m.Type)
			if m.Type != "reg" {
				continue
			}
			nreg++
			name := strip(m.Name, c.Strip)
			if name == "" {
				labels = append(labels, "member:stripped-away")
				nt = true
				continue
			}
			s, why := o.stored(name, m.Content)
			want[name] = append(want[name], s)
			labels = append(labels, "file:"+why)
			if len(want[name]) > 1 {
				labels = append(labels, "member:duplicate-name")
			}
		}
	}
	for _, v := range want {
		sort.Strings(v)
	}
	switch {
	case c.ZeroLength:
		labels = append(labels, "archive:zero-length")
	case len(c.Members) == 0:
		labels = append(labels, "archive:no-members")
	case nreg == 0:
		labels = append(labels, "archive:no-regular-members")
	}
	if nreg > 0 && nreg < len(c.Members) {
		nt = true // directories, links, headers had to be filtered out
	}
	if c.TruncPermille > 0 {
		labels = append(labels, "archive:truncated")
	}
	readable := regularMembersReadable(data)

	aopts := archive.Options{Archive: apath, Name: "arch", Branch: "main", Commit: "0123456789abcdef0123456789abcdef01234567", Strip: c.Strip}
	bopts := c.buildOptions(indexDir, "")
	err = kit.Guard(func() error { return archive.Index(aopts, bopts) })
	key := fmt.Sprintf("%x", kit.Checksum([]byte(fmt.Sprintf("%+v", c))))
	sort.Strings(labels)
	labels = append(dedupe(labels), "kind:"+c.Format, fmt.Sprintf("strip:%d", c.Strip), fmt.Sprintf("docs:%s", bucket(len(want))))
	rec.Eval(key, nt, labels...)
	rec.Sample(c, nt)

	if d, ok := err.(*kit.Discrepancy); ok && d.Kind == "panic" {
		if readable == 0 && strings.Contains(d.Detail, "nil pointer dereference") && strings.Contains(d.Detail, "archive.Index") {
			return kit.FailKnown("C15-archive-without-files", "panic", "archive.Index on a %s archive without a regular member (members %d): %s", c.Format, len(c.Members), d.Detail)
		}
		return d
	}
	if c.TruncPermille > 0 || c.ZeroLength {
		// damaged input: the statement only asks that indexing does not crash
		if err != nil {
			rec.Label("archive:damaged-rejected")
		}
		return nil
	}
	if err != nil {
		if len(want) == 0 {
			rec.Label("archive:error-without-documents")
			return nil
		}
		return kit.Fail("index-error", "archive.Index on a well-formed %s archive with %d regular member(s): %v", c.Format, nreg, err)
	}
	got, nshards, err := readDocs(indexDir)
	if err != nil {
		return kit.Fail("read-back", "%v", err)
	}
	if nshards > 1 {
		rec.Label("shards:several")
	}
	if d := diffDocs(want, got); d != "" {
		return kit.Fail("docset", "%s archive, strip %d:%s", c.Format, c.Strip, d)
	}
	return nil
}

func TestVerif_C15(t *testing.T) {
	// zoekt's log output stays on stderr (the run's log.txt): the directory walker ends the
	// process with log.Fatal on a walk error and the message is the only trace of that.
	log.SetFlags(log.Lmicroseconds)
	rec := kit.Open(t, "C15",
		"rapid-generated inputs of two kinds. Directory trees (60%): up to 40 entries, depth <= 3: regular files (empty, 1-2 bytes, text, invalid UTF-8, NUL-carrying, around the size limit, trigram-rich, odd names incl. glob characters, quotes, newlines), directories, directories named like the -ignore_dirs list (default .git,.hg,.svn, a custom list, or none) with content, files and symlinks carrying such names, symlinks to files / directories / outside the root (relative and absolute) / dangling / self / short and long targets, FIFOs, a .sourcegraph/ignore file (prefix, dir/, *.ext, **/*.ext, **.ext, dir/*.ext, exact and ?-patterns; globs shaped after a directory that holds files, most ending in a slash: **/name/, */, parent/*/, na*/, *.ext/ for dotted directory names, **/, */*/, na?e/, **name/, dir/*/, and **/name/**, dir/*; comments, blank and blank-looking lines, padding, leading slash, LF or CRLF line ends) or a symlinked / directory-shaped one; indexed by indexArg. Archives (40%): tar / tar.gz / zip with regular members, directory entries, symlinks, hard links, FIFOs, pax global header, optional common top directory and ./ prefix, duplicate names, strip count 0-2, plus zero-length files, archives without members or with directories only, and archives cut at a drawn offset; indexed by archive.Index. Options: SizeMax 64/200/default, TrigramMax 20/default, ShardMax 1500/default, LargeFiles **/*.keep. A case = one input; non-trivial = at least one symlink, ignored entry, filtered non-regular member or stripped-away member; distinct by hash of the case",
		"documents are read back from every shard of the output directory with query.Const{true} and Whole=true and compared as a multiset of (name, content)",
		"a file the builder skips is represented by its document with the NOT-INDEXED explanation (size limit by on-disk size / link-target length, fewer than 3 bytes, NUL byte, more distinct trigrams than TrigramMax)",
		"ignore file semantics as documented in ignore.ParseIgnoreFile and ignore.Matcher: an entry is left out iff its own root-relative path (no trailing separator) matches a pattern, a directory whose path matches is not descended into; a pattern with a glob character gets no implicit **, so one ending in / describes no path at all and a directory it seems to name is walked and its files judged one by one; a file-name glob such as *.bak does prune a directory called old.bak; an exact-path pattern is only generated when no other path extends it and dotted directory names never appear in glob-free patterns (code and comment differ on the implicit ** for names with a dot)",
		"patterns with ? never carry a * (the known finding on fixed-length patterns and multi-byte paths keeps its exact class)",
		"a name with fewer path elements than the strip count is dropped (stripComponents comment)",
		"for damaged archives (cut, zero-length) only the absence of a crash is checked; a well-formed archive without documents may be rejected with an error",
	)
	rec.EnableJournal()
	kit.Property(t, rec, genC15, func(c c15Case) error {
		if c.Kind == "dir" {
			return runC15Dir(rec, c)
		}
		return runC15Archive(rec, c)
	})
}
