//go:build verif

package main

// C35: shard merging reports success only when it merged, and never duplicates.
//
// cmd/zoekt-merge-index/main.go and index/merge.go are compiled from copies in
// which os.Open/Rename/Remove/CreateTemp/… go through internal/verifkit/fsx.
// One case = 2-4 tiny simple shards (distinct repositories with ids, some with
// a .meta sidecar). `merge` is run once with a snapshot of the directory before
// every mutating filesystem operation and once more per intercepted operation
// (open, stat, create, rename, remove, mkdir) with that operation failing; then
// the compound shard of a clean merge is `explode`d the same way.
//
// Oracle, at every snapshot and every final state: no repository id is alive
// in two loadable *.zoekt files; a reported success implies the documented
// post-condition.

import (
	"crypto/sha1"
	"encoding/json"
	"fmt"
	"io"
	"log"
	"os"
	"path/filepath"
	"sort"
	"strings"
	"syscall"
	"testing"

	"pgregory.net/rapid"

	"github.com/sourcegraph/zoekt/index"
	"github.com/sourcegraph/zoekt/internal/verifkit/fsx"
	"github.com/sourcegraph/zoekt/internal/verifkit/kit"
)

type c35Case struct {
	Corpus kit.Corpus
	// Sidecar[i]: input shard i has a .meta sidecar (as left by a metadata update)
	Sidecar []bool
	// Tombstone[i]: repository i is tombstoned in the compound shard before explode
	Tombstone []bool
}

func c35Gen(rt *rapid.T) c35Case {
	g := kit.G{T: rt}
	n := g.Int(2, 4, "ninputs")
	var c c35Case
	names := []string{"github.com/a/foo", "github.com/a/bar", "gitlab.com/b/foo", "r1"}
	for i := 0; i < n; i++ {
		r := kit.Repo{Name: names[i], ID: uint32(i + 1), Branches: []kit.Branch{{Name: "HEAD", Version: fmt.Sprintf("v%d", i)}}}
		if g.Bool(30, "prio") {
			r.RawConfig = map[string]string{"priority": fmt.Sprint(g.Int(0, 20, "priov"))}
		}
		nd := g.Int(1, 3, "ndocs")
		for j := 0; j < nd; j++ {
			r.Docs = append(r.Docs, kit.Doc{
				Name:     fmt.Sprintf("f%d.txt", j),
				Content:  kit.Text(fmt.Sprintf("repo%d doc%d %s %s\n", i, j, kit.Pick(g, kit.Words, "w"), kit.Pick(g, kit.Words, "w"))),
				Branches: []string{"HEAD"},
				Language: "Text",
			})
		}
		c.Corpus.Repos = append(c.Corpus.Repos, r)
		c.Sidecar = append(c.Sidecar, g.Bool(20, "sidecar"))
		c.Tombstone = append(c.Tombstone, false)
	}
	if g.Bool(30, "tomb") {
		c.Tombstone[g.Int(0, n-1, "tombwhich")] = true
	}
	return c
}

// ---------------------------------------------------------------------------

func c35Final(n string) bool { return strings.HasSuffix(n, ".zoekt") || strings.HasSuffix(n, ".meta") }

// c35State maps every final-name file to a content hash.
func c35State(dir string) map[string]string {
	out := map[string]string{}
	for _, n := range fsx.Names(dir) {
		if !c35Final(n) {
			continue
		}
		b, _ := os.ReadFile(filepath.Join(dir, n))
		out[n] = fmt.Sprintf("%x", sha1.Sum(b))
	}
	return out
}

func c35Key(m map[string]string) string {
	var sb strings.Builder
	for _, k := range kit.SortedKeys(m) {
		sb.WriteString(k + "=" + m[k] + ";")
	}
	return sb.String()
}

// c35Alive loads every final-name *.zoekt file of dir the way the tools do
// (index.ReadMetadataPathAlive) and returns repository id -> shards in which
// it is alive. Files that do not load are skipped (they are not searchable).
func c35Alive(dir string) map[uint32][]string {
	out := map[uint32][]string{}
	shards, _ := filepath.Glob(filepath.Join(dir, "*.zoekt"))
	sort.Strings(shards)
	for _, p := range shards {
		repos, _, err := index.ReadMetadataPathAlive(p)
		if err != nil {
			continue
		}
		for _, r := range repos {
			out[r.ID] = append(out[r.ID], filepath.Base(p))
		}
	}
	return out
}

func c35Duplicates(alive map[uint32][]string) string {
	var out []string
	for id, shards := range alive {
		if len(shards) > 1 {
			out = append(out, fmt.Sprintf("repository id %d is alive in %v", id, shards))
		}
	}
	sort.Strings(out)
	return strings.Join(out, "; ")
}

// c35Unexplained: final-name files only appear / change through an intercepted
// rename and only disappear through an intercepted remove or rename.
func c35Unexplained(before, after map[string]string, op *fsx.Op) string {
	var bad []string
	for n, h := range after {
		if before[n] == h {
			continue
		}
		if op != nil && !op.Failed && op.Kind == fsx.KRename && filepath.Base(op.Path2) == n {
			continue
		}
		bad = append(bad, n+" appeared or changed without a rename")
	}
	for n := range before {
		if _, ok := after[n]; ok {
			continue
		}
		if op != nil && !op.Failed && (op.Kind == fsx.KRemove || op.Kind == fsx.KRename) && filepath.Base(op.Path) == n {
			continue
		}
		bad = append(bad, n+" disappeared without a remove")
	}
	sort.Strings(bad)
	return strings.Join(bad, "; ")
}

type c35Snap struct {
	op    fsx.Op
	final map[string]string
	alive map[uint32][]string
}

type c35Run struct {
	rec    *kit.Recorder
	c      *c35Case
	ckey   string
	root   string
	ds     []*kit.Discrepancy
	cache  map[string]map[uint32][]string
	labels []string
}

func (r *c35Run) add(d *kit.Discrepancy) { r.ds = append(r.ds, d) }

func (r *c35Run) copyOf(src, prefix string) (string, error) {
	dst, err := os.MkdirTemp(r.root, prefix)
	if err != nil {
		return "", err
	}
	return dst, fsx.CopyDir(src, dst)
}

// withSnapshots runs f in dir and judges the directory before every mutating
// operation and at the end. It returns the log.
func (r *c35Run) withSnapshots(phase, dir string, f func() error) (err error, oplog []fsx.Op) {
	var snaps []c35Snap
	fsx.Start(fsx.Config{SnapshotBefore: func(op fsx.Op) {
		// the directory is tiny: judge it in place instead of copying it (no
		// intercepted operation can run while the hook does)
		st := c35State(dir)
		k := c35Key(st)
		alive, ok := r.cache[k]
		if !ok {
			alive = c35Alive(dir)
			r.cache[k] = alive
		}
		snaps = append(snaps, c35Snap{op: op, final: st, alive: alive})
	}})
	err = kit.Guard(f)
	oplog = fsx.Stop()
	prev := map[string]string(nil)
	var prevOp *fsx.Op
	inplace := false
	pts := fsx.Points(dir, oplog)
	for i := range snaps {
		s := &snaps[i]
		lab := append([]string{"phase:" + phase, "mode:crash", "op:" + s.op.Kind}, r.labels...)
		r.rec.Eval(fmt.Sprintf("%s|%s|crash|%s#%d", r.ckey, phase, pts[s.op.Seq].ID, pts[s.op.Seq].Nth), true, lab...)
		if d := c35Duplicates(s.alive); d != "" {
			r.add(kit.Fail("duplicate-repository", "%s killed before operation %d %s: %s (files %v)", phase, s.op.Seq, s.op.Ident(), d, kit.SortedKeys(s.final)))
		}
		if prev != nil && !inplace {
			if why := c35Unexplained(prev, s.final, prevOp); why != "" {
				inplace = true
				r.add(kit.Fail("final-name-written-in-place", "%s before operation %d %s: %s", phase, s.op.Seq, s.op.Ident(), why))
			}
		}
		prev = s.final
		prevOp = &oplog[s.op.Seq]
	}
	if prev != nil && !inplace {
		if why := c35Unexplained(prev, c35State(dir), prevOp); why != "" {
			r.add(kit.Fail("final-name-written-in-place", "%s at the end: %s", phase, why))
		}
	}
	return err, oplog
}

// inputs returns the shard paths of the case in dir, in corpus order.
func c35Inputs(dir string, c *c35Case) []string {
	var out []string
	for i := range c.Corpus.Repos {
		out = append(out, filepath.Join(dir, fmt.Sprintf("%s_%d_v16.00000.zoekt", sanitizeC35(c.Corpus.Repos[i].Name), c.Corpus.Repos[i].ID)))
	}
	return out
}

func sanitizeC35(s string) string {
	b := []byte(s)
	for i, c := range b {
		if !(c >= 'a' && c <= 'z' || c >= 'A' && c <= 'Z' || c >= '0' && c <= '9' || c == '-' || c == '.') {
			b[i] = '_'
		}
	}
	return string(b)
}

// mergePost checks the post-condition of a successful merge.
func (r *c35Run) mergePost(dir, dst string, before map[string]string) string {
	c := r.c
	if dst == "" {
		return "merge returned an empty compound shard path"
	}
	if filepath.Dir(dst) != dir {
		return fmt.Sprintf("compound shard %s is not in the destination directory", dst)
	}
	repos, _, err := index.ReadMetadataPathAlive(dst)
	if err != nil {
		return fmt.Sprintf("compound shard %s does not load: %v", filepath.Base(dst), err)
	}
	in := map[uint32]bool{}
	for _, rp := range repos {
		in[rp.ID] = true
	}
	var bad []string
	for i := range c.Corpus.Repos {
		if !in[c.Corpus.Repos[i].ID] {
			bad = append(bad, fmt.Sprintf("repository id %d is not in the compound shard", c.Corpus.Repos[i].ID))
		}
	}
	now := c35State(dir)
	for n := range before {
		if _, ok := now[n]; ok {
			bad = append(bad, fmt.Sprintf("input file %s is still there", n))
		}
	}
	alive := c35Alive(dir)
	for id, shards := range alive {
		if len(shards) != 1 || shards[0] != filepath.Base(dst) {
			bad = append(bad, fmt.Sprintf("repository id %d alive in %v", id, shards))
		}
	}
	sort.Strings(bad)
	return strings.Join(bad, "; ")
}

// explodePost checks the post-condition of a successful explode.
func (r *c35Run) explodePost(dir, compound string, want map[uint32]bool) string {
	var bad []string
	for _, n := range fsx.Names(dir) {
		if n == filepath.Base(compound) || n == filepath.Base(compound)+".meta" {
			bad = append(bad, n+" is still there")
		}
	}
	alive := c35Alive(dir)
	for id := range want {
		shards := alive[id]
		if len(shards) != 1 {
			bad = append(bad, fmt.Sprintf("repository id %d is alive in %v, want exactly one simple shard", id, shards))
			continue
		}
		repos, _, err := index.ReadMetadataPathAlive(filepath.Join(dir, shards[0]))
		if err != nil || len(repos) != 1 {
			bad = append(bad, fmt.Sprintf("repository id %d: shard %s holds %d repositories (err %v)", id, shards[0], len(repos), err))
		}
	}
	for id, shards := range alive {
		if !want[id] {
			bad = append(bad, fmt.Sprintf("unexpected repository id %d alive in %v", id, shards))
		}
	}
	sort.Strings(bad)
	return strings.Join(bad, "; ")
}

func c35FailTargets(dir string, oplog []fsx.Op) []fsx.Point {
	var out []fsx.Point
	for _, pt := range fsx.Points(dir, oplog) {
		if pt.Op.Failed {
			continue
		}
		switch pt.Op.Kind {
		case fsx.KOpen, fsx.KCreateTemp, fsx.KCreate, fsx.KOpenFile, fsx.KRename, fsx.KRemove, fsx.KRemoveAll, fsx.KMkdirAll, fsx.KMkdir, fsx.KStat:
			out = append(out, pt)
		}
	}
	return out
}

func runC35(rec *kit.Recorder, active map[string]bool, c c35Case) error {
	n := len(c.Corpus.Repos)
	if n < 1 || len(c.Sidecar) != n || len(c.Tombstone) != n {
		return nil
	}
	root, err := os.MkdirTemp("", "c35")
	if err != nil {
		return err
	}
	defer os.RemoveAll(root)
	cb, _ := json.Marshal(c)
	r := &c35Run{rec: rec, c: &c, root: root, ckey: fmt.Sprintf("%x", sha1.Sum(cb)), cache: map[string]map[uint32][]string{}}
	r.labels = []string{fmt.Sprintf("inputs:%d", n)}

	// ---- the input shards
	initial := filepath.Join(root, "initial")
	os.Mkdir(initial, 0o755)
	c.Corpus.Compound = false
	built, err := kit.Build(&c.Corpus, initial)
	if err != nil {
		return kit.Fail("build", "%v", err)
	}
	built.Close()
	inputs := c35Inputs(initial, &c)
	for i, p := range inputs {
		if _, err := os.Stat(p); err != nil {
			return kit.Fail("build", "input shard %s missing: %v", p, err)
		}
		if c.Sidecar[i] {
			repos, _, err := index.ReadMetadataPath(p)
			if err != nil || len(repos) != 1 {
				return kit.Fail("build", "%v", err)
			}
			tmp, dst, err := index.JsonMarshalRepoMetaTemp(p, repos[0])
			if err != nil {
				return kit.Fail("build", "%v", err)
			}
			if err := os.Rename(tmp, dst); err != nil {
				return err
			}
		}
	}
	if d := c35Duplicates(c35Alive(initial)); d != "" {
		return kit.Fail("build", "inputs: %s", d)
	}
	if len(c35Alive(initial)) != n {
		return kit.Fail("build", "inputs do not load: %v", c35Alive(initial))
	}
	initialState := c35State(initial)
	names := func(dir string) []string {
		var out []string
		for _, p := range inputs {
			out = append(out, filepath.Join(dir, filepath.Base(p)))
		}
		return out
	}

	// ---- merge, every mutating operation a crash point
	mdir, err := r.copyOf(initial, "merge")
	if err != nil {
		return err
	}
	var dst string
	mergeErr, mlog := r.withSnapshots("merge", mdir, func() error {
		var err error
		dst, err = merge(mdir, names(mdir))
		return err
	})
	if mergeErr != nil {
		if d, ok := mergeErr.(*kit.Discrepancy); ok {
			return d
		}
		return kit.Fail("merge-failed", "merge failed without any injected fault: %v", mergeErr)
	}
	if bad := r.mergePost(mdir, dst, initialState); bad != "" {
		r.add(kit.Fail("merge-success-without-postcondition", "merge returned %q, nil without any fault, but: %s", dst, bad))
		return faultsConcludeC35(rec, active, c, r.ds)
	}

	// ---- merge, every intercepted operation fails once
	for _, target := range c35FailTargets(mdir, mlog) {
		dir, err := r.copyOf(initial, "mfail")
		if err != nil {
			return err
		}
		id, idSeq := target.ID, target.Nth
		fsx.Start(fsx.Config{FailAt: fsx.FailPoint(dir, id, idSeq, syscall.EIO)})
		var out string
		var runErr error
		perr := kit.Guard(func() error { out, runErr = merge(dir, names(dir)); return nil })
		flog := fsx.Stop()
		var failed *fsx.Op
		for i := range flog {
			if flog[i].Failed {
				failed = &flog[i]
			}
		}
		lab := append([]string{"phase:merge", "mode:fail", "fail:" + target.Op.Kind}, r.labels...)
		key := fmt.Sprintf("%s|merge|fail|%s#%d", r.ckey, id, idSeq)
		if failed == nil {
			rec.Eval(key, false, append(lab, "fail-not-reached:"+id)...)
			os.RemoveAll(dir)
			continue
		}
		res := "error"
		if runErr == nil {
			res = "success"
		}
		rec.Eval(key, true, append(lab, "fail-result:"+res)...)
		if perr != nil {
			r.add(kit.Fail("panic", "merge with %s failing: %v", id, perr))
		}
		if d := c35Duplicates(c35Alive(dir)); d != "" {
			r.add(kit.Fail("duplicate-repository", "merge with %s failing (returned %q, %v): %s", id, out, runErr, d))
		}
		if runErr == nil && perr == nil {
			if bad := r.mergePost(dir, out, initialState); bad != "" {
				unchanged := c35Key(c35State(dir)) == c35Key(initialState)
				isInput := false
				for _, p := range inputs {
					if filepath.Base(p) == filepath.Base(failed.Path) {
						isInput = true
					}
				}
				detail := fmt.Sprintf("merge with %s failing (EIO) returned (%q, nil) = success, but: %s", id, out, bad)
				if failed.Kind == fsx.KOpen && isInput && out == "" && unchanged {
					r.add(kit.FailKnown("C35-merge-open-error-ignored", "merge-success-without-postcondition", "%s", detail))
				} else {
					r.add(kit.Fail("merge-success-without-postcondition", "%s", detail))
				}
			}
		}
		os.RemoveAll(dir)
	}

	// ---- explode the compound shard of the clean merge
	compound := dst
	want := map[uint32]bool{}
	for i := range c.Corpus.Repos {
		if c.Tombstone[i] {
			if err := index.SetTombstone(compound, c.Corpus.Repos[i].ID); err != nil {
				return kit.Fail("build", "SetTombstone: %v", err)
			}
		} else {
			want[c.Corpus.Repos[i].ID] = true
		}
	}
	if _, err := os.Stat(compound + ".meta"); err == nil {
		r.labels = append(r.labels, "compound-has-sidecar")
	}
	edir, err := r.copyOf(mdir, "explode")
	if err != nil {
		return err
	}
	ecompound := filepath.Join(edir, filepath.Base(compound))
	explodeErr, elog := r.withSnapshots("explode", edir, func() error { return explodeCmd(ecompound) })
	if explodeErr != nil {
		if d, ok := explodeErr.(*kit.Discrepancy); ok {
			return d
		}
		return kit.Fail("explode-failed", "explode failed without any injected fault: %v", explodeErr)
	}
	if bad := r.explodePost(edir, ecompound, want); bad != "" {
		r.add(kit.Fail("explode-success-without-postcondition", "explode returned nil without any fault, but: %s", bad))
		return faultsConcludeC35(rec, active, c, r.ds)
	}
	for _, target := range c35FailTargets(edir, elog) {
		dir, err := r.copyOf(mdir, "efail")
		if err != nil {
			return err
		}
		comp := filepath.Join(dir, filepath.Base(compound))
		id, idSeq := target.ID, target.Nth
		fsx.Start(fsx.Config{FailAt: fsx.FailPoint(dir, id, idSeq, syscall.EIO)})
		var runErr error
		perr := kit.Guard(func() error { runErr = explodeCmd(comp); return nil })
		flog := fsx.Stop()
		var failed *fsx.Op
		for i := range flog {
			if flog[i].Failed {
				failed = &flog[i]
			}
		}
		lab := append([]string{"phase:explode", "mode:fail", "fail:" + target.Op.Kind}, r.labels...)
		key := fmt.Sprintf("%s|explode|fail|%s#%d", r.ckey, id, idSeq)
		if failed == nil {
			rec.Eval(key, false, append(lab, "fail-not-reached:"+id)...)
			os.RemoveAll(dir)
			continue
		}
		res := "error"
		if runErr == nil {
			res = "success"
		}
		rec.Eval(key, true, append(lab, "fail-result:"+res)...)
		if perr != nil {
			r.add(kit.Fail("panic", "explode with %s failing: %v", id, perr))
		}
		alive := c35Alive(dir)
		if d := c35Duplicates(alive); d != "" {
			r.add(kit.Fail("duplicate-repository", "explode with %s failing (returned %v): %s", id, runErr, d))
		}
		if runErr == nil && perr == nil {
			if bad := r.explodePost(dir, comp, want); bad != "" {
				detail := fmt.Sprintf("explode with %s failing (EIO) returned nil = success, but: %s (files %v)", id, bad, fsx.Names(dir))
				// the repository whose final rename failed is gone, everything else is in order
				lost := 0
				for wid := range want {
					if len(alive[wid]) == 0 {
						lost++
					}
				}
				finalRename := failed.Kind == fsx.KRename && strings.HasSuffix(failed.Path2, ".zoekt") && !strings.HasPrefix(filepath.Base(failed.Path2), "compound-")
				if finalRename && lost == 1 && strings.Count(bad, ";") == 0 {
					r.add(kit.FailKnown("C35-explode-rename-failure-loses-repo", "explode-success-without-postcondition", "%s", detail))
				} else {
					r.add(kit.Fail("explode-success-without-postcondition", "%s", detail))
				}
			}
		}
		os.RemoveAll(dir)
	}
	rec.Sample(c, true)
	return faultsConcludeC35(rec, active, c, r.ds)
}

// faultsConcludeC35: a discrepancy that is not a listed known finding wins;
// otherwise every known-finding id seen is counted once for the case.
func faultsConcludeC35(rec *kit.Recorder, active map[string]bool, c any, ds []*kit.Discrepancy) error {
	for _, d := range ds {
		if d.Known == "" || !active[d.Known] {
			return d
		}
	}
	var uniq []*kit.Discrepancy
	seen := map[string]bool{}
	for _, d := range ds {
		rec.Label("known:" + d.Known)
		if !seen[d.Known] {
			seen[d.Known] = true
			uniq = append(uniq, d)
		}
	}
	for i, d := range uniq {
		if i == len(uniq)-1 {
			return d
		}
		rec.Judge(c, d)
	}
	return nil
}

func c35ActiveKnown() map[string]bool {
	out := map[string]bool{}
	b, err := os.ReadFile(os.Getenv("VERIF_KNOWN"))
	if err != nil {
		return out
	}
	var kf struct {
		Findings []struct {
			Property string `json:"property"`
			ID       string `json:"id"`
		} `json:"findings"`
	}
	if json.Unmarshal(b, &kf) == nil {
		for _, f := range kf.Findings {
			if f.Property == "C35" {
				out[f.ID] = true
			}
		}
	}
	return out
}

func TestVerif_C35(t *testing.T) {
	log.SetOutput(io.Discard)
	rec := kit.Open(t, "C35",
		"rapid-generated sets of 2-4 tiny simple shards (distinct repositories with ids, optional .meta sidecars, optional priorities; one member optionally tombstoned before explode). One evaluation = one judged crash point (directory state before one intercepted mutating operation of merge / explode) or one judged fail point (re-run with one open/stat/create/mkdir/rename/remove failing with EIO). Non-trivial = >= 2 inputs (always) and the fail point was reached; distinct by hash of (case, phase, operation identity).",
		"only system calls made through package os in cmd/zoekt-merge-index/main.go and index/merge.go are crash/fail points; files under final names change only through intercepted renames (asserted)",
		"'visible' = alive in a final-name *.zoekt file that index.ReadMetadataPathAlive loads; losing repositories on a kill or a reported error is allowed by the statement, duplicates are not",
		"merge is driven through merge(dstDir, names) and explode through explodeCmd(path), the functions behind the two sub-commands",
	)
	active := c35ActiveKnown()
	kit.Property(t, rec, c35Gen, func(c c35Case) error { return runC35(rec, active, c) })
}
