//go:build verif

package query_test

// C07 — Query parsing and API query decoding never crash.
//
// (i)   byte strings -> query.Parse returns (q, nil) or (nil, err), no panic;
// (ii)  every parsed query: String, Simplify, QToProto (+ QFromProto), Search
//       and List on a small corpus through the bare shard searcher (panics
//       propagate; this is what `zoekt -shard FILE QUERY` uses) and through
//       search.NewDirectorySearcher (what the servers use; a panic shows up
//       as Stats.Crashes / RepoList.Crashes > 0);
// (iii) JSON bodies for the /search and /list handlers of internal/json:
//       the handler answers with a status and a body and never panics.

import (
	"bytes"
	"context"
	stdjson "encoding/json"
	"fmt"
	"io"
	"log"
	"net/http"
	"net/http/httptest"
	"os"
	"sort"
	"strings"
	"sync"
	"testing"
	"time"
	"unicode/utf8"

	"pgregory.net/rapid"

	"github.com/sourcegraph/zoekt"
	webserverv1 "github.com/sourcegraph/zoekt/grpc/protos/zoekt/webserver/v1"
	zjson "github.com/sourcegraph/zoekt/internal/json"
	"github.com/sourcegraph/zoekt/internal/verifkit/kit"
	"github.com/sourcegraph/zoekt/query"
	"github.com/sourcegraph/zoekt/search"
)

type c07Case struct {
	Kind  string   // "query" or "json"
	Src   string   // which generator produced it (evidence label)
	Input kit.Text `json:",omitempty"` // Kind == "query": the query string
	// Kind == "json"
	Path   string   `json:",omitempty"` // "/search" or "/list"
	Method string   `json:",omitempty"`
	Body   kit.Text `json:",omitempty"`
}

// ------------------------------------------------------------ environment

type c07Env struct {
	bare []zoekt.Searcher
	dir  zoekt.Streamer
	http http.Handler
	tmp  string
}

var (
	c07EnvOnce sync.Once
	c07TheEnv  *c07Env
	c07EnvErr  error
)

func c07Corpus() kit.Corpus {
	return kit.Corpus{Repos: []kit.Repo{
		{
			Name: "github.com/a/foo", ID: 1,
			Branches:  []kit.Branch{{Name: "main", Version: "v1"}, {Name: "dev", Version: "v2"}},
			RawConfig: map[string]string{"public": "1", "fork": "0", "archived": "0"},
			Metadata:  map[string]string{"license": "Apache-2.0", "x": "y"},
			Docs: []kit.Doc{
				{Name: "main.go", Content: kit.Text("package main\n\nfunc Foo() {\n\tfoo bar baz\n}\n"), Branches: []string{"main", "dev"}, Language: "Go",
					Symbols: []kit.Sym{{Start: 19, End: 22, Kind: "function"}}},
				{Name: "README.md", Content: kit.Text("# foo\nneedle in a haystack\nFoo Bar\n"), Branches: []string{"main"}, Language: "Markdown"},
				{Name: "lib/util.py", Content: kit.Text("def needle(x):\n    return x or None\n"), Branches: []string{"dev"}, Language: "Python",
					Symbols: []kit.Sym{{Start: 4, End: 10, Kind: "function"}}},
			},
		},
		{
			Name: "github.com/b/bar", ID: 2,
			Branches:  []kit.Branch{{Name: "HEAD", Version: "v3"}},
			RawConfig: map[string]string{"public": "0", "fork": "1", "archived": "1"},
			Docs: []kit.Doc{
				{Name: "bar.txt", Content: kit.Text("bar foo\n日本語 été\n(a|b) \"quoted\" \\ back\n"), Branches: []string{"HEAD"}, Language: "Text"},
				{Name: "x/y.go", Content: kit.Text("package y\n\ntype Needle struct{}\n"), Branches: []string{"HEAD"}, Language: "Go",
					Symbols: []kit.Sym{{Start: 16, End: 22, Kind: "type"}}},
			},
		},
	}}
}

func c07GetEnv() (*c07Env, error) {
	c07EnvOnce.Do(func() {
		log.SetOutput(io.Discard) // log.Panicf in the code under test prints before it panics
		e := &c07Env{}
		c := c07Corpus()
		mem, err := kit.Build(&c, "")
		if err != nil {
			c07EnvErr = err
			return
		}
		e.bare = mem.Shards
		e.tmp, err = os.MkdirTemp("", "c07")
		if err != nil {
			c07EnvErr = err
			return
		}
		c2 := c07Corpus()
		disk, err := kit.Build(&c2, e.tmp)
		if err != nil {
			c07EnvErr = err
			return
		}
		disk.Close()
		e.dir, err = search.NewDirectorySearcher(e.tmp)
		if err != nil {
			c07EnvErr = err
			return
		}
		e.http = zjson.JSONServer(e.dir)
		c07TheEnv = e
	})
	return c07TheEnv, c07EnvErr
}

func c07CloseEnv() {
	if c07TheEnv != nil {
		c07TheEnv.dir.Close()
		for _, s := range c07TheEnv.bare {
			s.Close()
		}
		os.RemoveAll(c07TheEnv.tmp)
	}
}

// --------------------------------------------------------------- generator

// rapid's integer draws favour small values strongly (a draw from 0..99 is
// below 4 in about a third of the cases). That is right for sizes but wrong
// for "which kind" decisions, so those go through a fixed mixing function of
// a wide draw: still a pure function of rapid's draws (replayable, shrinkable
// towards the first alternative), but close to uniform.
func c07Mix(g kit.G, n int, label string) int {
	x := uint64(g.Int(0, 1<<30, label))
	x = (x + 0x9E3779B97F4A7C15) * 0xBF58476D1CE4E5B9
	x ^= x >> 31
	return int(x % uint64(n))
}

func c07Pct(g kit.G, label string) int            { return c07Mix(g, 100, label) }
func c07Bool(g kit.G, pct int, label string) bool { return c07Mix(g, 100, label) < pct }
func c07Pick[T any](g kit.G, xs []T, label string) T {
	return xs[c07Mix(g, len(xs), label)]
}

var c07Fields = []string{
	"archived:", "b:", "branch:", "c:", "case:", "content:", "f:", "file:", "fork:", "public:", "r:", "regex:", "repo:", "lang:", "sym:", "t:", "type:",
	"archived:", "b:", "branch:", "c:", "case:", "content:", "f:", "file:", "fork:", "public:", "r:", "regex:", "repo:", "lang:", "sym:", "t:", "type:",
	"meta.license:", "meta.x:", "meta.:", "meta.", "meta.a.b:", "meta.nosuch:",
}

var c07NearFields = []string{"Repo:", "FILE:", "repo :", "files:", "meta:", "type", "t", "r:r:", "file:file:", "case:case:", "lang", ":", "::", "x:", "or:", "-:", "content", "sym"}

var c07Values = map[string][]string{
	"bool":   {"yes", "no", "yes", "no", "yes", "no", "yes", "no", "yes", "no", "maybe", "", "YES", "1", "true", `"yes"`, "y\\es"},
	"case":   {"yes", "no", "auto", "yes", "no", "auto", "yes", "no", "auto", "Auto", "", "foo", `"yes"`},
	"type":   {"filematch", "filename", "file", "repo", "repo", "file", "filename", "file", "repo", "bogus", "", "Repo", `"repo"`, "file:"},
	"lang":   {"go", "python", "Go", "c++", "cpp", "markdown", "nosuch", "", `"go"`, "c#", "objective-c++"},
	"branch": {"main", "dev", "HEAD", "", "ma", "nosuch", `"main"`, "feature/x", "*"},
}

// c07Texts parse (as text or as a field value); c07BadTexts mostly do not.
var c07Texts = []string{
	"foo", "bar", "Foo", "needle", "Needle", "main", "func", "baz", "haystack", "x", "y", "日本", "été", "é",
	"foo.*bar", `\bfoo\b`, "[a-z]+", "(a|b)", "(foo|bar)", "fo+", "a.b", `foo\.go`, `\.go$`, "^package", "ne+dle", "(?i)FOO", "(?P<n>x)", "(x)(y)", "a{2}", "a{1,3}", `\p{Greek}`, `\pL+`, `\d+`, `\s*`, `\w`, `[^\n]*`, ".", ".*", "^", "$", "^$", "a|", "|", "()", "(?:)", "[[:alpha:]]", `\x41`, `\x{10FFFF}`, `\Qa.b\E`, `(?s).`, `(?U)a+`,
	`\(`, `\)`, `foo\ bar`, `\"`, `\\`, `"foo bar"`, `"a\"b"`, `"("`, `")"`, `""`, `"foo"bar`, `fo"o b"ar`, `"or"`, `"-x"`, `"file:x"`, `"\\"`,
	"or", "and", "OR", "not", "(or)", "(-)", "(-foo)", "(lang:go)", "( lang:go )", "( )", "()", "{", "}", "]", "sub-pixel", "a:b", "http://x", "foo:", ":foo", "case:yesfoo", "abccase:yes", "a-", "a--b",
}

var c07BadTexts = []string{
	"a{1001}", "(a{500}){500}", `a\`, `\`, `"`, `"unterminated`, `"a\`, "-", "--", "(", ")", "((", "))", "*", "+", "?", "[", "a**", "(?", "(?i", "[a", "a)", "(a", `[\`, `\8`, `\xZZ`, `\p{Nope}`, "[z-a]", "x{2,1}", "(?P<>x)",
	"\xff", "a\xffb", "\xc3", "\xed\xa0\x80", "\x00", "a\x00b", "\n", "a\nb", "\r",
}

func c07Text(g kit.G) string {
	if c07Bool(g, 10, "badtext") {
		return c07Pick(g, c07BadTexts, "bad")
	}
	return c07Pick(g, c07Texts, "text")
}

func c07FieldValue(g kit.G, field string) string {
	switch field {
	case "archived:", "fork:", "public:":
		return c07Pick(g, c07Values["bool"], "v")
	case "case:":
		return c07Pick(g, c07Values["case"], "v")
	case "t:", "type:":
		return c07Pick(g, c07Values["type"], "v")
	case "lang:":
		return c07Pick(g, c07Values["lang"], "v")
	case "b:", "branch:":
		return c07Pick(g, c07Values["branch"], "v")
	}
	if c07Bool(g, 8, "emptyvalue") {
		return ""
	}
	return c07Text(g)
}

func c07Expr(g kit.G, depth int) string {
	var sb strings.Builder
	switch k := c07Pct(g, "neg"); {
	case k < 18:
		sb.WriteString("-")
	case k < 20:
		sb.WriteString("--")
	case k < 21:
		sb.WriteString("- ")
	}
	k := c07Pct(g, "expr")
	switch {
	case k < 45:
		f := c07Pick(g, c07Fields, "field")
		sb.WriteString(f)
		sb.WriteString(c07FieldValue(g, f))
	case k < 48:
		sb.WriteString(c07Pick(g, c07NearFields, "near"))
		sb.WriteString(c07Text(g))
	case k < 82 || depth <= 0:
		sb.WriteString(c07Text(g))
	default:
		sp := c07Pick(g, []string{" ", " ", "", "  ", "\t"}, "sp")
		sb.WriteString("(" + sp + c07Query(g, depth-1) + sp + ")")
	}
	return sb.String()
}

func c07Conj(g kit.G, depth int) string {
	n := g.Int(1, 4, "nexpr")
	parts := make([]string, n)
	for i := range parts {
		parts[i] = c07Expr(g, depth)
	}
	return strings.Join(parts, c07Pick(g, []string{" ", " ", " ", "  ", "\t"}, "ws"))
}

func c07Query(g kit.G, depth int) string {
	n := 1
	if c07Bool(g, 30, "hasor") {
		n = g.Int(2, 3, "nor")
	}
	parts := make([]string, n)
	for i := range parts {
		parts[i] = c07Conj(g, depth)
	}
	return strings.Join(parts, " or ")
}

var c07SoupBits = []string{
	" ", " ", " ", "\t", "\n", "", "or", " or ", "-", "(", ")", "( ", " )", `"`, `\`, `\"`, `\\`, ":", "|", "*", "+", "?", "[", "]", "{", "}", "^", "$", ".", ",",
	"foo", "bar", "x", "Foo", "é", "\xff", "\x00", "yes", "no", "auto", "repo", "file", "filematch", "go",
}

func c07Soup(g kit.G) string {
	n := g.Int(1, 12, "nsoup")
	var sb strings.Builder
	for i := 0; i < n; i++ {
		switch g.Int(0, 3, "soupkind") {
		case 0:
			sb.WriteString(c07Pick(g, c07Fields, "field"))
		case 1:
			sb.WriteString(c07Text(g))
		default:
			sb.WriteString(c07Pick(g, c07SoupBits, "bit"))
		}
	}
	return sb.String()
}

var c07MutBytes = []byte{'"', '\\', '(', ')', '-', '-', ':', ':', ' ', ' ', '\t', '\n', 0, 0xff, 0xc3, '|', '*', '[', '.', 'o', 'r', 'a', 'y', 's', 'e', '"', '\\', '(', ')'}

func c07Mutate(g kit.G, s string) string {
	b := []byte(s)
	n := g.Int(1, 3, "nmut")
	for i := 0; i < n; i++ {
		if len(b) == 0 {
			b = append(b, c07Pick(g, c07MutBytes, "mb"))
			continue
		}
		p := g.Int(0, len(b)-1, "mpos")
		switch g.Int(0, 5, "mkind") {
		case 0:
			b = append(b[:p], b[p+1:]...)
		case 1:
			b = append(b[:p], append([]byte{c07Pick(g, c07MutBytes, "mb")}, b[p:]...)...)
		case 2:
			b[p] = c07Pick(g, c07MutBytes, "mb")
		case 3:
			b = b[:p]
		case 4:
			q := g.Int(p, len(b), "mend")
			b = append(b[:q:q], b[p:]...) // duplicate a slice
		case 5:
			b[p] ^= byte(1 << g.Int(0, 7, "bit"))
		}
	}
	return string(b)
}

func c07QueryString(g kit.G) (string, string) {
	switch k := c07Pct(g, "src"); {
	case k < 55:
		return c07Query(g, g.Int(0, 3, "depth")), "grammar"
	case k < 70:
		return c07Soup(g), "token-soup"
	case k < 90:
		return c07Mutate(g, c07Query(g, g.Int(0, 2, "depth"))), "byte-mutation"
	case k < 96:
		s := c07Query(g, 1)
		p := g.Int(0, len(s), "pos")
		bad := c07Pick(g, []string{"\xff", "\xc3", "\xed\xa0\x80", "\xf4\x90\x80\x80", "\x80", "\xe6\x97"}, "bad")
		return s[:p] + bad + s[p:], "invalid-utf8"
	default:
		// deep nesting and long operator chains
		n := g.Int(5, 200, "deep")
		switch g.Int(0, 3, "deepkind") {
		case 0:
			// groups are capped: parsing time is exponential in their depth (see c07TooDeep)
			n = 2 + n%(c07MaxGroupDepth-1)
			return strings.Repeat("( ", n) + "foo" + strings.Repeat(" )", n), "deep"
		case 1:
			return strings.Repeat("-", n) + "foo", "deep"
		case 2:
			return strings.Repeat("foo or ", n) + "bar", "deep"
		default:
			return strings.Repeat("(", n) + "x" + strings.Repeat(")", n), "deep"
		}
	}
}

var c07Ints = []string{"0", "1", "-1", "2", "3", "7", "100", "2147483647", "2147483648", "-2147483648", "4294967295", "4294967296", "9223372036854775807", "-9223372036854775808", "9223372036854775808", "1e3", "1.5", "1e400", `"5"`, "null", "true", "[]", "{}"}

func c07JSONValue(g kit.G, s string) string {
	b, _ := stdjson.Marshal(strings.ToValidUTF8(s, "�"))
	return string(b)
}

func c07OptsJSON(g kit.G, list bool) string {
	if list {
		switch g.Int(0, 5, "lopts") {
		case 0:
			return "null"
		case 1:
			return "{}"
		default:
			return `{"Field":` + c07Pick(g, c07Ints, "int") + `}`
		}
	}
	if c07Bool(g, 35, "limitcombo") {
		// every subset of the limit options, with zero and non-zero values: the
		// handler derives the missing limits from the ones that are set
		var parts []string
		for _, f := range []string{"ShardMaxMatchCount", "TotalMaxMatchCount", "ShardRepoMaxMatchCount", "MaxDocDisplayCount", "MaxMatchDisplayCount"} {
			if c07Bool(g, 50, "has"+f) {
				parts = append(parts, `"`+f+`":`+c07Pick(g, []string{"0", "1", "5", "100000", "-1"}, "limitv"))
			}
		}
		return "{" + strings.Join(parts, ",") + "}"
	}
	fields := []string{"EstimateDocCount", "Whole", "ShardMaxMatchCount", "TotalMaxMatchCount", "ShardRepoMaxMatchCount", "MaxWallTime", "FlushWallTime", "MaxDocDisplayCount", "MaxMatchDisplayCount", "NumContextLines", "ChunkMatches", "UseBM25Scoring", "Trace", "DebugScore", "SpanContext", "Unknown", "numcontextlines"}
	n := g.Int(0, 6, "nopts")
	var parts []string
	for i := 0; i < n; i++ {
		f := c07Pick(g, fields, "opt")
		var v string
		switch f {
		case "EstimateDocCount", "Whole", "ChunkMatches", "UseBM25Scoring", "Trace", "DebugScore":
			v = c07Pick(g, []string{"true", "false", "true", "1", "null", `"true"`}, "bool")
		case "SpanContext":
			v = c07Pick(g, []string{`{"a":"b"}`, `{}`, `null`, `[]`, `{"a":1}`, `{"uber-trace-id":"1:1:1:1"}`}, "span")
		case "MaxWallTime", "FlushWallTime":
			v = c07Pick(g, []string{"0", "1", "-1", "1000000", "1000000000", "9223372036854775807", "-9223372036854775808", `"1s"`, "1.5"}, "dur")
		default:
			v = c07Pick(g, c07Ints, "int")
		}
		parts = append(parts, `"`+f+`":`+v)
	}
	return "{" + strings.Join(parts, ",") + "}"
}

func c07JSONCase(g kit.G) c07Case {
	c := c07Case{Kind: "json", Method: "POST", Path: "/search"}
	list := c07Bool(g, 35, "list")
	if list {
		c.Path = "/list"
	}
	if c07Bool(g, 4, "method") {
		c.Method = c07Pick(g, []string{"GET", "PUT", "DELETE", "HEAD"}, "m")
	}
	var q string
	if c07Bool(g, 70, "plainq") {
		// mostly queries that parse, so that the options reach the searcher
		q = c07Pick(g, []string{"foo", "needle", "bar", "foo or bar", "file:go foo", "r:foo lang:go", "sym:Foo", "-foo", "type:file foo", "type:repo foo", "b:main foo", "foo.*bar", "case:yes Foo", "", "lang:python needle", "meta.license:Apache.*"}, "q")
	} else {
		q, _ = c07QueryString(g)
	}
	qj := c07JSONValue(g, q)
	var parts []string
	switch k := g.Int(0, 19, "qshape"); {
	case k < 16:
		parts = append(parts, `"Q":`+qj)
	case k == 16:
		parts = append(parts, `"q":`+qj) // field names match case-insensitively
	case k == 17:
		parts = append(parts, `"Q":`+c07Pick(g, []string{"1", "null", "{}", "[]", "true"}, "badq"))
	default:
		// no Q at all
	}
	if c07Bool(g, 60, "hasopts") {
		parts = append(parts, `"Opts":`+c07OptsJSON(g, list))
	}
	if !list && c07Bool(g, 30, "repoids") {
		parts = append(parts, `"RepoIDs":`+c07Pick(g, []string{"null", "[]", "[1]", "[2,1]", "[3]", "[4294967295]", "[4294967296]", "[-1]", `["1"]`, "1", "[1.5]", "[null]"}, "ids"))
	}
	if c07Bool(g, 5, "extra") {
		parts = append(parts, `"Extra":{"a":[1,2,{"b":null}]}`)
	}
	body := "{" + strings.Join(parts, ",") + "}"
	c.Src = "json-valid-shape"
	switch k := c07Pct(g, "damage"); {
	case k < 70:
	case k < 80:
		body = body[:g.Int(0, len(body), "cut")]
		c.Src = "json-truncated"
	case k < 88:
		body = c07Mutate(g, body)
		c.Src = "json-mutated"
	case k < 94:
		body = c07Pick(g, []string{"", "null", "[]", "0", `""`, "{", "}", "{}", "nul", "{\"Q\":\"foo\"}{\"Q\":\"bar\"}", "{\"Q\":\"foo\"} trailing", "\xff\xfe", "\x00", "<html>", "Q=foo", strings.Repeat("[", 20000), strings.Repeat(`{"Opts":`, 5000), `{"Q":"` + strings.Repeat("a", 70000) + `"}`}, "garbage")
		c.Src = "json-garbage"
	default:
		n := g.Int(1, 40, "glen")
		var sb strings.Builder
		for i := 0; i < n; i++ {
			sb.WriteByte(byte(g.Int(0, 255, "gb")))
		}
		body = sb.String()
		c.Src = "json-garbage"
	}
	c.Body = kit.Text(body)
	return c
}

func c07Gen(rt *rapid.T) c07Case {
	g := kit.G{T: rt}
	if c07Bool(g, 25, "json") {
		return c07JSONCase(g)
	}
	s, src := c07QueryString(g)
	return c07Case{Kind: "query", Src: src, Input: kit.Text(s)}
}

// ------------------------------------------------------------------ oracle

// c07Walk visits every node (a nil child included) with its parent.
func c07Walk(q, parent query.Q, f func(q, parent query.Q)) {
	f(q, parent)
	switch s := q.(type) {
	case *query.And:
		for _, c := range s.Children {
			c07Walk(c, q, f)
		}
	case *query.Or:
		for _, c := range s.Children {
			c07Walk(c, q, f)
		}
	case *query.Not:
		c07Walk(s.Child, q, f)
	case *query.Type:
		c07Walk(s.Child, q, f)
	case *query.Symbol:
		c07Walk(s.Expr, q, f)
	case *query.Boost:
		c07Walk(s.Child, q, f)
	}
}

// c07Shape is what the known-finding recognizers look at.
type c07Shape struct {
	kinds         map[string]bool
	negatedCase   bool // (not case:…): a negated case directive kept as a node
	negatedType   bool // (not type:…) with a nil child: a negated / bare type directive kept as a node
	meta          bool
	typeFileMatch bool // type:filematch with a child
	typeRepo      bool // type:repo with a child
	fieldAtoms    int
}

func c07ShapeOf(q query.Q) c07Shape {
	sh := c07Shape{kinds: map[string]bool{}}
	c07Walk(q, nil, func(n, parent query.Q) {
		name := strings.TrimPrefix(fmt.Sprintf("%T", n), "*query.")
		name = strings.TrimPrefix(name, "query.")
		sh.kinds[name] = true
		_, underNot := parent.(*query.Not)
		switch s := n.(type) {
		case *query.Type:
			if s.Child == nil {
				if underNot {
					sh.negatedType = true
				}
			} else if s.Type == query.TypeFileMatch {
				sh.typeFileMatch = true
			} else if s.Type == query.TypeRepo {
				sh.typeRepo = true
			}
			sh.fieldAtoms++
		case *query.Meta:
			sh.meta = true
			sh.fieldAtoms++
		case *query.Repo, *query.Branch, *query.Language, *query.Symbol, query.RawConfig:
			sh.fieldAtoms++
		case *query.Substring:
			if s.FileName || s.Content {
				sh.fieldAtoms++
			}
		case *query.Regexp:
			if s.FileName || s.Content {
				sh.fieldAtoms++
			}
		default:
			if name == "caseQ" && underNot {
				sh.negatedCase = true
			}
		}
	})
	return sh
}

// c07Classify names the known finding (if any) behind a panic of operation
// op on path ("", "bare") with message msg for a query of shape sh.
func c07Classify(sh c07Shape, op, path, msg string) string {
	switch {
	case op == "QToProto" && sh.meta && strings.Contains(msg, "unknown query node *query.Meta"):
		return "C07-meta-proto"
	case sh.negatedCase && strings.Contains(msg, "*query.caseQ"):
		return "C07-negated-scope-directive"
	case sh.negatedType && (strings.Contains(msg, "nil pointer dereference") || strings.Contains(msg, "type <nil>") || strings.Contains(msg, "unknown query node <nil>")):
		return "C07-negated-scope-directive"
	case (op == "Search" || op == "List") && strings.Contains(msg, "type *query.Type"):
		if sh.negatedType {
			// (not type:repo) / (not type:filematch) with a nil child reaches the same log.Panicf
			return "C07-negated-scope-directive"
		}
		if sh.typeFileMatch {
			return "C07-type-filematch"
		}
		if sh.typeRepo && path == "bare" {
			return "C07-type-on-bare-shard"
		}
	}
	return ""
}

type c07Finding struct {
	op, path string
	d        *kit.Discrepancy
}

// c07Guard runs f; a panic becomes a finding classified against the shape.
func c07Guard(sh c07Shape, input, op, path string, out *[]c07Finding, f func() error) {
	err := kit.Guard(f)
	if err == nil {
		return
	}
	d, ok := err.(*kit.Discrepancy)
	if !ok {
		return // an ordinary error return is a legal answer
	}
	where := op
	if path != "" {
		where += "/" + path
	}
	msg := d.Detail
	d.Detail = fmt.Sprintf("%s of query parsed from %q: %s", where, input, msg)
	if d.Kind == "panic" {
		d.Kind = "panic-" + where
		d.Known = c07Classify(sh, op, path, msg)
	}
	*out = append(*out, c07Finding{op, path, d})
}

// c07CheckParsed exercises one parsed query (part ii) and returns every
// finding, so that the paths are reported separately.
func c07CheckParsed(e *c07Env, input string, q query.Q) (c07Shape, []c07Finding) {
	var sh c07Shape
	var out []c07Finding
	if err := kit.Guard(func() error { sh = c07ShapeOf(q); return nil }); err != nil {
		d := err.(*kit.Discrepancy)
		d.Detail = fmt.Sprintf("walking the query parsed from %q: %s", input, d.Detail)
		return sh, []c07Finding{{"walk", "", d}}
	}
	ctx := context.Background()
	c07Guard(sh, input, "String", "", &out, func() error { _ = q.String(); return nil })
	c07Guard(sh, input, "Simplify", "", &out, func() error { _ = query.Simplify(q); return nil })
	var proto *webserverv1.Q
	c07Guard(sh, input, "QToProto", "", &out, func() error { proto = query.QToProto(q); return nil })
	if proto != nil {
		// decoding may answer with an error, but must not panic either
		c07Guard(sh, input, "QFromProto", "", &out, func() error { _, _ = query.QFromProto(proto); return nil })
	}
	bareKnown := map[string]bool{} // operations that panicked on the bare shard with a recognised message
	for _, op := range []string{"Search", "List"} {
		before := len(out)
		c07Guard(sh, input, op, "bare", &out, func() error {
			for _, s := range e.bare {
				if op == "Search" {
					if _, err := s.Search(ctx, q, &zoekt.SearchOptions{}); err != nil {
						continue
					}
					if _, err := s.Search(ctx, q, &zoekt.SearchOptions{ChunkMatches: true, NumContextLines: 1}); err != nil {
						continue
					}
				} else {
					s.List(ctx, q, nil)
					s.List(ctx, q, &zoekt.ListOptions{Field: zoekt.RepoListFieldReposMap})
				}
			}
			return nil
		})
		for _, f := range out[before:] {
			if f.d.Known != "" {
				bareKnown[op] = true
			}
		}
	}
	for _, op := range []string{"Search", "List"} {
		var crashes int
		c07Guard(sh, input, op, "dir", &out, func() error {
			if op == "Search" {
				res, err := e.dir.Search(ctx, q, &zoekt.SearchOptions{})
				if err == nil {
					crashes = res.Stats.Crashes
				}
			} else {
				rl, err := e.dir.List(ctx, q, nil)
				if err == nil {
					crashes = rl.Crashes
				}
			}
			return nil
		})
		if crashes > 0 {
			// The sharded searcher recovers the panic and only counts it; the
			// message is not available here. The crash is attributed to a known
			// finding only if the very same operation on the bare shard panicked
			// with a recognised message and the query has the shape of a finding
			// that also exists behind the directory searcher.
			d := kit.Fail("crash-"+op+"/dir", "%s through the directory searcher of query %s parsed from %q: %d shard(s) crashed", op, q, input, crashes)
			if bareKnown[op] {
				// Only the first panic is seen on the bare shard (a query can hold
				// several defects); which finding survives the directory searcher's
				// type:repo rewriting follows from the shape.
				switch {
				case sh.negatedCase || sh.negatedType:
					d.Known = "C07-negated-scope-directive"
				case sh.typeFileMatch:
					d.Known = "C07-type-filematch"
				}
			}
			out = append(out, c07Finding{op, "dir", d})
		}
	}
	return sh, out
}

// c07Verdict picks the discrepancy to return: an unrecognised one if there is
// any, else the first recognised one.
func c07Verdict(rec *kit.Recorder, fs []c07Finding) error {
	var known *kit.Discrepancy
	for _, f := range fs {
		where := f.op
		if f.path != "" {
			where += "/" + f.path
		}
		if f.d.Known == "" {
			if rec != nil {
				rec.Label("finding:unrecognised:" + where)
			}
			return f.d
		}
		if rec != nil {
			rec.Label("finding:" + f.d.Known + ":" + where)
		}
		if known == nil {
			known = f.d
		}
	}
	if known != nil {
		return known
	}
	return nil
}

func c07ErrClass(err error) string {
	s := err.Error()
	for _, cut := range []string{"`", "\"", "'", " at ", "%!"} {
		if i := strings.Index(s, cut); i >= 0 {
			s = s[:i]
		}
	}
	s = strings.TrimRight(strings.TrimSpace(s), ":")
	if len(s) > 60 {
		s = s[:60]
	}
	return s
}

// query.Parse ends with Simplify, whose constant folding (evalAndOrConstants
// calling Map(child, evalConstants) from inside evalConstants) visits every
// subtree twice per And/Or level: parsing "( ( ( … foo … ) ) )" takes about
// 4^depth steps (depth 12: seconds; depth 20: days). That is a hang, not a
// panic, so it is outside what C07 states; such inputs are counted and skipped
// so that the check itself terminates.
const c07MaxGroupDepth = 8

func c07TooDeep(s string) bool {
	depth, maxDepth := 0, 0
	for i := 0; i < len(s); i++ {
		switch s[i] {
		case '(':
			depth++
			if depth > maxDepth {
				maxDepth = depth
			}
		case ')':
			if depth > 0 {
				depth--
			}
		}
	}
	return maxDepth > c07MaxGroupDepth
}

// c07CheckQueryString is parts (i) and (ii) for one byte string.
func c07CheckQueryString(e *c07Env, rec *kit.Recorder, input string) (labels []string, nontrivial bool, verdict error) {
	if c07TooDeep(input) {
		return []string{"skipped:group-depth>8(exponential-parse-time)"}, false, nil
	}
	var q query.Q
	var perr error
	if err := kit.Guard(func() error { q, perr = query.Parse(input); return nil }); err != nil {
		d := err.(*kit.Discrepancy)
		d.Kind = "panic-Parse"
		d.Detail = fmt.Sprintf("query.Parse(%q): %s", input, d.Detail)
		return []string{"parse:panic"}, false, d
	}
	if perr != nil {
		if q != nil {
			return nil, false, kit.Fail("parse-both", "query.Parse(%q) returned a query and the error %v", input, perr)
		}
		return []string{"parse:error", "parse-error:" + c07ErrClass(perr)}, false, nil
	}
	if q == nil {
		return nil, false, kit.Fail("parse-neither", "query.Parse(%q) returned neither a query nor an error", input)
	}
	sh, fs := c07CheckParsed(e, input, q)
	labels = append(labels, "parse:ok")
	for k := range sh.kinds {
		labels = append(labels, "node:"+k)
	}
	sort.Strings(labels)
	return labels, sh.fieldAtoms >= 1, c07Verdict(rec, fs)
}

// c07CheckJSON is part (iii) for one request.
func c07CheckJSON(e *c07Env, rec *kit.Recorder, c c07Case) (labels []string, nontrivial bool, verdict error) {
	var peek struct{ Q string }
	if stdjson.Unmarshal(c.Body, &peek) == nil && c07TooDeep(peek.Q) {
		return []string{"skipped:group-depth>8(exponential-parse-time)"}, false, nil
	}
	req := httptest.NewRequest(c.Method, c.Path, bytes.NewReader(c.Body))
	w := httptest.NewRecorder()
	if err := kit.Guard(func() error { e.http.ServeHTTP(w, req); return nil }); err != nil {
		d := err.(*kit.Discrepancy)
		d.Kind = "panic-json" + strings.ReplaceAll(c.Path, "/", "-")
		d.Detail = fmt.Sprintf("%s %s with body %q: %s", c.Method, c.Path, c.Body, d.Detail)
		// the handler parses Q itself: recognise the known parser/convert findings by the query's shape
		return []string{"http:panic"}, false, d
	}
	code := w.Code
	labels = append(labels, fmt.Sprintf("http:%d", code))
	body := w.Body.Bytes()
	if code < 200 || code > 599 {
		return labels, false, kit.Fail("json-status", "%s %s with body %q: status %d", c.Method, c.Path, c.Body, code)
	}
	if code != 200 {
		var er struct{ Error *string }
		if err := stdjson.Unmarshal(body, &er); err != nil || er.Error == nil {
			return labels, false, kit.Fail("json-error-body", "%s %s with body %q: status %d with body %q, want a JSON object with an Error field", c.Method, c.Path, c.Body, code, body)
		}
		labels = append(labels, "http-error:"+c07ErrClass(fmt.Errorf("%s", *er.Error)))
		return labels, false, nil
	}
	// 200: the reply reports shard crashes, which are recovered panics.
	var reply struct {
		Result *struct{ Stats struct{ Crashes int } }
		List   *struct{ Crashes int }
	}
	if err := stdjson.Unmarshal(body, &reply); err != nil {
		rec.Add("json_200_undecodable_reply", 1)
		return labels, false, nil
	}
	crashes := 0
	if reply.Result != nil {
		crashes = reply.Result.Stats.Crashes
	}
	if reply.List != nil {
		crashes = reply.List.Crashes
	}
	if crashes > 0 {
		d := kit.Fail("crash-json"+strings.ReplaceAll(c.Path, "/", "-"), "%s %s with body %q: the reply reports %d crashed shard(s)", c.Method, c.Path, c.Body, crashes)
		// Attribute to a known finding only if the request's query string alone
		// (default options) shows that finding on the same operation.
		var args struct{ Q string }
		if stdjson.Unmarshal(c.Body, &args) == nil {
			if q, err := query.Parse(args.Q); err == nil {
				op := "Search"
				if c.Path == "/list" {
					op = "List"
				}
				_, fs := c07CheckParsed(e, args.Q, q)
				for _, f := range fs {
					if f.op == op && f.path == "dir" && f.d.Known != "" {
						d.Known = f.d.Known
					}
				}
			}
		}
		if d.Known != "" {
			rec.Label("finding:" + d.Known + ":json" + c.Path)
		} else {
			rec.Label("finding:unrecognised:json" + c.Path)
		}
		return labels, false, d
	}
	return labels, true, nil
}

func c07Run(rec *kit.Recorder, c c07Case) error {
	e, err := c07GetEnv()
	if err != nil {
		return fmt.Errorf("cannot build the C07 corpus: %v", err)
	}
	var labels []string
	var nt bool
	var verdict error
	key := c.Kind + "\x00" + string(c.Input) + "\x00" + c.Method + c.Path + "\x00" + string(c.Body)
	if c.Src == "exponential-parse-demo" {
		// Only reachable through --replay of replays/found/C07-nested-groups-exponential-parse.json:
		// demonstrates the blow-up that c07TooDeep protects the campaign from. Not part of the property.
		t0 := time.Now()
		_, _ = query.Parse(string(c.Input))
		d := time.Since(t0)
		rec.Eval(key, false, "demo")
		if d > time.Second {
			return kit.Fail("slow-parse", "query.Parse of %d bytes (%d nested groups) took %v", len(c.Input), strings.Count(string(c.Input), "("), d)
		}
		return nil
	}
	if c.Kind == "json" {
		labels, nt, verdict = c07CheckJSON(e, rec, c)
	} else {
		labels, nt, verdict = c07CheckQueryString(e, rec, string(c.Input))
		if !utf8.Valid(c.Input) {
			labels = append(labels, "input:invalid-utf8")
		}
	}
	labels = append(labels, "src:"+c.Src, "kind:"+c.Kind)
	if verdict != nil {
		labels = append(labels, "outcome:finding")
	}
	rec.Eval(key, nt, labels...)
	if len(c.Body) < 2000 {
		rec.Sample(c, nt && verdict == nil)
	}
	return verdict
}

func TestVerif_C07(t *testing.T) {
	rec := kit.Open(t, "C07",
		"75% query strings: output of a grammar for the documented query language (every field prefix incl. meta.<name>:, valid and invalid values, quoted / escaped / regexp texts, negation, tight and spaced groups, or), token soup of query fragments, 1-3 byte mutations of grammar output (delete / insert / replace / truncate / duplicate / bit flip), invalid UTF-8 insertions, deep nesting; 25% HTTP requests for the /search and /list JSON handlers: valid shapes with extreme option values and repo ids, truncated, mutated and garbage bodies, wrong methods; a case = one string or one request; non-trivial = the string parses to a query with >= 1 field atom (all operations are then run on it), or the request is answered 200 without crashed shards; distinct by input",
		"the corpus is fixed: 2 repositories / 5 documents, searched as two bare in-memory shards (index.NewSearcher, panics propagate) and through search.NewDirectorySearcher over the same shards on disk (a panic shows as Crashes > 0)",
		"an error return is a legal answer everywhere; only panics, crashed shards and malformed HTTP answers are failures",
		"a crash reported by the directory searcher (which hides the panic message) is attributed to a known finding only when the same operation on the bare shard panics with that finding's message",
	)
	t.Cleanup(c07CloseEnv)
	kit.Property(t, rec, c07Gen, func(c c07Case) error { return c07Run(rec, c) })
}

// FuzzVerifC07Parse: parts (i) and (ii) on arbitrary strings (thorough tier),
// seeded with the shapes of query/parse_test.go.
func FuzzVerifC07Parse(f *testing.F) {
	for _, s := range []string{
		`\bword\b`, "fi\"le:bla\"", "abc or def", "(abc or def)", "(ppp qqq or rrr sss)", "((x) ora b(z(d)))", "( )", "(abc)(de)", "sub-pixel", "abc", "ABC", "\"abc bcd\"", "abc bcd",
		"f:fs", "fs", "-abc", "abccase:yes", "file:abc", "branch:pqr", "((x|y) )", "archived:yes", "archived:no", "fork:yes", "fork:no", "public:yes", "public:no", "file:helpers\\.go byte",
		"(abc def)", "(abc def", "regex:abc[p-q]", "aBc[p-q]", "aBc[p-q] case:auto", "repo:go", "repo:.*", "abc.*def", "abc\\.\\*def", "(abc)", "c:abc", "content:abc", "lang:c++", "lang:cpp",
		"lang:mathematica", "sym:pqr", "sym:Pqr", "sym:.*", "sym:a(b|d)e", "abc case:yes", "abc case:auto", "ABC case:auto", "abc -f:def case:yes", "(foo case:yes) bar", "(case:yes foo) bar",
		"(case:yes foo (bar))", "case:auto (foo case:yes) bar", "case:yes (foo case:no) bar", "type:repo abc", "type:file abc def", "type:repo foo or bar", "(type:repo abc) def", "--", "case:foo",
		"sym:", "abc or", "or abc", "def or or abc", "type:repo or", "or type:repo", "(", "((", "(((", ")", "))", ")))", "foo)", "foo))", "(foo", "((foo", "(foo))", "(((foo))", "", "  (  )  ",
		"  ( foo )  ", "file:bla ", "(ab(c)def) ", "(ab\\ def) ", ") ", "a(bc))", "abc) ", "\\", "or bla", "ar bla", "meta.license:Apache-.*", "-meta.x:y", "t:filematch x", "-(a or b)", "\"", "a\\",
	} {
		f.Add(s)
	}
	rec := kit.Open(f, "C07", "native fuzzing of query strings", "see TestVerif_C07")
	// Build the corpus here, not inside the fuzz function: the fuzzing engine
	// kills a worker whose single execution takes more than 10 s, which building
	// four shards and a directory searcher can on a loaded machine.
	e, err := c07GetEnv()
	if err != nil {
		f.Fatalf("cannot build the C07 corpus: %v", err)
	}
	f.Cleanup(c07CloseEnv)
	f.Fuzz(func(t *testing.T, s string) {
		if len(s) > 2000 {
			return
		}
		_, _, verdict := c07CheckQueryString(e, nil, s)
		if err := rec.Judge(c07Case{Kind: "query", Src: "fuzz", Input: kit.Text(s)}, verdict); err != nil {
			t.Fatalf("%v", err)
		}
	})
}
