//go:build verif

package query_test

// C26: the compact binary encodings of zoekt.ReposMap (marshal.go),
// query.BranchesRepos and query.FileNameSet (query/marshal.go) decode every
// encoded value back to an equal value, and decoding arbitrary bytes returns a
// value or an error without panicking, hanging or allocating unboundedly.
//
// Everything is driven through the public MarshalBinary/UnmarshalBinary
// methods (the observation points named by the property).

import (
	"bytes"
	"encoding/binary"
	"encoding/json"
	"fmt"
	"os"
	"runtime"
	"sort"
	"testing"
	"time"
	"unicode/utf8"

	"github.com/RoaringBitmap/roaring/v2"
	"pgregory.net/rapid"

	"github.com/sourcegraph/zoekt"
	"github.com/sourcegraph/zoekt/internal/verifkit/kit"
	"github.com/sourcegraph/zoekt/query"
)

const (
	c26ReposMap      = "reposmap"
	c26BranchesRepos = "branchesrepos"
	c26FileNameSet   = "filenameset"

	// c26KnownLength is the finding id for: a declared element count exceeds
	// the number of input bytes that remain when the decoder reads it.
	c26KnownLength = "C26-unbounded-length"

	// An input whose declared counts make the decoder do more than this many
	// loop iterations / pre-allocated elements is "heavy": executing it may
	// kill the process (fatal OOM) or spin for hours.
	c26HeavyCost = 1 << 15

	c26Watchdog = 20 * time.Second

	// Garbage inputs are capped at this length: a count that is legitimately
	// <= the remaining bytes still costs the decoders up to ~200 bytes of
	// bookkeeping per declared element (BranchRepos + empty roaring bitmap), so
	// the 64x factor of the bound only has room for that within the 1 MiB slack.
	c26MaxGarbage = 4096
)

var c26Codecs = []string{c26ReposMap, c26BranchesRepos, c26FileNameSet}

// ---------------------------------------------------------------- case

type c26Branch struct {
	Name    kit.Text
	Version kit.Text
}

type c26Repo struct {
	ID         uint32
	HasSymbols bool
	IndexTime  int64
	Branches   []c26Branch
}

type c26BR struct {
	Branch kit.Text
	IDs    []uint32
	// Runs are [start, start+n) intervals (run containers, dense containers).
	Runs [][2]uint32 `json:",omitempty"`
}

type c26Case struct {
	Mode  string // "roundtrip" | "garbage"
	Codec string

	// roundtrip
	NilMap bool       `json:",omitempty"` // ReposMap(nil)
	Repos  []c26Repo  `json:",omitempty"`
	BR     []c26BR    `json:",omitempty"`
	Names  []kit.Text `json:",omitempty"`
	// Extra further entries are derived arithmetically from the listed ones
	// (entry i is a copy of entry i mod len with a different id / name); keeps
	// cases with thousands of entries small.
	Extra int `json:",omitempty"`
	// Reuse says what happens to the byte slice that was handed to
	// UnmarshalBinary before the decoded value is compared (see c26Reuse*).
	Reuse string `json:",omitempty"`

	// garbage
	Data kit.Text `json:",omitempty"`
	How  string   `json:",omitempty"`
}

// ---------------------------------------------------------------- values

func (c *c26Case) reposMap() zoekt.ReposMap {
	if c.NilMap {
		return nil
	}
	m := zoekt.ReposMap{}
	for _, r := range c.allRepos() {
		e := zoekt.MinimalRepoListEntry{HasSymbols: r.HasSymbols, IndexTimeUnix: r.IndexTime}
		for _, b := range r.Branches {
			e.Branches = append(e.Branches, zoekt.RepositoryBranch{Name: string(b.Name), Version: string(b.Version)})
		}
		m[r.ID] = e
	}
	return m
}

func (b *c26BR) bitmap() *roaring.Bitmap {
	bm := roaring.New()
	bm.AddMany(b.IDs)
	for _, r := range b.Runs {
		end := uint64(r[0]) + uint64(r[1])
		if end > 1<<32 {
			end = 1 << 32
		}
		bm.AddRange(uint64(r[0]), end)
	}
	return bm
}

func (c *c26Case) branchesRepos() []query.BranchRepos {
	var out []query.BranchRepos
	for i, b := range c.allBR() {
		bm := b.bitmap()
		if i%2 == 1 {
			bm.RunOptimize()
		}
		out = append(out, query.BranchRepos{Branch: string(b.Branch), Repos: bm})
	}
	return out
}

func (c *c26Case) nameSet() map[string]struct{} {
	m := map[string]struct{}{}
	for _, n := range c.allNames() {
		m[string(n)] = struct{}{}
	}
	return m
}

func (c *c26Case) allRepos() []c26Repo {
	out := c.Repos
	for i := 0; i < c.Extra && len(c.Repos) > 0; i++ {
		r := c.Repos[i%len(c.Repos)]
		r.ID += uint32(i+1) * 2654435761
		out = append(out[:len(out):len(out)], r)
	}
	return out
}

func (c *c26Case) allBR() []c26BR {
	out := c.BR
	for i := 0; i < c.Extra && len(c.BR) > 0; i++ {
		b := c.BR[i%len(c.BR)]
		b.Branch = append(append(kit.Text{}, b.Branch...), []byte(fmt.Sprint("#", i))...)
		b.IDs = append(append([]uint32{}, b.IDs...), uint32(i)*7919)
		out = append(out[:len(out):len(out)], b)
	}
	return out
}

func (c *c26Case) allNames() []kit.Text {
	out := c.Names
	for i := 0; i < c.Extra && len(c.Names) > 0; i++ {
		n := append(append(kit.Text{}, c.Names[i%len(c.Names)]...), []byte(fmt.Sprint("/", i))...)
		out = append(out[:len(out):len(out)], n)
	}
	return out
}

// ---------------------------------------------------------------- reference encoders
//
// Deterministic encoders following the format comments in marshal.go and
// query/marshal.go. They only produce the *starting points* for mutation (the
// real encoders iterate Go maps, so their output order is not reproducible).
// counts receives the offsets of element-count varints, lens the offsets of
// byte-length varints.

type c26Enc struct {
	buf    bytes.Buffer
	counts []int
	lens   []int
}

func (e *c26Enc) uvarint(x uint64) {
	var tmp [binary.MaxVarintLen64]byte
	e.buf.Write(tmp[:binary.PutUvarint(tmp[:], x)])
}
func (e *c26Enc) count(n int) { e.counts = append(e.counts, e.buf.Len()); e.uvarint(uint64(n)) }
func (e *c26Enc) str(s []byte) {
	e.lens = append(e.lens, e.buf.Len())
	e.uvarint(uint64(len(s)))
	e.buf.Write(s)
}

func c26RefEncode(c *c26Case, version byte) *c26Enc {
	e := &c26Enc{}
	switch c.Codec {
	case c26FileNameSet:
		e.buf.WriteByte(1)
		names := make([]string, 0, len(c.Names))
		for k := range c.nameSet() {
			names = append(names, k)
		}
		sort.Strings(names)
		e.count(len(names))
		for _, n := range names {
			e.str([]byte(n))
		}
	case c26BranchesRepos:
		e.buf.WriteByte(1)
		brs := c.allBR()
		e.count(len(brs))
		for i := range brs {
			e.str(brs[i].Branch)
			b, _ := brs[i].bitmap().ToBytes()
			e.str(b)
		}
	case c26ReposMap:
		e.buf.WriteByte(version)
		m := c.reposMap()
		ids := make([]uint32, 0, len(m))
		all := 0
		for id, r := range m {
			ids = append(ids, id)
			all += len(r.Branches)
		}
		sort.Slice(ids, func(i, j int) bool { return ids[i] < ids[j] })
		e.count(len(ids))
		e.count(all)
		for _, id := range ids {
			r := m[id]
			e.uvarint(uint64(id))
			if r.HasSymbols {
				e.buf.WriteByte(1)
			} else {
				e.buf.WriteByte(0)
			}
			if version >= 2 {
				e.uvarint(uint64(r.IndexTimeUnix))
			}
			e.count(len(r.Branches))
			for _, b := range r.Branches {
				e.str([]byte(b.Name))
				e.str([]byte(b.Version))
			}
		}
	}
	return e
}

// c26ReplaceVarint replaces the uvarint that starts at off by the encoding of v.
func c26ReplaceVarint(data []byte, off int, v uint64) []byte {
	_, n := binary.Uvarint(data[off:])
	if n <= 0 {
		return data
	}
	var tmp [binary.MaxVarintLen64]byte
	m := binary.PutUvarint(tmp[:], v)
	out := append([]byte{}, data[:off]...)
	out = append(out, tmp[:m]...)
	return append(out, data[off+n:]...)
}

// ---------------------------------------------------------------- shadow scan
//
// c26Scan mirrors the control flow of the three decoders (version byte,
// counts, loops) without allocating anything, and reports
//   hostile: some declared element count is negative as int or exceeds the
//            bytes remaining when it is read (no valid encoding does that:
//            every element occupies at least one byte);
//   cost:    elements the decoder pre-allocates plus loop iterations it runs.

type c26Reader struct {
	b []byte
}

func (r *c26Reader) uvarint() int {
	x, n := binary.Uvarint(r.b)
	if n < 0 {
		r.b = nil
		return 0
	}
	r.b = r.b[n:]
	return int(x)
}
func (r *c26Reader) byt() (byte, bool) {
	if len(r.b) < 1 {
		r.b = nil
		return 0, false
	}
	x := r.b[0]
	r.b = r.b[1:]
	return x, true
}

// skipStr mirrors binaryReader.str / binaryReader.bitmap. A byte length that
// is negative as int passes the decoders' "l > len(b)" test; neg reports it.
func (r *c26Reader) skipStr() (l int, neg bool) {
	l = r.uvarint()
	if l < 0 {
		r.b = nil
		return l, true
	}
	if l > len(r.b) {
		r.b = nil
		return l, false
	}
	r.b = r.b[l:]
	return l, false
}

type c26ScanResult struct {
	VersionOK bool
	Hostile   bool
	Detail    string
	Cost      int
}

func (s *c26ScanResult) declare(what string, n, remaining int) {
	if n < 0 || n > remaining {
		if !s.Hostile {
			s.Detail = fmt.Sprintf("%s=%d declared with %d input bytes remaining", what, uint64(n), remaining)
		}
		s.Hostile = true
	}
}

func (s *c26ScanResult) add(n int) {
	if n < 0 {
		return
	}
	if s.Cost+n < s.Cost || s.Cost+n > 1<<60 {
		s.Cost = 1 << 60
		return
	}
	s.Cost += n
}

func c26Scan(codec string, data []byte) (s c26ScanResult) {
	r := &c26Reader{b: data}
	// str mirrors one str()/bitmap() call of the decoder; false = the decoder
	// panics here (byte length negative as int)
	str := func(what string) bool {
		rem := len(r.b)
		if l, neg := r.skipStr(); neg {
			s.declare(what, l, rem)
			return false
		}
		return true
	}
	switch codec {
	case c26FileNameSet, c26BranchesRepos:
		if v, _ := r.byt(); v != 1 {
			return
		}
		s.VersionOK = true
		l := r.uvarint()
		s.declare("count", l, len(r.b))
		s.add(l)
		if codec == c26BranchesRepos && l < 0 {
			return // make([]BranchRepos, l) panics
		}
		for i := 0; i < l && len(r.b) > 0; i++ {
			before := len(r.b)
			if !str("string length") {
				return
			}
			if codec == c26BranchesRepos && !str("bitmap length") {
				return
			}
			if len(r.b) == before {
				// a truncated varint at the end of the input reads as 0
				// without being consumed: every further iteration is the same
				break
			}
		}
	case c26ReposMap:
		if len(data) == 0 {
			return
		}
		v, _ := r.byt()
		if v != 1 && v != 2 {
			return
		}
		s.VersionOK = true
		l := r.uvarint()
		s.declare("count", l, len(r.b))
		all := r.uvarint()
		s.declare("allBranchesLen", all, len(r.b))
		s.add(l)
		s.add(all)
		if all < 0 {
			return // make([]RepositoryBranch, 0, all) panics
		}
		// exhausted input reads as zeros: the remaining iterations have no
		// branches, so the scan can stop there
		for i := 0; i < l && len(r.b) > 0; i++ {
			r.uvarint()
			// byt() always consumes or empties the input: the outer loop makes progress
			r.byt()
			if v == 2 {
				r.uvarint()
			}
			lb := r.uvarint()
			s.declare("branches", lb, len(r.b))
			s.add(lb)
			for j := 0; j < lb && len(r.b) > 0; j++ {
				before := len(r.b)
				if !str("string length") || !str("string length") {
					return
				}
				if len(r.b) == before {
					break // truncated varint: no progress, see above
				}
			}
			if lb < 0 {
				return // allBranches[len-lb:] panics
			}
		}
	}
	return
}

// ---------------------------------------------------------------- running a decoder

type c26Decoded struct {
	err  error
	rm   zoekt.ReposMap
	br   query.BranchesRepos
	fs   query.FileNameSet
	size int // number of decoded elements
}

func c26Decode(codec string, data []byte) (d c26Decoded) {
	switch codec {
	case c26ReposMap:
		d.err = d.rm.UnmarshalBinary(data)
		d.size = len(d.rm)
	case c26BranchesRepos:
		d.err = d.br.UnmarshalBinary(data)
		d.size = len(d.br.List)
	case c26FileNameSet:
		d.err = d.fs.UnmarshalBinary(data)
		d.size = len(d.fs.Set)
	}
	return d
}

// c26Guarded runs the decoder in its own goroutine: panics become
// discrepancies, a watchdog turns a hang into one, and the bytes allocated
// while decoding are measured (TotalAlloc is monotonic, GC does not lower it;
// nothing else runs in this process meanwhile).
func c26Guarded(codec string, data []byte) (d c26Decoded, in []byte, alloc uint64, disc *kit.Discrepancy) {
	type result struct {
		d     c26Decoded
		alloc uint64
		err   error
	}
	ch := make(chan result, 1)
	in = append([]byte{}, data...)
	go func() {
		var res result
		res.err = kit.Guard(func() error {
			var m0, m1 runtime.MemStats
			runtime.ReadMemStats(&m0)
			res.d = c26Decode(codec, in)
			runtime.ReadMemStats(&m1)
			res.alloc = m1.TotalAlloc - m0.TotalAlloc
			return nil
		})
		ch <- res
	}()
	timer := time.NewTimer(c26Watchdog)
	defer timer.Stop()
	select {
	case res := <-ch:
		if res.err != nil {
			dd, _ := res.err.(*kit.Discrepancy)
			return res.d, in, 0, dd
		}
		if !bytes.Equal(in, data) {
			return res.d, in, res.alloc, kit.Fail("input-modified", "%s decoder modified its input", codec)
		}
		return res.d, in, res.alloc, nil
	case <-timer.C:
		// the decoder goroutine still owns the buffer
		return d, nil, 0, kit.Fail("hang", "%s decoder still running after %s on %d input bytes", codec, c26Watchdog, len(data))
	}
}

func c26AllocBound(n int) uint64 { return 64*uint64(n) + 1<<20 }

// c26KnownActive reports whether the finding id is listed for C26 in the
// known-findings file of this run. Only needed to avoid *executing* inputs of
// the recognised class that would kill the process; suppression itself is
// done by the recorder.
func c26KnownActive(id string) bool {
	b, err := os.ReadFile(os.Getenv("VERIF_KNOWN"))
	if err != nil {
		return false
	}
	var kf struct {
		Findings []struct {
			Property string `json:"property"`
			ID       string `json:"id"`
		} `json:"findings"`
	}
	if json.Unmarshal(b, &kf) != nil {
		return false
	}
	for _, f := range kf.Findings {
		if f.Property == "C26" && f.ID == id {
			return true
		}
	}
	return false
}

// c26CheckGarbage is the robustness oracle for one (codec, input) pair.
// outcome is a label; executed says whether the decoder really ran.
func c26CheckGarbage(codec string, data []byte, skipHeavyKnown bool) (outcome string, scan c26ScanResult, err error) {
	scan = c26Scan(codec, data)
	if scan.Hostile && scan.Cost > c26HeavyCost && skipHeavyKnown {
		return "not-executed-known", scan, kit.FailKnown(c26KnownLength, "unbounded-length",
			"%s: %s; decoder cost %d elements for %d input bytes; not executed because the class is a listed finding (it ends in fatal OOM, a makeslice panic or a practically endless loop)",
			codec, scan.Detail, scan.Cost, len(data))
	}
	d, in, alloc, disc := c26Guarded(codec, data)
	if disc == nil && alloc > c26AllocBound(len(data)) {
		disc = kit.Fail("alloc", "%s decoder allocated %d bytes for %d input bytes (bound %d)", codec, alloc, len(data), c26AllocBound(len(data)))
	}
	if disc != nil {
		if scan.Hostile {
			disc.Known = c26KnownLength
			disc.Detail = scan.Detail + ": " + disc.Detail
		}
		return "discrepancy", scan, disc
	}
	if d.err != nil {
		return "error", scan, nil
	}
	if disc := c26CheckDetached(codec, data, d, in); disc != nil {
		return "discrepancy", scan, disc
	}
	return "value", scan, nil
}

// c26CheckDetached: a value decoded from accepted bytes does not alias them.
// d was decoded from in (a copy of data that only the harness and the decoder
// have seen). The same bytes are decoded once more from a fresh copy that is
// left alone, in is overwritten, and the two values are compared by content.
func c26CheckDetached(codec string, data []byte, d c26Decoded, in []byte) *kit.Discrepancy {
	err := kit.Guard(func() error {
		ref := c26Decode(codec, append([]byte{}, data...))
		if ref.err != nil {
			return nil // not this oracle's business
		}
		for i := range in {
			in[i] ^= 0x5a
		}
		const where = "after the input buffer of UnmarshalBinary was overwritten, compared with a second decoding of the same bytes"
		switch codec {
		case c26ReposMap:
			return c26CmpReposMap(where, ref.rm, d.rm)
		case c26BranchesRepos:
			return c26CmpBR(where, ref.br.List, d.br.List, true)
		case c26FileNameSet:
			return c26CmpSet(where, ref.fs.Set, d.fs.Set)
		}
		return nil
	})
	if err == nil {
		return nil
	}
	disc, ok := err.(*kit.Discrepancy)
	if !ok {
		disc = kit.Fail("error", "%v", err)
	}
	disc.Kind = "aliases-input/" + disc.Kind
	return disc
}

// ---------------------------------------------------------------- round trip oracle

// c26Q quotes a string for a message, shortened when long.
func c26Q(s string) string {
	if len(s) > 80 {
		return fmt.Sprintf("%q...(%d bytes)", s[:80], len(s))
	}
	return fmt.Sprintf("%q", s)
}

// Content comparison of the three value types. where says at which point of
// the case the comparison is made (right after decoding, after the input
// buffer was overwritten, ...).

func c26CmpReposMap(where string, want, got zoekt.ReposMap) error {
	if len(got) != len(want) {
		return kit.Fail("roundtrip", "ReposMap %s: %d entries expected, %d decoded", where, len(want), len(got))
	}
	for id, w := range want {
		g, ok := got[id]
		if !ok {
			return kit.Fail("roundtrip", "ReposMap %s: id %d lost", where, id)
		}
		if g.HasSymbols != w.HasSymbols || g.IndexTimeUnix != w.IndexTimeUnix || len(g.Branches) != len(w.Branches) {
			return kit.Fail("roundtrip", "ReposMap[%d] %s: expected %+v decoded %+v", id, where, w, g)
		}
		for i := range w.Branches {
			if g.Branches[i] != w.Branches[i] {
				return kit.Fail("roundtrip", "ReposMap[%d].Branches[%d] %s: expected {%s %s} decoded {%s %s}", id, i, where, c26Q(w.Branches[i].Name), c26Q(w.Branches[i].Version), c26Q(g.Branches[i].Name), c26Q(g.Branches[i].Version))
			}
		}
	}
	return nil
}

// tolerant is for values decoded from arbitrary bytes: roaring accepts some
// malformed containers, on which Equals is not obliged to work.
func c26CmpBR(where string, want, got []query.BranchRepos, tolerant bool) error {
	if len(got) != len(want) {
		return kit.Fail("roundtrip", "BranchesRepos %s: %d entries expected, %d decoded", where, len(want), len(got))
	}
	for i := range want {
		if got[i].Branch != want[i].Branch {
			return kit.Fail("roundtrip", "BranchesRepos[%d].Branch %s: expected %s decoded %s", i, where, c26Q(want[i].Branch), c26Q(got[i].Branch))
		}
		if tolerant {
			if (got[i].Repos == nil) != (want[i].Repos == nil) {
				return kit.Fail("roundtrip", "BranchesRepos[%d].Repos %s: nil on one side only", i, where)
			}
			if want[i].Repos == nil {
				continue
			}
			equal, panicked := true, false
			func() {
				defer func() {
					if recover() != nil {
						panicked = true
					}
				}()
				equal = got[i].Repos.Equals(want[i].Repos)
			}()
			if !panicked && !equal {
				return kit.Fail("roundtrip", "BranchesRepos[%d].Repos %s: bitmaps differ", i, where)
			}
			continue
		}
		if got[i].Repos == nil || !got[i].Repos.Equals(want[i].Repos) {
			return kit.Fail("roundtrip", "BranchesRepos[%d].Repos %s: expected %v decoded %v", i, where, want[i].Repos, got[i].Repos)
		}
	}
	return nil
}

func c26CmpSet(where string, want, got map[string]struct{}) error {
	if len(got) != len(want) {
		return kit.Fail("roundtrip", "FileNameSet %s: %d names expected, %d decoded", where, len(want), len(got))
	}
	// membership queries (what the set is for) ...
	for k := range want {
		if _, ok := got[k]; !ok {
			return kit.Fail("roundtrip", "FileNameSet %s: name %s lost", where, c26Q(k))
		}
	}
	// ... and the keys as stored
	for k := range got {
		if _, ok := want[k]; !ok {
			return kit.Fail("roundtrip", "FileNameSet %s: decoded set holds %s, which was not encoded", where, c26Q(k))
		}
	}
	return nil
}

// c26RT is one value of the case's codec: its size, its real encoder, and its
// real decoder, which returns a comparison of the decoded value with the
// original (callable any number of times, at different points of the case).
type c26RT struct {
	n      int
	encode func() ([]byte, error)
	decode func(data []byte) (cmp func(where string) error, err error)
}

func c26RoundTripper(c *c26Case) (c26RT, error) {
	switch c.Codec {
	case c26ReposMap:
		want := c.reposMap()
		return c26RT{
			n:      len(want),
			encode: func() ([]byte, error) { return want.MarshalBinary() },
			decode: func(data []byte) (func(string) error, error) {
				var got zoekt.ReposMap
				if err := got.UnmarshalBinary(data); err != nil {
					return nil, err
				}
				return func(where string) error { return c26CmpReposMap(where, want, got) }, nil
			},
		}, nil
	case c26BranchesRepos:
		want := c.branchesRepos()
		return c26RT{
			n:      len(want),
			encode: func() ([]byte, error) { return query.BranchesRepos{List: want}.MarshalBinary() },
			decode: func(data []byte) (func(string) error, error) {
				var got query.BranchesRepos
				if err := got.UnmarshalBinary(data); err != nil {
					return nil, err
				}
				return func(where string) error { return c26CmpBR(where, want, got.List, false) }, nil
			},
		}, nil
	case c26FileNameSet:
		want := c.nameSet()
		return c26RT{
			n:      len(want),
			encode: func() ([]byte, error) { return (&query.FileNameSet{Set: want}).MarshalBinary() },
			decode: func(data []byte) (func(string) error, error) {
				var got query.FileNameSet
				if err := got.UnmarshalBinary(data); err != nil {
					return nil, err
				}
				return func(where string) error { return c26CmpSet(where, want, got.Set) }, nil
			},
		}, nil
	}
	return c26RT{}, fmt.Errorf("unknown codec %q", c.Codec)
}

// c26Twin derives the "second, different value" of the reuse mode "second":
// same shape as the case's value (so that its encoding overlays the first
// one's bytes closely), every string changed in every byte, ids shifted, one
// entry dropped from the front when there are several.
func c26Twin(c *c26Case) *c26Case {
	flip := func(b kit.Text) kit.Text {
		out := make(kit.Text, len(b))
		for i, x := range b {
			out[len(b)-1-i] = x ^ 0x15
		}
		return out
	}
	t := &c26Case{Mode: c.Mode, Codec: c.Codec, NilMap: false, Extra: c.Extra}
	for i, r := range c.Repos {
		if i == 0 && len(c.Repos) > 2 {
			continue
		}
		nr := c26Repo{ID: r.ID + 1, HasSymbols: !r.HasSymbols, IndexTime: r.IndexTime ^ 0x55}
		for _, b := range r.Branches {
			nr.Branches = append(nr.Branches, c26Branch{Name: flip(b.Name), Version: flip(b.Version)})
		}
		t.Repos = append(t.Repos, nr)
	}
	for i, b := range c.BR {
		if i == 0 && len(c.BR) > 2 {
			continue
		}
		nb := c26BR{Branch: flip(b.Branch)}
		for _, id := range b.IDs {
			nb.IDs = append(nb.IDs, id+3)
		}
		for _, r := range b.Runs {
			nb.Runs = append(nb.Runs, [2]uint32{r[0] + 7, r[1]})
		}
		t.BR = append(t.BR, nb)
	}
	for i, n := range c.Names {
		if i == 0 && len(c.Names) > 2 {
			continue
		}
		t.Names = append(t.Names, flip(n))
	}
	return t
}

// Reuse modes: what the caller does with the byte slice it handed to
// UnmarshalBinary once that has returned. encoding.BinaryUnmarshaler only
// lends the input ("UnmarshalBinary must copy the data if it wishes to retain
// the data after returning"), so the decoded value has to stay equal to the
// encoded one whatever happens to those bytes.
const (
	c26ReuseNone   = ""       // nothing: compared right after decoding only
	c26ReuseZero   = "zero"   // input zeroed
	c26ReuseFill   = "fill"   // input filled with 'x'
	c26ReuseInvert = "invert" // every input byte inverted
	c26ReuseSecond = "second" // a second, different value is decoded from the same frame buffer
)

var c26Reuses = []string{c26ReuseZero, c26ReuseFill, c26ReuseInvert, c26ReuseSecond}

func c26CheckRoundTrip(c *c26Case) (n int, err error) {
	rt, err := c26RoundTripper(c)
	if err != nil {
		return 0, err
	}
	enc, err := rt.encode()
	if err != nil {
		return 0, kit.Fail("encode-error", "%s MarshalBinary: %v", c.Codec, err)
	}
	var rt2 c26RT
	var enc2 []byte
	if c.Reuse == c26ReuseSecond {
		if rt2, err = c26RoundTripper(c26Twin(c)); err != nil {
			return 0, err
		}
		if enc2, err = rt2.encode(); err != nil {
			return 0, kit.Fail("encode-error", "%s MarshalBinary (second value): %v", c.Codec, err)
		}
	}
	// the caller's buffer: owned by the harness, never by the decoder
	frame := make([]byte, max(len(enc), len(enc2)))
	in := frame[:copy(frame, enc)]
	cmp, err := rt.decode(in)
	if err != nil {
		return 0, kit.Fail("decode-error", "%s UnmarshalBinary(valid encoding of %d entries, %d bytes): %v", c.Codec, rt.n, len(enc), err)
	}
	if !bytes.Equal(in, enc) {
		return 0, kit.Fail("input-modified", "%s decoder modified its input", c.Codec)
	}
	if err := cmp("right after decoding"); err != nil {
		return 0, err
	}
	switch c.Reuse {
	case c26ReuseNone:
		return rt.n, nil
	case c26ReuseZero:
		clear(frame)
	case c26ReuseFill:
		for i := range frame {
			frame[i] = 'x'
		}
	case c26ReuseInvert:
		for i := range frame {
			frame[i] ^= 0xff
		}
	case c26ReuseSecond:
		in2 := frame[:copy(frame, enc2)]
		cmp2, err := rt2.decode(in2)
		if err != nil {
			return 0, kit.Fail("decode-error", "%s UnmarshalBinary(valid encoding of %d entries, %d bytes, second value in a reused buffer): %v", c.Codec, rt2.n, len(enc2), err)
		}
		if err := cmp2("(second value decoded from the reused buffer) right after decoding"); err != nil {
			return 0, err
		}
		if err := cmp("after a second value was decoded from the same, reused input buffer"); err != nil {
			return 0, err
		}
		// and now the buffer goes back to the pool
		for i := range frame {
			frame[i] = byte(i)*31 + 7
		}
		if err := cmp2("(second value decoded from the reused buffer) after the caller overwrote the input buffer"); err != nil {
			return 0, err
		}
	default:
		return 0, fmt.Errorf("unknown reuse mode %q", c.Reuse)
	}
	if err := cmp("after the caller overwrote (" + c.Reuse + ") the input buffer it had passed to UnmarshalBinary"); err != nil {
		return 0, err
	}
	return rt.n, nil
}

// ---------------------------------------------------------------- generators

// rapid's integer generators are biased towards small values, which is what
// one wants for sizes but not for "x% of the cases"; c26U draws a uniform
// integer in [0,n) from fair coin flips (it still shrinks towards 0).
func c26U(g kit.G, n int, label string) int {
	if n <= 1 {
		return 0
	}
	bits := 0
	for 1<<bits < n {
		bits++
	}
	bits += 3
	v := 0
	for i := 0; i < bits; i++ {
		if rapid.Bool().Draw(g.T, label) {
			v |= 1 << i
		}
	}
	return v * n >> bits
}

func c26Pct(g kit.G, pct int, label string) bool { return c26U(g, 100, label) < pct }

func c26Pick[T any](g kit.G, xs []T, label string) T { return xs[c26U(g, len(xs), label)] }

var c26LenEdges = []int{0, 1, 2, 126, 127, 128, 129, 255, 256, 16383, 16384, 16385, 70000}

func c26GenBytes(g kit.G, label string, allowLong bool) []byte {
	k := c26U(g, 100, label+"kind")
	switch {
	case k < 8:
		return []byte{}
	case k < 45:
		return []byte(rapid.StringMatching(`[a-zA-Z0-9_./-]{1,24}`).Draw(g.T, label))
	case k < 60:
		return []byte(rapid.StringOfN(rapid.RuneFrom(c26Runes), 1, 12, -1).Draw(g.T, label))
	case k < 85 || !allowLong:
		// arbitrary bytes: not UTF-8 in general, NULs, 0xff
		return rapid.SliceOfN(rapid.Byte(), 1, 20).Draw(g.T, label)
	default:
		unit := rapid.SliceOfN(rapid.Byte(), 1, 5).Draw(g.T, label+"unit")
		n := c26Pick(g, c26LenEdges, label+"len")
		out := make([]byte, 0, n)
		for len(out) < n {
			out = append(out, unit...)
		}
		return out[:n]
	}
}

func c26GenID(g kit.G, label string) uint32 {
	switch c26U(g, 6, label+"k") {
	case 0:
		return uint32(g.Int(0, 300, label))
	case 1:
		return c26Pick(g, []uint32{0, 1, 127, 128, 16383, 16384, 65535, 65536, 1<<31 - 1, 1 << 31, 1<<32 - 2, 1<<32 - 1}, label)
	default:
		return rapid.Uint32().Draw(g.T, label)
	}
}

func c26GenSize(g kit.G, small bool, label string) int {
	if small {
		return g.Int(0, 4, label)
	}
	switch k := c26U(g, 100, label+"k"); {
	case k < 10:
		return 0
	case k < 20:
		return 1
	case k < 80:
		return g.Int(2, 12, label)
	case k < 97:
		return g.Int(13, 200, label)
	default:
		return g.Int(201, 3000, label)
	}
}

// c26GenValue fills the value part of the case. Large collections are built
// from a few drawn elements that are varied arithmetically, to keep the number
// of rapid draws (and the generation time) small.
func c26GenValue(g kit.G, c *c26Case, small bool) {
	n := c26GenSize(g, small, "n")
	proto := n
	if proto > 12 {
		proto = 12
	}
	switch c.Codec {
	case c26ReposMap:
		if !small && c26Pct(g, 3, "nilmap") {
			c.NilMap = true
			return
		}
		var base []c26Repo
		for i := 0; i < proto; i++ {
			r := c26Repo{ID: c26GenID(g, "id"), HasSymbols: c26Pct(g, 50, "sym")}
			switch c26U(g, 4, "timek") {
			case 0:
				r.IndexTime = 0
			case 1:
				r.IndexTime = int64(g.Int(1, 2000000000, "time"))
			case 2:
				r.IndexTime = rapid.Int64().Draw(g.T, "time")
			default:
				r.IndexTime = c26Pick(g, []int64{-1, 1<<63 - 1, -1 << 63, 127, 128}, "time")
			}
			nb := g.Int(0, 3, "nb")
			if c26Pct(g, 5, "manyb") {
				nb = g.Int(4, 40, "nb")
			}
			for j := 0; j < nb; j++ {
				r.Branches = append(r.Branches, c26Branch{Name: c26GenBytes(g, "bname", !small && j == 0), Version: c26GenBytes(g, "bver", false)})
			}
			base = append(base, r)
		}
		c.Repos = base
		c.Extra = n - proto
		if c.Repos == nil {
			c.Repos = []c26Repo{}
		}
	case c26BranchesRepos:
		for i := 0; i < proto; i++ {
			b := c26BR{Branch: c26GenBytes(g, "branch", !small && i == 0)}
			ni := g.Int(0, 6, "nids")
			for j := 0; j < ni; j++ {
				b.IDs = append(b.IDs, c26GenID(g, "rid"))
			}
			if c26Pct(g, 25, "runs") {
				nr := g.Int(1, 2, "nruns")
				for j := 0; j < nr; j++ {
					start := c26GenID(g, "rstart")
					ln := uint32(c26Pick(g, []int{1, 2, 100, 4096, 5000, 70000}, "rlen"))
					b.Runs = append(b.Runs, [2]uint32{start, ln})
				}
			}
			c.BR = append(c.BR, b)
		}
		c.Extra = n - proto
	case c26FileNameSet:
		for i := 0; i < proto; i++ {
			c.Names = append(c.Names, c26GenBytes(g, "name", !small && i == 0))
		}
		c.Extra = n - proto
	}
}

// hostile constants for inflated lengths
var c26Inflate = []uint64{1 << 16, 1 << 20, 1 << 31, 1 << 32, 1 << 40, 1 << 62, 1<<63 - 1, 1 << 63, 1<<64 - 1}

func c26GenCase(rt *rapid.T) c26Case {
	g := kit.G{T: rt}
	c := c26Case{Codec: c26Pick(g, c26Codecs, "codec")}
	if c26Pct(g, 45, "roundtrip") {
		c.Mode = "roundtrip"
		c26GenValue(g, &c, false)
		// the caller's buffer is overwritten / reused in most cases; a few
		// keep the plain encode-decode-compare shape
		if !c26Pct(g, 10, "noreuse") {
			c.Reuse = c26Pick(g, c26Reuses, "reuse")
		}
		return c
	}
	c.Mode = "garbage"
	if c26Pct(g, 30, "random") {
		c.How = "random"
		data := rapid.SliceOfN(rapid.Byte(), 0, 64).Draw(rt, "data")
		if c26Pct(g, 85, "fixversion") && len(data) > 0 {
			data[0] = 1
			if c.Codec == c26ReposMap && c26Pct(g, 70, "v2") {
				data[0] = 2
			}
		}
		// small bytes read as plausible counts/lengths
		if c26Pct(g, 50, "smallbytes") {
			for i := 1; i < len(data); i++ {
				data[i] &= 0x0f
			}
		}
		c.Data = data
		return c
	}
	// mutate a valid encoding
	v := c26Case{Codec: c.Codec}
	c26GenValue(g, &v, !c26Pct(g, 15, "bigbase"))
	version := byte(2)
	if c.Codec == c26ReposMap && c26Pct(g, 30, "v1") {
		version = 1
	}
	e := c26RefEncode(&v, version)
	data := append([]byte{}, e.buf.Bytes()...)
	switch c26U(g, 8, "how") {
	case 0:
		c.How = "valid"
	case 1, 2:
		c.How = "inflate-count"
		off := c26Pick(g, e.counts, "off")
		old, _ := binary.Uvarint(data[off:])
		var nv uint64
		switch c26U(g, 4, "to") {
		case 0:
			nv = old + uint64(g.Int(1, 4, "delta"))
		case 1:
			nv = uint64(len(data)) + uint64(g.Int(0, 3, "delta"))
		case 2:
			nv = uint64(g.Int(5, 4000, "abs"))
		default:
			nv = c26Pick(g, c26Inflate, "hostile")
		}
		data = c26ReplaceVarint(data, off, nv)
	case 3:
		c.How = "inflate-len"
		if len(e.lens) == 0 {
			c.How = "valid"
			break
		}
		off := c26Pick(g, e.lens, "off")
		old, _ := binary.Uvarint(data[off:])
		nv := old + uint64(g.Int(1, 300, "delta"))
		if c26Pct(g, 40, "hostile") {
			nv = c26Pick(g, c26Inflate, "hostile")
		}
		data = c26ReplaceVarint(data, off, nv)
	case 4:
		c.How = "truncate"
		data = data[:g.Int(0, len(data), "cut")]
	case 5:
		c.How = "flip"
		for k := g.Int(1, 4, "nflip"); k > 0 && len(data) > 1; k-- {
			data[g.Int(1, len(data)-1, "pos")] ^= byte(g.Int(1, 255, "mask"))
		}
	case 6:
		c.How = "splice"
		pos := g.Int(1, len(data), "pos")
		junk := rapid.SliceOfN(rapid.Byte(), 1, 12).Draw(rt, "junk")
		if c26Pct(g, 50, "delete") && pos < len(data) {
			end := pos + g.Int(1, 8, "dellen")
			if end > len(data) {
				end = len(data)
			}
			data = append(data[:pos:pos], data[end:]...)
		} else {
			data = append(data[:pos:pos], append(junk, data[pos:]...)...)
		}
	default:
		c.How = "varint-overlong"
		// a varint made of continuation bytes only / longer than 10 bytes
		off := c26Pick(g, append(append([]int{}, e.counts...), e.lens...), "off")
		k := g.Int(1, 12, "cont")
		junk := bytes.Repeat([]byte{0xff}, k)
		if c26Pct(g, 40, "tail") {
			// incomplete varint at the very end (reads as 0, is never consumed),
			// optionally behind a count that promises more elements
			c.How = "varint-truncated-tail"
			if c26Pct(g, 50, "morecount") {
				old, _ := binary.Uvarint(data[e.counts[0]:])
				data = c26ReplaceVarint(data, e.counts[0], old+uint64(g.Int(1, 6, "delta")))
			}
			data = append(data, bytes.Repeat([]byte{0x80}, k)...)
			break
		}
		data = append(data[:off:off], append(junk, data[off:]...)...)
	}
	if len(data) > c26MaxGarbage {
		data = data[:c26MaxGarbage]
	}
	c.Data = data
	return c
}

var c26Runes = []rune("aZ09 ./äöü€ſKß日本語🙂\u0000\u2028")

// ---------------------------------------------------------------- run

func c26SizeLabel(n int) string {
	switch {
	case n == 0:
		return "entries:0"
	case n == 1:
		return "entries:1"
	case n < 10:
		return "entries:2-9"
	case n < 100:
		return "entries:10-99"
	default:
		return "entries:100+"
	}
}

func (c *c26Case) stringsOf(f func([]byte)) {
	for _, r := range c.Repos {
		for _, b := range r.Branches {
			f(b.Name)
			f(b.Version)
		}
	}
	for _, b := range c.BR {
		f(b.Branch)
	}
	for _, n := range c.Names {
		f(n)
	}
}

func runC26(rec *kit.Recorder, c c26Case, skipHeavyKnown bool) error {
	key := func() string { b, _ := json.Marshal(c); return string(b) }
	labels := []string{"mode:" + c.Mode, "codec:" + c.Codec}
	switch c.Mode {
	case "roundtrip":
		n, err := c26CheckRoundTrip(&c)
		nonUTF8, long := false, false
		c.stringsOf(func(b []byte) {
			if !utf8.Valid(b) {
				nonUTF8 = true
			}
			if len(b) >= 128 {
				long = true
			}
		})
		labels = append(labels, "rt-"+c26SizeLabel(n))
		if c.Reuse == c26ReuseNone {
			labels = append(labels, "rt-reuse:none")
		} else {
			labels = append(labels, "rt-reuse:"+c.Reuse)
		}
		if nonUTF8 {
			labels = append(labels, "rt-non-utf8-string")
		}
		if long {
			labels = append(labels, "rt-long-string")
		}
		if c.NilMap {
			labels = append(labels, "rt-nil-map")
		}
		for _, b := range c.BR {
			if len(b.Runs) > 0 {
				labels = append(labels, "rt-bitmap-runs")
				break
			}
		}
		rec.Eval(key(), n >= 2, labels...)
		rec.Sample(c, n >= 2 && n < 6)
		return err
	case "garbage":
		outcome, scan, err := c26CheckGarbage(c.Codec, c.Data, skipHeavyKnown)
		labels = append(labels, "how:"+c.How, "outcome:"+outcome)
		if scan.Hostile {
			labels = append(labels, "garbage-hostile-length")
		}
		if scan.VersionOK {
			labels = append(labels, "garbage-valid-version")
		}
		rec.Eval(key(), scan.VersionOK, labels...)
		rec.Sample(c, scan.VersionOK && len(c.Data) < 60)
		return err
	}
	return fmt.Errorf("unknown mode %q", c.Mode)
}

func TestVerif_C26(t *testing.T) {
	rec := kit.Open(t, "C26",
		"rapid-generated cases of two modes over the three codecs (zoekt.ReposMap, query.BranchesRepos, query.FileNameSet) through MarshalBinary/UnmarshalBinary: roundtrip = a generated value (0-3000 entries, ids over the whole uint32 range, negative/extreme index times, empty/long/non-UTF-8 strings, array/bitmap/run roaring containers) is encoded, decoded from a buffer owned by the harness and compared right after decoding and, in ~90% of the cases, again after the caller has reused that input buffer (zeroed it, filled it with 'x', inverted every byte, or decoded a second, different value of the same shape from the same frame buffer and then overwritten it once more; both values are compared); garbage = random bytes (mostly with a valid version byte) or a deterministic reference encoding mutated by count inflation, length inflation, truncation, bit flips, splices, over-long varints; every garbage input that a decoder accepts is decoded a second time from a fresh copy, the first input buffer is overwritten and the two decoded values must still be equal. Non-trivial: roundtrip with >= 2 entries; garbage with a valid version byte. Distinct by hash of the JSON case",
		"equality is by content: a nil and an empty collection are the same value (ReposMap(nil) encodes to no bytes and decodes to nil; an entry without branches decodes to an empty slice)",
		"the input of UnmarshalBinary is only lent to the decoder (encoding.BinaryUnmarshaler: 'UnmarshalBinary must copy the data if it wishes to retain the data after returning'): a decoded value that changes when the caller overwrites or reuses the input bytes is not equal to the encoded value; bitmaps decoded from arbitrary (not round-trip) bytes on which roaring's Equals panics are not compared",
		"allocation bound for decoding n input bytes: 64*n + 1 MiB of runtime.MemStats.TotalAlloc growth, checked on inputs of at most 4096 bytes (counts that are legitimately <= the remaining bytes cost up to ~200 B of bookkeeping per element, which the 1 MiB slack absorbs up to that size); a decoder still running after 20 s is a hang",
		"inputs of the class "+c26KnownLength+" (a declared count that is negative as int or larger than the remaining input) whose decoder cost exceeds 32768 elements are not executed when that finding is listed, because they end the process; all others are executed",
	)
	rec.EnableJournal()
	skip := c26KnownActive(c26KnownLength)
	rec.Set("heavy_hostile_inputs_executed", !skip)
	kit.Property(t, rec, c26GenCase, func(c c26Case) error {
		return runC26(rec, c, skip)
	})
}

// FuzzVerifC26Decode is the coverage-guided companion of the garbage mode
// (thorough tier): any byte string, any of the three decoders.
func FuzzVerifC26Decode(f *testing.F) {
	skip := c26KnownActive(c26KnownLength)
	seedVals := []c26Case{
		{Codec: c26FileNameSet, Names: []kit.Text{kit.Text("a.go"), kit.Text("dir/b\xff.c"), kit.Text("")}},
		{Codec: c26BranchesRepos, BR: []c26BR{{Branch: kit.Text("HEAD"), IDs: []uint32{1, 2, 70000}}, {Branch: kit.Text("dev"), Runs: [][2]uint32{{5, 5000}}}}},
		{Codec: c26ReposMap, Repos: []c26Repo{{ID: 1, HasSymbols: true, IndexTime: 1700000000, Branches: []c26Branch{{Name: kit.Text("HEAD"), Version: kit.Text("c301e5c82b6e1632dce5c39902691c359559852e")}}}, {ID: 1<<32 - 1}}},
	}
	codecIndex := func(codec string) int {
		for i, c := range c26Codecs {
			if c == codec {
				return i
			}
		}
		return 0
	}
	for _, v := range seedVals {
		i := codecIndex(v.Codec)
		for _, ver := range []byte{1, 2} {
			e := c26RefEncode(&v, ver)
			data := e.buf.Bytes()
			f.Add(byte(i), data)
			for _, off := range e.counts {
				for _, h := range []uint64{uint64(len(data)), 1 << 20, 1 << 40, 1 << 63} {
					f.Add(byte(i), c26ReplaceVarint(data, off, h))
				}
			}
			f.Add(byte(i), data[:len(data)/2])
		}
	}
	for i := range c26Codecs {
		f.Add(byte(i), []byte{})
		f.Add(byte(i), []byte{1})
		f.Add(byte(i), []byte{2, 0xff, 0xff, 0xff, 0xff, 0xff, 0xff, 0xff, 0xff, 0xff, 0x01})
		f.Add(byte(i), []byte{1, 0x80, 0x80, 0x80, 0x80, 0x80, 0x80, 0x80, 0x80, 0x80, 0x80, 0x80})
		f.Add(byte(i), []byte{1, 0x80, 0x80, 0x80, 0x80, 0x80, 0x69, 0x80, 0x80, 0x80})
		f.Add(byte(i), []byte{2, 3, 0, 0x80, 0x80})
	}
	f.Fuzz(func(t *testing.T, which byte, data []byte) {
		if len(data) > c26MaxGarbage {
			return
		}
		codec := c26Codecs[int(which)%len(c26Codecs)]
		_, _, err := c26CheckGarbage(codec, data, skip)
		if err == nil {
			return
		}
		if d, ok := err.(*kit.Discrepancy); ok && d.Known == c26KnownLength && skip {
			return // listed finding
		}
		t.Fatalf("C26 %s on %x: %v", codec, data, err)
	})
}
