//go:build verif

package query_test

// C27 — Regexp printing and optimisation preserve the matched language.
//
// Generator: regexp texts in the query syntax, produced from a recursive
// grammar (flag groups, classes, repeats, captures, anchors, alternations
// with empty alternatives, non-printable / non-ASCII literals, escapes),
// plus subjects sampled from the parsed syntax tree, mutations of those and
// random strings.
//
// Oracle (differential, the standard library engine is the judge on both
// sides): the text parsed with the query flags means exactly what
// regexp.Compile("(?m)"+text) means ("(?m)" clears OneLine, which turns
// syntax.Perl into query's regexpFlags).  The printout of the parsed tree must
// parse again under the query flags and, compiled in the very same way
// ("(?m)"+printout), must report the same leftmost match span on every
// subject.  The optimised tree (query.OptimizeRegexp) is compiled from the
// standard library's own String() form and - as zoekt itself does in
// index/matchtree.go - from syntaxutil.RegexpString; both must report the
// same overall span as the original.

import (
	"fmt"
	"regexp"
	"regexp/syntax"
	"sort"
	"strings"
	"testing"
	"unicode"
	"unicode/utf8"

	"pgregory.net/rapid"

	"github.com/sourcegraph/zoekt/internal/syntaxutil"
	"github.com/sourcegraph/zoekt/internal/verifkit/kit"
	"github.com/sourcegraph/zoekt/query"
)

// the flags query/parse.go uses (regexpFlags is unexported).
const c27Flags = syntax.ClassNL | syntax.PerlX | syntax.UnicodeGroups

type c27Case struct {
	Pattern  string
	Subjects []kit.Text
}

// ---------------------------------------------------------------- generator

var c27LitRunes = []rune{
	'a', 'a', 'b', 'b', 'c', 'x', 'y', 'z', 'A', 'B', 'k', 'K', 's', 'S', '0', '1', '9', '_', ' ', ' ', '-', ',', '/', '#', '"', ':', '<', '>', '&', '~', '!', '%', '@', '=', '`', '\'', ';',
	// é É ß σ ς Σ λ ſ KELVIN µ İ ı DŽ Dž dž
	0xe9, 0xc9, 0xdf, 0x3c3, 0x3c2, 0x3a3, 0x3bb, 0x17f, 0x212a, 0xb5, 0x130, 0x131, 0x1c4, 0x1c5, 0x1c6,
	// CJK, emoji, combining acute, NBSP, LINE SEPARATOR, BOM, soft hyphen, max rune, replacement char
	0x65e5, 0x672c, 0x1f600, 0x301, 0xa0, 0x2028, 0xfeff, 0xad, unicode.MaxRune, 0xfffd,
	'\n', '\n', '\t', '\r', 0, 1, 0x1b, 0x7f, 0x80, 0x9f, '\a', '\f', '\v',
}

var c27Meta = []rune(`\.+*?()|[]{}^$`)

// c27Lit renders one literal rune in one of the spellings of the syntax.
func c27Lit(g kit.G) string {
	if g.Bool(18, "litmeta") {
		r := kit.Pick(g, c27Meta, "meta")
		switch g.Int(0, 5, "metahow") {
		case 0:
			if r == ']' || r == '}' || r == '{' {
				return string(r) // legal bare literals (a lone '{' is a literal unless it starts a repeat)
			}
		case 1:
			return `\Q` + string(r) + `\E`
		case 2:
			return fmt.Sprintf(`\x%02x`, r)
		}
		return `\` + string(r)
	}
	r := kit.Pick(g, c27LitRunes, "lit")
	switch k := g.Int(0, 11, "lithow"); {
	case k == 0:
		return fmt.Sprintf(`\x{%x}`, r)
	case k == 1 && r < 0x100:
		return fmt.Sprintf(`\x%02x`, r)
	case k == 2 && r < 0o400 && r > 0:
		return fmt.Sprintf(`\%03o`, r)
	case k == 3:
		switch r {
		case '\n':
			return `\n`
		case '\t':
			return `\t`
		case '\r':
			return `\r`
		case '\a':
			return `\a`
		case '\f':
			return `\f`
		case '\v':
			return `\v`
		}
	case k == 4 && r != '\\' && !(r >= 'a' && r <= 'z' || r >= 'A' && r <= 'Z' || r >= '0' && r <= '9') && r < 0x80 && r > ' ':
		return `\` + string(r) // escaped punctuation
	}
	return string(r)
}

var c27ClassItems = []string{
	`a`, `b`, `c`, `a-c`, `a-z`, `A-Z`, `0-9`, `x-z`, `k`, `K`, `s`, `_`, ` `, `é`, `É-ß`, `σ`, `ς`, `α-ω`, `日`, `😀`, `\x00`, `\x00-\x1f`, `\x7f`, `\n`, `\t`, `\r\n`,
	`\-`, `\]`, `\[`, `\^`, `\\`, `\.`, `.`, `*`, `+`, `?`, `(`, `)`, `|`, `{`, `}`, `$`, `\x{10FFFF}`, `\x{10000}-\x{10FFFF}`, `\x00-\x{10FFFF}`, `\x{80}-\x{ff}`, `\x{212a}`, `ſ`,
	`\d`, `\D`, `\s`, `\S`, `\w`, `\W`, `[:alpha:]`, `[:^alpha:]`, `[:digit:]`, `[:^digit:]`, `[:space:]`, `[:upper:]`, `[:lower:]`, `[:punct:]`, `[:word:]`, `[:^word:]`, `[:cntrl:]`, `[:print:]`, `[:xdigit:]`,
	`\pL`, `\PL`, `\p{Lu}`, `\P{Lu}`, `\p{Greek}`, `\P{Greek}`, `\p{Han}`, `\pN`, `\p{^Ll}`, `\pZ`, `\p{Cc}`, `\pM`,
}

var c27ClassShort = []string{`\d`, `\D`, `\s`, `\S`, `\w`, `\W`, `\pL`, `\PL`, `\p{Lu}`, `\P{Lu}`, `\p{Greek}`, `\P{Greek}`, `\pN`, `\p{^Ll}`, `[[:alpha:]]`, `[[:^space:]]`}

// rapid's draws favour small values (kit.Pick mostly returns the first few
// items of a list). Class members must be spread evenly, so they are chosen
// through a fixed mixing function of a wide draw: still a pure function of
// rapid's draws.
func c27Mix(g kit.G, n int, label string) int {
	x := uint64(g.Int(0, 1<<30, label))
	x = (x + 0x9E3779B97F4A7C15) * 0xBF58476D1CE4E5B9
	x ^= x >> 31
	return int(x % uint64(n))
}

// Punctuation that may be a class member in any position. '-' ',' '+' '.'
// ']' '[' '^' '\' come several times: they are the ones a class printer has
// to treat specially (or must not confuse with their neighbours).
var c27ClassPunct = []rune(`-,+.][^\-,+.][^\-,-,/*?()|{}$#&~!%@=;:'"<>_ `)

// Pairs of adjacent code points: the parser merges them into a two-rune range.
var c27ClassPairs = []string{`,-`, `+,`, `-.`, `./`, `*+`, `+,-`, `,-.`, `+,-./`, `ab`, `yz`, `AB`, `01`, `89`, `()`, `[\`, `\]`, `]^`, `^_`, `{|`, `|}`, `#$`, `?@`, `Z[`, `` + "_`" + ``, ` !`}

var c27ClassRanges = []string{`a-c`, `a-z`, `A-Z`, `0-9`, `x-z`, `a-f`, `0-7`, `!-/`, `+--`, `,-.`, `*-.`, ` -~`, `:-@`, `[-^`, `--9`, `É-ß`, `α-ω`, `\x00-\x1f`, `\x{80}-\x{ff}`, `\x{10000}-\x{10FFFF}`, `\x00-\x{10FFFF}`, `\x00-,`, `.-\x{10FFFF}`}

var c27ClassLetters = []string{`a`, `b`, `c`, `k`, `K`, `s`, `z`, `0`, `9`, `é`, `σ`, `ς`, `日`, `😀`, `ſ`, `\x{212a}`, `\x00`, `\x7f`, `\n`, `\t`, `\r\n`, `\x{10FFFF}`, `\x2d`, `\x2c`, `\x5d`, `\055`}

var c27ClassPerl = []string{`\d`, `\D`, `\s`, `\S`, `\w`, `\W`, `\d`, `\w`, `\s`, `[:alpha:]`, `[:^alpha:]`, `[:digit:]`, `[:^digit:]`, `[:space:]`, `[:upper:]`, `[:lower:]`, `[:punct:]`, `[:word:]`, `[:^word:]`, `[:cntrl:]`, `[:print:]`, `[:xdigit:]`, `[:alnum:]`}

var c27ClassUnicode = []string{`\pL`, `\PL`, `\p{Lu}`, `\P{Lu}`, `\p{Greek}`, `\P{Greek}`, `\p{Han}`, `\pN`, `\p{^Ll}`, `\pZ`, `\p{Cc}`, `\pM`, `\pP`, `\p{Pd}`}

// c27ClassRune renders one rune as a class member; first says whether it is
// the first member (where a bare ']' is a literal).
func c27ClassRune(g kit.G, r rune, first bool) string {
	switch r {
	case '\\':
		return `\\`
	case ']':
		if first && c27Mix(g, 2, "rawbracket") == 0 {
			return `]`
		}
		return `\]`
	case '-':
		if c27Mix(g, 4, "rawdash") == 0 {
			return `-` // legal anywhere under the Perl flag; first / last it is the classic literal
		}
		return `\-`
	case '[', '^', '.', '+', '*', '?', '(', ')', '|', '{', '}', '$':
		if c27Mix(g, 3, "escpunct") == 0 {
			return `\` + string(r)
		}
	}
	if c27Mix(g, 12, "hexpunct") == 0 && r < 0x80 {
		return fmt.Sprintf(`\x%02x`, r)
	}
	return string(r)
}

func c27Class(g kit.G) string {
	if g.Bool(20, "classshort") {
		return c27ClassShort[c27Mix(g, len(c27ClassShort), "cs")]
	}
	var sb strings.Builder
	sb.WriteByte('[')
	neg := g.Bool(35, "neg")
	if neg {
		sb.WriteByte('^')
	}
	n := 1 + c27Mix(g, 5, "nclass")
	for i := 0; i < n; i++ {
		first := i == 0
		switch k := c27Mix(g, 100, "member"); {
		case k < 32:
			sb.WriteString(c27ClassRune(g, c27ClassPunct[c27Mix(g, len(c27ClassPunct), "punct")], first))
		case k < 47:
			for j, r := range c27ClassPairs[c27Mix(g, len(c27ClassPairs), "pair")] {
				sb.WriteString(c27ClassRune(g, r, first && j == 0))
			}
		case k < 60:
			sb.WriteString(c27ClassRanges[c27Mix(g, len(c27ClassRanges), "range")])
		case k < 74:
			sb.WriteString(c27ClassLetters[c27Mix(g, len(c27ClassLetters), "letter")])
		case k < 88:
			sb.WriteString(c27ClassPerl[c27Mix(g, len(c27ClassPerl), "perl")])
		case k < 94:
			sb.WriteString(c27ClassUnicode[c27Mix(g, len(c27ClassUnicode), "uni")])
		default:
			sb.WriteString(c27ClassItems[c27Mix(g, len(c27ClassItems), "ci")])
		}
	}
	if g.Bool(12, "classtail") {
		sb.WriteByte('-') // a trailing '-' is a literal
	}
	sb.WriteByte(']')
	return sb.String()
}

var c27Anchors = []string{`^`, `$`, `\A`, `\z`, `\b`, `\B`, `^`, `$`, `\b`}

var c27FlagGroups = []string{`(?i:`, `(?s:`, `(?m:`, `(?U:`, `(?-i:`, `(?-s:`, `(?-m:`, `(?-U:`, `(?is:`, `(?i-s:`, `(?ms:`, `(?s-m:`, `(?iU:`, `(?imsU:`, `(?i:`, `(?i:`}
var c27FlagSets = []string{`(?i)`, `(?s)`, `(?m)`, `(?U)`, `(?-i)`, `(?-s)`, `(?-m)`, `(?-U)`, `(?is)`, `(?i-s)`, `(?-m)`, `(?i)`}

func c27Repeat(g kit.G) string {
	var s string
	switch g.Int(0, 11, "rep") {
	case 0, 1:
		s = "*"
	case 2, 3, 4, 5:
		s = "+"
	case 6:
		s = "?"
	case 7:
		s = fmt.Sprintf("{%d}", g.Int(0, 4, "n"))
	case 8:
		s = fmt.Sprintf("{%d,}", g.Int(0, 3, "n"))
	case 9:
		lo := g.Int(1, 3, "n")
		s = fmt.Sprintf("{%d,%d}", lo, lo+g.Int(0, 3, "m"))
	default:
		lo := g.Int(0, 3, "n")
		s = fmt.Sprintf("{%d,%d}", lo, lo+g.Int(0, 3, "m"))
	}
	if g.Bool(25, "lazy") {
		s += "?"
	}
	return s
}

// c27Atom renders something a repeat operator can be applied to.
func c27Atom(g kit.G, depth int) string {
	k := g.Int(0, 99, "atom")
	switch {
	case k < 34:
		return c27Lit(g)
	case k < 50:
		return c27Class(g)
	case k < 57:
		return "."
	case k < 62 || depth <= 0:
		n := g.Int(2, 4, "nlit")
		var sb strings.Builder
		sb.WriteString("(?:")
		for i := 0; i < n; i++ {
			sb.WriteString(c27Lit(g))
		}
		sb.WriteString(")")
		return sb.String()
	case k < 74:
		return "(" + c27Alt(g, depth-1) + ")"
	case k < 82:
		return "(?:" + c27Alt(g, depth-1) + ")"
	case k < 86:
		if g.Bool(50, "named") {
			return "(?P<n" + fmt.Sprint(depth) + ">" + c27Alt(g, depth-1) + ")"
		}
		return "(?<m" + fmt.Sprint(depth) + ">" + c27Alt(g, depth-1) + ")"
	case k < 98:
		return kit.Pick(g, c27FlagGroups, "fg") + c27Alt(g, depth-1) + ")"
	case k < 99:
		return "()"
	default:
		return "(?:)"
	}
}

// c27Lookalikes are texts that look like regexp syntax; they are rendered as
// literals (every metacharacter escaped in some way), so that a printer which
// forgets one escape turns them back into syntax.
var c27Lookalikes = []string{`a{2}`, `x{1,3}`, `b{2,}`, `{3}`, `[a-z]`, `[^a]`, `(a|b)`, `(?i)a`, `(?:ab)`, `a*`, `a+`, `a+?`, `ab?`, `^a`, `a$`, `^$`, `\d`, `\pL`, `\Qa`, `a|b`, `|`, `a.c`, `.*`, `a\`, `\b`, `(`, `)`, `[`, `]`, `a-z`, `\n`, `\x41`, `\z`}

func c27Lookalike(g kit.G) string {
	t := kit.Pick(g, c27Lookalikes, "look")
	if g.Bool(20, "lookq") && !strings.Contains(t, `\E`) {
		return `\Q` + t + `\E`
	}
	var sb strings.Builder
	for _, r := range t {
		if strings.ContainsRune(`\.+*?()|[]{}^$`, r) {
			switch g.Int(0, 5, "lookhow") {
			case 0:
				fmt.Fprintf(&sb, `\x%02x`, r)
			case 1:
				sb.WriteString(`[` + `\` + string(r) + `]`) // one-rune class: parses to a literal
			default:
				sb.WriteString(`\` + string(r))
			}
		} else {
			sb.WriteRune(r)
		}
	}
	return sb.String()
}

func c27Piece(g kit.G, depth int) string {
	k := g.Int(0, 99, "piece")
	switch {
	case k >= 92:
		return c27Lookalike(g)
	case k < 9:
		return kit.Pick(g, c27Anchors, "anchor")
	case k < 12:
		return kit.Pick(g, c27FlagSets, "fs")
	case k < 22:
		// a run of plain literals: the common shape of real queries
		n := g.Int(2, 5, "run")
		var sb strings.Builder
		for i := 0; i < n; i++ {
			sb.WriteString(c27Lit(g))
		}
		return sb.String()
	case k < 25:
		n := g.Int(1, 3, "qn")
		var sb strings.Builder
		sb.WriteString(`\Q`)
		for i := 0; i < n; i++ {
			r := kit.Pick(g, []rune(`a.*+?()|[]{}^$ -é`), "q")
			sb.WriteRune(r)
		}
		if g.Bool(85, "qe") {
			sb.WriteString(`\E`)
		}
		return sb.String()
	}
	a := c27Atom(g, depth)
	if g.Bool(30, "isrep") {
		a += c27Repeat(g)
	}
	return a
}

func c27Concat(g kit.G, depth int) string {
	if g.Bool(2, "emptyalt") {
		return ""
	}
	n := g.Int(1, 4, "nconcat")
	var sb strings.Builder
	for i := 0; i < n; i++ {
		sb.WriteString(c27Piece(g, depth))
	}
	if g.Bool(50, "anchorlit") {
		// a mandatory literal makes the alternative demanding, so that subjects can fail to match
		sb.WriteString(c27Lit(g))
	}
	return sb.String()
}

func c27Alt(g kit.G, depth int) string {
	n := 1
	if g.Bool(25, "isalt") {
		n = g.Int(2, 4, "nalt")
	}
	parts := make([]string, n)
	for i := range parts {
		parts[i] = c27Concat(g, depth)
	}
	return strings.Join(parts, "|")
}

// c27Sample draws a string from (roughly) the language of re.
func c27Sample(g kit.G, re *syntax.Regexp, sb *strings.Builder, budget *int) {
	if *budget <= 0 {
		return
	}
	*budget--
	switch re.Op {
	case syntax.OpLiteral:
		for _, r := range re.Rune {
			if re.Flags&syntax.FoldCase != 0 && g.Bool(50, "fold") {
				r = unicode.SimpleFold(r)
				if g.Bool(30, "fold2") {
					r = unicode.SimpleFold(r)
				}
			}
			sb.WriteRune(r)
		}
	case syntax.OpCharClass:
		if len(re.Rune) < 2 {
			return
		}
		i := 2 * g.Int(0, len(re.Rune)/2-1, "range")
		lo, hi := re.Rune[i], re.Rune[i+1]
		r := lo
		switch g.Int(0, 3, "inrange") {
		case 0:
			r = hi
		case 1:
			r = lo + (hi-lo)/2
		case 2:
			if hi-lo > 1 {
				r = lo + rune(g.Int(0, int(min(hi-lo, 64)), "off"))
			}
		}
		if r >= 0xd800 && r <= 0xdfff {
			r = lo
		}
		sb.WriteRune(r)
	case syntax.OpAnyCharNotNL:
		sb.WriteRune(kit.Pick(g, []rune("ax é日\t"), "any"))
	case syntax.OpAnyChar:
		sb.WriteRune(kit.Pick(g, []rune("ax\n é日"), "anynl"))
	case syntax.OpBeginLine:
		if g.Bool(50, "bol") && sb.Len() > 0 {
			sb.WriteByte('\n')
		}
	case syntax.OpEndLine:
		if g.Bool(50, "eol") {
			sb.WriteByte('\n')
		}
	case syntax.OpCapture:
		c27Sample(g, re.Sub[0], sb, budget)
	case syntax.OpStar, syntax.OpPlus, syntax.OpQuest, syntax.OpRepeat:
		lo, hi := 0, 3
		switch re.Op {
		case syntax.OpPlus:
			lo = 1
		case syntax.OpQuest:
			hi = 1
		case syntax.OpRepeat:
			lo = re.Min
			hi = re.Max
			if hi < 0 || hi > lo+2 {
				hi = lo + 2
			}
		}
		n := g.Int(lo, hi, "times")
		for i := 0; i < n; i++ {
			c27Sample(g, re.Sub[0], sb, budget)
		}
	case syntax.OpConcat:
		for _, s := range re.Sub {
			c27Sample(g, s, sb, budget)
		}
	case syntax.OpAlternate:
		c27Sample(g, re.Sub[g.Int(0, len(re.Sub)-1, "alt")], sb, budget)
	}
}

var c27Context = []string{"", "", "", " ", "a", "x", "\n", "_", "é", "ab ", " b", "\nfoo\n", "0", "日", "A", "-", ",", ".", "+", "/", "]", "[", "^", "\\", "5"}
var c27Random = []rune("aabbcxyzABkKsS0189_ -.,--,,++../:;#@!~%&='<>`\n\n\t\réÉßσςλ日😀\x00\x7fK{}()[]|*+?^$\\")

func c27Mutate(g kit.G, s string) string {
	rs := []rune(s)
	if len(rs) == 0 {
		return string(kit.Pick(g, c27Random, "mr"))
	}
	i := g.Int(0, len(rs)-1, "mi")
	switch g.Int(0, 4, "mk") {
	case 0:
		rs[i] = kit.Pick(g, c27Random, "mr")
	case 1:
		rs = append(rs[:i], rs[i+1:]...)
	case 2:
		rs = append(rs[:i], append([]rune{kit.Pick(g, c27Random, "mr")}, rs[i:]...)...)
	case 3:
		f := unicode.SimpleFold(rs[i])
		if f == rs[i] {
			f = '\n'
		}
		rs[i] = f
	case 4:
		rs = rs[:i]
	}
	return string(rs)
}

func c27Gen(rt *rapid.T) c27Case {
	g := kit.G{T: rt}
	var c c27Case
	c.Pattern = c27Alt(g, g.Int(1, 3, "depth"))
	if g.Bool(12, "topflag") {
		c.Pattern = kit.Pick(g, c27FlagSets, "fs") + c.Pattern
	}
	re, err := syntax.Parse(c.Pattern, c27Flags)
	var sampled []string
	if err == nil {
		for i := 0; i < 3; i++ {
			var sb strings.Builder
			sb.WriteString(kit.Pick(g, c27Context, "pre"))
			budget := 60
			c27Sample(g, re, &sb, &budget)
			sb.WriteString(kit.Pick(g, c27Context, "post"))
			sampled = append(sampled, sb.String())
		}
	} else {
		sampled = []string{"a", "b\n", ""}
	}
	for _, s := range sampled {
		c.Subjects = append(c.Subjects, kit.Text(s))
	}
	for i := 0; i < 3; i++ {
		c.Subjects = append(c.Subjects, kit.Text(c27Mutate(g, sampled[i%len(sampled)])))
	}
	for i := 0; i < 2; i++ {
		n := g.Int(0, 8, "rlen")
		var sb strings.Builder
		for j := 0; j < n; j++ {
			sb.WriteRune(kit.Pick(g, c27Random, "rr"))
		}
		if g.Bool(10, "badutf8") {
			sb.WriteByte(0xff)
		}
		c.Subjects = append(c.Subjects, kit.Text(sb.String()))
	}
	return c
}

// ------------------------------------------------------------------- oracle

var c27OpNames = map[syntax.Op]string{
	syntax.OpNoMatch: "nomatch", syntax.OpEmptyMatch: "empty", syntax.OpLiteral: "literal", syntax.OpCharClass: "class",
	syntax.OpAnyCharNotNL: "dot", syntax.OpAnyChar: "dotnl", syntax.OpBeginLine: "bol", syntax.OpEndLine: "eol",
	syntax.OpBeginText: "bot", syntax.OpEndText: "eot", syntax.OpWordBoundary: "wordb", syntax.OpNoWordBoundary: "nowordb",
	syntax.OpCapture: "capture", syntax.OpStar: "star", syntax.OpPlus: "plus", syntax.OpQuest: "quest", syntax.OpRepeat: "repeat",
	syntax.OpConcat: "concat", syntax.OpAlternate: "alternate",
}

func c27Ops(re *syntax.Regexp, into map[string]bool) {
	into["op:"+c27OpNames[re.Op]] = true
	switch re.Op {
	case syntax.OpLiteral:
		if re.Flags&syntax.FoldCase != 0 {
			into["lit:fold"] = true
		}
		for _, r := range re.Rune {
			if !unicode.IsPrint(r) {
				into["lit:nonprint"] = true
			} else if r >= 0x80 {
				into["lit:nonascii"] = true
			} else if strings.ContainsRune(`\.+*?()|[]{}^$`, r) {
				into["lit:meta"] = true
			}
		}
	case syntax.OpCharClass:
		if n := len(re.Rune); n >= 2 && re.Rune[0] == 0 && re.Rune[n-1] == unicode.MaxRune && n > 2 {
			into["class:negated-shape"] = true
		}
		if len(re.Rune) > 40 {
			into["class:unicode-table"] = true
		}
		if len(re.Rune) == 0 {
			into["class:empty"] = true
		}
	case syntax.OpStar, syntax.OpPlus, syntax.OpQuest, syntax.OpRepeat:
		if re.Flags&syntax.NonGreedy != 0 {
			into["rep:lazy"] = true
		}
	case syntax.OpCapture:
		if re.Name != "" {
			into["capture:named"] = true
		}
	case syntax.OpAlternate:
		for _, s := range re.Sub {
			if s.Op == syntax.OpEmptyMatch {
				into["alt:empty-branch"] = true
			}
		}
	case syntax.OpEndText:
		if re.Flags&syntax.WasDollar != 0 {
			into["eot:dollar"] = true
		}
	}
	for _, s := range re.Sub {
		c27Ops(s, into)
	}
}

type c27Engines struct {
	orig, printed, optStd, optZoekt                *regexp.Regexp
	origStdText, printedText, optStdText, optZText string
	ops                                            map[string]bool
}

func c27Span(loc []int) string {
	if loc == nil {
		return "no match"
	}
	return fmt.Sprintf("[%d,%d)", loc[0], loc[1])
}

// c27Compile builds the four engines; a nil result with nil error means the
// pattern is outside the domain (not a regexp of the query syntax).
func c27Compile(pattern string) (*c27Engines, error) {
	r0, err := syntax.Parse(pattern, c27Flags)
	if err != nil {
		return nil, nil
	}
	e := &c27Engines{ops: map[string]bool{}}
	c27Ops(r0, e.ops)
	e.origStdText = r0.String()
	e.orig, err = regexp.Compile("(?m)" + pattern)
	if err != nil {
		// the parser accepted it but the stdlib compiler did not (program too large): outside the domain
		return nil, nil
	}

	// printer round trip
	e.printedText = syntaxutil.RegexpString(r0)
	if _, err := syntax.Parse(e.printedText, c27Flags); err != nil {
		return nil, kit.Fail("print-unparsable", "pattern %q printed as %q which does not parse: %v", pattern, e.printedText, err)
	}
	e.printed, err = regexp.Compile("(?m)" + e.printedText)
	if err != nil {
		return nil, kit.Fail("print-uncompilable", "pattern %q printed as %q which does not compile: %v", pattern, e.printedText, err)
	}

	// optimisation, on a fresh tree (OptimizeRegexp may share structure with its input)
	r1, _ := syntax.Parse(pattern, c27Flags)
	var opt *syntax.Regexp
	if err := kit.Guard(func() error { opt = query.OptimizeRegexp(r1, c27Flags); return nil }); err != nil {
		return nil, err
	}
	if opt == nil {
		return nil, kit.Fail("optimize-nil", "OptimizeRegexp(%q) returned nil", pattern)
	}
	if c27HasCapture(opt) {
		e.ops["opt:capture-kept"] = true
	}
	e.optStdText = opt.String()
	e.optStd, err = regexp.Compile(e.optStdText)
	if err != nil {
		return nil, kit.Fail("optimize-uncompilable", "pattern %q optimised to %q (stdlib printing) which does not compile: %v", pattern, e.optStdText, err)
	}
	e.optZText = syntaxutil.RegexpString(opt)
	if _, err := syntax.Parse(e.optZText, c27Flags); err != nil {
		return nil, kit.Fail("print-optimised-unparsable", "pattern %q optimised and printed as %q which does not parse: %v", pattern, e.optZText, err)
	}
	e.optZoekt, err = regexp.Compile("(?m)" + e.optZText)
	if err != nil {
		return nil, kit.Fail("print-optimised-uncompilable", "pattern %q optimised and printed as %q which does not compile: %v", pattern, e.optZText, err)
	}
	return e, nil
}

func c27HasCapture(re *syntax.Regexp) bool {
	if re.Op == syntax.OpCapture {
		return true
	}
	for _, s := range re.Sub {
		if c27HasCapture(s) {
			return true
		}
	}
	return false
}

// c27CheckSubject compares the engines on one subject; it reports whether the
// original matched.
func c27CheckSubject(pattern string, e *c27Engines, subj string) (bool, error) {
	want := e.orig.FindStringIndex(subj)
	ws := c27Span(want)
	if got := c27Span(e.printed.FindStringIndex(subj)); got != ws {
		return want != nil, kit.Fail("print-changes-language", "pattern %q printed as %q: on subject %q the original finds %s, the re-parsed printout %s", pattern, e.printedText, subj, ws, got)
	}
	if got := c27Span(e.optStd.FindStringIndex(subj)); got != ws {
		return want != nil, kit.Fail("optimize-changes-language", "pattern %q optimised to %q: on subject %q the original finds %s, the optimised regexp %s", pattern, e.optStdText, subj, ws, got)
	}
	if got := c27Span(e.optZoekt.FindStringIndex(subj)); got != ws {
		return want != nil, kit.Fail("print-optimised-changes-language", "pattern %q optimised and printed as %q: on subject %q the original finds %s, the printed optimised regexp %s", pattern, e.optZText, subj, ws, got)
	}
	return want != nil, nil
}

func c27Run(rec *kit.Recorder, c c27Case) error {
	e, err := c27Compile(c.Pattern)
	if err != nil {
		rec.Eval(c.Pattern, false, "outcome:discrepancy")
		return err
	}
	if e == nil {
		rec.Eval(c.Pattern, false, "pattern:not-in-domain")
		return nil
	}
	labels := make([]string, 0, len(e.ops)+4)
	for l := range e.ops {
		labels = append(labels, l)
	}
	sort.Strings(labels)
	kinds := 0
	for _, l := range labels {
		if strings.HasPrefix(l, "op:") {
			kinds++
		}
	}
	pos, neg := 0, 0
	for _, s := range c.Subjects {
		m, err := c27CheckSubject(c.Pattern, e, string(s))
		if err != nil {
			rec.Eval(c.Pattern, false, "outcome:discrepancy")
			return err
		}
		if m {
			pos++
		} else {
			neg++
		}
		if !utf8.Valid(s) {
			labels = append(labels, "subject:invalid-utf8")
		}
		if strings.Contains(string(s), "\n") {
			labels = append(labels, "subject:newline")
		}
	}
	rec.Add("subjects", len(c.Subjects))
	rec.Add("subjects_matching", pos)
	rec.Add("subjects_not_matching", neg)
	if e.printedText != c.Pattern {
		labels = append(labels, "printout:differs-from-input")
	}
	if e.optStdText != e.origStdText {
		labels = append(labels, "optimise:changed-tree")
	}
	nt := kinds >= 2 && pos > 0 && neg > 0
	if nt {
		labels = append(labels, "nontrivial")
	}
	rec.Eval(c.Pattern+"\x00"+fmt.Sprint(c.Subjects), nt, labels...)
	rec.Sample(c, nt)
	return nil
}

func TestVerif_C27(t *testing.T) {
	rec := kit.Open(t, "C27",
		"regexp texts from a recursive grammar of the query regexp syntax (flag groups and flag switches, classes incl. negated / POSIX / Perl / Unicode, repeats incl. {n,m} and lazy, captures incl. named, anchors, alternations with empty branches, \\Q..\\E, escaped / non-printable / non-ASCII literals) x 8 subjects (3 sampled from the parsed tree with context, 3 mutations, 2 random incl. newlines and invalid UTF-8); a case = (pattern, subjects); non-trivial = the tree has >= 2 operator kinds and the subjects contain a match and a non-match; distinct by pattern+subjects",
		"the standard library regexp engine judges both sides; \"(?m)\"+text under syntax.Perl equals text under the query flags ClassNL|PerlX|UnicodeGroups",
		"the optimised tree is additionally compiled from the standard library's own String() form, which is trusted",
		"only match / no match and the overall leftmost span are compared, not submatches",
	)
	kit.Property(t, rec, c27Gen, func(c c27Case) error { return c27Run(rec, c) })
}

// FuzzVerifC27 is the native fuzz target of the thorough tier: any pattern the
// query flags accept, any subject.
func FuzzVerifC27(f *testing.F) {
	for _, s := range [][2]string{
		{`foo`, "a foo b"}, {`(?i)foo|BAR`, "xbarx"}, {`^a.b$`, "a\nb\nacb\n"}, {`[^a-z\n]+`, "abc DEF\n"}, {`(a|ab)(c|bcd)(d*)`, "abcd"},
		{`\bfoo\b`, "foo.bar"}, {`(?s:.)\z`, "a\n"}, {`\x00[\x00-\x{10FFFF}]`, "\x00\n"}, {`(?U)a+?`, "aaa"}, {`\pL{2,3}(?P<x>\d)|`, "éé1"},
		{`a{,2}\{`, "a{,2}{"}, {`[[:^alpha:]-]`, "-"}, {`(?-m:^a$)`, "b\na"}, {`\Q.*\E+`, ".**"}, {`(|a)*`, "aa"}, {`(?i:k)\x{212a}`, "KK"},
	} {
		f.Add(s[0], s[1])
	}
	f.Fuzz(func(t *testing.T, pattern, subject string) {
		if len(pattern) > 300 || len(subject) > 300 {
			return
		}
		e, err := c27Compile(pattern)
		if err != nil {
			t.Fatalf("%v", err)
		}
		if e == nil {
			return
		}
		if _, err := c27CheckSubject(pattern, e, subject); err != nil {
			t.Fatalf("%v", err)
		}
	})
}
