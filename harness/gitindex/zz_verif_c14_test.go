//go:build verif

package gitindex_test

// C14: git indexing captures exactly the indexed branch trees.
//
// A case is a repository with 1-3 branches whose trees hold regular,
// executable, symlink and gitlink entries in nested directories, with
// identical blobs at several paths, empty / tiny / binary / large blobs and
// optionally a .sourcegraph/ignore file per branch, plus the index options
// (SizeMax, LargeFiles, ShardMax, branch prefix, repository opening mode).
// The repository is indexed twice into separate index directories: blobs
// read through go-git and through `git cat-file --batch`. Both sets of
// documents (read back from every shard with index.NewSearcher, Const(true),
// Whole=true) must equal the model: one document per distinct (path, blob)
// with exactly the containing branches and the blob or its skip explanation,
// nothing for ignored paths and gitlinks.

import (
	"bytes"
	"crypto/sha1"
	"encoding/json"
	"fmt"
	"os"
	"path/filepath"
	"sort"
	"strconv"
	"strings"
	"testing"

	"github.com/go-git/go-git/v5/plumbing"
	"github.com/go-git/go-git/v5/plumbing/filemode"
	"pgregory.net/rapid"

	"github.com/sourcegraph/zoekt"
	"github.com/sourcegraph/zoekt/gitindex"
	"github.com/sourcegraph/zoekt/index"
	"github.com/sourcegraph/zoekt/internal/verifkit/kit"
	"github.com/sourcegraph/zoekt/query"
)

type c14Entry struct {
	Path string
	Kind string   // file exec link gitlink
	Text kit.Text // blob (link: the target); gitlink: a label the fake commit id is derived from
	Pad  int      `json:",omitempty"` // filler bytes appended to Text (keeps large blobs out of the JSON)
}

type c14Branch struct {
	Name    string
	Entries []c14Entry
}

type c14Case struct {
	Branches     []c14Branch
	HeadIdx      int
	IndexHEAD    bool     `json:",omitempty"`
	SizeMax      int      `json:",omitempty"` // 0 = default (2 MiB)
	LargeFiles   []string `json:",omitempty"` // empty: the cat-file run falls back to go-git (this git has no --filter)
	ShardMax     int      `json:",omitempty"`
	Repack       bool     `json:",omitempty"` // `git repack -ad` before indexing: objects come from a packfile
	LegacyOpen   bool     `json:",omitempty"` // ZOEKT_DISABLE_GOGIT_OPTIMIZATION=true
	BranchPrefix string   `json:",omitempty"`
}

const c14IgnorePath = ".sourcegraph/ignore"

var c14Paths = []string{
	"README.md", "main.go", "Makefile", "Makefile2", "a.txt", "b.big", "bin/tool", "bin/run.sh", "d/a.txt", "d/b.txt",
	"d/e/f.go", "d/e/g.big", "docs/x.md", "docs/sub/y.md", "lib/mod", "vendor/dep", "link", "d/link", "sp ace/ü.txt",
	".gitmodules", "p1/same.txt", "p2/same.txt", "p1/q.txt", "p2/q.txt", "dx.txt",
}

var c14Texts = []string{
	"hello world\n", "package main\n\nfunc main() {}\n", "shared blob\n", "", "ab", "x", "abc", "bin\x00ary data", "\x00",
	"\xff\xfe not utf8\n", "line1\r\nline2", "a.txt", "d/a.txt", "../x", "docs", "all: build\n\tgo build ./...\n",
	"[submodule \"lib/mod\"]\n\tpath = lib/mod\n\turl = ../mod.git\n", "# Title\n\ntext text text\n",
}

var c14IgnoreLines = []string{
	"d/", "docs/", "d/e/", "/bin/", "p1/", "sp ace/", // directory prefixes
	"Make", "d", "READ", "lib", "vendor/dep", ".sourcegraph/", "link", // plain prefixes (no glob characters: implicit trailing **)
	"d/a.txt", "main.go", "/a.txt", "README.md", "p2/same.txt", "b.big", // exact paths (contain '.', so no implicit **)
	"*.txt", "*.md", "d/*.txt", "d/*", "docs/*.md", "d/e/*.go", "?.txt", "p?/same.txt", "*", "bin/*", // segment globs
	"# a comment", "", "  d/b.txt  ", "#d/", "nomatch/", "zzz.txt",
}

var c14LargeSets = [][]string{
	{"nomatch-zzz"}, {"*.big"}, {"**/*.big"}, {"d/e/g.big"}, {"**/*.big", "!d/e/g.big"}, {"!b.big", "*.big"}, {"**/*.big", "!b.big"}, {"*.md", "a.txt"},
}

const c14Filler = "0123456789abcdef\n"

func (e *c14Entry) blob() []byte {
	if e.Pad <= 0 {
		return []byte(e.Text)
	}
	b := make([]byte, 0, len(e.Text)+e.Pad+len(c14Filler))
	b = append(b, e.Text...)
	b = append(b, bytes.Repeat([]byte(c14Filler), e.Pad/len(c14Filler)+1)...)
	return b[:len(e.Text)+e.Pad]
}

// c14Sum identifies a byte string (large blobs make poor map keys).
func c14Sum(b string) string {
	h := sha1.Sum([]byte(b))
	return string(h[:])
}

func genC14Entry(g vgU, path string, sizeMax int) c14Entry {
	e := c14Entry{Path: path}
	e.Kind = vgPick(g, []string{"file", "file", "exec", "link", "file", "gitlink", "file", "file"}, "kind")
	if path == "lib/mod" || path == "vendor/dep" {
		e.Kind = vgPick(g, []string{"gitlink", "gitlink", "file"}, "kind2")
	}
	switch e.Kind {
	case "gitlink":
		e.Text = kit.Text(vgPick(g, []string{"sub1", "sub2"}, "sub"))
		return e
	case "link":
		e.Text = kit.Text(vgPick(g, []string{"a.txt", "d/a.txt", "../x", "docs", "x", "shared blob\n", "/etc/passwd"}, "target"))
		return e
	}
	e.Text = kit.Text(vgPick(g, c14Texts, "text"))
	if sizeMax > 0 {
		// sizes around the limit, well above it, and above the cat-file reader's 512 KiB buffer
		sizes := []string{"", "", "", "", "", "", "", "", "", "", "", "", "over", "over", "at", "at", "under", "3x", "3x", "3x"}
		if strings.HasSuffix(path, ".big") {
			// the paths the LargeFiles patterns are about
			sizes = []string{"", "over", "3x", "3x", "at", "huge", "over", "3x"}
		} else if g.Bool(3, "hugeany") {
			sizes = []string{"huge"}
		}
		switch vgPick(g, sizes, "size") {
		case "under":
			e.Pad = sizeMax - 1 - len(e.Text)
		case "at":
			e.Pad = sizeMax - len(e.Text)
		case "over":
			e.Pad = sizeMax + 1 - len(e.Text)
		case "3x":
			e.Pad = 3*sizeMax - len(e.Text)
		case "huge":
			e.Pad = 600000 - len(e.Text)
		}
		if e.Pad < 0 {
			e.Pad = 0
		}
	}
	return e
}

func genC14Ignore(g vgU) c14Entry {
	n := g.Int(1, 4, "nignore")
	var lines []string
	for i := 0; i < n; i++ {
		lines = append(lines, vgPick(g, c14IgnoreLines, "ignoreline"))
	}
	sep := vgPick(g, []string{"\n", "\n", "\r\n"}, "eol")
	text := strings.Join(lines, sep)
	if g.Bool(60, "finaleol") {
		text += sep
	}
	return c14Entry{Path: c14IgnorePath, Kind: "file", Text: kit.Text(text)}
}

// c14CopyDirs are destinations for copies of whole directories (vendored
// copies: two directories with byte-identical content, i.e. the same tree
// object, at different paths of one branch).
var c14CopyDirs = []string{"third_party", "vendor/copy", "d/e/copy", "p3", "docs/sub/mirror", "a/b/c"}

// c14CopyDir copies every entry below some existing directory to a new
// directory of the same branch tree; nothing happens when the destination
// collides with what is there.
func c14CopyDir(g vgU, es []c14Entry) []c14Entry {
	dirSet := map[string]bool{}
	for _, e := range es {
		for i := 0; i < len(e.Path); i++ {
			if e.Path[i] == '/' {
				dirSet[e.Path[:i]] = true
			}
		}
	}
	if len(dirSet) == 0 {
		return es
	}
	src := vgPick(g, vgSortedKeys(dirSet), "copysrc")
	dst := vgPick(g, c14CopyDirs, "copydst")
	if dst == src || strings.HasPrefix(dst+"/", src+"/") || strings.HasPrefix(src+"/", dst+"/") {
		return es
	}
	for _, e := range es {
		if e.Path == dst || strings.HasPrefix(e.Path, dst+"/") || strings.HasPrefix(dst+"/", e.Path+"/") {
			return es
		}
	}
	out := append([]c14Entry{}, es...)
	for _, e := range es {
		if strings.HasPrefix(e.Path, src+"/") {
			c := e
			c.Path = dst + e.Path[len(src):]
			if c.Path == c14IgnorePath {
				continue
			}
			out = append(out, c)
		}
	}
	return out
}

// genC14Bulk is the rare "bulk" shape: 9-11 blobs of about 2 MB each (text or
// with a NUL, all below the default SizeMax) plus a few small files, so that
// one cat-file run reads more than its 16 MiB content slab holds.
func genC14Bulk(g vgU, forced bool) c14Case {
	c := c14Case{LargeFiles: vgPick(g, [][]string{{"nomatch-zzz"}, {"*.big"}}, "largefiles")}
	c.Repack = g.Bool(15, "repack")
	var es []c14Entry
	n := g.Int(9, 11, "nbulk")
	if forced && n < 10 {
		n = 10
	}
	for i := 0; i < n; i++ {
		e := c14Entry{Path: fmt.Sprintf("bulk/%c%02d.dat", 'a'+byte(g.N(3, "bulkdir")), i), Kind: "file"}
		text := g.Bool(40, "bulktext")
		if forced {
			// the forced case: blobs are read in this order, the first eight
			// (rejected as binary after reading, hence cheap) fill the first
			// slab, and the text blobs after the rollover are visible in the index
			e.Path = fmt.Sprintf("bulk/a%02d.dat", i)
			text = i >= 8
		}
		if text {
			e.Text = kit.Text(fmt.Sprintf("bulk text blob %d\n", i))
		} else {
			e.Text = kit.Text(fmt.Sprintf("bulk binary blob %d\x00\n", i))
		}
		e.Pad = 1900000 + 1000*g.N(190, "bulksize") + i
		es = append(es, e)
	}
	for _, p := range []string{"README.md", "a.txt", "bulk/m.txt", "bulk/zz.txt", "main.go", "zz/last.txt"} {
		if g.Bool(60, "small") {
			es = append(es, c14Entry{Path: p, Kind: "file", Text: kit.Text("small file " + p + "\n")})
		}
	}
	c.Branches = []c14Branch{{Name: "main", Entries: es}}
	if !forced && g.Bool(40, "second") {
		// a second branch that shares most blobs
		var es2 []c14Entry
		for i, e := range es {
			switch {
			case i%4 == 1 && g.Bool(50, "drop2"):
			case i%4 == 2:
				e.Text = append(append(kit.Text{}, e.Text...), "dev\n"...)
				es2 = append(es2, e)
			default:
				es2 = append(es2, e)
			}
		}
		c.Branches = append(c.Branches, c14Branch{Name: "dev", Entries: es2})
	}
	return c
}

func genC14(rt *rapid.T) c14Case {
	g := vgU{T: rt}
	bulkPct := 2
	if os.Getenv("VERIF_TIER") == "thorough" {
		bulkPct = 6
	}
	if g.Bool(bulkPct, "bulk") {
		return genC14Bulk(g, false)
	}
	c := c14Case{}
	c.SizeMax = vgPick(g, []int{100, 64, 0, 256, 1000}, "sizemax")
	if !g.Bool(12, "nolargefiles") {
		c.LargeFiles = vgPick(g, c14LargeSets, "largefiles")
	}
	c.ShardMax = vgPick(g, []int{0, 0, 0, 60, 300}, "shardmax")
	c.Repack = g.Bool(20, "repack")
	c.LegacyOpen = g.Bool(15, "legacyopen")
	c.BranchPrefix = vgPick(g, []string{"", "", "refs/heads/", "refs/heads"}, "prefix")
	nb := vgPick(g, []int{3, 2, 3, 2, 3, 1}, "nbranch")
	c.HeadIdx = g.Int(0, nb-1, "head")
	c.IndexHEAD = g.Bool(30, "indexhead")

	// base tree
	nbase := g.Int(2, 10, "nbase")
	var base []c14Entry
	used := map[string]bool{}
	for i := 0; i < nbase; i++ {
		p := vgPick(g, c14Paths, "path")
		if used[p] {
			continue
		}
		used[p] = true
		base = append(base, genC14Entry(g, p, c.SizeMax))
	}
	if g.Bool(55, "ignore") {
		base = append(base, genC14Ignore(g))
	}
	if g.Bool(35, "copydir") {
		base = c14CopyDir(g, base)
	}
	names := []string{"main", "dev", "release"}
	for b := 0; b < nb; b++ {
		br := c14Branch{Name: names[b]}
		br.Entries = append(br.Entries, base...)
		if b > 0 {
			nm := g.Int(0, 5, "nmut")
			for i := 0; i < nm; i++ {
				switch vgPick(g, []string{"change", "drop", "add", "rekind", "ignore", "dup", "copydir", "change"}, "mut") {
				case "copydir":
					br.Entries = c14CopyDir(g, br.Entries)
				case "change":
					if len(br.Entries) > 0 {
						j := g.Int(0, len(br.Entries)-1, "j")
						if br.Entries[j].Path == c14IgnorePath {
							br.Entries[j] = genC14Ignore(g)
						} else {
							br.Entries[j] = genC14Entry(g, br.Entries[j].Path, c.SizeMax)
						}
					}
				case "drop":
					if len(br.Entries) > 0 {
						j := g.Int(0, len(br.Entries)-1, "j")
						br.Entries = append(append([]c14Entry{}, br.Entries[:j]...), br.Entries[j+1:]...)
					}
				case "add":
					p := vgPick(g, c14Paths, "addpath")
					br.Entries = c14Put(br.Entries, genC14Entry(g, p, c.SizeMax))
				case "rekind":
					if len(br.Entries) > 0 {
						j := g.Int(0, len(br.Entries)-1, "j")
						e := br.Entries[j]
						if e.Path != c14IgnorePath && e.Kind != "gitlink" {
							e.Kind = vgPick(g, []string{"exec", "link", "file"}, "newkind")
							br.Entries = c14Put(br.Entries, e)
						}
					}
				case "ignore":
					br.Entries = c14Put(br.Entries, genC14Ignore(g))
				case "dup":
					// the same blob at another path
					if len(br.Entries) > 0 {
						e := br.Entries[g.Int(0, len(br.Entries)-1, "j")]
						if e.Path != c14IgnorePath {
							e.Path = vgPick(g, c14Paths, "duppath")
							br.Entries = c14Put(br.Entries, e)
						}
					}
				}
			}
		}
		c.Branches = append(c.Branches, br)
	}
	return c
}

// c14Put replaces the entry with e's path or appends e.
func c14Put(es []c14Entry, e c14Entry) []c14Entry {
	out := make([]c14Entry, 0, len(es)+1)
	done := false
	for _, x := range es {
		if x.Path == e.Path {
			out = append(out, e)
			done = true
		} else {
			out = append(out, x)
		}
	}
	if !done {
		out = append(out, e)
	}
	return out
}

// c14Ignored is the harness' own reading of the documented ignore-file rules
// for the pattern subset the generator uses: one pattern per line relative to
// the repository root, blank lines and lines starting with # skipped, a
// leading / dropped, a pattern without any of ".][*?" is a path prefix
// (implicit trailing **), otherwise '*' and '?' match within one path segment
// and the whole path has to match.
func c14Ignored(ignoreFile []byte, path string) bool {
	for _, line := range strings.Split(string(ignoreFile), "\n") {
		line = strings.TrimSpace(line)
		if line == "" || strings.HasPrefix(line, "#") {
			continue
		}
		line = strings.TrimPrefix(line, "/")
		if !strings.ContainsAny(line, ".][*?") {
			if strings.HasPrefix(path, line) {
				return true
			}
			continue
		}
		if vgGlob([]rune(line), []rune(path)) {
			return true
		}
	}
	return false
}

type c14Doc struct {
	Name, Content string
	Branches      []string
}

func (d c14Doc) key() string {
	if len(d.Content) > 4096 {
		return d.Name + "\x00" + strings.Join(d.Branches, ",") + "\x00sha1:" + c14Sum(d.Content)
	}
	return d.Name + "\x00" + strings.Join(d.Branches, ",") + "\x00" + d.Content
}

func (d c14Doc) String() string {
	return fmt.Sprintf("{%q branches=%v content=%s}", d.Name, d.Branches, vgShort(d.Content))
}

type c14Features struct {
	labels     []string
	nontrivial bool
}

// c14Model computes the expected documents and classifies the case.
func c14Model(c *c14Case, indexed []string, trees [][]c14Entry) ([]c14Doc, c14Features) {
	type pb struct{ path, blob string }
	docs := map[pb]*c14Doc{}
	var order []pb
	lab := map[string]bool{}
	pathBlobs := map[string]map[string]bool{}
	total := 0 // bytes of the distinct (path, blob) pairs: what one indexing run reads
	blobPaths := map[string]map[string]bool{}
	for bi, name := range indexed {
		var ig []byte
		hasIg := false
		for i := range trees[bi] {
			if e := &trees[bi][i]; e.Path == c14IgnorePath && e.Kind != "gitlink" {
				ig, hasIg = e.blob(), true
			}
		}
		if hasIg {
			lab["ignore:file-present"] = true
		}
		for i := range trees[bi] {
			e := &trees[bi][i]
			lab["kind:"+e.Kind] = true
			if e.Kind == "gitlink" {
				continue
			}
			blob := e.blob()
			if hasIg && c14Ignored(ig, e.Path) {
				lab["ignore:path-ignored"] = true
				continue
			}
			hsum := sha1.Sum(blob)
			id := string(hsum[:]) // stands for the blob
			k := pb{e.Path, id}
			d := docs[k]
			if d == nil {
				exp := vgExpectContent(e.Path, blob, c.SizeMax, c.LargeFiles)
				d = &c14Doc{Name: e.Path, Content: exp}
				docs[k] = d
				order = append(order, k)
				sm := c.SizeMax
				if sm == 0 {
					sm = vgDefaultSizeMax
				}
				switch {
				case strings.HasPrefix(exp, "NOT-INDEXED: exceeds"):
					lab["blob:too-large"] = true
				case strings.HasPrefix(exp, "NOT-INDEXED: contains binary"):
					lab["blob:binary"] = true
				case strings.HasPrefix(exp, "NOT-INDEXED: contains too few"):
					lab["blob:tiny"] = true
				case len(blob) == 0:
					lab["blob:empty"] = true
				case len(blob) > sm:
					lab["blob:large-but-exempt"] = true
				}
				if len(blob) == sm || len(blob) == sm+1 || len(blob) == sm-1 {
					lab["blob:at-size-boundary"] = true
				}
				if len(blob) > 512*1024 {
					lab["blob:over-512KiB"] = true
				}
				if pathBlobs[e.Path] == nil {
					pathBlobs[e.Path] = map[string]bool{}
				}
				pathBlobs[e.Path][id] = true
				if blobPaths[id] == nil {
					blobPaths[id] = map[string]bool{}
				}
				blobPaths[id][e.Path] = true
				total += len(blob)
			}
			d.Branches = append(d.Branches, name)
		}
	}
	// two directories of one branch tree with identical content (same tree object)
	for bi := range indexed {
		sig := map[string]string{}
		for i := range trees[bi] {
			e := &trees[bi][i]
			for j := 0; j < len(e.Path); j++ {
				if e.Path[j] == '/' {
					sig[e.Path[:j]] += e.Path[j:] + "\x00" + e.Kind + "\x00" + string(e.Text) + "\x00" + fmt.Sprint(e.Pad) + "\x01"
				}
			}
		}
		// entries are visited in one fixed order per directory only if sorted
		bySig := map[string]int{}
		for d := range sig {
			var parts []string
			parts = append(parts, strings.Split(sig[d], "\x01")...)
			sort.Strings(parts)
			bySig[strings.Join(parts, "\x01")]++
		}
		for _, n := range bySig {
			if n > 1 {
				lab["identical-directories-in-one-branch"] = true
			}
		}
	}
	if total > 16<<20 {
		lab["bulk:blobs-over-16MiB"] = true
	}
	var out []c14Doc
	shared, partial := false, false
	for _, k := range order {
		d := docs[k]
		sort.Strings(d.Branches)
		if len(d.Branches) >= 2 {
			shared = true
		}
		if len(d.Branches) < len(indexed) {
			partial = true
		}
		out = append(out, *d)
	}
	for _, m := range pathBlobs {
		if len(m) > 1 {
			lab["path-with-different-blobs-on-branches"] = true
		}
	}
	for _, m := range blobPaths {
		if len(m) > 1 {
			lab["blob-at-several-paths"] = true
		}
	}
	if shared {
		lab["doc-on-2+-branches"] = true
	}
	if partial && len(indexed) > 1 {
		lab["doc-on-some-branches-only"] = true
	}
	special := false
	for _, l := range []string{"kind:exec", "kind:link", "kind:gitlink", "blob:too-large", "blob:binary", "blob:tiny", "ignore:path-ignored", "blob-at-several-paths", "blob:large-but-exempt"} {
		if lab[l] {
			special = true
		}
	}
	f := c14Features{nontrivial: len(indexed) >= 2 && shared && partial && special}
	f.labels = vgSortedKeys(lab)
	return out, f
}

func c14ReadDocs(dir string) ([]c14Doc, int, error) {
	ix, err := vgOpen(dir, "shards")
	if err != nil {
		return nil, 0, err
	}
	defer ix.Close()
	files, err := ix.Search(&query.Const{Value: true})
	if err != nil {
		return nil, 0, err
	}
	var out []c14Doc
	for _, f := range files {
		d := c14Doc{Name: f.FileName, Content: string(f.Content), Branches: append([]string(nil), f.Branches...)}
		sort.Strings(d.Branches)
		out = append(out, d)
	}
	return out, len(ix.shards), nil
}

// c14Diff compares two document multisets.
func c14Diff(want, got []c14Doc) (missing, extra []string) {
	cnt := map[string]int{}
	str := map[string]string{}
	for _, d := range want {
		cnt[d.key()]++
		str[d.key()] = d.String()
	}
	for _, d := range got {
		cnt[d.key()]--
		str[d.key()] = d.String()
	}
	for k, n := range cnt {
		for ; n > 0; n-- {
			missing = append(missing, str[k])
		}
		for ; n < 0; n++ {
			extra = append(extra, str[k])
		}
	}
	sort.Strings(missing)
	sort.Strings(extra)
	return
}

func runC14(rec *kit.Recorder, c c14Case) error {
	if len(c.Branches) == 0 || c.HeadIdx < 0 || c.HeadIdx >= len(c.Branches) {
		return fmt.Errorf("malformed case")
	}
	tmp, err := os.MkdirTemp("", "c14")
	if err != nil {
		return err
	}
	defer os.RemoveAll(tmp)
	repoDir := filepath.Join(tmp, "repo.git")
	g, err := vgInit(repoDir, c.Branches[c.HeadIdx].Name)
	if err != nil {
		return err
	}
	blobs := map[string]plumbing.Hash{}
	for bi := range c.Branches {
		files := map[string]vgEntry{}
		for i := range c.Branches[bi].Entries {
			e := &c.Branches[bi].Entries[i]
			if _, dup := files[e.Path]; dup {
				return fmt.Errorf("malformed case: path %q twice on branch %q", e.Path, c.Branches[bi].Name)
			}
			if e.Kind == "gitlink" {
				// a commit id of a repository we do not have
				files[e.Path] = vgEntry{Mode: filemode.Submodule, Hash: plumbing.ComputeHash(plumbing.CommitObject, []byte(e.Text))}
				continue
			}
			b := e.blob()
			h, ok := blobs[string(b)]
			if !ok {
				if h, err = g.Blob(b); err != nil {
					return err
				}
				blobs[string(b)] = h
			}
			mode := filemode.Regular
			switch e.Kind {
			case "exec":
				mode = filemode.Executable
			case "link":
				mode = filemode.Symlink
			case "file":
			default:
				return fmt.Errorf("malformed case: kind %q", e.Kind)
			}
			files[e.Path] = vgEntry{Mode: mode, Hash: h}
		}
		th, err := g.Tree(files)
		if err != nil {
			return fmt.Errorf("malformed case: %v", err)
		}
		ch, err := g.Commit(th, nil, "tree of "+c.Branches[bi].Name)
		if err != nil {
			return err
		}
		if err := g.SetBranch(c.Branches[bi].Name, ch); err != nil {
			return err
		}
	}
	if c.Repack {
		if err := vgGit(repoDir, "repack", "-a", "-d", "-q"); err != nil {
			return err
		}
	}

	var indexed []string
	var trees [][]c14Entry
	if c.IndexHEAD {
		indexed = append(indexed, "HEAD")
		trees = append(trees, c.Branches[c.HeadIdx].Entries)
	}
	for _, b := range c.Branches {
		indexed = append(indexed, b.Name)
		trees = append(trees, b.Entries)
	}
	want, feat := c14Model(&c, indexed, trees)

	lg, restore := vgCaptureLog()
	defer restore()
	if c.LegacyOpen {
		os.Setenv("ZOEKT_DISABLE_GOGIT_OPTIMIZATION", "true")
	} else {
		os.Setenv("ZOEKT_DISABLE_GOGIT_OPTIMIZATION", "false")
	}
	defer os.Unsetenv("ZOEKT_DISABLE_GOGIT_OPTIMIZATION")
	defer os.Setenv("ZOEKT_DISABLE_CATFILE_BATCH", "true")

	labels := append([]string{}, feat.labels...)
	labels = append(labels, fmt.Sprintf("branches:%d", len(c.Branches)))
	if c.IndexHEAD {
		labels = append(labels, "head-indexed")
	}
	if c.Repack {
		labels = append(labels, "objects:packed")
	} else {
		labels = append(labels, "objects:loose")
	}
	if c.LegacyOpen {
		labels = append(labels, "open:legacy")
	}
	if c.BranchPrefix != "" {
		labels = append(labels, "branch-prefix:set")
	}
	if c.SizeMax == 0 {
		labels = append(labels, "sizemax:default")
	} else {
		labels = append(labels, "sizemax:small")
	}

	results := map[string][]c14Doc{}
	for _, mode := range []string{"go-git", "cat-file"} {
		indexDir := filepath.Join(tmp, "index-"+mode)
		if err := os.MkdirAll(indexDir, 0o755); err != nil {
			return err
		}
		if mode == "cat-file" {
			os.Setenv("ZOEKT_DISABLE_CATFILE_BATCH", "false")
		} else {
			os.Setenv("ZOEKT_DISABLE_CATFILE_BATCH", "true")
		}
		bo := index.Options{
			IndexDir:              indexDir,
			RepositoryDescription: zoekt.Repository{Name: "repository"},
			DisableCTags:          true,
			SizeMax:               c.SizeMax,
			LargeFiles:            c.LargeFiles,
			ShardMax:              c.ShardMax,
		}
		bo.SetDefaults()
		opts := gitindex.Options{RepoDir: repoDir, BuildOptions: bo, Branches: indexed, BranchPrefix: c.BranchPrefix}
		lg.Take()
		if err := kit.Guard(func() error {
			_, err := gitindex.IndexGitRepo(opts)
			return err
		}); err != nil {
			if d, ok := err.(*kit.Discrepancy); ok {
				d.Detail = mode + " path: " + d.Detail
				return d
			}
			return kit.Fail("index-error", "%s path: IndexGitRepo: %v", mode, err)
		}
		logText := lg.Take()
		if mode == "cat-file" {
			var total, viaCat, viaGo int
			if i := strings.Index(logText, "attempting to index "); i >= 0 {
				fmt.Sscanf(logText[i:], "attempting to index %d total files (%d via cat-file, %d via go-git)", &total, &viaCat, &viaGo)
			}
			switch {
			case len(c.LargeFiles) == 0:
				// no --filter in this git: the documented fallback to go-git
				if !strings.Contains(logText, "does not support --filter") || viaCat != 0 {
					return kit.Fail("harness-catfile-path", "expected the fallback to go-git without LargeFiles; log: %s", logText)
				}
				labels = append(labels, "catfile:fallback-no-filter-support")
			case total > 0 && viaCat != total:
				return kit.Fail("harness-catfile-path", "cat-file path not taken (%d of %d files); log: %s", viaCat, total, logText)
			case total > 0:
				labels = append(labels, "catfile:used")
			default:
				labels = append(labels, "catfile:no-files")
			}
		}
		var got []c14Doc
		var nshards int
		if err := kit.Guard(func() error {
			var err error
			got, nshards, err = c14ReadDocs(indexDir)
			return err
		}); err != nil {
			if d, ok := err.(*kit.Discrepancy); ok {
				return d
			}
			return kit.Fail("read-error", "%s path: reading the shards back: %v", mode, err)
		}
		if nshards > 1 && mode == "go-git" {
			labels = append(labels, "multi-shard-index")
		}
		results[mode] = got
		if missing, extra := c14Diff(want, got); len(missing)+len(extra) > 0 {
			return kit.Fail("documents", "%s path: %d document(s) expected, %d found; missing %v; unexpected %v", mode, len(want), len(got), missing, extra)
		}
	}
	if missing, extra := c14Diff(results["go-git"], results["cat-file"]); len(missing)+len(extra) > 0 {
		return kit.Fail("paths-differ", "only with go-git %v; only with cat-file %v", missing, extra)
	}
	kb, _ := json.Marshal(c)
	rec.Eval(string(kb), feat.nontrivial, labels...)
	rec.Add("documents_checked", 2*len(want))
	rec.Sample(c, feat.nontrivial)
	return nil
}

func TestVerif_C14(t *testing.T) {
	rec := kit.Open(t, "C14",
		"rapid-generated repositories (go-git plumbing objects, optionally repacked with the git binary) with 1-3 branches derived from a common base tree by entry changes/drops/additions/kind changes/duplicated blobs; entries are regular, executable, symlink or gitlink, nested up to 3 levels; blobs empty, < 3 bytes, with NUL, non-UTF-8, around SizeMax (-1, =, +1, 3x) and > 512 KiB; optional .sourcegraph/ignore per branch; whole directories copied to a second path of the same branch (identical tree objects), possibly diverging on another branch; a rare bulk shape (2 % quick / 6 % thorough, plus one forced case per run) with 9-11 blobs of ~2 MB so that one run reads > 16 MiB of blobs; options SizeMax, LargeFiles (incl. negations), ShardMax, BranchPrefix, legacy repository opening, HEAD indexed; each repository indexed through the go-git blob path and the git cat-file path and both read back shard by shard; a case = one repository + options; non-trivial = >= 2 indexed branches with a document on >= 2 branches, a document not on all branches and at least one special entry/blob kind; distinct by hash of the case",
		"ignore patterns are drawn from a subset with unambiguous documented meaning: patterns without any of .][*? are path prefixes (implicit trailing **), otherwise * and ? match inside one path segment and the whole path must match; comments, blank lines, surrounding blanks, a leading / and CRLF line ends are covered; ** inside explicit patterns, character classes and braces are not generated",
		"LargeFiles patterns are literal paths, single-segment * globs and a leading **/ (doublestar: zero or more directories), judged by the harness' own matcher",
		"blobs not exempted by LargeFiles stay below the trigram limit (short ones by size, the 2 MB bulk text blobs by repeating a 17-byte filler), so the only skip reasons are too large / too small / binary",
		"gitlinks point at commits that are not available and Options.Submodules is off: no documents are expected for them",
		"this git (2.39) has no cat-file --filter: the cat-file path is reached with a non-empty LargeFiles list, and with an empty list the documented fallback to go-git is what is exercised; which path ran is read from the indexer's log",
		"objects missing from the repository (where the two reading paths are documented to differ) are not generated",
	)
	// one bulk repository in every run (the shape is rare in the random stream)
	if os.Getenv("VERIF_REPLAY") == "" && (os.Getenv("VERIF_PROC") == "" || os.Getenv("VERIF_PROC") == "0") {
		seed, _ := strconv.Atoi(os.Getenv("VERIF_SEED_EFFECTIVE"))
		c := rapid.Custom(func(rt *rapid.T) c14Case { return genC14Bulk(vgU{T: rt}, true) }).Example(seed + 1)
		if err := rec.Judge(c, kit.Guard(func() error { return runC14(rec, c) })); err != nil {
			t.Fatalf("forced bulk case: %v", err)
		}
	}
	kit.Property(t, rec, genC14, func(c c14Case) error { return runC14(rec, c) })
}
