//go:build verif

package gitindex_test

// Shared machinery of the C13 / C14 checks: a plumbing-level writer of
// deterministic git repositories (go-git objects, fixed author and dates), the
// reference model of what a blob looks like once indexed, and helpers that
// read documents back from an index directory.

import (
	"bytes"
	"context"
	"fmt"
	"log"
	"math/bits"
	"os"
	"os/exec"
	"path/filepath"
	"sort"
	"strings"
	"sync"
	"time"

	git "github.com/go-git/go-git/v5"
	"github.com/go-git/go-git/v5/plumbing"
	"github.com/go-git/go-git/v5/plumbing/filemode"
	"github.com/go-git/go-git/v5/plumbing/object"
	"pgregory.net/rapid"

	"github.com/sourcegraph/zoekt"
	"github.com/sourcegraph/zoekt/index"
	"github.com/sourcegraph/zoekt/internal/verifkit/kit"
	"github.com/sourcegraph/zoekt/query"
	"github.com/sourcegraph/zoekt/search"
)

// ---------------------------------------------------------------------------
// repository writer

type vgEntry struct {
	Mode filemode.FileMode
	Hash plumbing.Hash
}

type vgRepo struct {
	dir  string
	repo *git.Repository
	seq  int
}

// vgInit creates a bare repository whose HEAD points at refs/heads/<head>.
func vgInit(dir, head string) (*vgRepo, error) {
	r, err := git.PlainInit(dir, true)
	if err != nil {
		return nil, err
	}
	g := &vgRepo{dir: dir, repo: r}
	ref := plumbing.NewSymbolicReference(plumbing.HEAD, plumbing.NewBranchReferenceName(head))
	if err := r.Storer.SetReference(ref); err != nil {
		return nil, err
	}
	return g, nil
}

func (g *vgRepo) Blob(content []byte) (plumbing.Hash, error) {
	obj := g.repo.Storer.NewEncodedObject()
	obj.SetType(plumbing.BlobObject)
	w, err := obj.Writer()
	if err != nil {
		return plumbing.ZeroHash, err
	}
	if _, err := w.Write(content); err != nil {
		return plumbing.ZeroHash, err
	}
	if err := w.Close(); err != nil {
		return plumbing.ZeroHash, err
	}
	return g.repo.Storer.SetEncodedObject(obj)
}

type vgNode struct {
	children map[string]*vgNode
	leaf     *vgEntry
}

// Tree writes the nested tree objects for a flat path -> entry map and
// returns the root tree hash.
func (g *vgRepo) Tree(files map[string]vgEntry) (plumbing.Hash, error) {
	root := &vgNode{children: map[string]*vgNode{}}
	paths := make([]string, 0, len(files))
	for p := range files {
		paths = append(paths, p)
	}
	sort.Strings(paths)
	for _, p := range paths {
		e := files[p]
		parts := strings.Split(p, "/")
		n := root
		for i, part := range parts {
			if part == "" {
				return plumbing.ZeroHash, fmt.Errorf("bad path %q", p)
			}
			if n.leaf != nil {
				return plumbing.ZeroHash, fmt.Errorf("path %q: %q is a file", p, strings.Join(parts[:i], "/"))
			}
			c := n.children[part]
			if c == nil {
				c = &vgNode{children: map[string]*vgNode{}}
				n.children[part] = c
			}
			n = c
		}
		if len(n.children) > 0 {
			return plumbing.ZeroHash, fmt.Errorf("path %q is both a file and a directory", p)
		}
		ee := e
		n.leaf = &ee
	}
	return g.writeNode(root)
}

func (g *vgRepo) writeNode(n *vgNode) (plumbing.Hash, error) {
	var entries []object.TreeEntry
	names := make([]string, 0, len(n.children))
	for name := range n.children {
		names = append(names, name)
	}
	sort.Strings(names)
	for _, name := range names {
		c := n.children[name]
		if c.leaf != nil {
			entries = append(entries, object.TreeEntry{Name: name, Mode: c.leaf.Mode, Hash: c.leaf.Hash})
			continue
		}
		h, err := g.writeNode(c)
		if err != nil {
			return plumbing.ZeroHash, err
		}
		entries = append(entries, object.TreeEntry{Name: name, Mode: filemode.Dir, Hash: h})
	}
	sort.Sort(object.TreeEntrySorter(entries))
	t := &object.Tree{Entries: entries}
	obj := g.repo.Storer.NewEncodedObject()
	if err := t.Encode(obj); err != nil {
		return plumbing.ZeroHash, err
	}
	return g.repo.Storer.SetEncodedObject(obj)
}

// Commit writes a commit with a fixed identity; dates advance by one second per commit.
func (g *vgRepo) Commit(tree plumbing.Hash, parents []plumbing.Hash, msg string) (plumbing.Hash, error) {
	g.seq++
	sig := object.Signature{Name: "verif", Email: "verif@example.org", When: time.Unix(1600000000+int64(g.seq), 0).UTC()}
	c := &object.Commit{Author: sig, Committer: sig, Message: msg, TreeHash: tree, ParentHashes: parents}
	obj := g.repo.Storer.NewEncodedObject()
	if err := c.Encode(obj); err != nil {
		return plumbing.ZeroHash, err
	}
	return g.repo.Storer.SetEncodedObject(obj)
}

func (g *vgRepo) SetBranch(name string, h plumbing.Hash) error {
	return g.repo.Storer.SetReference(plumbing.NewHashReference(plumbing.NewBranchReferenceName(name), h))
}

// AppendConfig appends raw text to the repository's config file.
func (g *vgRepo) AppendConfig(text string) error {
	f, err := os.OpenFile(filepath.Join(g.dir, "config"), os.O_APPEND|os.O_WRONLY, 0o644)
	if err != nil {
		return err
	}
	defer f.Close()
	_, err = f.WriteString(text)
	return err
}

// vgGit runs the git binary in the repository with a hermetic environment.
func vgGit(dir string, args ...string) error {
	cmd := exec.Command("git", args...)
	cmd.Dir = dir
	cmd.Env = append(os.Environ(),
		"GIT_CONFIG_GLOBAL=", "GIT_CONFIG_SYSTEM=", "GIT_CONFIG_NOSYSTEM=1",
		"GIT_AUTHOR_NAME=verif", "GIT_AUTHOR_EMAIL=verif@example.org", "GIT_AUTHOR_DATE=1600000000 +0000",
		"GIT_COMMITTER_NAME=verif", "GIT_COMMITTER_EMAIL=verif@example.org", "GIT_COMMITTER_DATE=1600000000 +0000",
	)
	if out, err := cmd.CombinedOutput(); err != nil {
		return fmt.Errorf("git %v: %v: %s", args, err, out)
	}
	return nil
}

// ---------------------------------------------------------------------------
// reference model of an indexed blob

const vgDefaultSizeMax = 2 << 20 // index.Options.SetDefaults
const vgTrigramMax = 20000       // index.Options.SetDefaults

// vgGlob matches pat against s where '*' is any run of non-'/' runes, '?' is
// one non-'/' rune and everything else is literal.
func vgGlob(pat, s []rune) bool {
	for len(pat) > 0 {
		switch pat[0] {
		case '*':
			for i := 0; ; i++ {
				if vgGlob(pat[1:], s[i:]) {
					return true
				}
				if i >= len(s) || s[i] == '/' {
					return false
				}
			}
		case '?':
			if len(s) == 0 || s[0] == '/' {
				return false
			}
		default:
			if len(s) == 0 || s[0] != pat[0] {
				return false
			}
		}
		pat, s = pat[1:], s[1:]
	}
	return len(s) == 0
}

// vgLargeMatch judges one LargeFiles pattern from the subset the generators
// use: literal paths, single-segment '*' / '?' globs and a leading "**/"
// (zero or more directories).
func vgLargeMatch(pat, path string) bool {
	if rest, ok := strings.CutPrefix(pat, "**/"); ok {
		if vgGlob([]rune(rest), []rune(path)) {
			return true
		}
		for i := 0; i < len(path); i++ {
			if path[i] == '/' && vgGlob([]rune(rest), []rune(path[i+1:])) {
				return true
			}
		}
		return false
	}
	return vgGlob([]rune(pat), []rune(path))
}

// vgAllowLarge: the last matching pattern wins; a leading '!' negates.
func vgAllowLarge(patterns []string, path string) bool {
	for i := len(patterns) - 1; i >= 0; i-- {
		p := strings.TrimSpace(patterns[i])
		neg := strings.HasPrefix(p, "!")
		p = strings.TrimPrefix(p, "!")
		if vgLargeMatch(p, path) {
			return !neg
		}
	}
	return false
}

// vgExpectContent is what a search with Whole=true shows for a blob at path:
// the blob itself, or the skip explanation. Generators keep blobs that are not
// exempted by LargeFiles below the trigram limit, so that rule never fires.
func vgExpectContent(path string, blob []byte, sizeMax int, largeFiles []string) string {
	if sizeMax == 0 {
		sizeMax = vgDefaultSizeMax
	}
	allow := vgAllowLarge(largeFiles, path)
	switch {
	case len(blob) > sizeMax && !allow:
		return "NOT-INDEXED: exceeds the maximum size limit"
	case len(blob) == 0:
		return ""
	case len(blob) < 3:
		return "NOT-INDEXED: contains too few trigrams"
	case bytes.IndexByte(blob, 0) >= 0:
		return "NOT-INDEXED: contains binary content"
	}
	return string(blob)
}

// ---------------------------------------------------------------------------
// reading an index directory back

func vgShardFiles(dir string) []string {
	fs, _ := filepath.Glob(filepath.Join(dir, "*.zoekt"))
	sort.Strings(fs)
	return fs
}

// vgIndex is an opened index directory: either search.NewDirectorySearcher or
// one index.NewSearcher per shard file (which reads the .meta sidecar with the
// file tombstones, like the loader does).
type vgIndex struct {
	dir    zoekt.Streamer
	shards []zoekt.Searcher
}

func vgOpen(dir, via string) (*vgIndex, error) {
	ix := &vgIndex{}
	if via == "dir" {
		ss, err := search.NewDirectorySearcher(dir)
		if err != nil {
			return nil, err
		}
		ix.dir = ss
		return ix, nil
	}
	for _, fn := range vgShardFiles(dir) {
		f, err := os.Open(fn)
		if err != nil {
			ix.Close()
			return nil, err
		}
		inf, err := index.NewIndexFile(f)
		if err != nil {
			f.Close()
			ix.Close()
			return nil, err
		}
		s, err := index.NewSearcher(inf)
		if err != nil {
			inf.Close()
			ix.Close()
			return nil, fmt.Errorf("%s: %v", filepath.Base(fn), err)
		}
		ix.shards = append(ix.shards, s)
	}
	return ix, nil
}

func (ix *vgIndex) Close() {
	if ix.dir != nil {
		ix.dir.Close()
	}
	for _, s := range ix.shards {
		s.Close()
	}
}

// Search runs q with Whole=true and returns all files (contents copied out of
// the mapped shard).
func (ix *vgIndex) Search(q query.Q) ([]zoekt.FileMatch, error) {
	ctx := context.Background()
	var out []zoekt.FileMatch
	keep := func(files []zoekt.FileMatch) {
		for _, fm := range files {
			fm.Content = append([]byte(nil), fm.Content...)
			out = append(out, fm)
		}
	}
	if ix.dir != nil {
		res, err := ix.dir.Search(ctx, q, &zoekt.SearchOptions{Whole: true})
		if err != nil {
			return nil, err
		}
		if res.Stats.Crashes > 0 {
			return nil, kit.Fail("crash", "sharded searcher reported %d crashed shard(s)", res.Stats.Crashes)
		}
		keep(res.Files)
		return out, nil
	}
	for _, s := range ix.shards {
		res, err := s.Search(ctx, q, &zoekt.SearchOptions{Whole: true})
		if err != nil {
			return nil, err
		}
		keep(res.Files)
	}
	return out, nil
}

// ---------------------------------------------------------------------------
// log capture (the indexer reports the fallback from delta to normal builds
// and the blob reading path only through the log)

type vgLog struct {
	mu  sync.Mutex
	buf bytes.Buffer
}

func (l *vgLog) Write(p []byte) (int, error) {
	l.mu.Lock()
	defer l.mu.Unlock()
	return l.buf.Write(p)
}

func (l *vgLog) Take() string {
	l.mu.Lock()
	defer l.mu.Unlock()
	s := l.buf.String()
	l.buf.Reset()
	return s
}

// vgCaptureLog redirects the standard logger; call the returned func to restore it.
func vgCaptureLog() (*vgLog, func()) {
	l := &vgLog{}
	old := log.Writer()
	log.SetOutput(l)
	return l, func() { log.SetOutput(old) }
}

// vgU wraps rapid with draws that are (nearly) uniform: rapid's integer
// generators strongly favour small magnitudes, which skews weighted choices;
// single bits are unbiased, so the value is assembled from bits. It still
// shrinks towards 0 / the first list element.
type vgU struct{ T *rapid.T }

func (u vgU) N(n int, label string) int {
	if n <= 1 {
		return 0
	}
	k := bits.Len(uint(n-1)) + 4
	v := 0
	for i := 0; i < k; i++ {
		v <<= 1
		if rapid.Bool().Draw(u.T, label) {
			v |= 1
		}
	}
	return v % n
}

func (u vgU) Int(lo, hi int, label string) int { return lo + u.N(hi-lo+1, label) }
func (u vgU) Bool(pct int, label string) bool  { return u.N(100, label) < pct }

func vgPick[T any](u vgU, xs []T, label string) T { return xs[u.N(len(xs), label)] }

func vgSortedKeys[V any](m map[string]V) []string {
	out := make([]string, 0, len(m))
	for k := range m {
		out = append(out, k)
	}
	sort.Strings(out)
	return out
}

func vgShort(s string) string {
	if len(s) > 60 {
		return fmt.Sprintf("%q…(%d bytes)", s[:60], len(s))
	}
	return fmt.Sprintf("%q", s)
}
