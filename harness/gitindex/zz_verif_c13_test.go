//go:build verif

package gitindex_test

// C13: delta builds expose the same per-branch content as full builds.
//
// A case is a history over 2-3 branches of one repository: steps that commit
// changes (add / modify / delete / rename / chmod / revert / copy a file
// version from another branch / same content on every branch / take over
// another branch's tree / move a file between branches), steps that move a
// branch ref onto the head commit of another branch (fast-forward or reset, so
// that two indexed branches resolve to one commit while their previously
// indexed versions differ) interleaved with full and delta indexing runs, some
// of which list the same branches in another order than the run before. After
// every indexing run, for every indexed branch b, `branch=b` (exact,
// Whole=true) over the index directory must return exactly the model's head
// tree of b.

import (
	"encoding/json"
	"fmt"
	"os"
	"path/filepath"
	"sort"
	"strings"
	"testing"

	"github.com/go-git/go-git/v5/plumbing"
	"github.com/go-git/go-git/v5/plumbing/filemode"
	"pgregory.net/rapid"

	"github.com/sourcegraph/zoekt"
	"github.com/sourcegraph/zoekt/gitindex"
	"github.com/sourcegraph/zoekt/index"
	"github.com/sourcegraph/zoekt/internal/verifkit/kit"
	"github.com/sourcegraph/zoekt/query"
)

type c13File struct {
	Path    string
	Content string
	Exec    bool `json:",omitempty"`
}

// c13Change is one edit of the working state. Paths of existing files are
// selected by index (Sel modulo the number of files, sorted), so that a case
// is pure data and stays meaningful while rapid shrinks it.
type c13Change struct {
	Kind    string // add modify delete rename chmod revert copy same sync move empty
	B       int    // branch the change is made on
	O       int    `json:",omitempty"` // the other branch (copy / sync / move)
	Sel     int    `json:",omitempty"` // selects an existing path
	Path    string `json:",omitempty"` // new path (add, rename destination, same)
	Content string `json:",omitempty"`
	Back    int    `json:",omitempty"` // revert: how many commits to go back
}

// c13Move moves the ref of branch B onto the head commit of branch O (what
// `git branch -f B O`, a fast-forward pull or `git reset --hard O` do): no new
// commit is written, both branches resolve to the same commit afterwards.
type c13Move struct {
	B, O int
}

// c13Step is an indexing run (Index = "full" | "delta"), a ref move, or a set
// of changes followed by one commit on every branch whose tree changed.
//
// Reorder != 0 on an indexing run permutes the branch list handed to the
// indexer (it selects one of the n!-1 non-identity permutations of the list
// used by the previous run, "HEAD" staying in front); the new order stays in
// force for later runs.
type c13Step struct {
	Index   string      `json:",omitempty"`
	Reorder int         `json:",omitempty"`
	Move    *c13Move    `json:",omitempty"`
	Changes []c13Change `json:",omitempty"`
}

type c13Case struct {
	Branches  []string
	HeadIdx   int  // HEAD points at Branches[HeadIdx]
	IndexHEAD bool // index "HEAD" in front of the named branches, as the upstream tests do
	Via       string
	ShardMax  int    `json:",omitempty"`
	Threshold uint64 `json:",omitempty"` // DeltaShardNumberFallbackThreshold
	CfgID     bool   `json:",omitempty"` // repository id comes from the git config (zoekt.repoid)
	Init      []c13File
	Steps     []c13Step
}

var c13Paths = []string{"a.txt", "b.txt", "d/a.txt", "d/b.txt", "d/e/f.txt", "e/a.txt", "e/b.txt", "d", "d/e", "x y.txt", "zü.txt"}
var c13Contents = []string{"alpha one\n", "beta beta\n", "gamma\ngamma\n", "delta", "", "xy", "package main\n", "shared content\n"}

type c13Tree map[string]c13File

func (t c13Tree) clone() c13Tree {
	o := make(c13Tree, len(t))
	for k, v := range t {
		o[k] = v
	}
	return o
}

// set writes a file, replacing a directory of that name or a file that sits
// where one of its parent directories has to be.
func (t c13Tree) set(p string, f c13File) {
	for i := 0; i < len(p); i++ {
		if p[i] == '/' {
			delete(t, p[:i])
		}
	}
	for q := range t {
		if strings.HasPrefix(q, p+"/") {
			delete(t, q)
		}
	}
	f.Path = p
	t[p] = f
}

func (t c13Tree) equal(o c13Tree) bool {
	if len(t) != len(o) {
		return false
	}
	for k, v := range t {
		if w, ok := o[k]; !ok || w != v {
			return false
		}
	}
	return true
}

func (t c13Tree) pick(sel int) (string, bool) {
	if len(t) == 0 {
		return "", false
	}
	ks := vgSortedKeys(t)
	if sel < 0 {
		sel = -sel
	}
	return ks[sel%len(ks)], true
}

func genC13(rt *rapid.T) c13Case {
	g := vgU{T: rt}
	c := c13Case{}
	nb := g.Int(2, 3, "nbranch")
	c.Branches = []string{"main", "dev", "release"}[:nb]
	c.HeadIdx = g.Int(0, nb-1, "head")
	c.IndexHEAD = g.Bool(40, "indexhead")
	if g.Bool(50, "viadir") {
		c.Via = "dir"
	} else {
		c.Via = "shards"
	}
	c.ShardMax = vgPick(g, []int{0, 0, 0, 0, 150, 60}, "shardmax")
	c.Threshold = vgPick(g, []uint64{0, 0, 0, 0, 2, 4}, "threshold")
	c.CfgID = g.Bool(30, "cfgid")
	ni := vgPick(g, []int{3, 4, 2, 4, 1, 3, 0, 5}, "ninit")
	seen := map[string]bool{}
	for i := 0; i < ni; i++ {
		p := vgPick(g, c13Paths[:7], "ipath") // conflict-free part of the pool
		if seen[p] {
			continue
		}
		seen[p] = true
		c.Init = append(c.Init, c13File{Path: p, Content: vgPick(g, c13Contents, "icontent")})
	}
	kinds := []string{
		"modify", "delete", "copy", "same", "move", "rename", "modify", "revert", "delete", "add",
		"sync", "copy", "chmod", "add", "modify", "move", "empty", "rename", "same", "revert",
	}
	ver := 0
	commitStep := func() c13Step {
		st := c13Step{}
		nc := g.Int(1, 3, "nchanges")
		for j := 0; j < nc; j++ {
			ch := c13Change{Kind: vgPick(g, kinds, "kind"), B: g.Int(0, nb-1, "b")}
			ch.O = (ch.B + g.Int(1, nb-1, "o")) % nb
			ch.Sel = g.Int(0, 11, "sel")
			ch.Path = vgPick(g, c13Paths, "path")
			if g.Bool(45, "poolcontent") {
				ch.Content = vgPick(g, c13Contents, "content")
			} else {
				ver++
				ch.Content = fmt.Sprintf("version %d of something\nline two\n", ver)
			}
			ch.Back = g.Int(1, 3, "back")
			st.Changes = append(st.Changes, ch)
		}
		return st
	}
	indexStep := func() c13Step {
		st := c13Step{Index: vgPick(g, []string{"delta", "delta", "full", "delta"}, "index")}
		if g.Bool(15, "reorder") {
			st.Reorder = g.Int(1, 23, "perm")
		}
		return st
	}
	moveStep := func() c13Step {
		b := g.Int(0, nb-1, "moveb")
		return c13Step{Move: &c13Move{B: b, O: (b + g.Int(1, nb-1, "moveo")) % nb}}
	}
	// an optional indexing run of the initial state, then 1-4 rounds of
	// (1-2 commit steps, 1 indexing run; rarely 2 runs in a row); in about a
	// third of the rounds one branch is moved onto another branch's head
	// commit, mostly right before the indexing run
	if !g.Bool(15, "noinitialindex") {
		c.Steps = append(c.Steps, c13Step{Index: vgPick(g, []string{"full", "full", "delta"}, "index0")})
	}
	nr := g.Int(1, 4, "nrounds")
	for i := 0; i < nr; i++ {
		move, early := g.Bool(35, "move"), g.Bool(25, "moveearly")
		if move && early {
			c.Steps = append(c.Steps, moveStep())
		}
		for j, n := 0, g.Int(1, 2, "ncommits"); j < n; j++ {
			c.Steps = append(c.Steps, commitStep())
		}
		if move && !early {
			c.Steps = append(c.Steps, moveStep())
		}
		c.Steps = append(c.Steps, indexStep())
		if g.Bool(8, "again") {
			c.Steps = append(c.Steps, indexStep())
		}
	}
	return c
}

// c13State is the harness' own model plus the repository it mirrors.
type c13State struct {
	c     *c13Case
	g     *vgRepo
	cur   []c13Tree       // committed head tree per branch
	hist  [][]c13Tree     // all committed trees per branch, oldest first
	heads []plumbing.Hash // head commit per branch
	blobs map[string]plumbing.Hash
	// parent of every commit written (the histories are linear per commit)
	parent map[plumbing.Hash]plumbing.Hash
	// order in which the indexed names (HEAD, branches) are handed to the indexer
	order []int
}

func (s *c13State) commit(b int, t c13Tree, msg string) error {
	files := map[string]vgEntry{}
	for p, f := range t {
		h, ok := s.blobs[f.Content]
		if !ok {
			var err error
			h, err = s.g.Blob([]byte(f.Content))
			if err != nil {
				return err
			}
			s.blobs[f.Content] = h
		}
		mode := filemode.Regular
		if f.Exec {
			mode = filemode.Executable
		}
		files[p] = vgEntry{Mode: mode, Hash: h}
	}
	th, err := s.g.Tree(files)
	if err != nil {
		return err
	}
	var parents []plumbing.Hash
	if !s.heads[b].IsZero() {
		parents = []plumbing.Hash{s.heads[b]}
	}
	ch, err := s.g.Commit(th, parents, msg)
	if err != nil {
		return err
	}
	if err := s.g.SetBranch(s.c.Branches[b], ch); err != nil {
		return err
	}
	if len(parents) > 0 {
		s.parent[ch] = parents[0]
	}
	s.heads[b] = ch
	s.cur[b] = t.clone()
	s.hist[b] = append(s.hist[b], t.clone())
	return nil
}

// apply interprets one commit step; it returns the labels of the changes
// that had an effect.
func (s *c13State) apply(st c13Step, stepNo int) ([]string, error) {
	nb := len(s.c.Branches)
	work := make([]c13Tree, nb)
	for i := range work {
		work[i] = s.cur[i].clone()
	}
	force := make([]bool, nb)
	var labels []string
	for _, ch := range st.Changes {
		b := ((ch.B % nb) + nb) % nb
		o := ((ch.O % nb) + nb) % nb
		if o == b {
			o = (b + 1) % nb
		}
		before := make([]c13Tree, nb)
		for i := range work {
			before[i] = work[i].clone()
		}
		switch ch.Kind {
		case "add":
			work[b].set(ch.Path, c13File{Content: ch.Content})
		case "modify":
			if p, ok := work[b].pick(ch.Sel); ok {
				f := work[b][p]
				f.Content = ch.Content
				work[b][p] = f
			}
		case "delete":
			if p, ok := work[b].pick(ch.Sel); ok {
				delete(work[b], p)
			}
		case "rename":
			if p, ok := work[b].pick(ch.Sel); ok && p != ch.Path {
				f := work[b][p]
				delete(work[b], p)
				work[b].set(ch.Path, f)
			}
		case "chmod":
			if p, ok := work[b].pick(ch.Sel); ok {
				f := work[b][p]
				f.Exec = !f.Exec
				work[b][p] = f
			}
		case "revert":
			if h := s.hist[b]; len(h) > 0 {
				i := len(h) - 1 - ch.Back
				if i < 0 {
					i = 0
				}
				work[b] = h[i].clone()
			}
		case "copy":
			if p, ok := work[o].pick(ch.Sel); ok {
				work[b].set(p, work[o][p])
			}
		case "same":
			for i := range work {
				work[i].set(ch.Path, c13File{Content: ch.Content})
			}
		case "sync":
			work[b] = work[o].clone()
		case "move":
			if p, ok := work[o].pick(ch.Sel); ok {
				f := work[o][p]
				delete(work[o], p)
				work[b].set(p, f)
			}
		case "empty":
			force[b] = true
		default:
			return nil, fmt.Errorf("unknown change kind %q", ch.Kind)
		}
		effect := ch.Kind == "empty"
		for i := range work {
			if !work[i].equal(before[i]) {
				effect = true
			}
		}
		if effect {
			labels = append(labels, "op:"+ch.Kind)
		} else {
			labels = append(labels, "op-noeffect")
		}
	}
	for b := 0; b < nb; b++ {
		if force[b] || !work[b].equal(s.cur[b]) {
			if err := s.commit(b, work[b], fmt.Sprintf("step %d", stepNo)); err != nil {
				return nil, err
			}
		}
	}
	return labels, nil
}

// move points branch b at the head commit of branch o. It returns a label
// saying what kind of move that was.
func (s *c13State) move(m c13Move) (string, error) {
	nb := len(s.c.Branches)
	b := ((m.B % nb) + nb) % nb
	o := ((m.O % nb) + nb) % nb
	if o == b {
		o = (b + 1) % nb
	}
	if s.heads[b] == s.heads[o] {
		return "move:noop", nil
	}
	label := "move:reset"
	for h, ok := s.heads[o], true; ok; h, ok = s.parent[h] {
		if h == s.heads[b] {
			label = "move:fast-forward"
			break
		}
	}
	if err := s.g.SetBranch(s.c.Branches[b], s.heads[o]); err != nil {
		return "", err
	}
	s.heads[b] = s.heads[o]
	s.cur[b] = s.cur[o].clone()
	s.hist[b] = append(s.hist[b], s.cur[o].clone())
	return label, nil
}

// c13Permute returns the k-th permutation (k taken modulo n!, factorial number
// system) of xs; k = 0 is the identity.
func c13Permute(xs []int, k int) []int {
	pool := append([]int(nil), xs...)
	n := len(pool)
	fact := 1
	for i := 2; i <= n; i++ {
		fact *= i
	}
	k %= fact
	out := make([]int, 0, n)
	for i := n; i >= 1; i-- {
		fact /= i
		j := k / fact
		k %= fact
		out = append(out, pool[j])
		pool = append(pool[:j], pool[j+1:]...)
	}
	return out
}

// reorder applies a non-identity permutation, selected by sel, to the order of
// the indexed names. "HEAD", when indexed, stays in front: a branch query for
// HEAD selects the first listed branch by zoekt's documented convention, so a
// HEAD entry further back could not be addressed by a search.
func (s *c13State) reorder(sel int) {
	fixed := 0
	if s.c.IndexHEAD {
		fixed = 1
	}
	n := len(s.order) - fixed
	fact := 1
	for i := 2; i <= n; i++ {
		fact *= i
	}
	if fact < 2 {
		return
	}
	if sel < 0 {
		sel = -sel
	}
	if sel == 0 {
		sel = 1
	}
	tail := c13Permute(s.order[fixed:], 1+(sel-1)%(fact-1))
	s.order = append(append([]int(nil), s.order[:fixed]...), tail...)
}

// indexedBranches is the branch list handed to the indexer, the model tree and
// the head commit of each.
func (s *c13State) indexedBranches() ([]string, []c13Tree, []plumbing.Hash) {
	var names []string
	var trees []c13Tree
	var heads []plumbing.Hash
	if s.c.IndexHEAD {
		names = append(names, "HEAD")
		trees = append(trees, s.cur[s.c.HeadIdx])
		heads = append(heads, s.heads[s.c.HeadIdx])
	}
	for i, b := range s.c.Branches {
		names = append(names, b)
		trees = append(trees, s.cur[i])
		heads = append(heads, s.heads[i])
	}
	if len(s.order) != len(names) {
		s.order = make([]int, len(names))
		for i := range s.order {
			s.order[i] = i
		}
	}
	on, ot, oh := make([]string, len(names)), make([]c13Tree, len(names)), make([]plumbing.Hash, len(names))
	for i, j := range s.order {
		on[i], ot[i], oh[i] = names[j], trees[j], heads[j]
	}
	return on, ot, oh
}

func c13CheckBranch(files []zoekt.FileMatch, branch string, want c13Tree, where string) error {
	got := map[string][]string{}
	for i := range files {
		got[files[i].FileName] = append(got[files[i].FileName], string(files[i].Content))
	}
	var missing, stale, dup, wrong []string
	for p, f := range want {
		cs := got[p]
		switch {
		case len(cs) == 0:
			missing = append(missing, p)
		case len(cs) > 1:
			dup = append(dup, fmt.Sprintf("%s x%d", p, len(cs)))
		default:
			if exp := vgExpectContent(p, []byte(f.Content), 0, nil); cs[0] != exp {
				wrong = append(wrong, fmt.Sprintf("%s: got %s want %s", p, vgShort(cs[0]), vgShort(exp)))
			}
		}
	}
	for p := range got {
		if _, ok := want[p]; !ok {
			stale = append(stale, p)
		}
	}
	if len(missing)+len(stale)+len(dup)+len(wrong) == 0 {
		return nil
	}
	sort.Strings(missing)
	sort.Strings(stale)
	sort.Strings(dup)
	sort.Strings(wrong)
	kind := "content"
	switch {
	case len(missing) > 0:
		kind = "missing-path"
	case len(stale) > 0:
		kind = "stale-path"
	case len(dup) > 0:
		kind = "duplicate-path"
	}
	return kit.Fail(kind, "%s: branch %q: head tree has %d path(s); missing %q, not in head %q, more than once %q, wrong content %q",
		where, branch, len(want), missing, stale, dup, wrong)
}

func runC13(rec *kit.Recorder, c c13Case) error {
	if len(c.Branches) < 1 || c.HeadIdx < 0 || c.HeadIdx >= len(c.Branches) {
		return fmt.Errorf("malformed case")
	}
	tmp, err := os.MkdirTemp("", "c13")
	if err != nil {
		return err
	}
	defer os.RemoveAll(tmp)
	repoDir := filepath.Join(tmp, "repo.git")
	indexDir := filepath.Join(tmp, "index")
	if err := os.MkdirAll(indexDir, 0o755); err != nil {
		return err
	}
	g, err := vgInit(repoDir, c.Branches[c.HeadIdx])
	if err != nil {
		return err
	}
	if c.CfgID {
		if err := g.AppendConfig("[zoekt]\n\tname = repository\n\trepoid = 7\n"); err != nil {
			return err
		}
	}
	nb := len(c.Branches)
	s := &c13State{c: &c, g: g, cur: make([]c13Tree, nb), hist: make([][]c13Tree, nb), heads: make([]plumbing.Hash, nb), blobs: map[string]plumbing.Hash{}, parent: map[plumbing.Hash]plumbing.Hash{}}
	// every branch starts at the same root commit
	init := c13Tree{}
	for _, f := range c.Init {
		init.set(f.Path, c13File{Content: f.Content, Exec: f.Exec})
	}
	for b := 0; b < nb; b++ {
		s.cur[b] = c13Tree{}
	}
	if err := s.commit(0, init, "root"); err != nil {
		return err
	}
	for b := 1; b < nb; b++ {
		if err := g.SetBranch(c.Branches[b], s.heads[0]); err != nil {
			return err
		}
		s.heads[b] = s.heads[0]
		s.cur[b] = init.clone()
		s.hist[b] = append(s.hist[b], init.clone())
	}

	lg, restore := vgCaptureLog()
	defer restore()
	os.Setenv("ZOEKT_DISABLE_CATFILE_BATCH", "true")

	var labels []string
	labels = append(labels, fmt.Sprintf("branches:%d", nb), "via:"+c.Via)
	if c.IndexHEAD {
		labels = append(labels, "head-indexed")
	}
	if c.ShardMax > 0 {
		labels = append(labels, "shardmax:small")
	}
	if c.Threshold > 0 {
		labels = append(labels, "threshold:set")
	}
	var lastIdx []c13Tree                  // model at the previous indexing run (named branches)
	var lastHeads map[string]plumbing.Hash // indexed name -> commit at the previous indexing run
	var lastNames []string                 // branch list of the previous indexing run
	nontrivial := false
	runs, realDeltas := 0, 0
	for si, st := range c.Steps {
		if st.Move != nil {
			l, err := s.move(*st.Move)
			if err != nil {
				return err
			}
			labels = append(labels, l)
			continue
		}
		if st.Index == "" {
			l, err := s.apply(st, si)
			if err != nil {
				return err
			}
			labels = append(labels, l...)
			continue
		}
		s.indexedBranches() // sets up the order on first use
		if st.Reorder != 0 {
			s.reorder(st.Reorder)
		}
		names, trees, heads := s.indexedBranches()
		// Is the list a reordering of the previous run's list? Do two indexed
		// names resolve to one commit now while their previously indexed
		// commits differ?
		reordered := lastNames != nil && strings.Join(lastNames, "\x00") != strings.Join(names, "\x00")
		joined := false
		if lastHeads != nil {
			for i := range names {
				for j := i + 1; j < len(names); j++ {
					if heads[i] == heads[j] && lastHeads[names[i]] != lastHeads[names[j]] {
						joined = true
					}
				}
			}
		}
		lastNames = names
		lastHeads = map[string]plumbing.Hash{}
		for i, n := range names {
			lastHeads[n] = heads[i]
		}
		bo := index.Options{
			IndexDir:              indexDir,
			RepositoryDescription: zoekt.Repository{Name: "repository"},
			DisableCTags:          true,
			ShardMax:              c.ShardMax,
		}
		bo.SetDefaults()
		bo.IsDelta = st.Index == "delta"
		opts := gitindex.Options{
			RepoDir:                           repoDir,
			BuildOptions:                      bo,
			Branches:                          names,
			DeltaShardNumberFallbackThreshold: c.Threshold,
		}
		shardsBefore := len(vgShardFiles(indexDir))
		lg.Take()
		where := fmt.Sprintf("step %d (%s index run #%d)", si, st.Index, runs+1)
		if err := kit.Guard(func() error {
			_, err := gitindex.IndexGitRepo(opts)
			return err
		}); err != nil {
			if d, ok := err.(*kit.Discrepancy); ok {
				return d
			}
			return kit.Fail("index-error", "%s: IndexGitRepo: %v", where, err)
		}
		logText := lg.Take()
		runs++
		kind := "run:full"
		realDelta := false
		if st.Index == "delta" {
			if strings.Contains(logText, "falling back to normal build") {
				kind = "run:delta-fallback"
			} else {
				kind = "run:delta"
				realDelta = true
				realDeltas++
			}
		}
		labels = append(labels, kind)
		if reordered {
			labels = append(labels, kind+":branch-list-reordered")
		}
		if joined {
			labels = append(labels, kind+":branches-joined-on-one-commit")
			if realDelta {
				nontrivial = true
			}
		}
		shardsAfter := len(vgShardFiles(indexDir))
		if shardsAfter > 1 {
			labels = append(labels, "multi-shard-index")
		}
		if realDelta && shardsAfter == shardsBefore {
			labels = append(labels, "delta:no-new-shard")
		}
		// what changed since the previous run, and is a changed path on >= 2 branches?
		if lastIdx != nil {
			changed := map[string]bool{}
			for b := 0; b < nb; b++ {
				for p, f := range s.cur[b] {
					if w, ok := lastIdx[b][p]; !ok || w != f {
						changed[p] = true
					}
				}
				for p := range lastIdx[b] {
					if _, ok := s.cur[b][p]; !ok {
						changed[p] = true
					}
				}
			}
			multi := false
			for p := range changed {
				n := 0
				for b := 0; b < nb; b++ {
					_, a := s.cur[b][p]
					_, o := lastIdx[b][p]
					if a || o {
						n++
					}
				}
				if n >= 2 {
					multi = true
				}
			}
			if realDelta {
				switch {
				case multi:
					labels = append(labels, "delta:changed-path-on-2+-branches")
					nontrivial = true
				case len(changed) > 0:
					labels = append(labels, "delta:changed-single-branch-paths")
				default:
					labels = append(labels, "delta:nothing-changed")
				}
			}
		}
		lastIdx = make([]c13Tree, nb)
		for b := 0; b < nb; b++ {
			lastIdx[b] = s.cur[b].clone()
		}
		// the oracle
		if err := kit.Guard(func() error {
			ix, err := vgOpen(indexDir, c.Via)
			if err != nil {
				return kit.Fail("open-error", "%s: opening the index: %v", where, err)
			}
			defer ix.Close()
			for i, name := range names {
				files, err := ix.Search(&query.Branch{Pattern: name, Exact: true})
				if err != nil {
					if d, ok := err.(*kit.Discrepancy); ok {
						return d
					}
					return kit.Fail("search-error", "%s: branch %q: %v", where, name, err)
				}
				if err := c13CheckBranch(files, name, trees[i], where); err != nil {
					return err
				}
			}
			return nil
		}); err != nil {
			return err
		}
	}
	if realDeltas >= 2 {
		labels = append(labels, "history:2+real-deltas")
	}
	kb, _ := json.Marshal(c)
	rec.Eval(string(kb), nontrivial, labels...)
	rec.Add("index_runs", runs)
	rec.Add("real_delta_runs", realDeltas)
	rec.Sample(c, nontrivial)
	return nil
}

func TestVerif_C13(t *testing.T) {
	rec := kit.Open(t, "C13",
		"rapid-generated histories over 2-3 branches of a deterministic git repository (go-git plumbing objects, fixed identity and dates): 3-14 steps, each a commit step (1-3 changes: add/modify/delete/rename/chmod/revert/copy-from-other-branch/same-on-all-branches/sync-tree/move-between-branches/empty commit), a ref move (in ~35% of the rounds a branch is pointed at the head commit of another branch - fast-forward or reset, no new commit - so that two indexed branches resolve to one commit while their previously indexed versions differ) or a full/delta indexing run (~15% of the runs hand the indexer the same named branches in another order than the run before - HEAD, when indexed, stays in front; the new order stays in force); after every run each indexed branch is searched (branch=b exact, Whole=true) and compared with the model head tree; a case = one history; non-trivial = some delta run that really ran as a delta build (no fallback in the log) follows a change to a path present on >= 2 branches or finds two indexed branches joined on one commit that were indexed at different commits before; distinct by hash of the history",
		"ignore files and submodules are left to C14 (delta builds fall back to normal builds on them)",
		"index options are constant within a history (changing them makes a delta build fall back, which is a full build)",
		"a delta run whose branch list is ordered differently from the previous run's is expected to behave like any other run (the unchanged indexer falls back to a full build there); the oracle is the same per-branch comparison",
		"whether a requested delta build fell back to a normal build is read from the indexer's log line",
		"HEAD, when indexed, is always listed first: a branch query for HEAD selects the first listed branch (documented: 'HEAD selects the default branch'), so with HEAD further back even a fresh full build shows the first branch under that name",
		"documents shorter than 3 bytes show the documented NOT-INDEXED explanation instead of their content",
	)
	kit.Property(t, rec, genC13, func(c c13Case) error { return runC13(rec, c) })
}
