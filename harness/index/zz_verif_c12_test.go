//go:build verif

package index_test

// C12: a killed indexer leaves the old or the new index, never a mix.
//
// The sources under test (index/builder.go, index/tombstones.go, index/merge.go)
// are compiled from copies in which os.Rename/Remove/CreateTemp/… are redirected
// to internal/verifkit/fsx (see /verif/tools/fsrewrite). One case =
// (old index, new build, options). The new build is run
//   - once with a snapshot of the index directory before every mutating
//     filesystem operation (= what kill -9 before that system call leaves), and
//   - once more per rename / remove / temp-file creation with that one operation
//     failing with EIO (quick tier: of the temp-file creations the first and the
//     last one per file class, i.e. also the shard that Finish itself flushes).
// A new build may also be one that cannot succeed without any injected fault:
// one of its documents names a branch the repository does not have, so the
// shard holding it fails where it is built (inside Add or Finish when serial, in
// a background goroutine when Parallelism > 1) after earlier shards were
// written successfully. Such a run must report the error and every crash point
// and the final state must show the old index.
// Every snapshot and every final state is loaded the way the web server loads it
// (search.NewDirectorySearcher) and the repository's signature is compared with
// the signature of the old and of the new index.

import (
	"context"
	"crypto/sha1"
	"encoding/json"
	"fmt"
	"io"
	"log"
	"os"
	"path/filepath"
	"sort"
	"strings"
	"syscall"
	"testing"
	"time"

	"pgregory.net/rapid"

	"github.com/sourcegraph/zoekt"
	"github.com/sourcegraph/zoekt/index"
	"github.com/sourcegraph/zoekt/internal/verifkit/fsx"
	"github.com/sourcegraph/zoekt/internal/verifkit/kit"
	"github.com/sourcegraph/zoekt/query"
	"github.com/sourcegraph/zoekt/search"
)

// ---------------------------------------------------------------------------
// helpers shared by the fault checks of this package (C12, C17)

// faultsActiveKnown returns the known-finding ids that are listed for the
// property in the file named by VERIF_KNOWN.
func faultsActiveKnown(property string) map[string]bool {
	out := map[string]bool{}
	b, err := os.ReadFile(os.Getenv("VERIF_KNOWN"))
	if err != nil {
		return out
	}
	var kf struct {
		Findings []struct {
			Property string `json:"property"`
			ID       string `json:"id"`
		} `json:"findings"`
	}
	if json.Unmarshal(b, &kf) == nil {
		for _, f := range kf.Findings {
			if f.Property == property {
				out[f.ID] = true
			}
		}
	}
	return out
}

// faultsConclude turns the discrepancies collected while judging all crash and
// fail points of one case into the single error a property function returns.
// A discrepancy that is not a listed known finding wins. Otherwise every known
// finding id seen is counted once for the case.
func faultsConclude(rec *kit.Recorder, active map[string]bool, c any, ds []*kit.Discrepancy) error {
	for _, d := range ds {
		if d.Known == "" || !active[d.Known] {
			return d
		}
	}
	var uniq []*kit.Discrepancy
	seen := map[string]bool{}
	for _, d := range ds {
		rec.Label("known:" + d.Known)
		if !seen[d.Known] {
			seen[d.Known] = true
			uniq = append(uniq, d)
		}
	}
	for i, d := range uniq {
		if i == len(uniq)-1 {
			return d
		}
		rec.Judge(c, d)
	}
	return nil
}

func isFinalName(p string) bool {
	return strings.HasSuffix(p, ".zoekt") || strings.HasSuffix(p, ".meta")
}

// finalState maps every final-name file (*.zoekt, *.meta) of dir to a content hash.
func finalState(dir string) map[string]string {
	out := map[string]string{}
	for _, n := range fsx.Names(dir) {
		if !isFinalName(n) {
			continue
		}
		b, err := os.ReadFile(filepath.Join(dir, n))
		if err != nil {
			out[n] = "unreadable: " + err.Error()
			continue
		}
		out[n] = fmt.Sprintf("%x", sha1.Sum(b))
	}
	return out
}

// unexplainedFinalChange compares the final-name files before and after one
// mutating operation. Files under final names may only appear or change as the
// target of an intercepted rename and only disappear through an intercepted
// remove/rename: that is what makes it sound not to intercept writes through
// *os.File. It returns "" if the change is explained by op.
func unexplainedFinalChange(before, after map[string]string, op *fsx.Op) string {
	var bad []string
	for n, h := range after {
		if before[n] == h {
			continue
		}
		if op != nil && !op.Failed && op.Kind == fsx.KRename && filepath.Base(op.Path2) == n {
			continue
		}
		how := "without an intercepted operation"
		if op != nil {
			how = "by " + op.Ident()
		}
		if _, ok := before[n]; ok {
			bad = append(bad, fmt.Sprintf("%s changed content %s", n, how))
		} else {
			bad = append(bad, fmt.Sprintf("%s appeared %s", n, how))
		}
	}
	for n := range before {
		if _, ok := after[n]; ok {
			continue
		}
		if op != nil && !op.Failed && (op.Kind == fsx.KRemove || op.Kind == fsx.KRemoveAll || op.Kind == fsx.KRename) && filepath.Base(op.Path) == n {
			continue
		}
		bad = append(bad, fmt.Sprintf("%s disappeared", n))
	}
	sort.Strings(bad)
	return strings.Join(bad, "; ")
}

func stateKey(m map[string]string) string {
	var sb strings.Builder
	for _, k := range kit.SortedKeys(m) {
		sb.WriteString(k + "=" + m[k] + ";")
	}
	return sb.String()
}

// ---------------------------------------------------------------------------
// the case

const (
	c12Repo     = "github.com/verif/c12"
	c12RepoID   = 7
	c12ShardMax = 400
	// c12Ghost is a branch no generated repository has: a document naming it
	// cannot be indexed (ShardBuilder.Add: "no branch found").
	c12Ghost = "ghost"
)

type c12Doc struct {
	Name     string
	Content  string
	Big      bool // padded beyond ShardMax: adding it flushes the shard
	Branches []string
}

func (d c12Doc) content() string {
	if d.Big {
		return d.Content + strings.Repeat(" pad", 110)
	}
	return d.Content
}

type c12Other struct {
	Name string
	ID   uint32
	Docs []c12Doc
}

type c12Case struct {
	// Kind: "full" a full build replaces the old simple shards; "delta" a delta
	// build stacks shards on the old ones and rewrites their .meta sidecars;
	// "sidecar" a delta build without documents (metadata-only update: branch
	// versions, metadata, file tombstones); "compound" a full build with
	// ShardMerging replaces a repository that lives in a compound shard
	// (new simple shards + tombstone in the compound shard's sidecar).
	Kind        string
	Branches    []string
	Parallelism int

	OldGroups   [][]c12Doc // one group of documents per old shard
	OldVersions []string
	OldMeta     string
	// OldSidecars: the old index already went through a metadata-only delta
	// build, i.e. every old shard has a .meta sidecar.
	OldSidecars   bool
	OldTombstones []string

	// NewGroups: documents of the new build, one group per new shard. A document
	// whose Branches name a branch that is not in Branches makes the build fail
	// in the shard of its group (see c12FailingGroup).
	NewGroups   [][]c12Doc
	NewVersions []string
	NewMeta     string
	Tombstones  []string // delta/sidecar: paths marked as changed or removed

	Others []c12Other // compound: the other members of the compound shard
}

var c12Names = []string{"a.txt", "b.go", "c.md", "dir/d.txt", "e.txt", "f.go", "g.txt", "dir/h.go", "i.txt", "j.md", "k.txt", "l.go"}
var c12Words = []string{"alpha", "beta", "gamma", "delta", "needle", "foo", "bar", "quux"}

func c12GenGroups(g kit.G, n int, tag string, branches []string, avoid map[string]bool, prefer []string) [][]c12Doc {
	used := map[string]bool{}
	var groups [][]c12Doc
	for i := 0; i < n; i++ {
		var grp []c12Doc
		k := g.Int(1, 3, "ndocs")
		for j := 0; j < k; j++ {
			var name string
			for try := 0; try < 8 && name == ""; try++ {
				var cand string
				if len(prefer) > 0 && g.Bool(50, "prefer") {
					cand = kit.Pick(g, prefer, "pname")
				} else {
					cand = kit.Pick(g, c12Names, "name")
				}
				if !used[cand] && !avoid[cand] {
					name = cand
				}
			}
			if name == "" {
				continue
			}
			used[name] = true
			d := c12Doc{Name: name, Content: fmt.Sprintf("%s %s %s %s", tag, name, kit.Pick(g, c12Words, "w1"), kit.Pick(g, c12Words, "w2"))}
			for _, b := range branches {
				if g.Bool(70, "onbranch") {
					d.Branches = append(d.Branches, b)
				}
			}
			if len(d.Branches) == 0 {
				d.Branches = []string{branches[0]}
			}
			grp = append(grp, d)
		}
		if len(grp) == 0 {
			// the pool is exhausted: a generated unique name keeps the shard count
			name := fmt.Sprintf("%s-%d.txt", tag, i)
			grp = append(grp, c12Doc{Name: name, Content: tag + " " + name + " filler", Branches: []string{branches[0]}})
		}
		// the last document of every group but the final one is big, so that
		// Builder.Add flushes exactly there; the final group is flushed by
		// Finish (or by Add when its last document is big, too).
		if i < n-1 || g.Bool(25, "lastbig") {
			grp[len(grp)-1].Big = true
		}
		groups = append(groups, grp)
	}
	return groups
}

func c12Gen(rt *rapid.T) c12Case {
	g := kit.G{T: rt}
	c := c12Case{}
	c.Kind = kit.Pick(g, []string{"full", "full", "full", "delta", "delta", "sidecar", "compound", "compound"}, "kind")
	c.Branches = []string{"HEAD"}
	if g.Bool(50, "twobranches") {
		c.Branches = append(c.Branches, "dev")
	}
	c.Parallelism = kit.Pick(g, []int{1, 1, 1, 2, 4}, "par")
	nOld := g.Int(1, 3, "oldshards")
	if c.Kind == "compound" {
		nOld = 1 // the repository is one member of one compound shard
	}
	c.OldGroups = c12GenGroups(g, nOld, "old", c.Branches, nil, nil)
	for i := range c.Branches {
		c.OldVersions = append(c.OldVersions, fmt.Sprintf("o%d", i))
		if g.Bool(75, "newversion") {
			c.NewVersions = append(c.NewVersions, fmt.Sprintf("n%d", i))
		} else {
			c.NewVersions = append(c.NewVersions, fmt.Sprintf("o%d", i))
		}
	}
	c.OldMeta = "m-old"
	c.NewMeta = kit.Pick(g, []string{"m-old", "m-new"}, "newmeta")
	var oldNames []string
	for _, grp := range c.OldGroups {
		for _, d := range grp {
			oldNames = append(oldNames, d.Name)
		}
	}
	if c.Kind != "compound" && g.Bool(35, "oldsidecars") {
		c.OldSidecars = true
		if g.Bool(50, "oldtomb") {
			c.OldTombstones = []string{kit.Pick(g, oldNames, "oldtombname")}
		}
	}
	switch c.Kind {
	case "full", "compound":
		c.NewGroups = c12GenGroups(g, g.Int(1, 3, "newshards"), "new", c.Branches, nil, oldNames)
	case "delta":
		c.NewGroups = c12GenGroups(g, g.Int(1, 2, "deltashards"), "new", c.Branches, nil, oldNames)
		// what a delta indexer does: every path it re-adds is marked as changed
		seen := map[string]bool{}
		for _, grp := range c.NewGroups {
			for _, d := range grp {
				for _, o := range oldNames {
					if o == d.Name && !seen[o] {
						seen[o] = true
						c.Tombstones = append(c.Tombstones, o)
					}
				}
			}
		}
		if g.Bool(40, "deleted") {
			n := kit.Pick(g, oldNames, "deletedname")
			if !seen[n] {
				c.Tombstones = append(c.Tombstones, n)
			}
		}
	case "sidecar":
		if g.Bool(60, "deleted") {
			c.Tombstones = []string{kit.Pick(g, oldNames, "deletedname")}
		}
	}
	// A build that cannot succeed: one document of one new shard names a branch
	// the repository does not have (in addition to or instead of its own). The
	// last shard is preferred: it is the one Finish flushes itself.
	if len(c.NewGroups) > 0 && g.Bool(25, "ghostbranch") {
		gi := len(c.NewGroups) - 1
		if g.Bool(40, "ghostanyshard") {
			gi = g.Int(0, len(c.NewGroups)-1, "ghostshard")
		}
		d := &c.NewGroups[gi][g.Int(0, len(c.NewGroups[gi])-1, "ghostdoc")]
		if g.Bool(50, "ghostonly") {
			d.Branches = []string{c12Ghost}
		} else {
			d.Branches = append(d.Branches, c12Ghost)
		}
	}
	if c.Kind == "compound" {
		n := g.Int(1, 2, "others")
		for i := 0; i < n; i++ {
			o := c12Other{Name: fmt.Sprintf("github.com/verif/other%d", i), ID: uint32(20 + i)}
			for j := 0; j < g.Int(1, 2, "otherdocs"); j++ {
				o.Docs = append(o.Docs, c12Doc{Name: c12Names[j], Content: fmt.Sprintf("other%d %s %s", i, c12Names[j], kit.Pick(g, c12Words, "ow")), Branches: []string{"HEAD"}})
			}
			c.Others = append(c.Others, o)
		}
	}
	return c
}

// ---------------------------------------------------------------------------
// building

func c12Options(dir string, c *c12Case, versions []string, meta string) index.Options {
	o := index.Options{
		IndexDir:     dir,
		ShardMax:     c12ShardMax,
		Parallelism:  c.Parallelism,
		DisableCTags: true,
		RepositoryDescription: zoekt.Repository{
			Name:      c12Repo,
			ID:        c12RepoID,
			RawConfig: map[string]string{"repoid": fmt.Sprint(c12RepoID)},
			Metadata:  map[string]string{"k": meta},
		},
	}
	for i, b := range c.Branches {
		o.RepositoryDescription.Branches = append(o.RepositoryDescription.Branches, zoekt.RepositoryBranch{Name: b, Version: versions[i]})
	}
	return o
}

// c12Build runs one build the way the indexers do: NewBuilder, mark changed
// paths, Add every document, Finish (also after a failed Add).
func c12Build(o index.Options, groups [][]c12Doc, tombstones []string) error {
	b, err := index.NewBuilder(o)
	if err != nil {
		return err
	}
	for _, p := range tombstones {
		b.MarkFileAsChangedOrRemoved(p)
	}
	var addErr error
add:
	for _, grp := range groups {
		for _, d := range grp {
			if addErr = b.Add(index.Document{Name: d.Name, Content: []byte(d.content()), Branches: append([]string(nil), d.Branches...)}); addErr != nil {
				break add
			}
		}
	}
	if err := b.Finish(); err != nil {
		return err
	}
	return addErr
}

// c12BuildOld creates the old index in dir (no interception).
func c12BuildOld(dir string, c *c12Case) error {
	if c.Kind == "compound" {
		stage, err := os.MkdirTemp(filepath.Dir(dir), "c12stage")
		if err != nil {
			return err
		}
		defer os.RemoveAll(stage)
		o := c12Options(stage, c, c.OldVersions, c.OldMeta)
		o.ShardMax = 1 << 20 // one shard
		if err := c12Build(o, c.OldGroups, nil); err != nil {
			return err
		}
		for _, ot := range c.Others {
			oo := index.Options{IndexDir: stage, DisableCTags: true, RepositoryDescription: zoekt.Repository{
				Name: ot.Name, ID: ot.ID, RawConfig: map[string]string{"repoid": fmt.Sprint(ot.ID)},
				Branches: []zoekt.RepositoryBranch{{Name: "HEAD", Version: "x"}},
			}}
			if err := c12Build(oo, [][]c12Doc{ot.Docs}, nil); err != nil {
				return err
			}
		}
		var files []index.IndexFile
		for _, n := range fsx.Names(stage) {
			f, err := os.Open(filepath.Join(stage, n))
			if err != nil {
				return err
			}
			defer f.Close()
			inf, err := index.NewIndexFile(f)
			if err != nil {
				return err
			}
			defer inf.Close()
			files = append(files, inf)
		}
		tmp, dst, err := index.Merge(dir, files...)
		if err != nil {
			return err
		}
		return os.Rename(tmp, dst)
	}
	versions := c.OldVersions
	meta := c.OldMeta
	if c.OldSidecars {
		versions = make([]string, len(c.OldVersions))
		for i := range versions {
			versions[i] = fmt.Sprintf("pre%d", i)
		}
		meta = "m-pre"
	}
	if err := c12Build(c12Options(dir, c, versions, meta), c.OldGroups, nil); err != nil {
		return err
	}
	if c.OldSidecars {
		o := c12Options(dir, c, c.OldVersions, c.OldMeta)
		o.IsDelta = true
		if err := c12Build(o, nil, c.OldTombstones); err != nil {
			return err
		}
	}
	return nil
}

// c12RunNew runs the new build in dir.
func c12RunNew(dir string, c *c12Case) error {
	o := c12Options(dir, c, c.NewVersions, c.NewMeta)
	switch c.Kind {
	case "delta", "sidecar":
		o.IsDelta = true
	case "compound":
		o.ShardMerging = true
	}
	return c12Build(o, c.NewGroups, c.Tombstones)
}

// c12FailingGroup returns the index of the first new shard that cannot be built
// because one of its documents names a branch the repository does not have
// (-1: the build can succeed).
func c12FailingGroup(c *c12Case) int {
	has := map[string]bool{}
	for _, b := range c.Branches {
		has[b] = true
	}
	for i, grp := range c.NewGroups {
		for _, d := range grp {
			for _, b := range d.Branches {
				if !has[b] {
					return i
				}
			}
		}
	}
	return -1
}

// ---------------------------------------------------------------------------
// observation: what a searcher that loads the directory sees

type c12Sig struct {
	Listed     int      // list entries for the repository
	Docs       []string // name | branches | version of first branch | content
	ShardMeta  []string // distinct (branches+versions, metadata) over the shards holding the repository
	Unloadable []string // final-name shard files that do not load
	Others     []string // documents and list entries of every other repository
}

func (s *c12Sig) repoKey() string {
	b, _ := json.Marshal([]any{s.Listed, s.Docs, s.ShardMeta, s.Unloadable})
	return string(b)
}

func (s *c12Sig) brief() string {
	var docs []string
	for _, d := range s.Docs {
		f := strings.SplitN(d, "\x00", 4)
		c := f[3]
		if len(c) > 28 {
			c = c[:28] + "…"
		}
		docs = append(docs, fmt.Sprintf("%s[%s@%s]=%q", f[0], f[1], f[2], c))
	}
	return fmt.Sprintf("listed=%d docs=%v meta=%v unloadable=%v", s.Listed, docs, s.ShardMeta, s.Unloadable)
}

func c12Observe(dir string) (*c12Sig, error) {
	ctx := context.Background()
	// NewDirectorySearcher only fails for reasons of the environment (it needs
	// an inotify instance; the machine-wide limit is small and shared with
	// other test processes): retry, then give up as "cannot check" rather
	// than blaming the code under test.
	var ss zoekt.Streamer
	var err error
	for try := 0; ; try++ {
		ss, err = search.NewDirectorySearcher(dir)
		if err == nil {
			break
		}
		if try == 20 {
			fmt.Fprintf(os.Stderr, "cannot check: search.NewDirectorySearcher(%s): %v\n", dir, err)
			os.Exit(3)
		}
		time.Sleep(250 * time.Millisecond)
	}
	defer ss.Close()
	sig := &c12Sig{}
	res, err := ss.Search(ctx, &query.Const{Value: true}, &zoekt.SearchOptions{Whole: true})
	if err != nil {
		return nil, fmt.Errorf("search: %w", err)
	}
	if res.Stats.Crashes > 0 {
		return nil, fmt.Errorf("search: %d crashed shard(s)", res.Stats.Crashes)
	}
	for _, f := range res.Files {
		line := strings.Join([]string{f.FileName, strings.Join(f.Branches, ","), f.Version, string(f.Content)}, "\x00")
		if f.Repository == c12Repo {
			sig.Docs = append(sig.Docs, line)
		} else {
			sig.Others = append(sig.Others, f.Repository+"\x00"+line)
		}
	}
	rl, err := ss.List(ctx, &query.Const{Value: true}, &zoekt.ListOptions{Field: zoekt.RepoListFieldRepos})
	if err != nil {
		return nil, fmt.Errorf("list: %w", err)
	}
	for _, e := range rl.Repos {
		if e.Repository.Name == c12Repo {
			sig.Listed++
		} else {
			sig.Others = append(sig.Others, "listed\x00"+e.Repository.Name)
		}
	}
	// Per-shard metadata of the files the loader loads. (The sharded List
	// reports the metadata of whichever shard answers first.)
	metas := map[string]bool{}
	shards, _ := filepath.Glob(filepath.Join(dir, "*.zoekt"))
	for _, p := range shards {
		repos, _, err := index.ReadMetadataPathAlive(p)
		if err != nil {
			sig.Unloadable = append(sig.Unloadable, filepath.Base(p)+": "+err.Error())
			continue
		}
		for _, r := range repos {
			if r.Name != c12Repo {
				continue
			}
			var sb strings.Builder
			for _, b := range r.Branches {
				sb.WriteString(b.Name + "@" + b.Version + " ")
			}
			for _, k := range kit.SortedKeys(r.Metadata) {
				sb.WriteString(k + "=" + r.Metadata[k] + " ")
			}
			metas[sb.String()] = true
		}
	}
	sig.ShardMeta = kit.SortedKeys(metas)
	sort.Strings(sig.Docs)
	sort.Strings(sig.Others)
	sort.Strings(sig.Unloadable)
	return sig, nil
}

// c12Model is the signature the new index must have according to the case
// alone (documents as added, versions and metadata as requested).
func c12Model(c *c12Case, newIndex bool) (docs []string, meta string) {
	ver := func(versions []string, d c12Doc) string {
		for i, b := range c.Branches {
			if b == d.Branches[0] {
				return versions[i]
			}
		}
		return "?"
	}
	line := func(versions []string, d c12Doc) string {
		return strings.Join([]string{d.Name, strings.Join(d.Branches, ","), ver(versions, d), d.content()}, "\x00")
	}
	dead := map[string]bool{}
	for _, p := range c.OldTombstones {
		dead[p] = true
	}
	versions, m, groups := c.OldVersions, c.OldMeta, [][]c12Doc(nil)
	keepOld := true
	if newIndex {
		versions, m, groups = c.NewVersions, c.NewMeta, c.NewGroups
		if c.Kind == "full" || c.Kind == "compound" {
			keepOld = false
		}
		for _, p := range c.Tombstones {
			dead[p] = true
		}
	}
	if keepOld {
		for _, grp := range c.OldGroups {
			for _, d := range grp {
				if !dead[d.Name] {
					docs = append(docs, line(versions, d))
				}
			}
		}
	}
	for _, grp := range groups {
		for _, d := range grp {
			docs = append(docs, line(versions, d))
		}
	}
	sort.Strings(docs)
	var sb strings.Builder
	for i, b := range c.Branches {
		sb.WriteString(b + "@" + versions[i] + " ")
	}
	sb.WriteString("k=" + m + " ")
	return docs, sb.String()
}

func c12SameModel(sig *c12Sig, docs []string, meta string) bool {
	return sig.Listed == 1 && len(sig.Unloadable) == 0 && len(sig.ShardMeta) == 1 && sig.ShardMeta[0] == meta &&
		strings.Join(sig.Docs, "\x01") == strings.Join(docs, "\x01")
}

// ---------------------------------------------------------------------------
// running and judging

// c12InstallStep reports whether op changes which final-name files the
// searcher sees: a rename onto a *.zoekt / *.meta name, or the removal of such
// a file. removal is true for the steps that take the superseded old copy
// away: removing a final-name file, or renaming a sidecar onto a compound
// shard's .meta (Finish tombstones the old copy there instead of deleting it).
func c12InstallStep(op fsx.Op) (step, removal bool) {
	switch op.Kind {
	case fsx.KRename:
		if !isFinalName(op.Path2) {
			return false, false
		}
		b := filepath.Base(op.Path2)
		return true, strings.HasPrefix(b, "compound-") && strings.HasSuffix(b, ".meta")
	case fsx.KRemove, fsx.KRemoveAll:
		return isFinalName(op.Path), isFinalName(op.Path)
	}
	return false, false
}

// c12Progress counts the install steps of a log that were executed before
// log position limit (limit < 0: all).
type c12Progress struct{ installs, removals int }

func c12Count(oplog []fsx.Op, limit int) (p c12Progress) {
	for _, op := range oplog {
		if limit >= 0 && op.Seq >= limit {
			break
		}
		if op.Failed || op.Err != "" {
			continue
		}
		if step, removal := c12InstallStep(op); step {
			if removal {
				p.removals++
			} else {
				p.installs++
			}
		}
	}
	return p
}

// c12InWindow is the recogniser of the known finding
// C12-multi-file-install-window: of a Finish with >= 2 install steps some but
// not all have been executed, in the order "every new file first, then take
// the old ones away" (a state in which an old copy was removed while a new
// file was still waiting to be renamed is NOT part of the known class).
func c12InWindow(done, total c12Progress) bool {
	d, t := done.installs+done.removals, total.installs+total.removals
	if t < 2 || d < 1 || d >= t {
		return false
	}
	return done.removals == 0 || done.installs == total.installs
}

type c12Snap struct {
	op    fsx.Op
	dir   string
	final map[string]string
}

type c12Judge struct {
	rec      *kit.Recorder
	c        *c12Case
	ckey     string
	labels   []string
	old, new *c12Sig
	sigCache map[string]*c12Sig // state key -> signature
	total    c12Progress        // install steps of the fault-free run
	ds       []*kit.Discrepancy
	nt       bool
}

func (j *c12Judge) observe(dir string, final map[string]string) (*c12Sig, error) {
	k := stateKey(final)
	if s, ok := j.sigCache[k]; ok {
		return s, nil
	}
	s, err := c12Observe(dir)
	if err != nil {
		return nil, err
	}
	j.sigCache[k] = s
	return s, nil
}

func (j *c12Judge) add(d *kit.Discrepancy) { j.ds = append(j.ds, d) }

func c12Copy(root, src, prefix string) (string, error) {
	dst, err := os.MkdirTemp(root, prefix)
	if err != nil {
		return "", err
	}
	return dst, fsx.CopyDir(src, dst)
}

func runC12(rec *kit.Recorder, active map[string]bool, c c12Case) error {
	if len(c.OldGroups) == 0 || len(c.Branches) == 0 || len(c.OldVersions) != len(c.Branches) || len(c.NewVersions) != len(c.Branches) {
		return nil // not a case of this generator
	}
	root, err := os.MkdirTemp("", "c12")
	if err != nil {
		return err
	}
	defer os.RemoveAll(root)
	initial := filepath.Join(root, "initial")
	if err := os.Mkdir(initial, 0o755); err != nil {
		return err
	}
	if err := c12BuildOld(initial, &c); err != nil {
		return kit.Fail("old-build", "building the old index failed: %v", err)
	}
	j := &c12Judge{rec: rec, c: &c, sigCache: map[string]*c12Sig{}}
	cb, _ := json.Marshal(c)
	j.ckey = fmt.Sprintf("%x", sha1.Sum(cb))
	j.old, err = j.observe(initial, finalState(initial))
	if err != nil {
		return kit.Fail("old-load", "%v", err)
	}
	if docs, meta := c12Model(&c, false); !c12SameModel(j.old, docs, meta) {
		return kit.Fail("old-model", "the old index does not show what was indexed: %s", j.old.brief())
	}
	nOld := len(c.OldGroups)
	pair := fmt.Sprintf("shards:%d->%d", nOld, len(c.NewGroups))
	switch c.Kind {
	case "delta", "sidecar":
		pair = fmt.Sprintf("shards:%d->%d+%d", nOld, nOld, len(c.NewGroups))
	case "compound":
		pair = fmt.Sprintf("shards:compound->%d", len(c.NewGroups))
	}
	j.labels = []string{"kind:" + c.Kind, pair, fmt.Sprintf("parallelism:%d", c.Parallelism)}
	if c.OldSidecars {
		j.labels = append(j.labels, "old-has-sidecars")
	}
	if fg := c12FailingGroup(&c); fg >= 0 {
		j.failingBuild(root, initial, fg)
		rec.Sample(c, j.nt)
		return faultsConclude(rec, active, c, j.ds)
	}

	// ---- reference run: snapshot before every mutating operation
	work, err := c12Copy(root, initial, "ref")
	if err != nil {
		return err
	}
	var snaps []c12Snap
	var snapErr error
	fsx.Start(fsx.Config{SnapshotBefore: func(op fsx.Op) {
		d := filepath.Join(root, fmt.Sprintf("snap%03d", len(snaps)))
		if err := fsx.CopyDir(work, d); err != nil && snapErr == nil {
			snapErr = err
		}
		snaps = append(snaps, c12Snap{op: op, dir: d, final: finalState(d)})
	}})
	refErr := kit.Guard(func() error { return c12RunNew(work, &c) })
	oplog := fsx.Stop()
	if snapErr != nil {
		return fmt.Errorf("snapshot: %w", snapErr)
	}
	if refErr != nil {
		if d, ok := refErr.(*kit.Discrepancy); ok {
			return d
		}
		return kit.Fail("new-build", "the new build failed without any injected fault: %v", refErr)
	}
	endFinal := finalState(work)
	j.new, err = j.observe(work, endFinal)
	if err != nil {
		return kit.Fail("new-load", "%v", err)
	}
	if docs, meta := c12Model(&c, true); !c12SameModel(j.new, docs, meta) {
		return kit.Fail("success-without-new-index", "Finish returned nil without any fault, but the directory does not show the new index: %s", j.new.brief())
	}
	if j.old.Others == nil {
		j.old.Others = []string{}
	}
	j.nt = j.old.repoKey() != j.new.repoKey() && len(snaps) >= 2

	j.total = c12Count(oplog, -1)
	rec.Eval(j.ckey+"|final", j.nt, append([]string{"mode:final"}, j.labels...)...)

	// final-name files only change through intercepted renames / removes
	prev := finalState(initial)
	var prevOp *fsx.Op
	for i := range snaps {
		if why := unexplainedFinalChange(prev, snaps[i].final, prevOp); why != "" {
			j.add(kit.Fail("final-name-written-in-place", "before %s: %s (a kill during that write leaves a torn file under a name the searcher loads)", snaps[i].op.Ident(), why))
			break
		}
		prev = snaps[i].final
		prevOp = &oplog[snaps[i].op.Seq]
	}
	if len(j.ds) == 0 {
		if why := unexplainedFinalChange(prev, endFinal, prevOp); why != "" {
			j.add(kit.Fail("final-name-written-in-place", "at the end: %s", why))
		}
	}

	// ---- every crash point
	pts := fsx.Points(work, oplog)
	for i := range snaps {
		s := &snaps[i]
		sig, err := j.observe(s.dir, s.final)
		lab := append([]string{"mode:crash", "op:" + s.op.Kind}, j.labels...)
		pkey := fmt.Sprintf("%s|crash|%s#%d", j.ckey, pts[s.op.Seq].ID, pts[s.op.Seq].Nth)
		if err != nil {
			j.rec.Eval(pkey, j.nt, lab...)
			j.add(kit.Fail("load-error", "kill before %s: %v", s.op.Ident(), err))
			continue
		}
		state := "mixed"
		switch sig.repoKey() {
		case j.old.repoKey():
			state = "old"
		case j.new.repoKey():
			state = "new"
		}
		j.rec.Eval(pkey, j.nt, append(lab, "crash-state:"+state)...)
		if strings.Join(sig.Others, "\x01") != strings.Join(j.old.Others, "\x01") {
			j.add(kit.Fail("other-repository-affected", "kill before %s: other repositories changed: %q, before %q", s.op.Ident(), sig.Others, j.old.Others))
			continue
		}
		if state != "mixed" {
			continue
		}
		done := c12Count(oplog, s.op.Seq)
		detail := fmt.Sprintf("kill before operation %d %s (%d+%d of %d+%d install+removal steps done; files %v): the searcher sees neither the old nor the new index: %s  [old: %s] [new: %s]",
			s.op.Seq, s.op.Ident(), done.installs, done.removals, j.total.installs, j.total.removals, kit.SortedKeys(s.final), sig.brief(), j.old.brief(), j.new.brief())
		if c12InWindow(done, j.total) {
			j.add(kit.FailKnown("C12-multi-file-install-window", "mixed-index", "%s", detail))
		} else {
			j.add(kit.Fail("mixed-index", "%s", detail))
		}
	}

	// ---- every rename / remove fails once; temp-file creations, too (quick
	// tier: only the first one per file class and the one with the greatest
	// name, a build costs ~0.1 s). The greatest name of the shard class is the
	// last shard of the build: unless its last document is big, that is the
	// shard Finish itself flushes, i.e. with Parallelism > 1 the shard whose
	// error is recorded by a background goroutine while Finish is waiting, after
	// earlier shards have been written successfully.
	classOf := func(op fsx.Op) string {
		return op.Kind + filepath.Ext(strings.TrimSuffix(fsx.NormBase(op.Path), ".*.tmp"))
	}
	lastOfClass := map[string]string{} // class -> greatest point identity
	for _, pt := range pts {
		switch pt.Op.Kind {
		case fsx.KCreateTemp, fsx.KCreate, fsx.KOpenFile, fsx.KWriteFile:
			if pt.Op.Mutating && !pt.Op.Failed {
				id := fmt.Sprintf("%s#%06d", pt.ID, pt.Nth)
				if cl := classOf(pt.Op); id > lastOfClass[cl] {
					lastOfClass[cl] = id
				}
			}
		}
	}
	seenClass := map[string]bool{}
	for _, pt := range pts {
		op := pt.Op
		if !op.Mutating || op.Failed {
			continue
		}
		switch op.Kind {
		case fsx.KRename, fsx.KRemove, fsx.KRemoveAll:
		case fsx.KCreateTemp, fsx.KCreate, fsx.KOpenFile, fsx.KWriteFile:
			class := classOf(op)
			if seenClass[class] && !rec.Thorough() && lastOfClass[class] != fmt.Sprintf("%s#%06d", pt.ID, pt.Nth) {
				continue
			}
			seenClass[class] = true
		default:
			continue
		}
		j.failOnce(root, initial, pt)
	}

	rec.Sample(c, j.nt)
	return faultsConclude(rec, active, c, j.ds)
}

// failOnce re-runs the new build from the initial state with the operation
// identified by (ID, Nth) failing with EIO.
func (j *c12Judge) failOnce(root, initial string, target fsx.Point) {
	c := j.c
	work, err := c12Copy(root, initial, "fail")
	if err != nil {
		j.add(kit.Fail("harness", "%v", err))
		return
	}
	defer os.RemoveAll(work)
	id, idSeq := target.ID, target.Nth
	fsx.Start(fsx.Config{FailAt: fsx.FailPoint(work, id, idSeq, syscall.EIO)})
	runErr := kit.Guard(func() error { return c12RunNew(work, c) })
	oplog := fsx.Stop()
	var failed *fsx.Op
	for i := range oplog {
		if oplog[i].Failed {
			failed = &oplog[i]
		}
	}
	lab := append([]string{"mode:fail", "fail:" + target.Op.Kind}, j.labels...)
	key := fmt.Sprintf("%s|fail|%s#%d", j.ckey, id, idSeq)
	if failed == nil {
		// the operation did not occur in this run (the order of work differs)
		j.rec.Eval(key, false, append(lab, "fail-not-reached")...)
		return
	}
	// the failure lies inside Finish's install phase: the failed operation is an
	// install step itself or follows one that was executed
	failedStep, _ := c12InstallStep(*failed)
	inInstallPhase := failedStep
	shardsWritten := 0
	for _, op := range oplog {
		if op.Seq >= failed.Seq || op.Failed || op.Err != "" {
			continue
		}
		if step, _ := c12InstallStep(op); step {
			inInstallPhase = true
		}
		if op.Kind == fsx.KCreateTemp && strings.HasSuffix(op.Path, ".zoekt.*.tmp") {
			shardsWritten++
		}
	}
	if failed.Kind == fsx.KCreateTemp && strings.HasSuffix(failed.Path, ".zoekt.*.tmp") {
		if shardsWritten > 0 {
			lab = append(lab, "fail:shard-temp-after-written-shards")
		} else {
			lab = append(lab, "fail:shard-temp-first")
		}
	}
	if d, ok := runErr.(*kit.Discrepancy); ok && d.Kind == "panic" {
		j.rec.Eval(key, j.nt, lab...)
		j.add(kit.Fail("panic", "with %s failing: %s", id, d.Detail))
		return
	}
	sig, err := c12Observe(work)
	if err != nil {
		j.rec.Eval(key, j.nt, lab...)
		j.add(kit.Fail("load-error", "after %s failed: %v", id, err))
		return
	}
	state := "mixed"
	switch sig.repoKey() {
	case j.old.repoKey():
		state = "old"
	case j.new.repoKey():
		state = "new"
	}
	res := "error"
	if runErr == nil {
		res = "nil"
	}
	j.rec.Eval(key, j.nt, append(lab, "fail-result:"+res+"/"+state)...)
	if strings.Join(sig.Others, "\x01") != strings.Join(j.old.Others, "\x01") {
		j.add(kit.Fail("other-repository-affected", "after %s failed: other repositories changed: %q, before %q", id, sig.Others, j.old.Others))
		return
	}
	if (runErr == nil && state == "new") || (runErr != nil && state != "mixed") {
		return
	}

	// classification
	done := c12Count(oplog, -1)
	removedAfter := false   // the final name whose rename failed was removed afterwards
	tombstoneAfter := false // the old copy in the compound shard was tombstoned afterwards
	for _, op := range oplog {
		if op.Seq > failed.Seq && !op.Failed && op.Err == "" {
			if (op.Kind == fsx.KRemove || op.Kind == fsx.KRemoveAll) && failed.Kind == fsx.KRename && op.Path == failed.Path2 {
				removedAfter = true
			}
			if step, removal := c12InstallStep(op); step && removal && op.Kind == fsx.KRename {
				tombstoneAfter = true
			}
		}
	}
	detail := fmt.Sprintf("%s failing with EIO: Finish returned %v; the searcher then sees %s index: %s  [old: %s] [new: %s] (files %v)",
		id, runErr, map[string]string{"old": "the old", "new": "the new", "mixed": "neither the old nor the new"}[state], sig.brief(), j.old.brief(), j.new.brief(), fsx.Names(work))
	_, failedRemoval := c12InstallStep(*failed)
	toCompoundMeta := failed.Kind == fsx.KRename && failedRemoval
	switch {
	case runErr == nil && toCompoundMeta:
		// SetTombstone swallows the error of its sidecar rename (the C17 defect
		// seen through Finish): success reported, the old copy is still alive.
		j.add(kit.FailKnown("C12-tombstone-rename-error-swallowed", "success-without-new-index", "%s", detail))
	case runErr == nil && c.Kind == "compound" && failed.Kind == fsx.KRename && strings.HasSuffix(failed.Path2, ".zoekt") && tombstoneAfter:
		// b.buildError = SetTombstone(...) overwrote the error of the failed rename
		j.add(kit.FailKnown("C12-tombstone-result-overwrites-builderror", "success-without-new-index", "%s", detail))
	case runErr == nil:
		j.add(kit.Fail("success-without-new-index", "%s", detail))
	case failed.Kind == fsx.KRename && strings.HasSuffix(failed.Path2, ".zoekt") && removedAfter:
		// Finish deleted the old shard whose replacement could not be renamed into place
		j.add(kit.FailKnown("C12-failed-rename-deletes-old", "mixed-index-after-error", "%s", detail))
	case runErr != nil && inInstallPhase && j.total.installs+j.total.removals >= 2 && done.installs+done.removals >= 1 && done.installs+done.removals < j.total.installs+j.total.removals:
		// Finish reported the error after executing some but not all steps of a
		// multi-file install (there is no roll-back): the same partial states as
		// a kill in the install window. (The order constraint of c12InWindow is
		// not applied: what Finish still removes after a failed step is either
		// the defect recognised above or the sidecar of a shard it did replace.)
		// Only a failure inside the install phase belongs to this class: when the
		// failed operation precedes every install step (a shard or sidecar temp
		// file that cannot be created) the build has failed before anything was
		// installed and Finish must not install the part that did succeed.
		j.add(kit.FailKnown("C12-multi-file-install-window", "mixed-index-after-error", "%s", detail))
	default:
		j.add(kit.Fail("mixed-index-after-error", "%s", detail))
	}
}

// failingBuild judges a new build that cannot succeed without any injected
// fault: the shard of group fg holds a document naming a branch the repository
// does not have. The run must report an error, and the searcher must see the
// old index at every crash point and at the end: there is no new index, and
// shards of the failed run that were written successfully must not be
// installed next to or over the old ones.
func (j *c12Judge) failingBuild(root, initial string, fg int) {
	c := j.c
	work, err := c12Copy(root, initial, "ref")
	if err != nil {
		j.add(kit.Fail("harness", "%v", err))
		return
	}
	var snaps []c12Snap
	var snapErr error
	fsx.Start(fsx.Config{SnapshotBefore: func(op fsx.Op) {
		d := filepath.Join(root, fmt.Sprintf("snap%03d", len(snaps)))
		if err := fsx.CopyDir(work, d); err != nil && snapErr == nil {
			snapErr = err
		}
		snaps = append(snaps, c12Snap{op: op, dir: d, final: finalState(d)})
	}})
	runErr := kit.Guard(func() error { return c12RunNew(work, c) })
	oplog := fsx.Stop()
	if snapErr != nil {
		j.add(kit.Fail("harness", "snapshot: %v", snapErr))
		return
	}
	written := 0 // shard temp files of the failing run that were created
	for _, op := range oplog {
		if op.Kind == fsx.KCreateTemp && !op.Failed && op.Err == "" && strings.HasSuffix(op.Path, ".zoekt.*.tmp") {
			written++
		}
	}
	// non-trivial: the failed run had something it could have installed
	j.nt = written >= 1 || c.Kind == "delta"
	where := "failing-shard:earlier"
	if fg == len(c.NewGroups)-1 {
		where = "failing-shard:last"
		if !c.NewGroups[fg][len(c.NewGroups[fg])-1].Big {
			where = "failing-shard:last-flushed-by-finish"
		}
	}
	labels := append([]string{"mode:failing-build", where, fmt.Sprintf("failing-build-shards-written:%d", written)}, j.labels...)
	pts := fsx.Points(work, oplog)
	what := fmt.Sprintf("a build whose shard %d of %d cannot be built (a document names branch %q, the repository has %v)", fg, len(c.NewGroups), c12Ghost, c.Branches)

	if d, ok := runErr.(*kit.Discrepancy); ok && d.Kind == "panic" {
		j.rec.Eval(j.ckey+"|failing|final", j.nt, labels...)
		j.add(kit.Fail("panic", "%s: %s", what, d.Detail))
		return
	}
	judge := func(key, when string, dir string, final map[string]string, lab []string) {
		sig, err := j.observe(dir, final)
		if err != nil {
			j.rec.Eval(key, j.nt, lab...)
			j.add(kit.Fail("load-error", "%s, %s: %v", what, when, err))
			return
		}
		state := "old"
		if sig.repoKey() != j.old.repoKey() {
			state = "mixed"
		}
		j.rec.Eval(key, j.nt, append(lab, "failing-build-state:"+state)...)
		if strings.Join(sig.Others, "\x01") != strings.Join(j.old.Others, "\x01") {
			j.add(kit.Fail("other-repository-affected", "%s, %s: other repositories changed: %q, before %q", what, when, sig.Others, j.old.Others))
			return
		}
		if state != "old" {
			j.add(kit.Fail("mixed-index-after-error", "%s, %s: the searcher does not see the old index (and there is no new one): %s  [old: %s] (files %v; the run returned: %v)",
				what, when, sig.brief(), j.old.brief(), kit.SortedKeys(final), runErr))
		}
	}
	endFinal := finalState(work)
	judge(j.ckey+"|failing|final", "after the run returned", work, endFinal, labels)
	if runErr == nil {
		j.add(kit.Fail("success-without-new-index", "%s returned nil from Add and Finish", what))
	}
	prev := finalState(initial)
	var prevOp *fsx.Op
	for i := range snaps {
		s := &snaps[i]
		if why := unexplainedFinalChange(prev, s.final, prevOp); why != "" {
			j.add(kit.Fail("final-name-written-in-place", "%s, before %s: %s", what, s.op.Ident(), why))
			break
		}
		prev = s.final
		prevOp = &oplog[s.op.Seq]
		judge(fmt.Sprintf("%s|failing|crash|%s#%d", j.ckey, pts[s.op.Seq].ID, pts[s.op.Seq].Nth),
			fmt.Sprintf("kill before operation %d %s", s.op.Seq, s.op.Ident()), s.dir, s.final,
			append([]string{"mode:failing-build-crash", "op:" + s.op.Kind}, labels[1:]...))
	}
}

func faultsSetup() {
	log.SetOutput(io.Discard) // zoekt logs every shard it writes or loads
}

func TestVerif_C12(t *testing.T) {
	faultsSetup()
	rec := kit.Open(t, "C12",
		"rapid-generated (old index, new build): old/new shard counts in {1,2,3}^2 forced by ShardMax, full builds, delta builds with file tombstones and branch-version changes, metadata-only delta builds, old shards with and without .meta sidecars, full builds replacing a member of a compound shard (ShardMerging), Parallelism 1, 2 or 4; about a quarter of the builds with documents cannot succeed because one document of one new shard (mostly the last, the one Finish itself flushes) names a branch the repository does not have, so that the error arises where that shard is built (a background goroutine when Parallelism > 1) after earlier shards were written. One evaluation = one judged crash point (directory snapshot before one intercepted mutating operation of the build) or one judged fail point (re-run with one rename/remove/temp-file creation failing with EIO; quick tier: of the temp-file creations the first and the last shard / sidecar) or, for a build that cannot succeed, its final state and each of its crash points (error required, old index required throughout). Non-trivial = old and new signature differ and the build has >= 2 crash points (failing build: at least one of its shards was written, or it is a delta build with sidecars to install); distinct by hash of (case, operation identity).",
		"only system calls made through package os in index/builder.go, index/tombstones.go, index/merge.go are crash/fail points; writes through *os.File are covered by the invariant that final-name files change only through intercepted renames",
		"a kill is modelled as the directory content before a system call (no torn directory entries, no lost writes after rename: no fsync modelling)",
		"signature = documents (name, content, branches, version of first branch) from Const(true)+Whole through search.NewDirectorySearcher, presence in List, per-shard branch versions and metadata via ReadMetadataPathAlive; index time and shard ids are not part of it",
		"rename order inside Finish follows Go map order: crash points are enumerated per concrete run and identified by (kind, normalised file names, ordinal)",
	)
	active := faultsActiveKnown("C12")
	kit.Property(t, rec, c12Gen, func(c c12Case) error { return runC12(rec, active, c) })
}
