//go:build verif

package index_test

// C37 — Symbol ranges derived from ctags are always valid.
//
// Generator: 1-3 file contents per case (mostly >= 15 lines; multi-byte text,
// CRLF, empty lines, with / without trailing newline) each with a list of
// ctags entries that is mostly derived from the content (a word that occurs
// on the chosen line) plus adversarial entries.  The documents of one case
// are converted one after the other by ONE converter value, as the real
// caller (index.parseSymbols) does, so the reused newline buffer is covered.
//
// Oracle: see c37CheckDoc.  Each entry carries its index in Kind, which the
// converter copies to the output metadata; that is how an output section is
// traced back to "its" entry and line.

import (
	"bytes"
	"fmt"
	"runtime/debug"
	"sort"
	"strings"
	"testing"
	"unicode/utf8"

	"pgregory.net/rapid"

	"github.com/sourcegraph/zoekt"
	"github.com/sourcegraph/zoekt/index"
	"github.com/sourcegraph/zoekt/internal/ctags"
	"github.com/sourcegraph/zoekt/internal/verifkit/kit"
)

type c37Entry struct {
	Name kit.Text
	Line int
	How  string // how the generator made it (evidence label only)
}

type c37Doc struct {
	Content kit.Text
	Entries []c37Entry
}

type c37Case struct {
	Docs []c37Doc
}

// ---------------------------------------------------------------- generator

var c37Words = []string{
	"foo", "Foo", "bar", "baz", "foobar", "barfoo", "fo", "oo", "o", "x", "y", "main", "func", "type", "Get", "GetName", "Name", "getName", "name",
	"a", "ab", "aba", "abab", "ababa", "aa", "aaa", "i", "id", "idx", "T", "New", "NewT", "err", "nil", "_x", "x_y", "$v", "@a", "op+", "a.b", "a-b", "~T",
	"été", "é", "straße", "ß", "λογ", "λ", "日本語", "日本", "日", "😀", "naïve", "Ünï", "x😀y",
}

var c37Seps = []string{" ", " ", " ", "  ", "\t", "(", ")", ".", ", ", ";", ":", "=", "", "{", "}", "::", "->"}

// c37Content assembles a file and returns it with its lines (without terminators).
func c37Content(g kit.G) []byte {
	var nl int
	switch k := g.Int(0, 19, "size"); { // rapid favours small draws: the common shape comes first
	case k < 14:
		nl = g.Int(15, 30, "nl")
	case k < 17:
		nl = g.Int(31, 60, "nl")
	case k < 19:
		nl = g.Int(1, 3, "nl")
	default:
		nl = 0
	}
	eolMode := g.Int(0, 9, "eol") // 0..5 LF, 6,7 CRLF, 8,9 mixed
	var sb bytes.Buffer
	for i := 0; i < nl; i++ {
		nt := 0
		if !g.Bool(12, "emptyline") {
			nt = g.Int(1, 6, "ntok")
		}
		var prev string
		for j := 0; j < nt; j++ {
			w := kit.Pick(g, c37Words, "w")
			if j > 0 && g.Bool(15, "repeat") {
				w = prev // the same word several times on a line
			}
			prev = w
			if j > 0 || g.Bool(30, "indent") {
				sb.WriteString(kit.Pick(g, c37Seps, "sep"))
			}
			sb.WriteString(w)
		}
		last := i == nl-1
		if last && g.Bool(35, "noeol") {
			break
		}
		switch {
		case eolMode <= 5:
			sb.WriteString("\n")
		case eolMode <= 7:
			sb.WriteString("\r\n")
		default:
			if g.Bool(50, "crlf") {
				sb.WriteString("\r\n")
			} else {
				sb.WriteString("\n")
			}
		}
	}
	return sb.Bytes()
}

// c37Lines splits like an editor does: the text after the last '\n' is a
// line only if it is non-empty.
func c37Lines(content []byte) (starts []int, lines [][]byte) {
	off := 0
	for off < len(content) {
		i := bytes.IndexByte(content[off:], '\n')
		if i < 0 {
			starts = append(starts, off)
			lines = append(lines, content[off:])
			break
		}
		starts = append(starts, off)
		lines = append(lines, content[off:off+i])
		off += i + 1
	}
	return
}

func c37IsWordByte(c byte) bool {
	return c >= 0x80 || c == '_' || c >= 'a' && c <= 'z' || c >= 'A' && c <= 'Z' || c >= '0' && c <= '9'
}

// c37WordsOf returns the maximal word-ish tokens of a line.
func c37WordsOf(line []byte) [][]byte {
	var out [][]byte
	i := 0
	for i < len(line) {
		if !c37IsWordByte(line[i]) {
			i++
			continue
		}
		j := i
		for j < len(line) && c37IsWordByte(line[j]) {
			j++
		}
		out = append(out, line[i:j])
		i = j
	}
	return out
}

func c37Entries(g kit.G, content []byte) []c37Entry {
	_, lines := c37Lines(content)
	var n int
	switch k := g.Int(0, 9, "nent"); {
	case k < 6:
		n = g.Int(13, 40, "n")
	case k < 9:
		n = g.Int(4, 12, "n")
	default:
		n = g.Int(0, 3, "n")
	}
	var wordLines []int // lines that have a word
	for i, l := range lines {
		if len(c37WordsOf(l)) > 0 {
			wordLines = append(wordLines, i)
		}
	}
	// every (line, word) pair of the file, in file order
	type lw struct{ line, word int }
	var pairs []lw
	for _, li := range wordLines {
		for wi := range c37WordsOf(lines[li]) {
			pairs = append(pairs, lw{li, wi})
		}
	}
	pairCursor := -1
	var es []c37Entry
	monotone := g.Bool(50, "monotone") // ctags mostly reports in line order; the other half is shuffled
	lineCursor := 0
	pickLine := func() (int, bool) {
		if len(wordLines) == 0 {
			return 0, false
		}
		if monotone {
			lineCursor += g.Int(0, 2, "adv")
			if lineCursor >= len(wordLines) {
				lineCursor = len(wordLines) - 1
			}
			return wordLines[lineCursor], true
		}
		return kit.Pick(g, wordLines, "line"), true
	}
	for len(es) < n {
		k := g.Int(0, 99, "how")
		li, ok := pickLine()
		if !ok && k < 78 {
			k = 78 + k%22
		}
		var e c37Entry
		switch {
		case k < 45: // a word of the line
			ws := c37WordsOf(lines[li])
			wi := g.Int(0, len(ws)-1, "word")
			if monotone && g.Bool(80, "nextpair") {
				// walk through the file's words in order, as a ctags run does
				pairCursor += g.Int(1, 3, "padv")
				if pairCursor >= len(pairs) {
					pairCursor = len(pairs) - 1
				}
				li, wi = pairs[pairCursor].line, pairs[pairCursor].word
				ws = c37WordsOf(lines[li])
			}
			e = c37Entry{Name: kit.Text(ws[wi]), Line: li + 1, How: "word-on-line"}
		case k < 55: // a piece of a word of the line: overlaps the whole word when both are listed
			ws := c37WordsOf(lines[li])
			w := kit.Pick(g, ws, "word")
			a := g.Int(0, len(w)-1, "a")
			b := g.Int(a+1, len(w), "b")
			e = c37Entry{Name: kit.Text(w[a:b]), Line: li + 1, How: "part-of-word"}
			if !utf8.Valid(e.Name) {
				// The cut went through a multi-byte character. Names decoded from
				// the ctags JSON protocol are always valid UTF-8, so this is outside
				// the domain; a few are kept as probes (see c37Run), the rest is
				// widened to whole characters.
				if g.Bool(10, "keepcut") {
					e.How = "probe-name-splits-character"
				} else {
					for a > 0 && !utf8.RuneStart(w[a]) {
						a--
					}
					for b < len(w) && !utf8.RuneStart(w[b]) {
						b++
					}
					e.Name = kit.Text(w[a:b])
				}
			}
		case k < 61: // a stretch of the line across separators
			l := lines[li]
			a := g.Int(0, len(l)-1, "a")
			b := g.Int(a+1, len(l), "b")
			for a > 0 && !utf8.RuneStart(l[a]) {
				a--
			}
			for b < len(l) && !utf8.RuneStart(l[b]) {
				b++
			}
			e = c37Entry{Name: kit.Text(l[a:b]), Line: li + 1, How: "stretch-of-line"}
		case k < 64:
			e = c37Entry{Name: kit.Text(lines[li]), Line: li + 1, How: "whole-line"}
		case k < 70 && len(es) > 0: // exact duplicate of an earlier entry
			e = kit.Pick(g, es, "dup")
			e.How = "duplicate"
		case k < 78: // right name, neighbouring line
			ws := c37WordsOf(lines[li])
			d := kit.Pick(g, []int{-1, 1, 2, -2}, "delta")
			e = c37Entry{Name: kit.Text(kit.Pick(g, ws, "word")), Line: li + 1 + d, How: "word-of-other-line"}
		case k < 84: // bad line numbers
			name := kit.Pick(g, c37Words, "w")
			bad := []int{0, -1, -1 << 31, len(lines) + 1, len(lines) + 2, len(lines) + 1000, 1 << 31, 1<<62 - 1 + 1<<62}
			e = c37Entry{Name: kit.Text(name), Line: kit.Pick(g, bad, "badline"), How: "bad-line"}
		case k < 90: // a name from the vocabulary on a random valid-looking line
			e = c37Entry{Name: kit.Text(kit.Pick(g, c37Words, "w")), Line: g.Int(1, len(lines)+1, "anyline"), How: "vocabulary-name"}
		case k < 95:
			e = c37Entry{Name: kit.Text(""), Line: g.Int(0, len(lines)+1, "anyline"), How: "empty-name"}
		case k < 98:
			e = c37Entry{Name: kit.Text(kit.Pick(g, []string{"foo\nbar", "\n", "x\r\n", "foo\r", "\r", " ", "\t"}, "odd")), Line: g.Int(1, len(lines)+1, "anyline"), How: "odd-name"}
		default:
			// invalid UTF-8 that cannot occur in the (valid UTF-8) content: must simply be dropped
			e = c37Entry{Name: kit.Text([]byte{0xff, 'a'}), Line: g.Int(1, len(lines)+1, "anyline"), How: "invalid-utf8-name"}
		}
		es = append(es, e)
	}
	return es
}

func c37Gen(rt *rapid.T) c37Case {
	g := kit.G{T: rt}
	var c c37Case
	nd := g.Int(1, 3, "ndocs")
	for i := 0; i < nd; i++ {
		content := c37Content(g)
		c.Docs = append(c.Docs, c37Doc{Content: content, Entries: c37Entries(g, content)})
	}
	return c
}

// ------------------------------------------------------------------- oracle

type c37Outcome struct {
	placed, dropped int
	labels          []string
}

// c37Occurrences lists the start offsets (relative to the line) at which name
// occurs in line, overlapping occurrences included.
func c37Occurrences(line, name []byte) []int {
	var out []int
	for i := 0; i+len(name) <= len(line); i++ {
		if bytes.Equal(line[i:i+len(name)], name) {
			out = append(out, i)
		}
	}
	return out
}

func c37CheckDoc(conv *index.VerifTagsToSections, di int, d c37Doc) (c37Outcome, []index.DocumentSection, []*zoekt.Symbol, error) {
	var out c37Outcome
	content := []byte(d.Content)
	tags := make([]*ctags.Entry, len(d.Entries))
	for i, e := range d.Entries {
		tags[i] = &ctags.Entry{Name: string(e.Name), Line: e.Line, Kind: fmt.Sprintf("k%d", i), Parent: fmt.Sprintf("p%d", i), ParentKind: fmt.Sprintf("pk%d", i), Path: "f", Language: "Go"}
	}
	pristine := append([]byte(nil), content...)
	secs, meta, err := conv.Convert(content, tags)
	if err != nil {
		return out, nil, nil, kit.Fail("convert-error", "doc %d: Convert failed instead of dropping entries: %v", di, err)
	}
	if !bytes.Equal(pristine, content) {
		return out, nil, nil, kit.Fail("content-modified", "doc %d: Convert modified the content", di)
	}
	if len(secs) != len(meta) {
		return out, nil, nil, kit.Fail("length-mismatch", "doc %d: %d sections but %d metadata records", di, len(secs), len(meta))
	}
	starts, lines := c37Lines(content)
	owner := map[int]int{} // entry index -> section index
	for i, s := range secs {
		if s.Start > s.End || int64(s.End) > int64(len(content)) {
			return out, nil, nil, kit.Fail("out-of-file", "doc %d: section %d = [%d,%d) is not inside the file of %d bytes", di, i, s.Start, s.End, len(content))
		}
		if i > 0 {
			p := secs[i-1]
			if p.Start > s.Start {
				return out, nil, nil, kit.Fail("unsorted", "doc %d: section %d = [%d,%d) comes after [%d,%d)", di, i, s.Start, s.End, p.Start, p.End)
			}
			if p.End > s.Start {
				return out, nil, nil, kit.Fail("overlap", "doc %d: sections [%d,%d) and [%d,%d) overlap", di, p.Start, p.End, s.Start, s.End)
			}
		}
		m := meta[i]
		if m == nil {
			return out, nil, nil, kit.Fail("nil-metadata", "doc %d: section %d has nil metadata", di, i)
		}
		var ei int
		if _, err := fmt.Sscanf(m.Kind, "k%d", &ei); err != nil || ei < 0 || ei >= len(d.Entries) {
			return out, nil, nil, kit.Fail("foreign-metadata", "doc %d: section %d has kind %q which no entry carried", di, i, m.Kind)
		}
		if prev, dup := owner[ei]; dup {
			return out, nil, nil, kit.Fail("entry-placed-twice", "doc %d: entry %d yields sections %d and %d", di, ei, prev, i)
		}
		owner[ei] = i
		e := d.Entries[ei]
		if m.Sym != string(e.Name) || m.Parent != fmt.Sprintf("p%d", ei) || m.ParentKind != fmt.Sprintf("pk%d", ei) {
			return out, nil, nil, kit.Fail("metadata-mismatch", "doc %d: section %d carries %+v, entry %d is %q", di, i, *m, ei, e.Name)
		}
		if got := content[s.Start:s.End]; !bytes.Equal(got, e.Name) {
			return out, nil, nil, kit.Fail("not-the-name", "doc %d: section [%d,%d) covers %q, the symbol (entry %d, line %d) is named %q", di, s.Start, s.End, got, ei, e.Line, e.Name)
		}
		if e.Line < 1 || e.Line > len(lines) {
			return out, nil, nil, kit.Fail("placed-on-bad-line", "doc %d: entry %d with line %d was placed at [%d,%d) but the file has %d lines", di, ei, e.Line, s.Start, s.End, len(lines))
		}
		ls := starts[e.Line-1]
		le := ls + len(lines[e.Line-1])
		if int(s.Start) < ls || int(s.End) > le {
			return out, nil, nil, kit.Fail("wrong-line", "doc %d: entry %d (%q, line %d = bytes [%d,%d)) was placed at [%d,%d)", di, ei, e.Name, e.Line, ls, le, s.Start, s.End)
		}
	}
	// Entries that were dropped must be entries that cannot be placed.
	for ei, e := range d.Entries {
		how := "entry:" + e.How
		if _, ok := owner[ei]; ok {
			out.placed++
			out.labels = append(out.labels, how+":placed")
			continue
		}
		out.dropped++
		if e.Line < 1 || e.Line > len(lines) {
			out.labels = append(out.labels, how+":dropped-bad-line")
			continue
		}
		ls := starts[e.Line-1]
		occ := c37Occurrences(lines[e.Line-1], e.Name)
		if len(occ) == 0 {
			out.labels = append(out.labels, how+":dropped-name-not-on-line")
			continue
		}
		blocked := false
		for _, o := range occ {
			s, en := ls+o, ls+o+len(e.Name)
			for _, p := range secs {
				if s < int(p.End) && en > int(p.Start) {
					blocked = true
				}
			}
		}
		if !blocked {
			return out, nil, nil, kit.Fail("dropped-placeable", "doc %d: entry %d (%q, line %d) was dropped although its name occurs on the line (offsets %v from byte %d) and no occurrence overlaps a placed section %v", di, ei, e.Name, e.Line, occ, ls, secs)
		}
		out.labels = append(out.labels, how+":dropped-overlap")
	}
	return out, secs, meta, nil
}

// A fresh ShardBuilder costs ~60 ms (two 16 MiB posting tables), far more
// than a conversion. Whether Add accepts the sections of a document does not
// depend on the documents added before, so one builder serves many cases; it
// is replaced after 2500 documents and after any failed Add.
var (
	c37Builder     *index.ShardBuilder
	c37BuilderDocs int
	c37Probes      int
)

func c37GetBuilder() (*index.ShardBuilder, error) {
	if c37Builder == nil || c37BuilderDocs >= 2500 {
		b, err := index.NewShardBuilder(&zoekt.Repository{Name: "c37"})
		if err != nil {
			return nil, err
		}
		c37Builder, c37BuilderDocs = b, 0
	}
	c37BuilderDocs++
	return c37Builder, nil
}

func c37Run(rec *kit.Recorder, c c37Case) error {
	var conv index.VerifTagsToSections
	for di, d := range c.Docs {
		out, secs, meta, err := c37CheckDoc(&conv, di, d)
		if err != nil {
			rec.Eval(fmt.Sprint(d), false, "outcome:discrepancy")
			return err
		}
		// what Convert returned goes to the builder as it is (parseSymbols does the same)
		want := append([]index.DocumentSection(nil), secs...)
		doc := index.Document{Name: fmt.Sprintf("f%d.go", di), Content: []byte(d.Content), Language: "Go", Symbols: secs, SymbolsMetaData: meta}
		if c37SplitsCharacter(d, want) {
			// Outside the domain: a placed name that is a fragment of a multi-byte
			// character cannot come out of the ctags JSON protocol. Recorded, not
			// judged; a separate builder takes these documents because a failed Add
			// leaves a builder in an undefined state.
			if c37Probes >= 3 {
				// a handful of probes is enough evidence; a second builder costs GC time
				rec.Eval(fmt.Sprint(d), false, "probe:name-splits-character:not-added")
				continue
			}
			c37Probes++
			pb, err := index.NewShardBuilder(&zoekt.Repository{Name: "c37probe"})
			if err != nil {
				return err
			}
			if err := pb.Add(doc); err != nil && strings.Contains(err.Error(), "no rune for section boundary") {
				rec.Eval(fmt.Sprint(d), false, "probe:name-splits-character:builder-rejects")
			} else {
				rec.Eval(fmt.Sprint(d), false, fmt.Sprintf("probe:name-splits-character:builder-says:%v", err))
			}
			continue
		}
		b, err := c37GetBuilder()
		if err != nil {
			return err
		}
		if err := b.Add(doc); err != nil {
			c37Builder = nil // undefined state after a failed Add
			rec.Eval(fmt.Sprint(d), false, "outcome:discrepancy")
			return kit.Fail("builder-rejects", "doc %d: ShardBuilder.Add rejected the converted sections %v: %v", di, want, err)
		}
		labels := out.labels
		switch n := len(want); {
		case n == 0:
			labels = append(labels, "sections:0")
		case n < 13:
			labels = append(labels, "sections:1-12")
		default:
			labels = append(labels, "sections:13+")
		}
		content := []byte(d.Content)
		_, lines := c37Lines(content)
		switch n := len(lines); {
		case n == 0:
			labels = append(labels, "lines:0")
		case n < 15:
			labels = append(labels, "lines:1-14")
		default:
			labels = append(labels, "lines:15+")
		}
		if bytes.Contains(content, []byte("\r\n")) {
			labels = append(labels, "content:crlf")
		}
		if len(content) > 0 && content[len(content)-1] != '\n' {
			labels = append(labels, "content:no-trailing-newline")
		}
		if bytes.Contains(content, []byte("\n\n")) || bytes.Contains(content, []byte("\n\r\n")) {
			labels = append(labels, "content:empty-line")
		}
		for _, ch := range content {
			if ch >= 0x80 {
				labels = append(labels, "content:multibyte")
				break
			}
		}
		if di > 0 {
			labels = append(labels, "converter:reused")
		}
		if !sort.SliceIsSorted(d.Entries, func(i, j int) bool { return d.Entries[i].Line < d.Entries[j].Line }) {
			labels = append(labels, "entries:not-in-line-order")
		}
		rec.Add("entries", len(d.Entries))
		rec.Add("entries_placed", out.placed)
		rec.Add("entries_dropped", out.dropped)
		nt := out.placed >= 2 && out.dropped >= 1
		rec.Eval(string(d.Content)+"\x00"+fmt.Sprint(d.Entries), nt, labels...)
	}
	rec.Sample(c37Brief(c), true)
	return nil
}

// c37SplitsCharacter reports whether a section boundary lies inside a
// multi-byte character of the (valid UTF-8) content.
func c37SplitsCharacter(d c37Doc, secs []index.DocumentSection) bool {
	for _, s := range secs {
		for _, off := range []uint32{s.Start, s.End} {
			if int(off) < len(d.Content) && !utf8.RuneStart(d.Content[off]) {
				return true
			}
		}
	}
	return false
}

// c37Brief shortens a case for the evidence samples.
func c37Brief(c c37Case) any {
	type brief struct {
		Content string
		Entries []string
	}
	var out []brief
	for _, d := range c.Docs {
		b := brief{Content: strings.ToValidUTF8(string(d.Content), "?")}
		if len(b.Content) > 300 {
			b.Content = b.Content[:300] + "..."
		}
		for i, e := range d.Entries {
			if i >= 20 {
				break
			}
			b.Entries = append(b.Entries, fmt.Sprintf("%d:%q", e.Line, strings.ToValidUTF8(string(e.Name), "?")))
		}
		out = append(out, b)
	}
	return out
}

func TestVerif_C37(t *testing.T) {
	rec := kit.Open(t, "C37",
		"1-3 generated files per case (0-60 lines, mostly >= 15; vocabulary with multi-byte words, words that are parts of other words, repeated words on a line; LF / CRLF / mixed; empty lines; with and without trailing newline) each with 0-40 ctags entries (mostly >= 13): words of the chosen line, parts of words, stretches of the line, whole lines, duplicates, names of neighbouring lines, bad line numbers (0, negative, beyond EOF, huge), vocabulary names on arbitrary lines, empty names, names with line breaks, invalid UTF-8; in line order or shuffled; all files of a case go through one converter value and one ShardBuilder; an evaluation = one file; non-trivial = at least 2 entries placed and at least 1 dropped; distinct by content+entries",
		"a line is the text between line feeds; text after the last line feed is a line only if it is non-empty; a carriage return belongs to its line",
		"an entry 'cannot be placed' when its line does not exist, its name does not occur on that line, or an occurrence of the name on that line overlaps a section that was placed; only such entries may be dropped",
		"entry names are valid UTF-8 (go-ctags decodes them from JSON); a name that is a fragment of a multi-byte character is outside the domain: such probes are generated rarely and only counted (label probe:name-splits-character:builder-rejects) - ShardBuilder.Add does reject them with 'no rune for section boundary'",
		"the Kind / Parent / ParentKind strings of an entry are copied to the output metadata (used to trace sections back to entries)",
	)
	// The builder's 16 MiB pointer tables are rescanned by every GC cycle and
	// rapid produces garbage quickly: collect less often.
	defer debug.SetGCPercent(debug.SetGCPercent(800))
	kit.Property(t, rec, c37Gen, func(c c37Case) error { return c37Run(rec, c) })
}
