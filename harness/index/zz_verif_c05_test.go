//go:build verif

package index_test

import (
	"fmt"
	"os"
	"reflect"
	"sort"
	"testing"

	"pgregory.net/rapid"

	"github.com/sourcegraph/zoekt/index"
	"github.com/sourcegraph/zoekt/internal/verifkit/kit"
	"github.com/sourcegraph/zoekt/query"
)

// c05Case: a corpus (its shards give the repository metadata sets) and a
// batch of query trees, possibly degenerate.
type c05Case struct {
	Corpus  kit.Corpus
	Queries []kit.QSpec
}

// genDegenerate draws trees with Const, Type, Boost, empty / single-child /
// nested same-kind And/Or, Not(Const), empty patterns and empty sets.
func genDegenerate(g kit.G, c *kit.Corpus, depth int) kit.QSpec {
	if depth >= 4 || g.Bool(30, "dleaf") {
		switch g.Int(0, 11, "dkind") {
		case 0:
			return kit.QSpec{Op: "const", Val: g.Bool(50, "cv")}
		case 1:
			return kit.QSpec{Op: "substr", Pat: "", File: g.Bool(30, "f"), Content: g.Bool(30, "c"), CS: g.Bool(50, "cs")}
		case 2:
			return kit.QSpec{Op: "regex", Pat: kit.Pick(g, []string{"", "(?:)", "()", "(|)", "a*", ".*", "(?i)", "^", "$", "^$"}, "ere"), CS: g.Bool(50, "cs")}
		case 3:
			return kit.QSpec{Op: "branch", Pat: kit.Pick(g, []string{"", "HEAD", "dev", "nope"}, "bp"), Exact: g.Bool(50, "be")}
		case 4:
			return kit.QSpec{Op: kit.Pick(g, []string{"reposet", "filenameset"}, "setk")}
		case 5:
			return kit.QSpec{Op: "repoids"}
		case 6:
			switch g.U(4, "bremp") {
			case 0:
				return kit.QSpec{Op: "branchesrepos"}
			case 1:
				return kit.QSpec{Op: "branchesrepos", BR: []kit.BRSpec{{Branch: "HEAD"}}}
			default:
				// several entries of which some, but not all, are empty
				r := &c.Repos[g.U(len(c.Repos), "brr")]
				full := kit.BRSpec{Branch: kit.Pick(g, r.Branches, "brb").Name, IDs: []uint32{r.ID}}
				empty := kit.BRSpec{Branch: kit.Pick(g, []string{"HEAD", "dev", "nope"}, "brb2")}
				if g.Bool(50, "brorder") {
					return kit.QSpec{Op: "branchesrepos", BR: []kit.BRSpec{empty, full}}
				}
				return kit.QSpec{Op: "branchesrepos", BR: []kit.BRSpec{full, empty, empty}}
			}
		case 7:
			return kit.QSpec{Op: "lang", Pat: kit.Pick(g, []string{"Go", "Rust", "", "Text"}, "dl")}
		default:
			q, _ := kit.GenQuery(g, c, kit.QueryOpts{MaxDepth: 0, RepoAtoms: true, Symbols: true, FoldSafe: true, ConstAtoms: true}, 0)
			return q
		}
	}
	// lookalike appends a copy of a text operand that differs only in a flag
	// (content / file scope, case): operands that print alike and mean
	// different things
	lookalike := func(q *kit.QSpec) {
		if len(q.Kids) == 0 || !g.Bool(25, "lookalike") {
			return
		}
		ki := g.U(len(q.Kids), "lakid")
		k := q.Kids[ki]
		if k.Op != "substr" && k.Op != "regex" {
			return
		}
		switch g.U(4, "laflag") {
		case 0:
			if k.Op == "regex" && g.Bool(60, "lanamere") {
				// a regexp taken from a file name: the bare form also matches
				// names, the content-only form does not
				pat, _ := kit.GenRegexpText(g, c, true, false)
				q.Kids[ki].Pat, q.Kids[ki].Content, q.Kids[ki].File = pat, false, false
				k = q.Kids[ki]
			}
			k.Content, k.File = !k.Content, false
		case 1:
			k.File, k.Content = !k.File, false
		case 2:
			k.CS = !k.CS
		}
		q.Kids = append(q.Kids, k)
	}
	switch g.Int(0, 9, "dnode") {
	case 0, 1, 2:
		n := g.Int(0, 3, "nkids")
		q := kit.QSpec{Op: "and"}
		for i := 0; i < n; i++ {
			q.Kids = append(q.Kids, genDegenerate(g, c, depth+1))
		}
		lookalike(&q)
		return q
	case 3, 4, 5:
		n := g.Int(0, 3, "nkids")
		q := kit.QSpec{Op: "or"}
		for i := 0; i < n; i++ {
			q.Kids = append(q.Kids, genDegenerate(g, c, depth+1))
		}
		lookalike(&q)
		return q
	case 6, 7:
		return kit.QSpec{Op: "not", Kids: []kit.QSpec{genDegenerate(g, c, depth+1)}}
	case 8:
		return kit.QSpec{Op: "boost", Num: kit.Pick(g, []float64{0.5, 2}, "bv"), Kids: []kit.QSpec{genDegenerate(g, c, depth+1)}}
	default:
		return kit.QSpec{Op: "type", Num: float64(g.Int(0, 2, "tt")), Kids: []kit.QSpec{genDegenerate(g, c, depth+1)}}
	}
}

func sortedSet(m map[string]bool) []string {
	out := make([]string, 0, len(m))
	for k := range m {
		out = append(out, k)
	}
	sort.Strings(out)
	return out
}

func runC05(rec *kit.Recorder, c c05Case) error {
	tmp, err := os.MkdirTemp("", "c05")
	if err != nil {
		return err
	}
	defer os.RemoveAll(tmp)
	dir := ""
	if c.Corpus.Compound {
		dir = tmp
	}
	built, err := kit.Build(&c.Corpus, dir)
	if err != nil {
		return kit.Fail("build", "%v", err)
	}
	defer built.Close()

	// the corpus restricted to each shard: simple layout = one repository per
	// shard (in order of repositories with documents), compound = all
	var shardCorpora []kit.Corpus
	if c.Corpus.Compound {
		if len(built.Shards) > 0 {
			shardCorpora = []kit.Corpus{c.Corpus}
		}
	} else {
		for i := range c.Corpus.Repos {
			if len(c.Corpus.Repos[i].Docs) > 0 {
				shardCorpora = append(shardCorpora, kit.Corpus{Repos: []kit.Repo{c.Corpus.Repos[i]}})
			}
		}
	}
	if len(shardCorpora) != len(built.Shards) {
		return fmt.Errorf("harness: %d shard corpora for %d shards", len(shardCorpora), len(built.Shards))
	}
	all := 0
	for i := range c.Corpus.Repos {
		if c.Corpus.Live(&c.Corpus.Repos[i]) {
			all += len(c.Corpus.Repos[i].Docs)
		}
	}
	anyNT := false
	for _, qs := range c.Queries {
		q, err := qs.Q()
		if err != nil {
			continue
		}
		want, err := kit.Expected(&c.Corpus, q)
		if err != nil {
			continue
		}
		type rw struct {
			name string
			q    query.Q
			over *kit.Corpus
		}
		rws := []rw{
			{"Simplify", query.Simplify(q), &c.Corpus},
			{"ExpandFileContent", query.Map(q, query.ExpandFileContent), &c.Corpus},
			{"Simplify∘ExpandFileContent", query.Simplify(query.Map(q, query.ExpandFileContent)), &c.Corpus},
		}
		changed := false
		for si, s := range built.Shards {
			sq, ok := index.VerifShardSimplify(s, q)
			if !ok {
				return fmt.Errorf("harness: shard searcher is not an *indexData")
			}
			rws = append(rws, rw{fmt.Sprintf("shard[%d].simplify", si), sq, &shardCorpora[si]})
		}
		nt := false
		for _, r := range rws {
			if r.q == nil {
				return kit.Fail("nil-rewrite", "%s(%s) returned nil", r.name, q)
			}
			got, err := kit.Expected(r.over, r.q)
			if err != nil {
				return kit.Fail("rewrite-uninterpretable", "%s(%s) = %s cannot be interpreted: %v", r.name, q, r.q, err)
			}
			w := want
			if r.over != &c.Corpus {
				w, _ = kit.Expected(r.over, q)
			}
			if !reflect.DeepEqual(sortedSet(w), sortedSet(got)) {
				return kit.Fail("meaning-changed", "%s: %s => %s selects %d documents instead of %d (original %q, rewritten %q)", r.name, q, r.q, len(got), len(w), sortedSet(w), sortedSet(got))
			}
			if r.q.String() != q.String() {
				changed = true
				if len(w) > 0 && len(w) < all {
					nt = true
				}
			}
		}
		labels := qs.Ops()
		if changed {
			labels = append(labels, "rewritten")
		}
		rec.Eval(fmt.Sprintf("%+v|%+v", c.Corpus, qs), nt, labels...)
		anyNT = anyNT || nt
	}
	rec.Sample(c, anyNT)
	return nil
}

func TestVerif_C05(t *testing.T) {
	rec := kit.Open(t, "C05",
		"generated query trees (all atom kinds plus Const, Type, Boost, empty / single-child / nested And/Or, Not(Const), empty patterns and sets) x corpora whose repository metadata makes repo atoms match all / some / none of the partly tombstoned repositories; rewrites: query.Simplify, Map(ExpandFileContent), their composition, per-shard simplify of every shard; a case = (corpus, query); non-trivial = some rewrite changed the tree and the selected set is neither empty nor all documents; distinct by hash",
		"meaning = the reference evaluator of C01 (naive scan); Type and Boost wrappers select the documents of their child",
		"parse-internal case-scope wrappers cannot be built through the public API; their meaning is covered by C06",
	)
	kit.Property(t, rec, func(rt *rapid.T) c05Case {
		g := kit.G{T: rt}
		o := kit.DefaultCorpus
		o.MaxDocs = 5
		o.MaxTokens = 12
		c := c05Case{Corpus: kit.GenCorpus(g, o)}
		n := g.Int(4, 10, "nq")
		for i := 0; i < n; i++ {
			if g.Bool(60, "degenerate") {
				c.Queries = append(c.Queries, genDegenerate(g, &c.Corpus, 0))
			} else {
				qo := kit.DefaultQuery
				qo.ConstAtoms = true
				q, _ := kit.GenQuery(g, &c.Corpus, qo, 0)
				c.Queries = append(c.Queries, q)
			}
		}
		return c
	}, func(c c05Case) error {
		return runC05(rec, c)
	})
}
