//go:build verif

package index

// Export shim for the external verification tests (package index_test): the
// ctags-to-sections converter is an unexported type with an exported method.
// An alias makes it usable from outside without copying any logic. The kit
// imports package index, so the checks themselves cannot live in-package.

// VerifTagsToSections is index.tagsToSections (see ctags.go); like the real
// caller (parseSymbols) a test keeps one value and calls Convert repeatedly.
type VerifTagsToSections = tagsToSections
