//go:build verif

package index_test

// C17: tombstoned repositories and paths stay hidden; set/unset is idempotent,
// affects only that repository, survives a reload, and a reported success has
// taken effect.
//
// One case = a compound shard (kit corpus, file tombstones included), a handful
// of queries and a history of SetTombstone / UnsetTombstone calls over member
// and foreign repository ids; some calls run with the creation of the sidecar's
// temp file or its rename failing (fsx, index/tombstones.go is instrumented).
// After every call the shard is opened afresh (a reload) and every query and
// the repository list are compared with
//     baseline (no repository tombstoned) minus the model's tombstoned set.

import (
	"context"
	"crypto/sha1"
	"encoding/json"
	"fmt"
	"os"
	"sort"
	"strings"
	"syscall"
	"testing"

	"pgregory.net/rapid"

	"github.com/sourcegraph/zoekt"
	"github.com/sourcegraph/zoekt/index"
	"github.com/sourcegraph/zoekt/internal/verifkit/fsx"
	"github.com/sourcegraph/zoekt/internal/verifkit/kit"
	"github.com/sourcegraph/zoekt/query"
)

type c17Op struct {
	Kind string // "set", "unset", "reload"
	ID   uint32
	Fail string `json:",omitempty"` // "": none, "rename": the sidecar rename fails, "createtemp": creating the temp file fails
}

type c17Case struct {
	Corpus  kit.Corpus
	Queries []kit.QSpec
	Ops     []c17Op
	// PreMeta: before the history starts the shard already has a sidecar
	// carrying a metadata-only update (RawConfig / Metadata of repository
	// number PreMeta-1), as the indexserver writes them. 0 = no sidecar.
	PreMeta int `json:",omitempty"`
}

func c17Gen(rt *rapid.T) c17Case {
	g := kit.G{T: rt}
	compound := true
	co := kit.CorpusOpts{MaxRepos: 4, MaxDocs: 4, MaxTokens: 10, Tombstones: true, Skips: true, ForceCompound: &compound}
	c := c17Case{Corpus: kit.GenCorpus(g, co)}
	if len(c.Corpus.Repos) >= 2 && g.Bool(30, "samename") {
		// a repository deleted and re-created upstream: same name, new id
		i := g.U(len(c.Corpus.Repos)-1, "samenamei")
		c.Corpus.Repos[i+1].Name = c.Corpus.Repos[i].Name
	}
	// The history starts from "nothing tombstoned" (that state is the
	// baseline); the generated Tombstone flags become its first operations.
	for i := range c.Corpus.Repos {
		if c.Corpus.Repos[i].Tombstone {
			c.Corpus.Repos[i].Tombstone = false
			c.Ops = append(c.Ops, c17Op{Kind: "set", ID: c.Corpus.Repos[i].ID})
		}
	}
	if g.Bool(35, "premeta") {
		c.PreMeta = 1 + g.U(len(c.Corpus.Repos), "premetarepo")
	}
	nq := g.Int(3, 5, "nq")
	for i := 0; i < nq; i++ {
		if c.PreMeta > 0 && g.Bool(40, "premetaq") {
			// a query that depends on what only the sidecar says
			if g.Bool(50, "premetakind") {
				c.Queries = append(c.Queries, kit.QSpec{Op: "rawconfig", Num: float64(16)}) // archived
			} else {
				c.Queries = append(c.Queries, kit.QSpec{Op: "meta", Field: "team", Pat: "^sidecar$"})
			}
			continue
		}
		q, _ := kit.GenQuery(g, &c.Corpus, kit.DefaultQuery, 1)
		c.Queries = append(c.Queries, q)
	}
	ids := []uint32{999, 0}
	for i := range c.Corpus.Repos {
		ids = append(ids, c.Corpus.Repos[i].ID, c.Corpus.Repos[i].ID) // members twice as likely
	}
	n := g.Int(2, 8, "nops")
	for i := 0; i < n; i++ {
		op := c17Op{ID: kit.Pick(g, ids, "id")}
		switch k := g.Int(0, 9, "opkind"); {
		case k < 5:
			op.Kind = "set"
		case k < 9:
			op.Kind = "unset"
		default:
			op.Kind = "reload"
		}
		if op.Kind != "reload" {
			switch f := g.Int(0, 9, "fault"); {
			case f < 2:
				op.Fail = "rename"
			case f < 3:
				op.Fail = "createtemp"
			}
		}
		c.Ops = append(c.Ops, op)
		// repeating an operation must be a no-op: make repeats frequent
		if op.Kind != "reload" && g.Bool(25, "repeat") {
			op.Fail = ""
			c.Ops = append(c.Ops, op)
		}
	}
	return c
}

// c17Obs is what a freshly opened shard shows.
type c17Obs struct {
	Results [][]string // per query: sorted result keys (repo id \x00 repo \x00 name \x00 checksum)
	QListed [][]string // per query: repository ids from List(query) (Repos field)
	QIDs    [][]string // per query: repository ids from List(query) (ReposMap field)
	Listed  []string   // repository ids from List(true) (Repos field)
	IDs     []string   // repository ids from List(true) (ReposMap field)
	Alive   []string   // repository ids from ReadMetadataPathAlive
	// only in expected observations (c17Expect): how List(query) is judged
	qMust [][]string // ids that must be listed (live repositories with an expected result)
	qDead []string   // ids that must not be listed
	exact bool       // nothing is tombstoned: List(query) must equal the baseline
}

func (o *c17Obs) key() string {
	b, _ := json.Marshal(o)
	return string(b)
}

func c17Observe(path string, qs []query.Q) (obs *c17Obs, err error) {
	err = kit.Guard(func() error {
		f, err := os.Open(path)
		if err != nil {
			return err
		}
		inf, err := index.NewIndexFile(f)
		if err != nil {
			f.Close()
			return err
		}
		s, err := index.NewSearcher(inf)
		if err != nil {
			inf.Close()
			return fmt.Errorf("NewSearcher: %w", err)
		}
		defer s.Close()
		ctx := context.Background()
		obs = &c17Obs{}
		for _, q := range qs {
			if q == nil {
				obs.Results = append(obs.Results, nil)
				obs.QListed = append(obs.QListed, nil)
				obs.QIDs = append(obs.QIDs, nil)
				continue
			}
			res, err := s.Search(ctx, q, &zoekt.SearchOptions{})
			if err != nil {
				return fmt.Errorf("search %s: %w", q, err)
			}
			keys := []string{}
			for i := range res.Files {
				keys = append(keys, fmt.Sprintf("%05d", res.Files[i].RepositoryID)+"\x00"+kit.Key(res.Files[i].Repository, res.Files[i].FileName, res.Files[i].Checksum))
			}
			sort.Strings(keys)
			obs.Results = append(obs.Results, keys)
			// listings with the query itself
			ql, qi := []string{}, []string{}
			if rl, err := s.List(ctx, q, nil); err == nil {
				for _, e := range rl.Repos {
					ql = append(ql, fmt.Sprintf("%05d", e.Repository.ID))
				}
			} else {
				ql = append(ql, "error")
			}
			if rl, err := s.List(ctx, q, &zoekt.ListOptions{Field: zoekt.RepoListFieldReposMap}); err == nil {
				for id := range rl.ReposMap {
					qi = append(qi, fmt.Sprintf("%05d", id))
				}
			} else {
				qi = append(qi, "error")
			}
			sort.Strings(ql)
			sort.Strings(qi)
			obs.QListed = append(obs.QListed, ql)
			obs.QIDs = append(obs.QIDs, qi)
		}
		rl, err := s.List(ctx, &query.Const{Value: true}, nil)
		if err != nil {
			return fmt.Errorf("list: %w", err)
		}
		obs.Listed = []string{}
		for _, e := range rl.Repos {
			obs.Listed = append(obs.Listed, fmt.Sprintf("%05d", e.Repository.ID))
		}
		sort.Strings(obs.Listed)
		rl, err = s.List(ctx, &query.Const{Value: true}, &zoekt.ListOptions{Field: zoekt.RepoListFieldReposMap})
		if err != nil {
			return fmt.Errorf("list(reposmap): %w", err)
		}
		obs.IDs = []string{}
		for id := range rl.ReposMap {
			obs.IDs = append(obs.IDs, fmt.Sprintf("%05d", id))
		}
		sort.Strings(obs.IDs)
		repos, _, err := index.ReadMetadataPathAlive(path)
		if err != nil {
			return fmt.Errorf("ReadMetadataPathAlive: %w", err)
		}
		obs.Alive = []string{}
		for _, r := range repos {
			obs.Alive = append(obs.Alive, fmt.Sprintf("%05d", r.ID))
		}
		sort.Strings(obs.Alive)
		// Under per-repository and per-shard match limits the search walks the
		// documents differently; a repository that is not alive must still
		// never show up (the alive list itself is compared with the model).
		alive := map[string]bool{}
		for _, n := range obs.Alive {
			alive[n] = true
		}
		for _, q := range qs {
			if q == nil {
				continue
			}
			for _, o := range []zoekt.SearchOptions{{ShardRepoMaxMatchCount: 1}, {ShardRepoMaxMatchCount: 2}, {ShardMaxMatchCount: 1}, {ShardRepoMaxMatchCount: 1, ChunkMatches: true}} {
				opts := o
				res, err := s.Search(ctx, q, &opts)
				if err != nil {
					return fmt.Errorf("search %s with %+v: %w", q, o, err)
				}
				for i := range res.Files {
					if !alive[fmt.Sprintf("%05d", res.Files[i].RepositoryID)] {
						return kit.Fail("tombstoned-visible-under-limit", "query %s with ShardRepoMaxMatchCount=%d ShardMaxMatchCount=%d returns %s/%s although the repository is tombstoned", q, o.ShardRepoMaxMatchCount, o.ShardMaxMatchCount, res.Files[i].Repository, res.Files[i].FileName)
					}
				}
			}
		}
		return nil
	})
	return obs, err
}

// c17Expect derives the expected observation from the baseline and the set of
// tombstoned repository ids.
func c17Expect(c *c17Case, base *c17Obs, dead map[uint32]bool) *c17Obs {
	deadID := map[string]bool{}
	for i := range c.Corpus.Repos {
		if dead[c.Corpus.Repos[i].ID] {
			deadID[fmt.Sprintf("%05d", c.Corpus.Repos[i].ID)] = true
		}
	}
	filter := func(in []string, byRepo bool) []string {
		if in == nil {
			return nil
		}
		out := []string{}
		for _, k := range in {
			id := k
			if byRepo {
				id = k[:strings.IndexByte(k, 0)]
			}
			if !deadID[id] {
				out = append(out, k)
			}
		}
		return out
	}
	e := &c17Obs{}
	for i, r := range base.Results {
		e.Results = append(e.Results, filter(r, true))
		// List(query): indexData.List simplifies the query against the live
		// repositories of the shard (so tombstoning can turn a repository
		// filter into TRUE, which lists every live repository) and otherwise
		// lists the live repositories whose *name* is the name of a repository
		// with a result. Sound expectations that do not depend on that: the
		// baseline exactly when nothing is tombstoned; otherwise every live
		// repository with an expected result is listed and no tombstoned one.
		e.QListed = append(e.QListed, base.QListed[i])
		e.QIDs = append(e.QIDs, base.QIDs[i])
		must := []string{}
		seen := map[string]bool{}
		for _, k := range e.Results[i] {
			if id := k[:strings.IndexByte(k, 0)]; !seen[id] {
				seen[id] = true
				must = append(must, id)
			}
		}
		e.qMust = append(e.qMust, must)
	}
	for id := range deadID {
		e.qDead = append(e.qDead, id)
	}
	e.exact = len(deadID) == 0
	e.Listed = filter(base.Listed, false)
	e.Alive = filter(base.Alive, false)
	e.IDs = filter(base.IDs, false)
	return e
}

func c17Diff(qs []query.Q, want, got *c17Obs) string {
	show := func(s []string) string { return strings.ReplaceAll(fmt.Sprintf("%q", s), "\\x00", "|") }
	var out []string
	for i := range want.Results {
		if strings.Join(want.Results[i], "\x01") != strings.Join(got.Results[i], "\x01") {
			out = append(out, fmt.Sprintf("query %s: want %s got %s", qs[i], show(want.Results[i]), show(got.Results[i])))
		}
		for _, l := range []struct {
			what      string
			want, got []string
		}{{"List(%s)", want.QListed[i], got.QListed[i]}, {"List(%s, ReposMap)", want.QIDs[i], got.QIDs[i]}} {
			what := fmt.Sprintf(l.what, qs[i])
			if want.qMust == nil || want.exact {
				// an observation compared with an observation, or nothing tombstoned
				if strings.Join(l.want, "\x01") != strings.Join(l.got, "\x01") {
					out = append(out, fmt.Sprintf("%s: want %q got %q", what, l.want, l.got))
				}
				continue
			}
			have := map[string]bool{}
			for _, id := range l.got {
				have[id] = true
			}
			for _, id := range want.qDead {
				if have[id] {
					out = append(out, fmt.Sprintf("%s lists the tombstoned repository %s: %q", what, id, l.got))
				}
			}
			if len(l.got) == 1 && l.got[0] == "error" {
				continue
			}
			for _, id := range want.qMust[i] {
				if !have[id] {
					out = append(out, fmt.Sprintf("%s does not list repository %s, which has a result for the query: %q", what, id, l.got))
				}
			}
		}
	}
	if strings.Join(want.Listed, "\x01") != strings.Join(got.Listed, "\x01") {
		out = append(out, fmt.Sprintf("List: want %q got %q", want.Listed, got.Listed))
	}
	if strings.Join(want.IDs, "\x01") != strings.Join(got.IDs, "\x01") {
		out = append(out, fmt.Sprintf("List(ReposMap): want %q got %q", want.IDs, got.IDs))
	}
	if strings.Join(want.Alive, "\x01") != strings.Join(got.Alive, "\x01") {
		out = append(out, fmt.Sprintf("ReadMetadataPathAlive: want %q got %q", want.Alive, got.Alive))
	}
	return strings.Join(out, "; ")
}

func runC17(rec *kit.Recorder, active map[string]bool, c c17Case) error {
	if len(c.Corpus.Repos) == 0 {
		return nil
	}
	dir, err := os.MkdirTemp("", "c17")
	if err != nil {
		return err
	}
	defer os.RemoveAll(dir)
	c.Corpus.Compound = true
	for i := range c.Corpus.Repos {
		c.Corpus.Repos[i].Tombstone = false
	}
	built, err := kit.Build(&c.Corpus, dir)
	if err != nil {
		return kit.Fail("build", "%v", err)
	}
	built.Close()
	if len(built.Paths) != 1 {
		return kit.Fail("build", "expected one compound shard, got %v", built.Paths)
	}
	shard := built.Paths[0]
	if c.PreMeta > 0 && c.PreMeta <= len(c.Corpus.Repos) {
		repos, _, err := index.ReadMetadataPath(shard)
		if err != nil {
			return kit.Fail("build", "reading the shard's metadata: %v", err)
		}
		want := c.Corpus.Repos[c.PreMeta-1].ID
		for _, r := range repos {
			if r.ID != want {
				continue
			}
			if r.RawConfig == nil {
				r.RawConfig = map[string]string{}
			}
			r.RawConfig["archived"] = "1"
			if r.Metadata == nil {
				r.Metadata = map[string]string{}
			}
			r.Metadata["team"] = "sidecar"
		}
		tmp, final, err := index.JsonMarshalRepoMetaTemp(shard, repos)
		if err != nil {
			return kit.Fail("build", "writing the sidecar: %v", err)
		}
		if err := os.Rename(tmp, final); err != nil {
			return kit.Fail("build", "installing the sidecar: %v", err)
		}
	}

	member := map[uint32]*kit.Repo{}
	for i := range c.Corpus.Repos {
		member[c.Corpus.Repos[i].ID] = &c.Corpus.Repos[i]
	}

	// queries: Const(true) first, then the generated ones (nil = outside the domain)
	qs := []query.Q{&query.Const{Value: true}}
	for _, s := range c.Queries {
		q, err := s.Q()
		if err != nil {
			q = nil
		}
		qs = append(qs, q)
	}
	// a query the engine rejects on the untouched shard is outside the domain
	for i, q := range qs {
		if q == nil {
			continue
		}
		if _, err := c17Observe(shard, []query.Q{q}); err != nil {
			if i == 0 {
				return kit.Fail("baseline", "%v", err)
			}
			qs[i] = nil
		}
	}
	base, err := c17Observe(shard, qs)
	if err != nil {
		return kit.Fail("baseline", "%v", err)
	}
	// ground truth for the baseline: every live document except file-tombstoned paths
	want, err := kit.Expected(&c.Corpus, qs[0])
	if err != nil {
		return err
	}
	got := map[string]bool{}
	for _, k := range base.Results[0] {
		got[k[strings.IndexByte(k, 0)+1:]] = true // without the repository id
	}
	for k := range want {
		if !got[k] {
			return kit.Fail("baseline-missing", "Const(true) on the compound shard misses %q", strings.ReplaceAll(k, "\x00", "|"))
		}
	}
	for k := range got {
		if !want[k] {
			return kit.Fail("file-tombstone-visible", "Const(true) returns %q which is not a live document (file tombstones: %v)", strings.ReplaceAll(k, "\x00", "|"), c17FileTombstones(&c))
		}
	}
	// repositories a generated (non-constant) query finds something in
	hit := map[string]bool{}
	for i := 1; i < len(base.Results); i++ {
		for _, k := range base.Results[i] {
			hit[k[:strings.IndexByte(k, 0)]] = true
		}
	}

	cb, _ := json.Marshal(c)
	ckey := fmt.Sprintf("%x", sha1.Sum(cb))
	dead := map[uint32]bool{}
	wasSet := map[uint32]bool{} // effectively tombstoned at some point
	var ds []*kit.Discrepancy
	nt := false
	cur := base
	// Non-triviality is a property of the whole history (set -> reload ->
	// unset of a repository a generated query matches): the judged operations
	// are counted when the case ends.
	type pending struct {
		key    string
		labels []string
	}
	var evals []pending
	eval := func(key string, labels ...string) { evals = append(evals, pending{key, labels}) }
	defer func() {
		for _, e := range evals {
			rec.Eval(e.key, nt, e.labels...)
		}
	}()
	for i, op := range c.Ops {
		labels := []string{"op:" + op.Kind}
		key := fmt.Sprintf("%s|%d", ckey, i)
		if op.Kind == "reload" {
			obs, err := c17Observe(shard, qs)
			eval(key, labels...)
			if err != nil {
				return kit.Fail("reload", "operation %d: %v", i, err)
			}
			if d := c17Diff(qs, c17Expect(&c, base, dead), obs); d != "" {
				return kit.Fail("reload-differs", "operation %d (reload): %s", i, d)
			}
			continue
		}
		_, isMember := member[op.ID]
		if isMember {
			labels = append(labels, "id:member")
		} else {
			labels = append(labels, "id:foreign")
		}
		if op.Fail != "" {
			labels = append(labels, "fault:"+op.Fail)
		}
		// the model after the operation, if it takes effect
		after := map[uint32]bool{}
		for k := range dead {
			after[k] = true
		}
		if isMember {
			if op.Kind == "set" {
				after[op.ID] = true
			} else {
				delete(after, op.ID)
			}
		}
		changes := len(after) != len(dead)
		if !changes {
			labels = append(labels, "repeat-or-noop")
		}

		cfg := fsx.Config{}
		if op.Fail != "" {
			kind := map[string]string{"rename": fsx.KRename, "createtemp": fsx.KCreateTemp}[op.Fail]
			cfg.FailAt = func(o fsx.Op) error {
				if o.Kind == kind && o.KindSeq == 0 {
					return syscall.EIO
				}
				return nil
			}
		}
		fsx.Start(cfg)
		var opErr error
		perr := kit.Guard(func() error {
			if op.Kind == "set" {
				opErr = index.SetTombstone(shard, op.ID)
			} else {
				opErr = index.UnsetTombstone(shard, op.ID)
			}
			return nil
		})
		oplog := fsx.Stop()
		if perr != nil {
			return perr
		}
		injected := false
		for _, o := range oplog {
			injected = injected || o.Failed
		}
		if injected {
			labels = append(labels, "fault-fired")
		}

		obs, err := c17Observe(shard, qs)
		if err != nil {
			eval(key, labels...)
			return kit.Fail("reload", "after operation %d %+v (returned %v): the shard does not load any more: %v", i, op, opErr, err)
		}
		desc := fmt.Sprintf("operation %d %s(%d)", i, op.Kind, op.ID)
		if op.Fail != "" {
			desc += " with " + op.Fail + " failing"
		}
		switch {
		case opErr != nil && !injected:
			eval(key, labels...)
			return kit.Fail("unexpected-error", "%s returned %v without any injected fault", desc, opErr)
		case opErr != nil:
			// reported failure: nothing may have changed
			labels = append(labels, "result:error")
			if obs.key() != cur.key() {
				eval(key, labels...)
				return kit.Fail("failed-op-changed-state", "%s returned %v but changed what the shard shows: %s", desc, opErr, c17Diff(qs, cur, obs))
			}
		default:
			// reported success: the effect must be there after the reload
			labels = append(labels, "result:nil")
			wantObs := c17Expect(&c, base, after)
			if d := c17Diff(qs, wantObs, obs); d != "" {
				if injected && op.Fail == "rename" && obs.key() == cur.key() {
					labels = append(labels, "swallowed-error")
					ds = append(ds, kit.FailKnown("C17-swallowed-rename-error", "success-without-effect",
						"%s returned nil, but after reloading the shard nothing has changed: %s", desc, d))
					// the model follows the disk: the operation did not happen
					eval(key, labels...)
					continue
				}
				eval(key, labels...)
				kind := "effect-differs"
				if !changes {
					kind = "repeat-not-noop"
				}
				return kit.Fail(kind, "%s returned nil; after a reload: %s (tombstoned before: %v, expected after: %v)", desc, d, c17Set(dead), c17Set(after))
			}
			if isMember && op.Kind == "set" {
				wasSet[op.ID] = true
			}
			if isMember && op.Kind == "unset" && changes && wasSet[op.ID] && hit[fmt.Sprintf("%05d", op.ID)] {
				// set -> reload -> unset of a repository a generated query matches,
				// and the baseline came back
				nt = true
			}
			dead = after
			cur = obs
		}
		eval(key, labels...)
	}
	rec.Sample(c, nt)
	return faultsConclude(rec, active, c, ds)
}

func c17Set(m map[uint32]bool) []uint32 {
	out := []uint32{}
	for k := range m {
		out = append(out, k)
	}
	sort.Slice(out, func(i, j int) bool { return out[i] < out[j] })
	return out
}

func c17FileTombstones(c *c17Case) map[string][]string {
	out := map[string][]string{}
	for i := range c.Corpus.Repos {
		if len(c.Corpus.Repos[i].FileTombstones) > 0 {
			out[c.Corpus.Repos[i].Name] = c.Corpus.Repos[i].FileTombstones
		}
	}
	return out
}

func TestVerif_C17(t *testing.T) {
	faultsSetup()
	rec := kit.Open(t, "C17",
		"rapid-generated compound shards (1-4 repositories, file tombstones, skipped documents) x 3-5 query trees + Const(true) x histories of 2-16 SetTombstone/UnsetTombstone/reload operations over member and foreign repository ids, 30% of the calls with the sidecar's temp-file creation or rename failing (EIO). One evaluation = one operation judged after a reload (fresh open of the shard). Non-trivial = the history contains an effective set and a later effective unset of a repository in which a generated query has results (the baseline came back); distinct by hash of (case, operation index).",
		"expected results = baseline results on the shard with nothing tombstoned, minus the repositories in the model set (metamorphic); the baseline of Const(true) itself is checked against the corpus model (live documents minus file-tombstoned paths)",
		"a reload is a fresh os.Open + index.NewIndexFile + index.NewSearcher, and index.ReadMetadataPathAlive",
		"a call that reports an error must leave the visible state unchanged; foreign ids may be accepted or rejected but change nothing",
	)
	active := faultsActiveKnown("C17")
	kit.Property(t, rec, c17Gen, func(c c17Case) error { return runC17(rec, active, c) })
}
