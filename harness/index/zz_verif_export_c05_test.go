//go:build verif

package index

import (
	"github.com/sourcegraph/zoekt"
	"github.com/sourcegraph/zoekt/query"
)

// VerifShardSimplify exposes the per-shard query simplification to the
// external verification test (the kit cannot be imported in-package).
func VerifShardSimplify(s zoekt.Searcher, q query.Q) (query.Q, bool) {
	d, ok := s.(*indexData)
	if !ok {
		return nil, false
	}
	return d.simplify(q), true
}
