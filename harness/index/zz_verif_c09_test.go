//go:build verif

package index_test

import (
	"bytes"
	"context"
	"fmt"
	"os"
	"reflect"
	"regexp/syntax"
	"sort"
	"strings"
	"testing"

	"pgregory.net/rapid"

	"github.com/sourcegraph/zoekt"
	"github.com/sourcegraph/zoekt/index"
	"github.com/sourcegraph/zoekt/internal/verifkit/kit"
	"github.com/sourcegraph/zoekt/query"
)

// c09Case: repositories written through one of three paths and read back.
type c09Case struct {
	Repos []kit.Repo
	Path  string // "shardbuilder" | "builder" | "merge"
	Cfg   kit.BuilderConfig
}

func distinctRunes(start rune, n int) string {
	var sb strings.Builder
	for i := 0; i < n; i++ {
		sb.WriteRune(start + rune(i))
	}
	return sb.String()
}

func genC09Content(g kit.G) ([]byte, [][2]int, []string) {
	switch g.Int(0, 11, "ckind") {
	case 0:
		return nil, nil, []string{"content:empty"}
	case 1:
		// a line of N runes with a multi-byte rune straddling the 100-rune sampling boundary
		n := kit.Pick(g, []int{98, 99, 100, 101, 199, 200, 201, 299, 300}, "linelen")
		k := g.Int(0, 3, "mbpos")
		s := strings.Repeat("a", max(n-k-1, 0)) + kit.Pick(g, []string{"é", "日", "😀"}, "mb") + strings.Repeat("b", k) + kit.Pick(g, []string{"", "\n", "\nfoo needle\n"}, "lt")
		return []byte(s), nil, []string{"content:rune-boundary"}
	case 2:
		// pairwise distinct runes: n-2 distinct trigrams, around b-tree bucket sizes
		n := kit.Pick(g, []int{3, 4, 5, 100, 514, 1025, 1027, 2050}, "ndistinct")
		return []byte(distinctRunes(0x4E00, n)), nil, []string{fmt.Sprintf("content:distinct-%d", n)}
	case 3:
		// invalid UTF-8 (no NUL)
		n := g.Int(3, 40, "badlen")
		b := make([]byte, n)
		for i := range b {
			b[i] = byte(g.Int(1, 255, "badbyte"))
		}
		return b, nil, []string{"content:invalid-utf8"}
	case 4:
		// callers may hand symbols for a document the builder then rejects
		b := []byte("foo\x00bar baz needle")
		return b, [][2]int{{0, 3}, {4, 7}, {8, 11}, {12, 18}}, []string{"content:binary"}
	case 5:
		return []byte(kit.Pick(g, []string{"a", "ab", "é", "日"}, "tiny")), nil, []string{"content:tiny"}
	case 6:
		// very long line
		return []byte(strings.Repeat("needle foo ", g.Int(200, 600, "longrep"))), nil, []string{"content:long-line"}
	default:
		c, toks := kit.GenContent(g, 40, true)
		return c, toks, []string{"content:words"}
	}
}

func genC09Repo(g kit.G, idx int) (kit.Repo, []string) {
	var labels []string
	r := kit.Repo{Name: fmt.Sprintf("example.com/r%d", idx), ID: uint32(idx + 1)}
	nb := kit.Pick(g, []int{1, 1, 2, 3, 4, 64}, "nbranches")
	// repositories of one compound shard share branch names at different
	// positions (the branch mask of a name differs per repository)
	rot := g.U(3, "brot")
	for i := 0; i < nb; i++ {
		name := fmt.Sprintf("b%d", (i+rot)%max(nb, 3))
		if i == 0 {
			name = "HEAD"
		}
		r.Branches = append(r.Branches, kit.Branch{Name: name, Version: fmt.Sprintf("%040x", idx*100+i)})
	}
	if nb == 64 {
		labels = append(labels, "branches:64")
	}
	if g.Bool(50, "meta") {
		r.Metadata = map[string]string{"k": kit.Pick(g, []string{"v", "é", ""}, "mv")}
		r.RawConfig = map[string]string{"public": "1", "priority": fmt.Sprint(g.Int(0, 9, "prio"))}
	}
	r.URL = "http://" + r.Name
	r.FileURL = "http://" + r.Name + "/b/{{.Version}}/{{.Path}}"
	r.LineFragment = "#L{{.LineNumber}}"
	r.CommitURL = "http://" + r.Name + "/c/{{.Version}}"
	r.Rank = uint16(g.Int(0, 65535, "rank"))
	if g.Bool(25, "subrepo") {
		r.SubRepos = []string{"third_party/dep"}
		labels = append(labels, "subrepo")
	}
	nd := g.Int(1, 8, "ndocs")
	names := map[string]bool{}
	for i := 0; i < nd; i++ {
		d := kit.Doc{Name: kit.Pick(g, []string{"a.go", "dir/b.py", "été.txt", "日本/c.md", "x", "weird name.txt", "a/b/c/d/e.c", "UPPER.TXT", "\xff\xfe.bin", "tab\there"}, "name") + fmt.Sprint(i)}
		if names[d.Name] {
			continue
		}
		names[d.Name] = true
		if len(r.SubRepos) > 0 && g.Bool(40, "insub") {
			d.SubRepo = r.SubRepos[0]
			d.Name = d.SubRepo + "/" + d.Name
		}
		content, toks, cl := genC09Content(g)
		labels = append(labels, cl...)
		d.Content = content
		d.Language = kit.Pick(g, []string{"Go", "Python", "Text", "Markdown"}, "lang")
		for _, b := range r.Branches {
			if g.Bool(40, "onb") {
				d.Branches = append(d.Branches, b.Name)
			}
		}
		if len(d.Branches) == 0 {
			d.Branches = []string{r.Branches[g.Int(0, len(r.Branches)-1, "b1")].Name}
		}
		if len(toks) > 0 && g.Bool(60, "syms") {
			many := g.Bool(30, "manysyms")
			for _, tk := range toks {
				if many || g.Bool(30, "sym") {
					d.Symbols = append(d.Symbols, kit.Sym{Start: tk[0], End: tk[1], Kind: kit.Pick(g, []string{"function", "class", "", "variable"}, "kind"), Parent: kit.Pick(g, []string{"", "Outer"}, "par"), ParentKind: kit.Pick(g, []string{"", "class"}, "pk")})
				}
			}
			if len(d.Symbols) >= 13 {
				labels = append(labels, "symbols>=13")
			}
			// symbols need not be handed to the builder in offset order
			if len(d.Symbols) >= 2 && g.Bool(50, "shufflesyms") {
				perm := rapid.Permutation(d.Symbols).Draw(g.T, "symperm")
				d.Symbols = perm
				labels = append(labels, "symbols:unsorted")
			}
		}
		r.Docs = append(r.Docs, d)
	}
	return r, labels
}

type docSig struct {
	Name, Content, Branches, Language, SubRepoPath, SubRepoName, Version string
	Checksum                                                             string
}

func expectedSigs(r *kit.Repo, skip func(*kit.Doc) int) map[string]docSig {
	out := map[string]docSig{}
	for i := range r.Docs {
		d := r.Docs[i]
		d.Skip = skip(&d)
		content := d.EffectiveContent()
		var bs []string
		for _, b := range r.Branches { // reported in repository order
			for _, x := range d.Branches {
				if x == b.Name {
					bs = append(bs, b.Name)
				}
			}
		}
		s := docSig{Name: d.Name, Content: string(content), Branches: strings.Join(bs, ","), Language: d.Language, Checksum: fmt.Sprintf("%x", kit.Checksum(content))}
		firstIdx := -1
		for bi, b := range r.Branches {
			if firstIdx < 0 && len(bs) > 0 && bs[0] == b.Name {
				firstIdx = bi
			}
		}
		if d.SubRepo != "" {
			s.SubRepoPath = d.SubRepo
			s.SubRepoName = r.Name + "/" + d.SubRepo
			s.Version = "sub-" + r.Branches[firstIdx].Version
		} else {
			s.Version = r.Branches[firstIdx].Version
		}
		out[d.Name] = s
	}
	return out
}

type symSig struct {
	Start, End                    int
	Sym, Kind, Parent, ParentKind string
}

func runC09(rec *kit.Recorder, c c09Case, labels []string) error {
	tmp, err := os.MkdirTemp("", "c09")
	if err != nil {
		return err
	}
	defer os.RemoveAll(tmp)

	var shards []zoekt.Searcher
	skip := func(d *kit.Doc) int { return d.Skip }
	switch c.Path {
	case "shardbuilder":
		for i := range c.Repos {
			data, err := kit.BuildSimple(&c.Repos[i])
			if err != nil {
				return kit.Fail("build", "%v", err)
			}
			s, err := index.NewSearcher(&kit.MemFile{Data: data})
			if err != nil {
				return kit.Fail("load", "written shard does not load: %v", err)
			}
			shards = append(shards, s)
		}
		// ShardBuilder.Add marks content with a NUL byte as binary itself
		skip = func(d *kit.Doc) int {
			if d.Skip == 0 && bytes.IndexByte(d.Content, 0) >= 0 {
				return int(index.SkipReasonBinary)
			}
			return d.Skip
		}
	case "builder":
		cfg := c.Cfg
		for i := range c.Repos {
			if err := kit.BuildWithBuilder(&c.Repos[i], tmp, cfg, nil); err != nil {
				return kit.Fail("build", "%v", err)
			}
		}
		b, err := kit.OpenDir(tmp)
		if err != nil {
			return kit.Fail("load", "written shard does not load: %v", err)
		}
		shards = b.Shards
		skip = func(d *kit.Doc) int { return kit.ModelSkip(d.Content, cfg.SizeMax, cfg.TrigramMax, false) }
		labels = append(labels, fmt.Sprintf("shards:%d", min(len(shards), 4)))
	case "merge":
		cc := kit.Corpus{Repos: c.Repos, Compound: true}
		b, err := kit.Build(&cc, tmp)
		if err != nil {
			return kit.Fail("build", "%v", err)
		}
		shards = b.Shards
		skip = func(d *kit.Doc) int {
			if d.Skip == 0 && bytes.IndexByte(d.Content, 0) >= 0 {
				return int(index.SkipReasonBinary)
			}
			return d.Skip
		}
	}
	defer func() {
		for _, s := range shards {
			s.Close()
		}
	}()

	ctx := context.Background()
	got := map[string]map[string]docSig{}
	gotSyms := map[string][]symSig{}
	listed := map[string]*zoekt.RepoListEntry{}
	reAll, _ := syntax.Parse(".*", kit.RegexpFlags)
	for _, s := range shards {
		res, err := s.Search(ctx, &query.Const{Value: true}, &zoekt.SearchOptions{Whole: true})
		if err != nil {
			return kit.Fail("search", "%v", err)
		}
		for _, f := range res.Files {
			if got[f.Repository] == nil {
				got[f.Repository] = map[string]docSig{}
			}
			if _, dup := got[f.Repository][f.FileName]; dup {
				return kit.Fail("duplicate", "document %s/%s read back twice", f.Repository, f.FileName)
			}
			got[f.Repository][f.FileName] = docSig{Name: f.FileName, Content: string(f.Content), Branches: strings.Join(f.Branches, ","), Language: f.Language,
				SubRepoPath: f.SubRepositoryPath, SubRepoName: f.SubRepositoryName, Version: f.Version, Checksum: fmt.Sprintf("%x", f.Checksum)}
		}
		sres, err := s.Search(ctx, &query.Symbol{Expr: &query.Regexp{Regexp: reAll, CaseSensitive: true}}, &zoekt.SearchOptions{ChunkMatches: true})
		if err != nil {
			return kit.Fail("search", "symbol query: %v", err)
		}
		for _, f := range sres.Files {
			key := f.Repository + "\x00" + f.FileName
			for _, cm := range f.ChunkMatches {
				for i, r := range cm.Ranges {
					ss := symSig{Start: int(r.Start.ByteOffset), End: int(r.End.ByteOffset)}
					if i < len(cm.SymbolInfo) && cm.SymbolInfo[i] != nil {
						si := cm.SymbolInfo[i]
						ss.Sym, ss.Kind, ss.Parent, ss.ParentKind = si.Sym, si.Kind, si.Parent, si.ParentKind
					} else {
						ss.Sym = "<no symbol info>"
					}
					gotSyms[key] = append(gotSyms[key], ss)
				}
			}
		}
		rl, err := s.List(ctx, &query.Const{Value: true}, nil)
		if err != nil {
			return kit.Fail("list", "%v", err)
		}
		for _, e := range rl.Repos {
			if prev, ok := listed[e.Repository.Name]; ok {
				prev.Stats.Add(&e.Stats)
			} else {
				listed[e.Repository.Name] = e
			}
		}
	}

	nontrivial := false
	for i := range c.Repos {
		r := &c.Repos[i]
		want := expectedSigs(r, skip)
		if !reflect.DeepEqual(want, got[r.Name]) {
			var diffs []string
			for n, w := range want {
				if g, ok := got[r.Name][n]; !ok {
					diffs = append(diffs, fmt.Sprintf("missing %q", n))
				} else if g != w {
					diffs = append(diffs, fmt.Sprintf("%q: wrote %+v read %+v", n, trunc(w), trunc(g)))
				}
			}
			for n := range got[r.Name] {
				if _, ok := want[n]; !ok {
					diffs = append(diffs, fmt.Sprintf("unexpected %q", n))
				}
			}
			sort.Strings(diffs)
			return kit.Fail("roundtrip", "repo %s via %s: %s", r.Name, c.Path, strings.Join(diffs, "; "))
		}
		// symbols
		for j := range r.Docs {
			d := r.Docs[j]
			if skip(&d) != 0 {
				continue
			}
			var ws []symSig
			for _, s := range d.Symbols {
				ws = append(ws, symSig{s.Start, s.End, string(d.Content[s.Start:s.End]), s.Kind, s.Parent, s.ParentKind})
			}
			sort.Slice(ws, func(a, b int) bool { return ws[a].Start < ws[b].Start })
			gs := gotSyms[r.Name+"\x00"+d.Name]
			sort.Slice(gs, func(a, b int) bool { return gs[a].Start < gs[b].Start })
			if len(ws) != len(gs) || (len(ws) > 0 && !reflect.DeepEqual(ws, gs)) {
				return kit.Fail("symbols", "repo %s doc %q via %s: wrote symbols %+v, read %+v", r.Name, d.Name, c.Path, ws, gs)
			}
		}
		// repository metadata
		e := listed[r.Name]
		if e == nil {
			return kit.Fail("list", "repository %s not listed", r.Name)
		}
		zr := r.ZoektRepo()
		gr := e.Repository
		if gr.ID != zr.ID || gr.Name != zr.Name || gr.URL != zr.URL || gr.FileURLTemplate != zr.FileURLTemplate || gr.LineFragmentTemplate != zr.LineFragmentTemplate ||
			gr.CommitURLTemplate != zr.CommitURLTemplate || !reflect.DeepEqual(gr.Branches, zr.Branches) || !reflect.DeepEqual(gr.Metadata, zr.Metadata) {
			return kit.Fail("repo-metadata", "repo %s via %s: wrote %+v read %+v", r.Name, c.Path, zr, gr)
		}
		for k, v := range zr.RawConfig {
			if gr.RawConfig[k] != v {
				return kit.Fail("repo-metadata", "repo %s: RawConfig[%q] wrote %q read %q", r.Name, k, v, gr.RawConfig[k])
			}
		}
		if len(zr.SubRepoMap) != len(gr.SubRepoMap) {
			return kit.Fail("repo-metadata", "repo %s: sub-repositories wrote %d read %d", r.Name, len(zr.SubRepoMap), len(gr.SubRepoMap))
		}
		for p, sr := range zr.SubRepoMap {
			g := gr.SubRepoMap[p]
			if g == nil || g.Name != sr.Name || g.URL != sr.URL || !reflect.DeepEqual(g.Branches, sr.Branches) {
				return kit.Fail("repo-metadata", "repo %s: sub-repository %q wrote %+v read %+v", r.Name, p, sr, g)
			}
		}
		if e.Stats.Documents != len(r.Docs) {
			return kit.Fail("list-stats", "repo %s via %s: %d documents written, List reports %d", r.Name, c.Path, len(r.Docs), e.Stats.Documents)
		}
		if len(r.Docs) >= 2 {
			nontrivial = true
		}
	}
	for name := range got {
		found := false
		for i := range c.Repos {
			if c.Repos[i].Name == name {
				found = true
			}
		}
		if !found {
			return kit.Fail("roundtrip", "unknown repository %q read back", name)
		}
	}
	corner := false
	for _, l := range labels {
		if l != "content:words" {
			corner = true
		}
	}
	labels = append(labels, "path:"+c.Path)
	rec.Eval(fmt.Sprintf("%+v", c), nontrivial && corner, labels...)
	rec.Sample(c, nontrivial && corner)
	return nil
}

func trunc(s docSig) docSig {
	if len(s.Content) > 80 {
		s.Content = s.Content[:80] + "…"
	}
	return s
}

func TestVerif_C09(t *testing.T) {
	rec := kit.Open(t, "C09",
		"generated repositories (1-8 documents: empty, 1-2 byte, binary, invalid UTF-8, lines of 98-300 runes with a multi-byte rune at the 100-rune sampling boundary, 3-2050 pairwise distinct runes around b-tree bucket sizes, long lines; 1-64 branches; 0-40 symbols; sub-repositories) written through ShardBuilder, index.Builder (skip decisions, small ShardMax) or Merge into a compound shard, read back with Const(true)+Whole, a sym:.* query in chunk mode, and List; non-trivial = >= 2 documents and >= 1 corner-case feature; distinct by hash",
		"skip decisions are modelled as documented: > SizeMax, 1-2 bytes, NUL byte, > TrigramMax distinct trigrams; skipped documents read back as the NOT-INDEXED marker plus explanation",
		"language is given explicitly (symbol extraction and language detection are not under test)",
	)
	var labels []string
	kit.Property(t, rec, func(rt *rapid.T) c09Case {
		g := kit.G{T: rt}
		labels = nil
		c := c09Case{Path: kit.Pick(g, []string{"shardbuilder", "builder", "builder", "merge"}, "path")}
		n := 1
		if c.Path == "merge" {
			n = g.Int(2, 3, "nrepos")
		}
		for i := 0; i < n; i++ {
			r, l := genC09Repo(g, i)
			c.Repos = append(c.Repos, r)
			labels = append(labels, l...)
		}
		c.Cfg = kit.BuilderConfig{ShardMax: kit.Pick(g, []int{50, 400, 5000, 100 << 20}, "shardmax"), SizeMax: kit.Pick(g, []int{30, 300, 2 << 20}, "sizemax"),
			TrigramMax: kit.Pick(g, []int{10, 100, 20000}, "trigrammax"), Parallelism: kit.Pick(g, []int{1, 2, 4}, "par")}
		return c
	}, func(c c09Case) error {
		return runC09(rec, c, labels)
	})
}
