//go:build verif

package index_test

import (
	"context"
	"fmt"
	"os"
	"path/filepath"
	"reflect"
	"sort"
	"strings"
	"testing"

	"pgregory.net/rapid"

	"github.com/sourcegraph/zoekt"
	"github.com/sourcegraph/zoekt/index"
	"github.com/sourcegraph/zoekt/internal/verifkit/kit"
	"github.com/sourcegraph/zoekt/query"
)

type c38Opts struct {
	SizeMax, TrigramMax, ShardMax, Parallelism int
	LargeFiles                                 []string
}

type c38Case struct {
	Repo   kit.Repo // description + documents, indexed with A
	A, B   c38Opts
	BRepo  kit.Repo // description used for the second run (documents identical)
	Change string   // which single aspect differs between (A, Repo) and (B, BRepo)
	// Sidecar: between the two runs something wrote a metadata sidecar for the
	// first shard (a metadata-only update or a tombstone operation does that);
	// it carries the description as stored, plus a note in RawConfig
	Sidecar bool `json:",omitempty"`
}

func (o c38Opts) options(dir string, r *kit.Repo) index.Options {
	opts := index.Options{
		IndexDir:              dir,
		RepositoryDescription: *r.ZoektRepo(),
		SizeMax:               o.SizeMax,
		TrigramMax:            o.TrigramMax,
		ShardMax:              o.ShardMax,
		Parallelism:           o.Parallelism,
		LargeFiles:            o.LargeFiles,
		DisableCTags:          true,
	}
	opts.SetDefaults() // every caller does this before asking for the index state
	return opts
}

func c38Build(dir string, o c38Opts, r *kit.Repo) error {
	opts := o.options(dir, r)
	b, err := index.NewBuilder(opts)
	if err != nil {
		return err
	}
	for i := range r.Docs {
		if err := b.Add(r.Docs[i].ZoektDoc()); err != nil {
			b.Finish()
			return err
		}
	}
	return b.Finish()
}

func c38Content(dir string) (string, error) {
	b, err := kit.OpenDir(dir)
	if err != nil {
		return "", err
	}
	defer b.Close()
	var lines []string
	for _, s := range b.Shards {
		res, err := s.Search(context.Background(), &query.Const{Value: true}, &zoekt.SearchOptions{Whole: true})
		if err != nil {
			return "", err
		}
		for _, f := range res.Files {
			lines = append(lines, fmt.Sprintf("%q %q %q", f.FileName, f.Content, f.Branches))
		}
	}
	sort.Strings(lines)
	return strings.Join(lines, "\n"), nil
}

func descMeta(r *zoekt.Repository) string {
	rc := map[string]string{}
	for k, v := range r.RawConfig {
		rc[k] = v
	}
	return fmt.Sprintf("url=%s commit=%s file=%s line=%s raw=%v meta=%v", r.URL, r.CommitURLTemplate, r.FileURLTemplate, r.LineFragmentTemplate, rc, r.Metadata)
}

func runC38(rec *kit.Recorder, c c38Case) error {
	tmp, err := os.MkdirTemp("", "c38")
	if err != nil {
		return err
	}
	defer os.RemoveAll(tmp)
	dirA, dirB := filepath.Join(tmp, "a"), filepath.Join(tmp, "b")
	os.MkdirAll(dirA, 0o755)
	os.MkdirAll(dirB, 0o755)
	if err := c38Build(dirA, c.A, &c.Repo); err != nil {
		return kit.Fail("build", "first index run: %v", err)
	}
	// what incremental indexing says about running (B, BRepo) over the index of (A, Repo)
	optsB := c.B.options(dirA, &c.BRepo)
	state, _ := optsB.IndexState()
	skip := optsB.IncrementalSkipIndexing()

	// ground truth: index with (B, BRepo) from scratch and compare what is searchable
	if err := c38Build(dirB, c.B, &c.BRepo); err != nil {
		return kit.Fail("build", "second index run: %v", err)
	}
	ca, err := c38Content(dirA)
	if err != nil {
		return kit.Fail("read", "%v", err)
	}
	cb, err := c38Content(dirB)
	if err != nil {
		return kit.Fail("read", "%v", err)
	}
	contentDiffers := ca != cb
	za, zb := c.Repo.ZoektRepo(), c.BRepo.ZoektRepo()
	branchesDiffer := !reflect.DeepEqual(za.Branches, zb.Branches)
	metaDiffers := descMeta(za) != descMeta(zb)

	what := fmt.Sprintf("change %q: A=%+v B=%+v; state=%s skip=%v; content differs=%v branches differ=%v metadata differs=%v", c.Change, c.A, c.B, state, skip, contentDiffers, branchesDiffer, metaDiffers)
	label := "outcome:"
	switch {
	case contentDiffers || branchesDiffer:
		label += "must-reindex"
		if skip || state == index.IndexStateEqual || state == index.IndexStateMeta {
			return kit.Fail("skipped-stale-index", "%s: the existing index is treated as up to date although a fresh build differs", what)
		}
	case metaDiffers:
		label += "metadata-only"
		if state == index.IndexStateEqual {
			return kit.Fail("metadata-not-applied", "%s: a metadata-only change is classified as equal, so it is never applied", what)
		}
		if state == index.IndexStateMeta {
			// apply it the way the callers do (MergeMutable on the stored description)
			repos, _, err := index.ReadMetadataPathAlive(filepath.Join(dirA, filepath.Base(firstShard(dirA))))
			if err != nil || len(repos) == 0 {
				return kit.Fail("read", "metadata of the existing shard: %v", err)
			}
			stored := repos[0]
			if _, err := stored.MergeMutable(zb); err != nil {
				return kit.Fail("metadata-not-applied", "%s: MergeMutable refuses: %v", what, err)
			}
			if descMeta(stored) != descMeta(zb) {
				return kit.Fail("metadata-not-applied", "%s: after applying, stored description is %s, wanted %s", what, descMeta(stored), descMeta(zb))
			}
		}
		// any other state re-indexes, which also brings the metadata up to date
	default:
		label += "nothing-observable-changed"
	}
	// history: (sidecar written,) then the repository is indexed again in place
	// with (B, BRepo). Whatever happened before, the directory must then be
	// up to date for (B, BRepo) and hold what a fresh build holds.
	if c.Sidecar {
		label2 := "history:sidecar-then-reindex"
		shard := firstShard(dirA)
		repos, _, err := index.ReadMetadataPath(shard)
		if err != nil {
			return kit.Fail("read", "metadata of the existing shard: %v", err)
		}
		for _, r := range repos {
			if r.RawConfig == nil {
				r.RawConfig = map[string]string{}
			}
			r.RawConfig["note"] = "sidecar"
		}
		tmpf, final, err := index.JsonMarshalRepoMetaTemp(shard, repos)
		if err != nil {
			return kit.Fail("build", "writing the sidecar: %v", err)
		}
		if err := os.Rename(tmpf, final); err != nil {
			return kit.Fail("build", "installing the sidecar: %v", err)
		}
		if err := c38Build(dirA, c.B, &c.BRepo); err != nil {
			return kit.Fail("build", "re-index in place: %v", err)
		}
		optsB2 := c.B.options(dirA, &c.BRepo)
		if st, _ := optsB2.IndexState(); st != index.IndexStateEqual {
			return kit.Fail("reindex-not-up-to-date", "%s: right after re-indexing with B (a sidecar had been written for the old shard) IndexState for B is %q, so the repository is re-indexed forever", what, st)
		}
		ca2, err := c38Content(dirA)
		if err != nil {
			return kit.Fail("read", "%v", err)
		}
		if ca2 != cb {
			return kit.Fail("reindex-differs-from-fresh", "%s: after re-indexing in place the searchable content differs from a fresh build with B", what)
		}
		ra, _, err := index.ReadMetadataPathAlive(firstShard(dirA))
		if err != nil || len(ra) == 0 {
			return kit.Fail("read", "metadata after re-indexing: %v", err)
		}
		if !reflect.DeepEqual(ra[0].Branches, zb.Branches) || descMeta(ra[0]) != descMeta(zb) {
			return kit.Fail("reindex-differs-from-fresh", "%s: after re-indexing in place the stored description is branches %v %s, a fresh build has %v %s", what, ra[0].Branches, descMeta(ra[0]), zb.Branches, descMeta(zb))
		}
		// and the old description is no longer considered up to date when it differs
		if contentDiffers || branchesDiffer {
			optsA2 := c.A.options(dirA, &c.Repo)
			if st, _ := optsA2.IndexState(); st == index.IndexStateEqual || st == index.IndexStateMeta || optsA2.IncrementalSkipIndexing() {
				return kit.Fail("skipped-stale-index", "%s: after re-indexing with B, a request for A is treated as up to date (state %q)", what, st)
			}
		}
		rec.Eval(fmt.Sprintf("%+v", c), c.Change != "none", label, "change:"+c.Change, "state:"+string(state), label2)
		rec.Sample(c, c.Change != "none")
		return nil
	}
	rec.Eval(fmt.Sprintf("%+v", c), c.Change != "none", label, "change:"+c.Change, "state:"+string(state))
	rec.Sample(c, c.Change != "none")
	return nil
}

func firstShard(dir string) string {
	m, _ := filepath.Glob(filepath.Join(dir, "*.zoekt"))
	sort.Strings(m)
	if len(m) == 0 {
		return ""
	}
	return m[0]
}

func TestVerif_C38(t *testing.T) {
	rec := kit.Open(t, "C38",
		"a generated repository (documents of 5-400 bytes, some with many distinct trigrams, names matching or not matching large-file patterns) indexed once with options A; then options / description B differing from A in exactly one aspect (SizeMax, TrigramMax, LargeFiles, ShardMax, Parallelism, a branch version (possibly empty), the branch set, a renamed branch, Metadata (changed, added or dropped keys), RawConfig, URL or a URL template, or nothing); in 30% of the cases a metadata sidecar is then written for the old shard and the repository is re-indexed in place with B, after which the directory must be up to date for B and equal a fresh build; IndexState / IncrementalSkipIndexing for B over A's index is judged against ground truth obtained by indexing with B from scratch and comparing every document's name, content and branches; non-trivial = something differs between A and B; distinct by hash",
		"SetDefaults is applied before IndexState, as every caller does",
		"a metadata-only change must be classified meta-mismatch (and MergeMutable must then bring the stored description to the new values) or cause a re-index; it must not be classified equal",
		"ctags is not installed, so symbol-affecting options are not exercised (DisableCTags is constant)",
	)
	kit.Property(t, rec, func(rt *rapid.T) c38Case {
		g := kit.G{T: rt}
		r := kit.Repo{Name: "example.com/repo", ID: 7, Branches: []kit.Branch{{Name: "HEAD", Version: "aaaa"}, {Name: "dev", Version: "bbbb"}},
			Metadata: map[string]string{"team": "alpha"}, RawConfig: map[string]string{"public": "1"}, URL: "http://example.com/repo",
			FileURL: "http://example.com/repo/blob/{{.Version}}/{{.Path}}", LineFragment: "#L{{.LineNumber}}", CommitURL: "http://example.com/repo/commit/{{.Version}}"}
		// versions may be empty (directory / archive style indexing without a commit)
		for i := range r.Branches {
			r.Branches[i].Version = kit.Pick(g, []string{"aaaa", "bbbb", "", ""}, "version")
		}
		if g.Bool(50, "twokeys") {
			r.Metadata["tier"] = "gold"
		}
		nd := g.Int(2, 6, "ndocs")
		for i := 0; i < nd; i++ {
			name := kit.Pick(g, []string{"a.go", "b.big", "dir/c.txt", "d.big", "e.md", "f.go"}, "name") + fmt.Sprint(i)
			if g.Bool(30, "bigext") {
				name += ".big"
			}
			var content string
			switch g.U(4, "ckind") {
			case 0:
				content = strings.Repeat("foo bar ", g.Int(1, 50, "rep"))
			case 1:
				content = distinctRunes(0x4E00, kit.Pick(g, []int{5, 12, 30, 60, 120}, "distinct"))
			case 2:
				content = strings.Repeat("x", kit.Pick(g, []int{39, 40, 41, 99, 100, 101, 300}, "size"))
			default:
				cc, _ := kit.GenContent(g, 30, false)
				content = string(cc)
			}
			d := kit.Doc{Name: name, Content: kit.Text(content), Language: "Text", Branches: []string{"HEAD"}}
			if g.Bool(40, "ondev") {
				d.Branches = append(d.Branches, "dev")
			}
			r.Docs = append(r.Docs, d)
		}
		a := c38Opts{SizeMax: kit.Pick(g, []int{40, 100, 2 << 20}, "sizemax"), TrigramMax: kit.Pick(g, []int{10, 50, 20000}, "trigrammax"),
			ShardMax: kit.Pick(g, []int{200, 100 << 20}, "shardmax"), Parallelism: kit.Pick(g, []int{1, 4}, "par"),
			LargeFiles: kit.Pick(g, [][]string{nil, {"*.big"}, {"*.big", "!d.big*"}}, "largefiles")}
		c := c38Case{Repo: r, A: a, B: a, BRepo: r}
		c.BRepo.Branches = append([]kit.Branch(nil), r.Branches...)
		c.BRepo.Metadata = map[string]string{}
		for k, v := range r.Metadata {
			c.BRepo.Metadata[k] = v
		}
		c.BRepo.RawConfig = map[string]string{"public": "1"}
		c.Sidecar = g.Bool(30, "sidecar")
		c.Change = kit.Pick(g, []string{"SizeMax", "TrigramMax", "LargeFiles", "LargeFilesOrder", "ShardMax", "Parallelism", "BranchVersion", "BranchSet", "BranchRename", "BranchRename", "Metadata", "RawConfig", "URL", "FileURLTemplate", "none", "TrigramMax", "Metadata"}, "change")
		other := func(cur int, vals []int) int {
			for {
				v := kit.Pick(g, vals, "other")
				if v != cur {
					return v
				}
			}
		}
		switch c.Change {
		case "SizeMax":
			c.B.SizeMax = other(a.SizeMax, []int{40, 100, 2 << 20})
		case "TrigramMax":
			c.B.TrigramMax = other(a.TrigramMax, []int{10, 50, 20000})
		case "LargeFiles":
			for {
				lf := kit.Pick(g, [][]string{nil, {"*.big"}, {"*.big", "!d.big*"}, {"*.go*"}}, "lf2")
				if !reflect.DeepEqual(lf, a.LargeFiles) {
					c.B.LargeFiles = lf
					break
				}
			}
		case "LargeFilesOrder":
			// the last matching pattern wins, so the order is content-affecting
			c.A.LargeFiles = []string{"*.big*", "!d.big*"}
			c.B = c.A
			c.B.LargeFiles = []string{"!d.big*", "*.big*"}
			c.A.SizeMax, c.B.SizeMax = 40, 40
			c.Repo.Docs = append(c.Repo.Docs, kit.Doc{Name: "d.big", Content: kit.Text(strings.Repeat("needle ", 20)), Language: "Text", Branches: []string{"HEAD"}})
			c.BRepo.Docs = c.Repo.Docs
		case "ShardMax":
			c.B.ShardMax = other(a.ShardMax, []int{200, 100 << 20})
		case "Parallelism":
			c.B.Parallelism = other(a.Parallelism, []int{1, 4})
		case "BranchVersion":
			wb := g.U(2, "whichb")
			for {
				v := kit.Pick(g, []string{"cccc", "", "aaaa", "bbbb"}, "newversion")
				if v != c.BRepo.Branches[wb].Version {
					c.BRepo.Branches[wb].Version = v
					break
				}
			}
		case "BranchRename":
			// one branch is replaced by a differently named one at the same version
			wb := g.U(2, "whichb")
			old := c.BRepo.Branches[wb].Name
			c.BRepo.Branches[wb].Name = kit.Pick(g, []string{"wip", "release", "main"}, "newname")
			docs := append([]kit.Doc(nil), r.Docs...)
			for i := range docs {
				bs := append([]string(nil), docs[i].Branches...)
				for j := range bs {
					if bs[j] == old {
						bs[j] = c.BRepo.Branches[wb].Name
					}
				}
				docs[i].Branches = bs
			}
			c.BRepo.Docs = docs
		case "BranchSet":
			c.BRepo.Branches = c.BRepo.Branches[:1]
			docs := append([]kit.Doc(nil), r.Docs...)
			for i := range docs {
				docs[i].Branches = []string{"HEAD"}
			}
			c.BRepo.Docs = docs
		case "Metadata":
			switch g.U(4, "metahow") {
			case 0:
				c.BRepo.Metadata["team"] = kit.Pick(g, []string{"beta", ""}, "newteam")
			case 1:
				c.BRepo.Metadata["owner"] = "x"
			case 2:
				// a key is dropped (the new description is a non-nil subset)
				// (never the last one: an empty description reads as "no opinion")
				if len(c.BRepo.Metadata) >= 2 {
					delete(c.BRepo.Metadata, kit.Pick(g, []string{"team", "tier"}, "dropkey"))
				} else {
					c.BRepo.Metadata["team"] = "beta"
				}
			default:
				c.BRepo.Metadata = map[string]string{"team": "beta"}
			}
		case "RawConfig":
			c.BRepo.RawConfig = map[string]string{"public": "0", "fork": "1"}
		case "URL":
			c.BRepo.URL = "http://example.org/moved"
		case "FileURLTemplate":
			c.BRepo.FileURL = "http://example.org/b/{{.Path}}"
		}
		return c
	}, func(c c38Case) error { return runC38(rec, c) })
}
