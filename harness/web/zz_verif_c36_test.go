//go:build verif

package web_test

import (
	"bytes"
	"fmt"
	"io"
	"log"
	"net/http"
	"net/http/httptest"
	"net/url"
	"os"
	"path/filepath"
	"regexp"
	"sort"
	"strconv"
	"strings"
	"testing"
	"unicode"

	"golang.org/x/net/html"
	"pgregory.net/rapid"

	"github.com/sourcegraph/zoekt"
	"github.com/sourcegraph/zoekt/index"
	"github.com/sourcegraph/zoekt/internal/verifkit/kit"
	"github.com/sourcegraph/zoekt/query"
	"github.com/sourcegraph/zoekt/search"
	"github.com/sourcegraph/zoekt/web"
)

// ---------------------------------------------------------------------------
// Case

type c36Branch struct{ Name, Version kit.Text }

type c36Doc struct {
	Name, Content, Language kit.Text
	Branches                []int // indices into the repository's branches
	Sub                     int   // 0 = top repository, else 1+index into Subs
}

type c36Sub struct {
	Path                   string
	Name, FileTpl, LineTpl kit.Text
}

type c36Repo struct {
	Name, URL, CommitTpl, FileTpl, LineTpl kit.Text
	// ViaMeta: the repository metadata is delivered through the "<shard>.meta"
	// sidecar (which nothing validates) instead of the shard itself. Templates
	// the shard builder refuses (they do not parse) always travel that way.
	ViaMeta  bool `json:",omitempty"`
	Branches []c36Branch
	Subs     []c36Sub `json:",omitempty"`
	Docs     []c36Doc
}

type c36Param struct{ K, V kit.Text }

type c36Req struct {
	Path   string
	Params []c36Param
	Follow int // how many print?/search? links of the answer are requested as well
}

type c36Case struct {
	Print   bool
	Version string
	Repos   []c36Repo
	Reqs    []c36Req
}

// ---------------------------------------------------------------------------
// Markers and payloads
//
// Every generated value carries a marker zqk<s>z where <s> names the source of
// the value. Markers are lower-case alphanumerics, so HTML, URL and JS
// escaping leave them alone and they can be found again in any context.

const (
	srcContent  = 'c'
	srcFile     = 'f'
	srcRepo     = 'r'
	srcBranch   = 'b'
	srcVersion  = 'v'
	srcRepoURL  = 'u'
	srcTemplate = 't' // literal part of an operator-written URL template (benign positions only)
	srcQuery    = 'q'
	srcParam    = 'n' // num=, ctx=, order=, debug=, unknown parameters
	srcLang     = 'l'
	srcSubRepo  = 's'
	srcContext  = 'x' // content of lines around a match (does not contain the search term)
)

func mark(src rune) string { return "zqk" + string(src) + "z" }

var markerRE = regexp.MustCompile(`zqk[a-z]z`)

// payloads are HTML / JS / URL / template break-out attempts around M.
var payloads = []string{
	`M`,
	`"><script>M</script>`,
	`'><script>M</script>`,
	`'onmouseover='M`,
	`" onmouseover="M`,
	` onfocus=M autofocus `,
	`javascript:M`,
	`JaVaScRiPt:M//`,
	`</pre><img src=x onerror=M>`,
	`</b></pre></td><svg/onload=M>`,
	`{{.Path}}M`,
	`{{"M"}}{{template "head"}}`,
	"\xff\xfeM\xc0\xaf",
	"\x01\x02M\x7f\x1b[31m",
	"\xe2\x80M", // truncated rune in front of the marker
	`<b class=M>`,
	`</script><script>M</script>`,
	`"+M+"`,
	`';M;//`,
	`\";M;//`,
	`\';M;//`,
	`</title><svg onload=M>`,
	`<!--M-->`,
	`--><M>`,
	`&lt;M&gt;&quot;&#39;`,
	`&#x3c;M>`,
	`%22%3E%3Cscript%3EM%3C/script%3E`,
	" M ",
	"M\r\nM",
	"`M`",
	`+M+`,
	`<M x=1>`,
	`</M>`,
	`<a M=1 href=javascript:M>x</a>`,
	`<style>@import 'M';</style>`,
	`<![CDATA[M]]>`,
	`<plaintext>M`,
	`</textarea><textarea>M`,
	`<iframe srcdoc="&lt;script&gt;M&lt;/script&gt;">`,
	`data:text/html,<script>M</script>`,
	`<a href="data:text/html;base64,M">`,
	`<script>M`,
	`<ſcript>M</ſcript>`, // U+017F folds to s in some case-insensitive comparisons
	`<input value=M onfocus=M autofocus>`,
	`#"><img src=M onerror=M>`,
	`?q="><script>M</script>&num='M`,
	`<math><mtext><table><mglyph><style><img src onerror=M>`,
	`＜script＞M＜/script＞`,
}

// urlPayloads are values for positions that end up as whole URLs.
var urlPayloads = []string{
	`https://example.com/M`,
	`http://example.com/M?a=b&c="d"`,
	`javascript:M`,
	` javascript:M`,
	"\x01javascript:M",
	"java\tscript:M",
	"java\nscript:M",
	`JaVaScRiPt:M`,
	`javascript&colon;M`,
	`vbscript:M`,
	`data:text/html,<script>M</script>`,
	`DATA:text/html;base64,M`,
	`//evil.example/M`,
	`\\evil.example\M`,
	`"><script>M</script>`,
	`'onmouseover='M`,
	`M`,
	`#M`,
	`mailto:M@example.com`,
	`ftp://example.com/M`,
	`https://example.com/M" onclick="M`,
	"https://example.com/\xffM",
	// script-capable schemes that "name a host": //host/ is a JS comment, %0A ends it
	`javascript://example.com/%0AM`,
	`JaVaScRiPt://example.com/%0aM//`,
	` javascript://example.com/%0AM`,
	"\tjavascript://example.com/%0DM",
	"\x1fjavascript://user@example.com:80/%0AM?a=b#c",
	"java\rscript://example.com/%E2%80%A8M",
	`javascript:/*M*/M`,
	`javascript:%0AM`,
	`vbscript://example.com/%0AM`,
	`VBScript:M`,
	`data://example.com/text/html,<script>M</script>`,
	`data:text/html;charset=utf-8;base64,M`,
	` data:image/svg+xml,<svg onload=M>`,
	`blob:https://example.com/M`,
	`view-source:javascript:M`,
	`feed:javascript:M`,
	// location schemes that merely are not http(s)
	`ssh://git@example.com/M.git`,
	`git://example.com/M`,
	`file:///etc/M`,
	`x-handler://example.com/M`,
}

func fill(p, m string) string { return strings.ReplaceAll(p, "M", m) }

func genPayload(g kit.G, src rune, label string) string {
	m := mark(src)
	switch g.Int(0, 9, label+"-shape") {
	case 0:
		return m
	case 1, 2:
		return fill(kit.Pick(g, payloads, label), m) + fill(kit.Pick(g, payloads, label+"2"), m)
	case 3:
		return "x " + fill(kit.Pick(g, payloads, label), m) + " y"
	default:
		return fill(kit.Pick(g, payloads, label), m)
	}
}

// File URL templates. The literal text is written by the operator and is
// harmless here; Path, Version and Branch are substituted from the index.
var fileTpls = []string{
	`{{ URLJoinPath "https://example.com/zqktz/blob" .Version .Path}}`,
	`https://example.com/zqktz/{{.Version}}/{{.Path}}`,
	`{{.Path}}`,
	`{{.Branch}}:{{.Path}}`,
	`{{.Version}}{{.Path}}`,
	`/zqktz?path={{.Path}}&v={{.Version}}&b={{.Branch}}`,
	`https://example.com/zqktz/{{.Path}}#{{.Branch}}`,
	`zqktz/{{.Path}}`,
	`{{.Path | printf "%s"}}`,
	`{{.Path | printf "%q"}}`,
	``,
	`https://example.com/zqktz`,
	// parse, but fail when executed (the builder only validates parsing)
	`{{.Path.Missing}}`,
	`https://example.com/zqktz/{{index .Path 99999}}`,
	`{{.Version.X}}/{{.Path}}`,
	`{{template "nope" .}}`,
}

// brokenTpls do not even parse. The shard builder rejects them, but nothing
// validates the metadata of a "<shard>.meta" sidecar, a foreign shard or a
// remote searcher, so the server has to cope with them.
var brokenTpls = []string{
	`https://example.com/zqktz/{{.Version`,
	`{{.Version}`,
	`{{.Path}`,
	`{{if .Version}}zqktz`,
	`{{.Version | nosuchfunc}}`,
	`{{end}}`,
	`{{"zqktz}}`,
	`{{range}}`,
	`zqktz/{{.Path}}{{`,
	`{{template}}`,
	`{{ URLJoinPath "https://example.com/zqktz" .Version .Path`,
	`{{/* zqktz`,
	`{{$x}}`,
	`#L{{.LineNumber`,
	`{{.LineNumber | }}`,
	`{{.Name}}:{{.Version}}{{else}}`,
	"{{.Version\n}}{{",
}

// unparsable reports whether the shard builder would refuse the template.
func unparsable(t string) bool {
	_, err := index.ParseTemplate(t)
	return err != nil
}

// failingTpl reports whether a URL template of the pools cannot be executed.
func failingTpl(t string) bool {
	return strings.Contains(t, ".Missing") || strings.Contains(t, "99999") || strings.Contains(t, ".Version.X") || strings.Contains(t, `template "nope"`) || strings.Contains(t, ".Nope")
}

var lineTpls = []string{
	`#L{{.LineNumber}}`,
	`L{{.LineNumber}}`,
	`;l={{.LineNumber}}`,
	``,
	`#zqktz-{{.LineNumber}}`,
	`?line={{.LineNumber}}`,
	`#L{{.LineNumber.Missing}}`,
	`#L{{index .LineNumber 99999}}`,
}

var commitTpls = []string{
	`{{ URLJoinPath "https://example.com/zqktz/commit/" .Version}}`,
	`https://example.com/zqktz/{{.Version}}`,
	`{{.Version}}`,
	`{{.Name}}`,
	`{{.Name}}:{{.Version}}`,
	`/zqktz?b={{.Name}}&v={{.Version}}`,
	``,
	`{{.Version.X}}`,
	`https://example.com/zqktz/{{.Nope}}`,
	`{{index .Name 99999}}`,
}

var plainWords = []string{"func", "main", "return", "if", "x", "y", "err", "nil", "", "  ", "\t"}

func genLine(g kit.G, withMarker bool) string {
	var sb strings.Builder
	n := g.Int(0, 3, "nw")
	for i := 0; i < n; i++ {
		sb.WriteString(kit.Pick(g, plainWords, "w") + " ")
	}
	if withMarker {
		switch g.Int(0, 5, "lineshape") {
		case 0:
			// long run in front of and behind the match: LimitPre / LimitPost cut through payloads
			p := genPayload(g, srcContext, "pre")
			sb.WriteString(strings.Repeat(p+" ", 1+120/(len(p)+1)))
			sb.WriteString(mark(srcContent))
			sb.WriteString(strings.Repeat(" "+p, 1+120/(len(p)+1)))
		case 1:
			// several matches on one line
			sb.WriteString(genPayload(g, srcContent, "p1") + " " + genPayload(g, srcContent, "p2"))
		default:
			sb.WriteString(genPayload(g, srcContent, "p"))
		}
	} else if g.Bool(50, "ctxpayload") {
		// a context line: breakout attempt without the search term
		sb.WriteString(genPayload(g, srcContext, "cp"))
	}
	return sb.String()
}

var fileStems = []string{"main.go", "a/b.py", "README.md", "x", "dir/sub/f.c", "Makefile", "a b.txt", "é.rb"}

func genRepo(g kit.G, idx int) c36Repo {
	r := c36Repo{}
	if g.Bool(70, "rname-payload") {
		r.Name = kit.Text(fmt.Sprintf("r%d/", idx) + genPayload(g, srcRepo, "rname"))
	} else {
		r.Name = kit.Text(fmt.Sprintf("github.com/org/r%d-%s", idx, mark(srcRepo)))
	}
	r.URL = kit.Text(fill(kit.Pick(g, urlPayloads, "rurl"), mark(srcRepoURL)))
	r.CommitTpl = kit.Text(kit.Pick(g, commitTpls, "ctpl"))
	r.FileTpl = kit.Text(kit.Pick(g, fileTpls, "ftpl"))
	r.LineTpl = kit.Text(kit.Pick(g, lineTpls, "ltpl"))
	// metadata that never went through the shard builder's validation
	r.ViaMeta = g.Bool(30, "via-meta")
	if r.ViaMeta {
		if g.Bool(45, "ctpl-broken") {
			r.CommitTpl = kit.Text(kit.Pick(g, brokenTpls, "ctpl-b"))
		}
		if g.Bool(35, "ftpl-broken") {
			r.FileTpl = kit.Text(kit.Pick(g, brokenTpls, "ftpl-b"))
		}
		if g.Bool(35, "ltpl-broken") {
			r.LineTpl = kit.Text(kit.Pick(g, brokenTpls, "ltpl-b"))
		}
	}
	nb := g.Int(0, 3, "nbranch")
	for i := 0; i < nb; i++ {
		b := c36Branch{}
		if i == 0 && g.Bool(40, "head") {
			b.Name = kit.Text("HEAD")
		} else if g.Bool(30, "burl") {
			b.Name = kit.Text(fill(kit.Pick(g, urlPayloads, "bname-url"), mark(srcBranch)))
		} else {
			b.Name = kit.Text(genPayload(g, srcBranch, "bname"))
		}
		for _, o := range r.Branches {
			if bytes.Equal(o.Name, b.Name) {
				b.Name = append(b.Name, byte('0'+i))
			}
		}
		if g.Bool(50, "vurl") {
			b.Version = kit.Text(fill(kit.Pick(g, urlPayloads, "ver-url"), mark(srcVersion)))
		} else {
			b.Version = kit.Text(genPayload(g, srcVersion, "ver"))
		}
		r.Branches = append(r.Branches, b)
	}
	if g.Int(0, 9, "subrepo") == 6 {
		sub := c36Sub{
			Path:    "sub",
			Name:    kit.Text("sub/" + genPayload(g, srcSubRepo, "subname")),
			FileTpl: kit.Text(kit.Pick(g, fileTpls, "sub-ftpl")),
			LineTpl: kit.Text(kit.Pick(g, lineTpls, "sub-ltpl")),
		}
		if r.ViaMeta && g.Bool(30, "sub-ftpl-broken") {
			sub.FileTpl = kit.Text(kit.Pick(g, brokenTpls, "sub-ftpl-b"))
		}
		if r.ViaMeta && g.Bool(30, "sub-ltpl-broken") {
			sub.LineTpl = kit.Text(kit.Pick(g, brokenTpls, "sub-ltpl-b"))
		}
		r.Subs = append(r.Subs, sub)
	}
	nd := g.Int(1, 4, "ndocs")
	for i := 0; i < nd; i++ {
		d := c36Doc{}
		stem := kit.Pick(g, fileStems, "stem")
		switch g.Int(0, 3, "fname") {
		case 0:
			d.Name = kit.Text(fmt.Sprintf("%d-%s-%s", i, mark(srcFile), stem))
		case 1:
			d.Name = kit.Text(fill(kit.Pick(g, urlPayloads, "fname-url"), mark(srcFile)))
		default:
			d.Name = kit.Text(genPayload(g, srcFile, "fname") + fmt.Sprintf("%d", i))
		}
		d.Name = bytes.ReplaceAll(d.Name, []byte{0}, []byte{1})
		for _, o := range r.Docs {
			if bytes.Equal(o.Name, d.Name) {
				d.Name = append(d.Name, byte('a'+i))
			}
		}
		nl := g.Int(1, 6, "nlines")
		hit := g.Int(0, nl-1, "hitline")
		var lines []string
		for l := 0; l < nl; l++ {
			lines = append(lines, genLine(g, l == hit || g.Bool(20, "hit2")))
		}
		c := strings.Join(lines, "\n")
		if g.Bool(30, "crlf") {
			c = strings.Join(lines, "\r\n")
		}
		if g.Bool(60, "eol") {
			c += "\n"
		}
		d.Content = kit.Text(strings.ReplaceAll(c, "\x00", "\x01"))
		if len(r.Docs) > 0 && g.Int(0, 9, "dupcontent") == 5 {
			d.Content = r.Docs[0].Content // same checksum: "Duplicate result"
		}
		if g.Bool(25, "lang") {
			d.Language = kit.Text(genPayload(g, srcLang, "lang"))
		}
		for bi := range r.Branches {
			if bi == 0 || g.Bool(50, "inbranch") {
				d.Branches = append(d.Branches, bi)
			}
		}
		if len(r.Subs) > 0 && g.Bool(60, "insub") {
			d.Sub = 1
			d.Name = kit.Text(r.Subs[0].Path + "/" + string(d.Name))
		}
		r.Docs = append(r.Docs, d)
	}
	return r
}

var numPool = []string{"", "1", "2", "", "100000", "1", "0", "-1", "9223372036854775807", "3", "4611686018427387904", "99999999999999999999", " 5", "0x10"}
var ctxPool = []string{"", "1", "2", "0", "3", "10", "5", "", "1", "10", "11", "2", "3", "-1", "10", "999999999999999999999"}
var orderPool = []string{"", "", "name", "revname", "size", "revsize", "ram", "revram", "time", "revtime"}

// quoteQuery turns text into a zoekt query atom that matches it literally.
func quoteQuery(text string) string {
	r := regexp.QuoteMeta(text)
	r = strings.ReplaceAll(r, `\`, `\\`)
	r = strings.ReplaceAll(r, `"`, `\"`)
	return `"` + r + `"`
}

func genReq(g kit.G, c *c36Case) c36Req {
	repo := &c.Repos[g.Int(0, len(c.Repos)-1, "reqrepo")]
	doc := &repo.Docs[g.Int(0, len(repo.Docs)-1, "reqdoc")]
	param := func(ps *[]c36Param, k string, pool []string) {
		if g.Int(0, 9, k+"-payload") == 7 { // rapid favours small values: this is rare
			*ps = append(*ps, c36Param{kit.Text(k), kit.Text(genPayload(g, srcParam, k))})
			return
		}
		if v := kit.Pick(g, pool, k); v != "" {
			*ps = append(*ps, c36Param{kit.Text(k), kit.Text(v)})
		}
	}
	rq := c36Req{Follow: g.Int(0, 3, "follow")}
	kind := g.Int(0, 19, "reqkind")
	switch {
	case kind <= 9: // file search
		rq.Path = "/search"
		var q string
		qp := genPayload(g, srcQuery, "q")
		switch g.Int(0, 9, "qshape") {
		case 0:
			q = mark(srcContent)
		case 1:
			q = mark(srcContent) + " or " + quoteQuery(qp)
		case 2:
			// a literal line fragment of a document, payload included
			lines := strings.Split(string(doc.Content), "\n")
			ln := strings.TrimRight(lines[g.Int(0, len(lines)-1, "qline")], "\r")
			if len(ln) > 60 {
				ln = ln[:60]
			}
			if strings.TrimSpace(ln) == "" {
				ln = mark(srcContent)
			}
			q = quoteQuery(strings.ToValidUTF8(ln, "")) + " or " + quoteQuery(qp)
		case 3:
			q = mark(srcFile) + " or " + quoteQuery(qp)
		case 4:
			q = "f:" + mark(srcFile) + " " + mark(srcContent)
		case 5:
			q = qp // raw payload: parse error, no result, or a literal hit
		case 6:
			q = mark(srcContent) + " " + qp
		case 7:
			q = mark(srcContent) + " -" + quoteQuery(qp)
		case 8:
			q = "(" + mark(srcContent) + " or " + mark(srcFile) + ") case:yes r:" + mark(srcRepo) + " or " + quoteQuery(qp)
		default:
			q = mark(srcContent) + " lang:" + quoteQuery(qp) + " or " + mark(srcContent)
		}
		rq.Params = append(rq.Params, c36Param{kit.Text("q"), kit.Text(q)})
		param(&rq.Params, "num", numPool)
		param(&rq.Params, "ctx", ctxPool)
		if g.Bool(15, "debug") {
			param(&rq.Params, "debug", []string{"1", "true", "0"})
		}
	case kind <= 12: // repository list
		rq.Path = "/search"
		var q string
		switch g.Int(0, 5, "rshape") {
		case 0:
			q = "r:"
		case 1:
			q = "r:" + mark(srcRepo)
		case 2:
			q = "r:" + quoteQuery(genPayload(g, srcQuery, "rq")) + " or r:" + mark(srcRepo)
		case 3:
			q = "type:repo " + mark(srcContent)
		case 4:
			q = "r:" + mark(srcRepo) + " -r:" + quoteQuery(genPayload(g, srcQuery, "rq"))
		default:
			q = "r:" + genPayload(g, srcQuery, "rq")
		}
		rq.Params = append(rq.Params, c36Param{kit.Text("q"), kit.Text(q)})
		param(&rq.Params, "num", numPool)
		param(&rq.Params, "order", orderPool)
	case kind <= 15: // print
		rq.Path = "/print"
		rname := repo.Name
		if g.Int(0, 9, "print-miss") == 8 {
			rname = kit.Text(genPayload(g, srcParam, "print-r"))
		}
		rq.Params = append(rq.Params, c36Param{kit.Text("r"), rname}, c36Param{kit.Text("f"), doc.Name})
		if g.Bool(70, "print-q") {
			rq.Params = append(rq.Params, c36Param{kit.Text("q"), kit.Text(genPayload(g, srcQuery, "pq"))})
		}
		if len(doc.Branches) > 0 && g.Bool(40, "print-b") {
			rq.Params = append(rq.Params, c36Param{kit.Text("b"), repo.Branches[doc.Branches[0]].Name})
		}
		param(&rq.Params, "num", numPool)
		if g.Bool(10, "raw") {
			rq.Params = append(rq.Params, c36Param{kit.Text("format"), kit.Text("raw")})
		}
	case kind <= 17: // entry page
		rq.Path = kit.Pick(g, []string{"/", "/", "/zqknz", "/search/zqknz"}, "rootpath")
		if g.Bool(70, "root-q") {
			rq.Params = append(rq.Params, c36Param{kit.Text("q"), kit.Text(genPayload(g, srcQuery, "rootq"))})
		}
	case kind == 18:
		rq.Path = "/about"
		if g.Bool(50, "about-q") {
			rq.Params = append(rq.Params, c36Param{kit.Text("q"), kit.Text(genPayload(g, srcQuery, "aboutq"))})
		}
	default: // /search without or with an empty query, unknown parameters
		rq.Path = "/search"
		rq.Params = append(rq.Params, c36Param{kit.Text(genPayload(g, srcParam, "pname")), kit.Text(genPayload(g, srcParam, "pval"))})
		if g.Bool(50, "emptyq") {
			rq.Params = append(rq.Params, c36Param{kit.Text("q"), kit.Text("")})
		}
	}
	return rq
}

func genC36(rt *rapid.T) c36Case {
	g := kit.G{T: rt}
	c := c36Case{Print: g.Bool(40, "print"), Version: kit.Pick(g, []string{"", "v1.2.3"}, "version")}
	nr := []int{1, 1, 2, 2, 3}[g.Int(0, 4, "nrepos")]
	for i := 0; i < nr; i++ {
		c.Repos = append(c.Repos, genRepo(g, i))
	}
	nq := g.Int(10, 16, "nreqs")
	for i := 0; i < nq; i++ {
		c.Reqs = append(c.Reqs, genReq(g, &c))
	}
	return c
}

// ---------------------------------------------------------------------------
// The shards of a case, served the way zoekt-webserver serves them: through
// the directory searcher (which also evaluates type:repo and survives a
// crashing shard).

func buildC36(c *c36Case, dir string) (zoekt.Streamer, error) {
	for ri := range c.Repos {
		r := &c.Repos[ri]
		zr := &zoekt.Repository{
			ID:                   uint32(ri + 1),
			Name:                 string(r.Name),
			URL:                  string(r.URL),
			CommitURLTemplate:    string(r.CommitTpl),
			FileURLTemplate:      string(r.FileTpl),
			LineFragmentTemplate: string(r.LineTpl),
		}
		for _, b := range r.Branches {
			zr.Branches = append(zr.Branches, zoekt.RepositoryBranch{Name: string(b.Name), Version: string(b.Version)})
		}
		if len(r.Subs) > 0 {
			zr.SubRepoMap = map[string]*zoekt.Repository{}
			for _, s := range r.Subs {
				zr.SubRepoMap[s.Path] = &zoekt.Repository{
					Name:                 string(s.Name),
					FileURLTemplate:      string(s.FileTpl),
					LineFragmentTemplate: string(s.LineTpl),
					// the indexers give a sub-repository one branch entry per branch of its parent
					Branches: zr.Branches,
				}
			}
		}
		// what the indexer wrote: the shard builder refuses templates that do
		// not parse (the top repository's; it does not look at sub-repositories)
		built := *zr
		if r.ViaMeta {
			// everything the sidecar carries is absent from the shard proper
			built.URL, built.CommitURLTemplate, built.FileURLTemplate, built.LineFragmentTemplate = "", "", "", ""
			if len(zr.SubRepoMap) > 0 {
				built.SubRepoMap = map[string]*zoekt.Repository{}
				for k, v := range zr.SubRepoMap {
					sv := *v
					sv.FileURLTemplate, sv.LineFragmentTemplate = "", ""
					built.SubRepoMap[k] = &sv
				}
			}
		}
		b, err := index.NewShardBuilder(&built)
		if err != nil {
			return nil, fmt.Errorf("NewShardBuilder: %w", err)
		}
		for _, d := range r.Docs {
			zd := index.Document{Name: string(d.Name), Content: []byte(d.Content), Language: string(d.Language)}
			for _, bi := range d.Branches {
				zd.Branches = append(zd.Branches, string(r.Branches[bi].Name))
			}
			if d.Sub > 0 {
				zd.SubRepositoryPath = r.Subs[d.Sub-1].Path
			}
			if err := b.Add(zd); err != nil {
				return nil, fmt.Errorf("Add %q: %w", d.Name, err)
			}
		}
		var buf bytes.Buffer
		if err := b.Write(&buf); err != nil {
			return nil, err
		}
		shard := filepath.Join(dir, fmt.Sprintf("c36-%d_v16.00000.zoekt", ri))
		if err := os.WriteFile(shard, buf.Bytes(), 0o644); err != nil {
			return nil, err
		}
		if r.ViaMeta {
			// the metadata is replaced without re-indexing, the way zoekt's own
			// tools do it: "<shard>.meta", written to a temporary file and renamed
			repos, md, err := index.ReadMetadataPath(shard)
			if err != nil || len(repos) != 1 {
				return nil, fmt.Errorf("ReadMetadataPath: %d repositories, %v", len(repos), err)
			}
			m := repos[0]
			m.URL, m.CommitURLTemplate, m.FileURLTemplate, m.LineFragmentTemplate = zr.URL, zr.CommitURLTemplate, zr.FileURLTemplate, zr.LineFragmentTemplate
			for k, v := range zr.SubRepoMap {
				if sm := m.SubRepoMap[k]; sm != nil {
					sm.FileURLTemplate, sm.LineFragmentTemplate = v.FileURLTemplate, v.LineFragmentTemplate
				}
			}
			var payload any = m
			if md.IndexFormatVersion >= 17 {
				payload = repos
			}
			tmp, final, err := index.JsonMarshalRepoMetaTemp(shard, payload)
			if err != nil {
				return nil, err
			}
			if err := os.Rename(tmp, final); err != nil {
				return nil, err
			}
		}
	}
	return search.NewDirectorySearcher(dir)
}

// ---------------------------------------------------------------------------
// The static shape of the pages, harvested from the templates themselves

const actSentinel = "zzactzz"

var actionRE = regexp.MustCompile(`\{\{[^}]*\}\}`)

type attrSpec struct {
	static    map[string]bool // literal values written in a template
	dynPrefix []string        // literal text in front of the first action of a dynamic value
	jsSkel    map[string]bool // event handlers: script with string literals blanked
}

type pageShape struct {
	attrs   map[string]map[string]*attrSpec // tag -> attribute -> spec
	scripts map[string]bool                 // skeletons of <script> bodies
	styles  map[string]bool                 // <style> bodies
}

var urlAttrs = map[string]bool{"href": true, "src": true, "action": true, "formaction": true, "data": true, "poster": true, "srcset": true, "srcdoc": true, "background": true, "ping": true, "xlink:href": true}

func isHandler(attr string) bool { return strings.HasPrefix(attr, "on") }

func harvestShape() (*pageShape, error) {
	sh := &pageShape{attrs: map[string]map[string]*attrSpec{}, scripts: map[string]bool{}, styles: map[string]bool{}}
	names := make([]string, 0, len(web.TemplateText))
	for k := range web.TemplateText {
		names = append(names, k)
	}
	sort.Strings(names)
	for _, name := range names {
		txt := actionRE.ReplaceAllString(web.TemplateText[name], actSentinel)
		z := html.NewTokenizer(strings.NewReader(txt))
		raw := ""
		for {
			tt := z.Next()
			if tt == html.ErrorToken {
				break
			}
			switch tt {
			case html.StartTagToken, html.SelfClosingTagToken:
				tok := z.Token()
				if strings.Contains(tok.Data, actSentinel) {
					return nil, fmt.Errorf("template %s: action in tag name %q", name, tok.Data)
				}
				m := sh.attrs[tok.Data]
				if m == nil {
					m = map[string]*attrSpec{}
					sh.attrs[tok.Data] = m
				}
				for _, a := range tok.Attr {
					if strings.Contains(a.Key, actSentinel) {
						continue // {{if}} / {{end}} between attributes
					}
					sp := m[a.Key]
					if sp == nil {
						sp = &attrSpec{static: map[string]bool{}, jsSkel: map[string]bool{}}
						m[a.Key] = sp
					}
					if isHandler(a.Key) {
						sk, err := jsSkeleton(strings.ReplaceAll(a.Val, actSentinel, "0"))
						if err != nil {
							return nil, fmt.Errorf("template %s: handler %q: %v", name, a.Val, err)
						}
						sp.jsSkel[sk] = true
					} else if i := strings.Index(a.Val, actSentinel); i >= 0 {
						sp.dynPrefix = append(sp.dynPrefix, a.Val[:i])
					} else {
						sp.static[a.Val] = true
					}
				}
				if tt == html.StartTagToken && (tok.Data == "script" || tok.Data == "style") {
					raw = tok.Data
					// an empty element still has a body
					if raw == "script" {
						sh.scripts[""] = true
					}
				}
			case html.TextToken:
				if raw == "script" {
					sk, err := jsSkeleton(strings.ReplaceAll(string(z.Text()), actSentinel, "0"))
					if err != nil {
						return nil, fmt.Errorf("template %s: script: %v", name, err)
					}
					sh.scripts[sk] = true
				} else if raw == "style" {
					sh.styles[string(z.Text())] = true
				}
			case html.EndTagToken:
				raw = ""
			}
		}
	}
	return sh, nil
}

// jsSkeleton lexes just enough JavaScript to blank string literals: it
// returns the program with the contents of '…' and "…" literals removed,
// white space removed and numbers collapsed to 0. A literal that is not
// closed on its line is an error.
func jsSkeleton(src string) (string, error) {
	var sb strings.Builder
	rs := []rune(src)
	prevIdent := false
	for i := 0; i < len(rs); i++ {
		r := rs[i]
		switch {
		case r == '"' || r == '\'' || r == '`':
			q := r
			sb.WriteRune(q)
			closed := false
			for i++; i < len(rs); i++ {
				c := rs[i]
				if c == '\\' {
					i++
					if i < len(rs) && (rs[i] == '\n' || rs[i] == '\r') && q != '`' {
						// line continuation: legal, but html/template never writes one
						return "", fmt.Errorf("line continuation in string literal")
					}
					continue
				}
				if c == q {
					closed = true
					break
				}
				if q != '`' && (c == '\n' || c == '\r' || c == '\u2028' || c == '\u2029') {
					return "", fmt.Errorf("line break inside string literal")
				}
				if q == '`' && c == '$' {
					return "", fmt.Errorf("template literal with substitution")
				}
			}
			if !closed {
				return "", fmt.Errorf("unterminated string literal")
			}
			sb.WriteRune(q)
			prevIdent = false
		case unicode.IsSpace(r):
			// white space never matters in the static scripts (no ASI-dependent code)
		case r >= '0' && r <= '9' && !prevIdent:
			for i+1 < len(rs) && rs[i+1] >= '0' && rs[i+1] <= '9' {
				i++
			}
			sb.WriteByte('0')
			prevIdent = false
		default:
			sb.WriteRune(r)
			prevIdent = r == '_' || r == '$' || unicode.IsLetter(r) || unicode.IsDigit(r)
		}
	}
	return sb.String(), nil
}

// ---------------------------------------------------------------------------
// The oracle for one response

type pageResult struct {
	kind     string          // results, repolist, print, searchbox, about, error, plain
	reached  map[string]bool // "<src>/<context>"
	contexts map[string]bool
	links    []string // hrefs into the web UI itself
	labels   []string
	pre      map[string]string // print page: text of the line elements by id
	preName  string
	gotName  bool
	inName   bool
}

// urlScheme is the scheme a browser sees in an attribute value ("" = a
// relative reference): leading / trailing C0 controls and spaces are stripped,
// tab, CR and LF are dropped wherever they stand, the scheme is
// case-insensitive.
func urlScheme(v string) string {
	v = strings.TrimFunc(v, func(r rune) bool { return r <= 0x20 })
	v = strings.Map(func(r rune) rune {
		if r == '\t' || r == '\n' || r == '\r' {
			return -1
		}
		return r
	}, v)
	v = strings.ToLower(v)
	i := strings.IndexAny(v, ":/?#")
	if i <= 0 || v[i] != ':' {
		return ""
	}
	sc := v[:i]
	for j, r := range sc {
		ok := r >= 'a' && r <= 'z' || j > 0 && (r >= '0' && r <= '9' || r == '+' || r == '-' || r == '.')
		if !ok {
			return ""
		}
	}
	return sc
}

// safeSchemes are the schemes a link filled from index or request data may
// have: the ones html/template lets through. None of them runs script or
// renders a document in the page's origin. Everything else (javascript, data,
// vbscript, blob, ... in whatever spelling, with or without a host part) must
// have been replaced by the sanitiser's placeholder.
var safeSchemes = map[string]bool{"http": true, "https": true, "mailto": true}

func srcOf(marker string) string { return marker[3:4] }

func (p *pageResult) reach(text, context string) {
	ms := markerRE.FindAllString(strings.ToLower(text), -1)
	for _, m := range ms {
		p.reached[srcOf(m)+"/"+context] = true
		p.contexts[context] = true
	}
}

func checkHTML(sh *pageShape, body []byte) (*pageResult, error) {
	p := &pageResult{reached: map[string]bool{}, contexts: map[string]bool{}, pre: map[string]string{}}
	z := html.NewTokenizer(bytes.NewReader(body))
	raw := ""    // script / style / title while inside one
	curPre := "" // id of the <pre> we are in (print page)
	inSpan := 0  // depth of <span> inside that <pre>
	sawTag := map[string]bool{}
	inBold := false
	for {
		tt := z.Next()
		if tt == html.ErrorToken {
			if z.Err() == io.EOF {
				break
			}
			return p, kit.Fail("tokenize", "%v", z.Err())
		}
		switch tt {
		case html.StartTagToken, html.SelfClosingTagToken:
			tok := z.Token()
			tag := tok.Data
			if markerRE.MatchString(strings.ToLower(tag)) {
				return p, kit.Fail("marker-in-tag-name", "<%s>", tag)
			}
			specs, ok := sh.attrs[tag]
			if !ok {
				return p, kit.Fail("foreign-tag", "<%s> is not a tag of any template (attrs %v)", tag, tok.Attr)
			}
			sawTag[tag] = true
			id := ""
			for _, a := range tok.Attr {
				if markerRE.MatchString(strings.ToLower(a.Key)) {
					return p, kit.Fail("marker-in-attr-name", "<%s %s=%q>", tag, a.Key, a.Val)
				}
				sp, ok := specs[a.Key]
				if !ok {
					return p, kit.Fail("foreign-attr", "<%s %s=%q>: no template writes this attribute on this tag", tag, a.Key, a.Val)
				}
				if a.Key == "id" {
					id = a.Val
				}
				switch {
				case isHandler(a.Key):
					sk, err := jsSkeleton(a.Val)
					if err != nil {
						return p, kit.Fail("handler-broken-literal", "<%s %s=%q>: %v", tag, a.Key, a.Val, err)
					}
					if !sp.jsSkel[sk] {
						return p, kit.Fail("handler-code-changed", "<%s %s=%q>: code outside string literals %q is not the template's", tag, a.Key, a.Val, sk)
					}
					p.reach(a.Val, "handler")
				case sp.static[a.Val]:
					// a literal value of a template
				default:
					pref, found := "", false
					for _, dp := range sp.dynPrefix {
						if strings.HasPrefix(a.Val, dp) && (!found || len(dp) > len(pref)) {
							pref, found = dp, true
						}
					}
					if !found {
						return p, kit.Fail("foreign-attr-value", "<%s %s=%q>: neither a literal value of a template nor an instance of a dynamic one", tag, a.Key, a.Val)
					}
					if urlAttrs[a.Key] {
						// the scheme of a link is the template's only when its colon
						// stands in the template's literal text
						if sc := urlScheme(a.Val); sc != "" && len(sc) >= len(pref) {
							if !safeSchemes[sc] {
								return p, kit.Fail("script-url", "<%s %s=%q>: scheme %q comes from index or request data; only http, https, mailto, relative references and the sanitiser's #ZgotmplZ are harmless", tag, a.Key, a.Val, sc)
							}
							p.labels = append(p.labels, "url:data-scheme-"+sc)
						}
						if pref == "" && strings.HasPrefix(a.Val, "#ZgotmplZ") {
							p.labels = append(p.labels, "url:filtered-by-html/template")
						}
						p.reach(a.Val, "url")
						if tag == "a" && a.Key == "href" {
							if strings.HasPrefix(a.Val, "print?") || strings.HasPrefix(a.Val, "search?") {
								p.links = append(p.links, "/"+a.Val)
							} else if strings.HasPrefix(a.Val, "/search?") {
								p.links = append(p.links, a.Val)
							}
						}
					} else if a.Key == "style" {
						return p, kit.Fail("dynamic-style", "<%s style=%q>", tag, a.Val)
					} else {
						p.reach(a.Val, "attr")
					}
				}
			}
			if tt == html.StartTagToken {
				switch tag {
				case "script", "style", "title":
					raw = tag
				case "pre":
					curPre, inSpan = id, 0
					if id != "" {
						p.pre[id] = ""
					}
				case "span":
					if curPre != "" {
						inSpan++
					}
				case "b":
					inBold = true
					if !p.gotName && curPre == "" && sawTag["body"] {
						p.gotName, p.inName = true, true
					}
				}
			}
		case html.EndTagToken:
			tok := z.Token()
			if markerRE.MatchString(strings.ToLower(tok.Data)) {
				return p, kit.Fail("marker-in-tag-name", "</%s>", tok.Data)
			}
			if _, ok := sh.attrs[tok.Data]; !ok {
				return p, kit.Fail("foreign-tag", "</%s> is not a tag of any template", tok.Data)
			}
			switch tok.Data {
			case "pre":
				curPre = ""
			case "span":
				if inSpan > 0 {
					inSpan--
				}
			case "b":
				inBold = false
				p.inName = false
			}
			raw = ""
		case html.TextToken:
			txt := string(z.Text())
			switch raw {
			case "script":
				sk, err := jsSkeleton(txt)
				if err != nil {
					return p, kit.Fail("script-broken-literal", "%v in <script>%s</script>", err, clip(txt))
				}
				if !sh.scripts[sk] {
					return p, kit.Fail("script-code-changed", "code outside string literals is not the template's: %s", clip(sk))
				}
				p.reach(txt, "script")
			case "style":
				if !sh.styles[txt] {
					return p, kit.Fail("style-changed", "<style> body is not the template's: %s", clip(txt))
				}
			default:
				p.reach(txt, "text")
				if curPre != "" && inSpan == 0 {
					p.pre[curPre] += txt
				}
				if inBold && p.inName {
					p.preName += txt
				}
			}
		case html.CommentToken:
			if markerRE.Match(bytes.ToLower(z.Text())) {
				return p, kit.Fail("marker-in-comment", "<!--%s-->", clip(string(z.Text())))
			}
			p.labels = append(p.labels, "comment")
		case html.DoctypeToken:
			if markerRE.Match(bytes.ToLower(z.Text())) {
				return p, kit.Fail("marker-in-doctype", "%s", clip(string(z.Text())))
			}
		}
	}
	return p, nil
}

func clip(s string) string {
	if len(s) > 400 {
		return s[:400] + "…"
	}
	return s
}

// normText is how text survives html/template plus the tokenizer: CR and CRLF
// read back as LF, NUL and invalid UTF-8 as U+FFFD.
func normText(s string) string {
	s = strings.ReplaceAll(s, "\r\n", "\n")
	s = strings.ReplaceAll(s, "\r", "\n")
	s = strings.ReplaceAll(s, "\x00", "�")
	var sb strings.Builder
	for _, r := range s { // ranging decodes every invalid byte to U+FFFD
		sb.WriteRune(r)
	}
	return sb.String()
}

func target(rq *c36Req) string {
	var sb strings.Builder
	sb.WriteString(rq.Path)
	for i, p := range rq.Params {
		if i == 0 {
			sb.WriteByte('?')
		} else {
			sb.WriteByte('&')
		}
		sb.WriteString(url.QueryEscape(string(p.K)) + "=" + url.QueryEscape(string(p.V)))
	}
	return sb.String()
}

// isRepoList mirrors the dispatch of /search: a query of only r: atoms, or
// type:repo at the top, lists repositories.
func isRepoList(u *url.URL) bool {
	q, err := query.Parse(u.Query().Get("q"))
	if err != nil {
		return false
	}
	repoOnly := true
	query.VisitAtoms(q, func(a query.Q) {
		_, ok := a.(*query.Repo)
		repoOnly = repoOnly && ok
	})
	if repoOnly {
		return true
	}
	qt, ok := q.(*query.Type)
	return ok && qt.Type == query.TypeRepo
}

// legit418 says why the UI may answer this request with its plain-text error
// ("" = it may not: the request is valid and has to be rendered).
func legit418(u *url.URL) string {
	qv := u.Query()
	switch u.Path {
	case "/print":
		return "print" // unknown or ambiguous file
	case "/search":
		if qv.Get("q") == "" {
			return "no query"
		}
		if _, err := query.Parse(qv.Get("q")); err != nil {
			return "query does not parse"
		}
		if isRepoList(u) {
			switch qv.Get("order") {
			case "", "name", "revname", "size", "revsize", "ram", "revram", "time", "revtime":
				return ""
			}
			return "bad order"
		}
		if c := qv.Get("ctx"); c != "" {
			if n, err := strconv.Atoi(c); err != nil || n < 0 || n > 10 {
				return "bad ctx"
			}
		}
		return ""
	}
	return "" // entry page, about
}

type c36Env struct {
	commitTplFails bool // some repository has a commit URL template that cannot be executed
	rec            *kit.Recorder
	shape          *pageShape
	c              *c36Case
	mux            *http.ServeMux
	ckey           string
}

// fetch requests one page and applies the oracle.
func (e *c36Env) fetch(tgt string, what string) (*pageResult, error) {
	if i := strings.IndexByte(tgt, '#'); i >= 0 {
		tgt = tgt[:i]
	}
	u, err := url.ParseRequestURI(tgt)
	if err != nil {
		return nil, nil // a link the harness cannot request (should not happen for escaped targets)
	}
	req := httptest.NewRequest("GET", "http://zoekt.test/", nil)
	req.URL = u
	req.RequestURI = tgt
	rr := httptest.NewRecorder()
	if err := kit.Guard(func() error { e.mux.ServeHTTP(rr, req); return nil }); err != nil {
		d := err.(*kit.Discrepancy)
		d.Detail = fmt.Sprintf("GET %s: %s", tgt, d.Detail)
		return nil, d
	}
	body := rr.Body.Bytes()
	ct := rr.Header().Get("Content-Type")
	if ct == "" {
		ct = http.DetectContentType(body)
	}
	isHTML := strings.HasPrefix(ct, "text/html") || strings.HasPrefix(ct, "application/xhtml") || strings.HasPrefix(ct, "image/svg") || strings.HasPrefix(ct, "text/xml") || strings.HasPrefix(ct, "application/xml")
	p := &pageResult{reached: map[string]bool{}, contexts: map[string]bool{}}
	switch {
	case rr.Code == http.StatusTeapot:
		// the plain-text error path (http.Error)
		if isHTML || rr.Header().Get("X-Content-Type-Options") != "nosniff" {
			return nil, kit.Fail("error-page-not-plain", "GET %s: status %d with Content-Type %q nosniff=%q", tgt, rr.Code, ct, rr.Header().Get("X-Content-Type-Options"))
		}
		msg := string(body)
		if why := legit418(u); why == "" {
			// a request the UI has to answer with a page: the error can only come from rendering
			d := kit.Fail("render-failed", "GET %s: status 418 for a valid request: %s", tgt, clip(msg))
			if u.Path == "/search" && strings.Contains(msg, "template:") && strings.Contains(msg, "executing") && e.commitTplFails && isRepoList(u) {
				d.Known = "C36-commit-template-exec-error"
			}
			return nil, d
		}
		if strings.HasPrefix(msg, "template:") || strings.HasPrefix(msg, "html/template:") {
			return nil, kit.Fail("render-failed", "GET %s: %s", tgt, clip(msg))
		}
		p.kind = "error"
		cls := "other"
		for _, pre := range []string{"no query found", "ambiguous result", "Number of context lines", "got unknown sort key", "query:", "error parsing regexp", "regexp:"} {
			if strings.HasPrefix(msg, pre) {
				cls = pre
			}
		}
		if cls == "other" && os.Getenv("C36_DEBUG") != "" {
			fmt.Fprintf(os.Stderr, "418 %s: %s\n", tgt, clip(msg))
		}
		p.labels = append(p.labels, "error:"+cls)
		p.reach(msg, "plain")
		p.contexts = map[string]bool{}
	case rr.Code != http.StatusOK:
		return nil, kit.Fail("status", "GET %s: status %d: %s", tgt, rr.Code, clip(string(body)))
	case !isHTML:
		// raw file, JSON: not an HTML page; must be declared so that browsers do not sniff
		if strings.HasPrefix(ct, "text/plain") && rr.Header().Get("X-Content-Type-Options") != "nosniff" && markerRE.Match(body) {
			return nil, kit.Fail("plain-sniffable", "GET %s: text/plain body with index data but without nosniff", tgt)
		}
		p.kind = "plain"
	default:
		var err error
		p, err = checkHTML(e.shape, body)
		if err != nil {
			if d, ok := err.(*kit.Discrepancy); ok {
				d.Detail = fmt.Sprintf("GET %s: %s", tgt, d.Detail)
			}
			return nil, err
		}
		switch {
		case u.Path == "/about":
			p.kind = "about"
		case u.Path == "/print":
			p.kind = "print"
		case u.Path == "/search" && bytes.Contains(body, []byte("repositories (")):
			p.kind = "repolist"
		case u.Path == "/search":
			p.kind = "results"
			if bytes.Contains(body, []byte("<b>")) && bytes.Contains(body, []byte(`class="inline-pre"`)) {
				p.labels = append(p.labels, "results:with-matches")
			} else {
				p.labels = append(p.labels, "results:empty")
			}
			if bytes.Contains(body, []byte("show more")) {
				p.labels = append(p.labels, "results:show-more")
			}
			if bytes.Contains(body, []byte("bytes skipped)...")) {
				p.labels = append(p.labels, "results:limit-pre-post")
			}
			if bytes.Contains(body, []byte("Duplicate result")) {
				p.labels = append(p.labels, "results:duplicate")
			}
		default:
			p.kind = "searchbox"
		}
		if p.kind == "print" {
			if err := e.checkPrint(u, p); err != nil {
				return nil, err
			}
		}
	}
	labels := append([]string{"page:" + p.kind, "via:" + what}, p.labels...)
	for k := range p.contexts {
		labels = append(labels, "ctx:"+p.kind+"/"+k)
	}
	for k := range p.reached {
		labels = append(labels, "reach:"+k)
	}
	sort.Strings(labels)
	nt := len(p.contexts) >= 2
	e.rec.Eval(e.ckey+"|"+tgt, nt, labels...)
	return p, nil
}

// checkPrint is the positive half for the file view: the text of line i is
// line i of the document, the header is its name.
func (e *c36Env) checkPrint(u *url.URL, p *pageResult) error {
	qv := u.Query()
	var doc *c36Doc
	n := 0
	for ri := range e.c.Repos {
		r := &e.c.Repos[ri]
		// repository names pass through JSON in the shard: invalid bytes are read back as U+FFFD
		if normText(string(r.Name)) != normText(qv.Get("r")) {
			continue
		}
		for di := range r.Docs {
			if string(r.Docs[di].Name) == qv.Get("f") {
				doc = &r.Docs[di]
				n++
			}
		}
	}
	if n != 1 {
		return nil
	}
	lines := strings.Split(string(doc.Content), "\n")
	if len(p.pre) != len(lines) {
		return kit.Fail("print-lines", "GET %s: %d line elements for a document of %d lines", u, len(p.pre), len(lines))
	}
	for i, l := range lines {
		got, ok := p.pre[fmt.Sprintf("l%d", i+1)]
		if !ok {
			return kit.Fail("print-lines", "GET %s: no element l%d", u, i+1)
		}
		if normText(got) != normText(l) {
			return kit.Fail("print-text", "GET %s: line %d renders as text %q, the document has %q", u, i+1, got, l)
		}
	}
	if normText(p.preName) != normText(string(doc.Name)) {
		return kit.Fail("print-name", "GET %s: header shows %q, the file is %q", u, p.preName, doc.Name)
	}
	e.rec.Label("print:text-equal")
	return nil
}

func runC36(rec *kit.Recorder, shape *pageShape, c c36Case) error {
	dir, err := os.MkdirTemp("", "c36")
	if err != nil {
		return err
	}
	defer os.RemoveAll(dir)
	ms, err := buildC36(&c, dir)
	if err != nil {
		return kit.Fail("harness-build", "%v", err)
	}
	defer ms.Close()
	srv := &web.Server{Searcher: ms, Top: web.Top, HTML: true, Print: c.Print, Version: c.Version}
	mux, err := web.NewMux(srv)
	if err != nil {
		return kit.Fail("harness-build", "NewMux: %v", err)
	}
	e := &c36Env{rec: rec, shape: shape, c: &c, mux: mux,
		ckey: fmt.Sprintf("%x", kit.Checksum([]byte(fmt.Sprintf("%v %+v", c.Print, c.Repos))))}
	for _, r := range c.Repos {
		if failingTpl(string(r.CommitTpl)) {
			e.commitTplFails = true
		}
		if failingTpl(string(r.FileTpl)) || failingTpl(string(r.LineTpl)) {
			rec.Label("repo:file-or-line-template-fails-at-execute")
		}
		if r.ViaMeta {
			rec.Label("repo:metadata-from-meta-sidecar")
		}
		if unparsable(string(r.CommitTpl)) {
			rec.Label("repo:commit-template-unparsable")
			if len(r.Branches) > 0 {
				rec.Label("repo:commit-template-unparsable-with-branches")
			}
		}
		if unparsable(string(r.FileTpl)) || unparsable(string(r.LineTpl)) {
			rec.Label("repo:file-or-line-template-unparsable")
		}
		for _, sr := range r.Subs {
			if unparsable(string(sr.FileTpl)) || unparsable(string(sr.LineTpl)) {
				rec.Label("repo:subrepo-template-unparsable")
			}
		}
	}
	if e.commitTplFails {
		rec.Label("repo:commit-template-fails-at-execute")
	}
	anyNT := false
	var known *kit.Discrepancy
	for i := range c.Reqs {
		rq := &c.Reqs[i]
		p, err := e.fetch(target(rq), "direct")
		if err != nil {
			// a recognised known finding does not end the case: the other requests still count
			if d, ok := err.(*kit.Discrepancy); ok && d.Known != "" {
				if known == nil {
					known = d
				}
				continue
			}
			return err
		}
		if p == nil {
			continue
		}
		anyNT = anyNT || len(p.contexts) >= 2
		for j := 0; j < rq.Follow && j < len(p.links); j++ {
			// spread over the page: first, last, middle
			l := p.links[[]int{0, len(p.links) - 1, len(p.links) / 2}[j%3]]
			if _, err := e.fetch(l, "link"); err != nil {
				if d, ok := err.(*kit.Discrepancy); ok && d.Known != "" {
					if known == nil {
						known = d
					}
					continue
				}
				return err
			}
		}
	}
	rec.Sample(c, anyNT)
	if known != nil {
		return known
	}
	return nil
}

func TestVerif_C36(t *testing.T) {
	log.SetOutput(io.Discard) // the server logs template problems of the index; not part of the response
	rec := kit.Open(t, "C36",
		"rapid-generated indexes (1-3 repositories with 1-4 documents; contents, file names, repository / sub-repository / branch names, versions, languages and repository URLs are HTML, JS, URL and template break-out payloads around a per-source marker, incl. invalid UTF-8 and control bytes; repository URLs, versions, branch and file names also spell script-capable schemes in every way a browser accepts: javascript: / vbscript: / data: / blob: bare and with a host part (javascript://host/%0A...), mixed case, leading space / control bytes, embedded tab / CR / LF, next to non-http location schemes (ssh, git, file, ftp); file / commit / line-fragment URL templates from a pool that substitutes index values at every position, incl. templates that fail when executed; 30% of the repositories get their metadata through the unvalidated <shard>.meta sidecar (index.JsonMarshalRepoMetaTemp + rename), and there the commit / file / line-fragment templates of the repository and its sub-repository may not even parse) served by web.Server (Print on and off) and 10-16 requests per index against /search (hits, no hits, parse errors, num / ctx / debug / order extremes and payloads, repository lists), /print, /, /about, plus up to 3 followed print? / search? links per page; a case = one HTTP response; non-trivial = markers reached >= 2 distinct contexts (text node, attribute value, URL attribute, <script>, event handler) of that page; distinct by hash of index + request target",
		"URL templates are operator configuration: their literal text is harmless; only the substituted path / version / branch / line number are index data",
		"a response is an HTML page if its Content-Type (declared, else sniffed as net/http does) is HTML or XML; everything else must be text/plain with nosniff when it carries index data",
		"status 418 with a text/plain nosniff body is the UI's error path (bad query, bad ctx / order, unknown file); a template execution error on that path counts as a rendering failure",
		"allowed tags, attributes, literal attribute values, <style> bodies and the code of scripts and event handlers outside string literals are exactly those written in web.TemplateText",
		"a URL attribute (href, src, action, ...) whose scheme comes from data (its colon is not inside the template's literal text) must have the scheme http, https or mailto, be a relative reference, or be the sanitiser's #ZgotmplZ, judged after the browser's URL clean-up (strip C0/space, drop tab/CR/LF, ignore case); any other scheme counts as script-capable (an allow-list: javascript://host/ has a host and is still script)",
		"metadata that does not come from the shard builder (.meta sidecar, foreign shard, remote searcher) is index data like any other: templates that do not parse must leave every valid request answered with a page (a panic in the handler, a non-200 status or the 418 error path is a rendering failure)",
		"documents never place a file outside its sub-repository path (ShardBuilder.Add states that precondition but only checks it loosely)",
	)
	shape, err := harvestShape()
	if err != nil {
		t.Fatalf("harvest: %v", err)
	}
	ntags, nattrs := 0, 0
	for _, m := range shape.attrs {
		ntags++
		nattrs += len(m)
	}
	rec.Set("template_tags", ntags)
	rec.Set("template_tag_attribute_pairs", nattrs)
	rec.Set("template_script_skeletons", len(shape.scripts))
	kit.Property(t, rec, genC36, func(c c36Case) error { return runC36(rec, shape, c) })
}
