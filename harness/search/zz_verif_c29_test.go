//go:build verif

package search_test

import (
	"context"
	"fmt"
	"math"
	"os"
	"path"
	"testing"

	"pgregory.net/rapid"

	"github.com/sourcegraph/zoekt"
	"github.com/sourcegraph/zoekt/internal/verifkit/kit"
	"github.com/sourcegraph/zoekt/query"
)

type c29Case struct {
	matchCase
	BM25 bool
}

func finite(x float64) bool { return !math.IsNaN(x) && !math.IsInf(x, 0) }

// checkScores: all scores finite, matches within a file non-increasing.
func checkScores(files []zoekt.FileMatch, what string) error {
	for i := range files {
		f := &files[i]
		if !finite(f.Score) {
			return kit.Fail("score-not-finite", "%s: file %s has score %v", what, f.FileName, f.Score)
		}
		prev := math.Inf(1)
		for _, lm := range f.LineMatches {
			if !finite(lm.Score) {
				return kit.Fail("score-not-finite", "%s: file %s line %d has score %v", what, f.FileName, lm.LineNumber, lm.Score)
			}
			if lm.Score > prev {
				return kit.Fail("match-order", "%s: file %s: line match scores increase (%v after %v)", what, f.FileName, lm.Score, prev)
			}
			prev = lm.Score
		}
		prev = math.Inf(1)
		for _, cm := range f.ChunkMatches {
			if !finite(cm.Score) {
				return kit.Fail("score-not-finite", "%s: file %s chunk has score %v", what, f.FileName, cm.Score)
			}
			if cm.Score > prev {
				return kit.Fail("match-order", "%s: file %s: chunk match scores increase (%v after %v)", what, f.FileName, cm.Score, prev)
			}
			prev = cm.Score
		}
	}
	return nil
}

func nonIncreasing(files []zoekt.FileMatch) bool {
	for i := 1; i < len(files); i++ {
		if files[i].Score > files[i-1].Score {
			return false
		}
	}
	return true
}

// checkFileOrder: non-increasing, except for the documented promotion of one
// file with a novel extension into third place.
func checkFileOrder(files []zoekt.FileMatch, what string) (promoted bool, err error) {
	if nonIncreasing(files) {
		return false, nil
	}
	if len(files) < 4 {
		return false, kit.Fail("file-order", "%s: file scores are not non-increasing: %v", what, scoresOf(files))
	}
	rest := append(append([]zoekt.FileMatch(nil), files[:2]...), files[3:]...)
	if !nonIncreasing(rest) {
		return false, kit.Fail("file-order", "%s: file scores are not non-increasing even without the third file: %v", what, scoresOf(files))
	}
	p := files[2]
	ext := path.Ext(p.FileName)
	if ext == path.Ext(files[0].FileName) || ext == path.Ext(files[1].FileName) {
		return false, kit.Fail("file-order", "%s: third file %s is out of order but its extension is not novel (%v)", what, p.FileName, scoresOf(files))
	}
	if p.Score < 0.9*files[3].Score {
		return false, kit.Fail("file-order", "%s: promoted file %s scores %v, less than 0.9 x the displaced file's %v", what, p.FileName, p.Score, files[3].Score)
	}
	return true, nil
}

func scoresOf(files []zoekt.FileMatch) []string {
	var out []string
	for _, f := range files {
		out = append(out, fmt.Sprintf("%s=%.3f", f.FileName, f.Score))
	}
	return out
}

type scored struct {
	score float64
	lines []float64
}

func scoreMap(files []zoekt.FileMatch) map[string]scored {
	m := map[string]scored{}
	for _, f := range files {
		s := scored{score: f.Score}
		for _, lm := range f.LineMatches {
			s.lines = append(s.lines, lm.Score)
		}
		for _, cm := range f.ChunkMatches {
			s.lines = append(s.lines, cm.Score)
		}
		m[kit.Key(f.Repository, f.FileName, f.Checksum)] = s
	}
	return m
}

// sameRanking: same files with the same scores, same order up to ties.
func sameRanking(a, b []zoekt.FileMatch, what string) error {
	if len(a) != len(b) {
		return kit.Fail("ranking-differs", "%s: %d files vs %d files", what, len(a), len(b))
	}
	ma, mb := scoreMap(a), scoreMap(b)
	for k, x := range ma {
		y, ok := mb[k]
		if !ok {
			return kit.Fail("ranking-differs", "%s: file %q only in one result", what, k)
		}
		if x.score != y.score || fmt.Sprint(x.lines) != fmt.Sprint(y.lines) {
			return kit.Fail("ranking-differs", "%s: file %q scores %v %v vs %v %v", what, k, x.score, x.lines, y.score, y.lines)
		}
	}
	// Both lists are separately checked to be ordered by non-increasing score
	// (up to the documented promotion), so with equal per-file scores they are
	// the same order up to ties. Positions are not compared one by one: the
	// order of files with equal scores is arbitrary and decides which file the
	// novel-extension promotion picks.
	return nil
}

func runC29(rec *kit.Recorder, c c29Case) error {
	tmp, err := os.MkdirTemp("", "c29")
	if err != nil {
		return err
	}
	defer os.RemoveAll(tmp)
	e, err := openEnv(&c.matchCase, tmp)
	if err != nil {
		return kit.Fail("build", "%v", err)
	}
	defer e.close()
	ckey := fmt.Sprintf("%x", kit.Checksum([]byte(fmt.Sprintf("%+v", c.Corpus))))
	anyNT := false
	for _, qs := range c.Queries {
		q, err := qs.Q()
		if err != nil {
			continue
		}
		if _, err := kit.Expected(&c.Corpus, q); err != nil {
			continue
		}
		run := func(debug bool) ([]zoekt.FileMatch, error) {
			var files []zoekt.FileMatch
			err := kit.Guard(func() error {
				opts := &zoekt.SearchOptions{ChunkMatches: c.Chunk, NumContextLines: c.Context, UseBM25Scoring: c.BM25, DebugScore: debug}
				if e.dir != nil {
					res, err := e.dir.Search(context.Background(), q, opts)
					if err != nil {
						return err
					}
					files = res.Files
					return nil
				}
				// bare shards: one shard at a time; each result is checked on its own
				for _, s := range e.built.Shards {
					o := *opts
					res, err := s.Search(context.Background(), q, &o)
					if err != nil {
						return err
					}
					files = append(files, res.Files...)
				}
				return nil
			})
			return files, err
		}
		a, err := run(false)
		if err != nil {
			continue // C01's subject
		}
		b, err := run(false)
		if err != nil {
			return kit.Fail("unstable", "query %s succeeded once and then failed: %v", q, err)
		}
		d, err := run(true)
		if err != nil {
			return kit.Fail("debug-changes", "query %s fails with score debugging on: %v", q, err)
		}
		what := fmt.Sprintf("query %s via %s bm25=%v", q, c.Via, c.BM25)
		for _, fs := range [][]zoekt.FileMatch{a, b, d} {
			if err := checkScores(fs, what); err != nil {
				return err
			}
		}
		promoted := false
		if e.dir != nil {
			for _, fs := range [][]zoekt.FileMatch{a, b, d} {
				p, err := checkFileOrder(fs, what)
				if err != nil {
					return err
				}
				promoted = promoted || p
			}
			if err := sameRanking(a, b, what+" (repeat)"); err != nil {
				return err
			}
			if err := sameRanking(a, d, what+" (debug on)"); err != nil {
				return err
			}
		} else {
			// bare shards return files in document order; compare as maps
			ma, mb, md := scoreMap(a), scoreMap(b), scoreMap(d)
			if fmt.Sprint(ma) != fmt.Sprint(mb) {
				return kit.Fail("ranking-differs", "%s: repeated search gives different scores", what)
			}
			if fmt.Sprint(ma) != fmt.Sprint(md) {
				return kit.Fail("ranking-differs", "%s: score debugging changes scores", what)
			}
		}
		if e.dir != nil {
			// a display limit goes through the incremental aggregation of the
			// sharded searcher; what comes out must be ordered the same way
			for _, limit := range []int{4, 6} {
				var lf []zoekt.FileMatch
				err := kit.Guard(func() error {
					res, err := e.dir.Search(context.Background(), q, &zoekt.SearchOptions{ChunkMatches: c.Chunk, NumContextLines: c.Context, UseBM25Scoring: c.BM25, MaxDocDisplayCount: limit})
					if err != nil {
						return err
					}
					lf = res.Files
					return nil
				})
				if err != nil {
					return kit.Fail("unstable", "query %s fails with MaxDocDisplayCount=%d: %v", q, limit, err)
				}
				if _, err := checkFileOrder(lf, fmt.Sprintf("%s with MaxDocDisplayCount=%d", what, limit)); err != nil {
					return err
				}
			}
		}
		if c.BM25 {
			// BM25 sums per-term scores; a sum taken in map order differs in the
			// last bits from run to run, so repeat until an order dependence had
			// a fair chance to show
			reps := 8
			if os.Getenv("VERIF_REPLAY") != "" {
				reps = 100
			}
			for i := 0; i < reps; i++ {
				x, err := run(i%2 == 1)
				if err != nil {
					return kit.Fail("unstable", "query %s succeeded and then failed: %v", q, err)
				}
				if fmt.Sprint(scoreMap(a)) != fmt.Sprint(scoreMap(x)) {
					return kit.Fail("ranking-differs", "%s: repeated search gives different scores: %v vs %v", what, scoreMap(a), scoreMap(x))
				}
			}
		}
		exts := map[string]bool{}
		multi := false
		for _, f := range a {
			exts[path.Ext(f.FileName)] = true
			if len(f.LineMatches)+len(f.ChunkMatches) >= 2 {
				multi = true
			}
		}
		nt := len(a) >= 3 && len(exts) >= 2 && multi
		anyNT = anyNT || nt
		labels := []string{"via:" + c.Via, fmt.Sprintf("bm25:%v", c.BM25)}
		if promoted {
			labels = append(labels, "novel-extension-promotion")
		}
		if _, ok := q.(*query.Boost); ok {
			labels = append(labels, "boost-root")
		}
		rec.Eval(ckey+fmt.Sprintf("|%+v|%v|%v", qs, c.Chunk, c.BM25), nt, labels...)
	}
	rec.Sample(c, anyNT)
	return nil
}

func TestVerif_C29(t *testing.T) {
	rec := kit.Open(t, "C29",
		"C01 corpora (symbols, repository ranks, several file extensions) and query batches (finite boosts in [0.01,100]) with default and BM25 scoring, each query run twice plus once with score debugging (BM25: eight more times, scores compared bit for bit), through the directory searcher (file order, also under display limits of 4 and 6 files) and the bare shard searcher; non-trivial = >= 3 files, >= 2 extensions and a file with >= 2 matches; distinct by hash",
		"the documented promotion: one file with an extension not among the first two may sit in third place if it scores >= 0.9 x the file it displaced",
		"order is compared up to ties: every file must have the same scores in both runs and each run must be ordered by score (files with equal scores may swap, which may also change which file the promotion picks)",
	)
	kit.Property(t, rec, func(rt *rapid.T) c29Case {
		var labels [][]string
		g := kit.G{T: rt}
		o := kit.DefaultCorpus
		o.MaxDocs = 12
		c := c29Case{matchCase: genMatchCase(rt, o, kit.DefaultQuery, &labels), BM25: g.Bool(40, "bm25")}
		if g.Bool(60, "forcedir") {
			c.Via = "dir"
		}
		// broad queries so that many files with several matches are ranked
		for _, w := range []string{kit.Pick(g, []string{"foo", "a", "needle", "o", "e"}, "broad1"), kit.Pick(g, []string{"bar", "ab", "é", "x"}, "broad2")} {
			c.Queries = append(c.Queries, kit.QSpec{Op: "substr", Pat: w, Content: g.Bool(70, "bc")})
		}
		// many distinct terms in one file (BM25 sums one score per term)
		terms := rapid.Permutation([]string{"foo", "bar", "needle", "aba", "return", "import", "nil", "test", "main", "func", "baz", "err"}).Draw(rt, "terms")[:g.Int(4, 9, "nterms")]
		many := kit.QSpec{Op: "or"}
		for _, w := range terms {
			many.Kids = append(many.Kids, kit.QSpec{Op: "substr", Pat: w, Content: g.Bool(80, "tc")})
		}
		c.Queries = append(c.Queries, many)
		c.Queries = append(c.Queries, kit.QSpec{Op: "or", Kids: []kit.QSpec{{Op: "substr", Pat: "foo"}, {Op: "boost", Num: kit.Pick(g, []float64{0.01, 0.5, 20, 100}, "bb"), Kids: []kit.QSpec{{Op: "sym", Kids: []kit.QSpec{{Op: "regex", Pat: kit.Pick(g, []string{".*", "a", "[A-Z]"}, "symre"), CS: true}}}}}}})
		return c
	}, func(c c29Case) error { return runC29(rec, c) })
}
