//go:build verif

package search_test

import (
	"context"
	"errors"
	"fmt"
	"os"
	"reflect"
	"sync"
	"testing"
	"time"

	"pgregory.net/rapid"

	"github.com/sourcegraph/zoekt"
	"github.com/sourcegraph/zoekt/internal/verifkit/kit"
	"github.com/sourcegraph/zoekt/query"
)

// pollCtx is a context that becomes cancelled at its k-th observation (a call
// of Done or Err), so the harness decides at which point of a search the
// cancellation lands.
type pollCtx struct {
	context.Context
	mu    sync.Mutex
	k     int
	polls int
	ch    chan struct{}
	done  bool
}

func newPollCtx(k int) *pollCtx {
	return &pollCtx{Context: context.Background(), k: k, ch: make(chan struct{})}
}

func (c *pollCtx) Done() <-chan struct{} {
	c.mu.Lock()
	defer c.mu.Unlock()
	c.polls++
	if !c.done && c.k > 0 && c.polls >= c.k {
		c.done = true
		close(c.ch)
	}
	return c.ch
}

// Err is an observation point too: the cancellation may land between two
// Done polls and be seen first by an Err call.
func (c *pollCtx) Err() error {
	c.mu.Lock()
	defer c.mu.Unlock()
	c.polls++
	if !c.done && c.k > 0 && c.polls >= c.k {
		c.done = true
		close(c.ch)
	}
	if c.done {
		return context.Canceled
	}
	return nil
}

type limitSpec struct {
	ShardMax, TotalMax, RepoMax int
	CancelAtPoll                int   // bare searcher: cancel at the k-th context poll (0 = never)
	WallNanos                   int64 // sharded searcher: MaxWallTime (0 = none)
	CancelAfterMicros           int   // sharded searcher: cancel the context after this long (0 = never)
}

type c21Case struct {
	matchCase
	Limits []limitSpec
}

func normFile(f zoekt.FileMatch) zoekt.FileMatch {
	f.Score = 0
	f.Debug = ""
	lms := make([]zoekt.LineMatch, len(f.LineMatches))
	for i, lm := range f.LineMatches {
		lm.Score = 0
		lm.DebugScore = ""
		lms[i] = lm
	}
	f.LineMatches = lms
	cms := make([]zoekt.ChunkMatch, len(f.ChunkMatches))
	for i, cm := range f.ChunkMatches {
		cm.Score = 0
		cm.DebugScore = ""
		cms[i] = cm
	}
	f.ChunkMatches = cms
	if len(f.LineMatches) == 0 {
		f.LineMatches = nil
	}
	if len(f.ChunkMatches) == 0 {
		f.ChunkMatches = nil
	}
	return f
}

func runC21(rec *kit.Recorder, c c21Case) error {
	tmp, err := os.MkdirTemp("", "c21")
	if err != nil {
		return err
	}
	defer os.RemoveAll(tmp)
	e, err := openEnv(&c.matchCase, tmp)
	if err != nil {
		return kit.Fail("build", "%v", err)
	}
	defer e.close()
	ckey := fmt.Sprintf("%x", kit.Checksum([]byte(fmt.Sprintf("%+v", c.Corpus))))
	anyNT := false
	for _, qs := range c.Queries {
		q, err := qs.Q()
		if err != nil {
			continue
		}
		if _, err := kit.Expected(&c.Corpus, q); err != nil {
			continue
		}
		base := &zoekt.SearchOptions{ChunkMatches: c.Chunk, NumContextLines: c.Context}
		var full []zoekt.FileMatch
		if err := kit.Guard(func() error {
			var err error
			full, err = e.search(q, base)
			return err
		}); err != nil {
			continue // C01's subject
		}
		byKey := map[string]zoekt.FileMatch{}
		for _, f := range full {
			byKey[kit.Key(f.Repository, f.FileName, f.Checksum)] = normFile(f)
		}
		for _, l := range c.Limits {
			opts := *base
			opts.ShardMaxMatchCount, opts.TotalMaxMatchCount, opts.ShardRepoMaxMatchCount = l.ShardMax, l.TotalMax, l.RepoMax
			var files []zoekt.FileMatch
			var serr error
			done := make(chan error, 1)
			start := time.Now()
			go func() {
				done <- kit.Guard(func() error {
					ctx := context.Background()
					if e.dir != nil {
						opts.MaxWallTime = time.Duration(l.WallNanos)
						if l.CancelAfterMicros > 0 {
							var cancel context.CancelFunc
							ctx, cancel = context.WithCancel(ctx)
							defer cancel()
							time.AfterFunc(time.Duration(l.CancelAfterMicros)*time.Microsecond, cancel)
						}
						o := opts
						res, err := e.dir.Search(ctx, q, &o)
						if err != nil {
							serr = err
							return nil
						}
						if res.Stats.Crashes > 0 {
							return kit.Fail("crash", "limited search %s %+v: %d crashes", q, l, res.Stats.Crashes)
						}
						files = res.Files
						return nil
					}
					var pc context.Context = ctx
					if l.CancelAtPoll > 0 {
						pc = newPollCtx(l.CancelAtPoll)
					}
					for _, s := range e.built.Shards {
						o := opts
						before, wasDone := 0, false
						if p, ok := pc.(*pollCtx); ok {
							p.mu.Lock()
							before, wasDone = p.polls, p.done
							p.mu.Unlock()
						}
						res, err := s.Search(pc, q, &o)
						if err != nil {
							serr = err
							return nil
						}
						files = append(files, res.Files...)
						// "finishes promptly": a shard search looks at the
						// context before every document, so after the
						// cancellation (the k-th observation) it evaluates no
						// further document
						if p, ok := pc.(*pollCtx); ok {
							p.mu.Lock()
							nowDone := p.done
							p.mu.Unlock()
							budget := p.k - before
							if wasDone {
								budget = 0
							}
							if nowDone && res.Stats.FilesConsidered > budget {
								return kit.Fail("not-prompt", "search %s with %+v: the context was cancelled at its observation %d (%d had been made before this shard), yet the shard went on to evaluate %d documents", q, l, p.k, before, res.Stats.FilesConsidered)
							}
						}
					}
					return nil
				})
			}()
			select {
			case err := <-done:
				if err != nil {
					return err
				}
			case <-time.After(60 * time.Second):
				return kit.Fail("hang", "search %s with %+v did not return within 60 s", q, l)
			}
			_ = start
			if serr != nil {
				if !errors.Is(serr, context.Canceled) && !errors.Is(serr, context.DeadlineExceeded) {
					return kit.Fail("limit-error", "search %s with %+v failed with %v, which is not the context's error", q, l, serr)
				}
				rec.Label("outcome:context-error")
				continue
			}
			seen := map[string]bool{}
			for _, f := range files {
				k := kit.Key(f.Repository, f.FileName, f.Checksum)
				if seen[k] {
					return kit.Fail("duplicate-file", "limited search %s %+v returned %s twice", q, l, k)
				}
				seen[k] = true
				w, ok := byKey[k]
				if !ok {
					return kit.Fail("limit-added-file", "search %s with %+v returned %s/%s which the unlimited search does not return", q, l, f.Repository, f.FileName)
				}
				g := normFile(f)
				if !reflect.DeepEqual(w.LineMatches, g.LineMatches) || !reflect.DeepEqual(w.ChunkMatches, g.ChunkMatches) || !reflect.DeepEqual(w.Branches, g.Branches) {
					return kit.Fail("limit-changed-file", "search %s with %+v: file %s/%s differs from its unlimited counterpart:\n unlimited %+v\n limited   %+v", q, l, f.Repository, f.FileName, w, g)
				}
			}
			nt := len(files) > 0 && len(files) < len(full)
			anyNT = anyNT || nt
			out := "outcome:all"
			if len(files) < len(full) {
				out = "outcome:removed-some"
			}
			if len(files) == 0 && len(full) > 0 {
				out = "outcome:removed-all"
			}
			kind := "limit"
			if l.CancelAtPoll > 0 || l.CancelAfterMicros > 0 || l.WallNanos > 0 {
				kind = "cancel"
			}
			rec.Eval(ckey+fmt.Sprintf("|%+v|%+v|%v", qs, l, c.Chunk), nt, out, "kind:"+kind, "via:"+c.Via)
		}
	}
	rec.Sample(c, anyNT)
	return nil
}

func TestVerif_C21(t *testing.T) {
	rec := kit.Open(t, "C21",
		"C01 corpora and query batches x 3-5 limit settings (shard / total / per-repository match limits in {0,1,2,3,5,1000}; cancellation at the k-th context poll for the bare shard searcher; a tiny MaxWallTime or a timed cancellation for the directory searcher); every file returned under a limit must equal its counterpart in the unlimited result (line / chunk matches, branches); an error must be the context's; non-trivial = the limit removed at least one file and kept at least one; distinct by hash",
		"scores and debug strings are not compared",
		"timed cancellations of the directory searcher are schedule-dependent; their oracle (subset + equality per file) holds for every schedule",
	)
	kit.Property(t, rec, func(rt *rapid.T) c21Case {
		var labels [][]string
		g := kit.G{T: rt}
		o := kit.DefaultCorpus
		o.MaxDocs = 10
		c := c21Case{matchCase: genMatchCase(rt, o, kit.DefaultQuery, &labels)}
		if g.Bool(50, "negtyperepo") {
			// a deadline that hits the pre-evaluation of a negated type:repo
			// sub-query must not add files either (sharded searcher only)
			t1, _ := kit.GenQuery(g, &c.Corpus, kit.QueryOpts{MaxDepth: 0, FoldSafe: true}, 0)
			t2 := kit.QSpec{Op: "substr", Pat: kit.Pick(g, []string{"foo", "a", "e", "needle", "o"}, "ntr")}
			c.Queries = append(c.Queries, kit.QSpec{Op: "and", Kids: []kit.QSpec{t2, {Op: "not", Kids: []kit.QSpec{{Op: "type", Num: float64(query.TypeRepo), Kids: []kit.QSpec{t1}}}}}})
		}
		n := g.Int(3, 5, "nlimits")
		lim := []int{0, 1, 2, 3, 5, 1000}
		for i := 0; i < n; i++ {
			l := limitSpec{}
			switch g.Int(0, 3, "lkind") {
			case 0:
				l.ShardMax = kit.Pick(g, lim, "sm")
			case 1:
				l.TotalMax = kit.Pick(g, lim, "tm")
			case 2:
				l.RepoMax = kit.Pick(g, lim, "rm")
			default:
				l.ShardMax, l.TotalMax, l.RepoMax = kit.Pick(g, lim, "sm"), kit.Pick(g, lim, "tm"), kit.Pick(g, lim, "rm")
			}
			if g.Bool(35, "cancel") {
				l.CancelAtPoll = g.Int(1, 40, "poll")
				if g.Bool(50, "wall") {
					l.WallNanos = int64(kit.Pick(g, []int{1, 1000, 20000, 100000, 300000, 2000000}, "wallns"))
				} else {
					l.CancelAfterMicros = kit.Pick(g, []int{1, 50, 500, 3000}, "cancelus")
				}
			}
			c.Limits = append(c.Limits, l)
		}
		return c
	}, func(c c21Case) error { return runC21(rec, c) })
}
