//go:build verif

package search_test

import (
	"bytes"
	"fmt"
	"os"
	"regexp"
	"regexp/syntax"
	"sort"
	"testing"
	"unicode/utf8"

	"pgregory.net/rapid"

	"github.com/sourcegraph/zoekt"
	"github.com/sourcegraph/zoekt/internal/verifkit/kit"
	"github.com/sourcegraph/zoekt/query"
)

// rng is a reported match range.
type rng struct {
	name   bool // in the file name
	s, e   int
	group  int // index of the line / chunk that reported it
	symbol bool
}

func docIndex(c *kit.Corpus) map[string]*kit.Doc {
	m := map[string]*kit.Doc{}
	for i := range c.Repos {
		r := &c.Repos[i]
		for j := range r.Docs {
			m[kit.DocKey(r, &r.Docs[j])] = &r.Docs[j]
		}
	}
	return m
}

// collectRanges extracts the reported ranges of a file, checking the parts
// of C02 that need no query: inside the text, ordered within a line/chunk.
func collectRanges(f *zoekt.FileMatch, d *kit.Doc, chunk bool) ([]rng, error) {
	content := d.EffectiveContent()
	var out []rng
	inside := func(r rng) error {
		limit := len(content)
		if r.name {
			limit = len(d.Name)
		}
		if r.s < 0 || r.e < r.s || r.e > limit {
			return kit.Fail("range-outside", "file %s: range [%d,%d) name=%v outside text of %d bytes", f.FileName, r.s, r.e, r.name, limit)
		}
		return nil
	}
	if chunk {
		if len(f.LineMatches) > 0 {
			return nil, kit.Fail("mode", "line matches returned in chunk mode")
		}
		for gi, cm := range f.ChunkMatches {
			last := -1
			for _, r := range cm.Ranges {
				x := rng{name: cm.FileName, s: int(r.Start.ByteOffset), e: int(r.End.ByteOffset), group: gi}
				if err := inside(x); err != nil {
					return nil, err
				}
				if x.s < last {
					return nil, kit.Fail("range-order", "file %s chunk %d: range [%d,%d) starts before the previous range ends (%d)", f.FileName, gi, x.s, x.e, last)
				}
				last = x.e
				out = append(out, x)
			}
			if len(cm.Ranges) == 0 {
				return nil, kit.Fail("empty-chunk", "file %s chunk %d has no ranges", f.FileName, gi)
			}
		}
	} else {
		if len(f.ChunkMatches) > 0 {
			return nil, kit.Fail("mode", "chunk matches returned in line mode")
		}
		for gi, lm := range f.LineMatches {
			last := -1
			for _, fr := range lm.LineFragments {
				x := rng{name: lm.FileName, s: int(fr.Offset), e: int(fr.Offset) + fr.MatchLength, group: gi}
				if err := inside(x); err != nil {
					return nil, err
				}
				if x.s < last {
					return nil, kit.Fail("range-order", "file %s line %d: fragment [%d,%d) starts before the previous one ends (%d)", f.FileName, gi, x.s, x.e, last)
				}
				last = x.e
				out = append(out, x)
			}
			if len(lm.LineFragments) == 0 {
				return nil, kit.Fail("empty-line", "file %s line match %d has no fragments", f.FileName, gi)
			}
		}
	}
	// all ranges of the file pairwise disjoint (name and content separately)
	srt := append([]rng(nil), out...)
	sort.Slice(srt, func(i, j int) bool {
		if srt[i].name != srt[j].name {
			return srt[i].name
		}
		if srt[i].s != srt[j].s {
			return srt[i].s < srt[j].s
		}
		return srt[i].e < srt[j].e
	})
	for i := 1; i < len(srt); i++ {
		a, b := srt[i-1], srt[i]
		if a.name == b.name && b.s < a.e {
			return nil, kit.Fail("range-overlap", "file %s: ranges [%d,%d) and [%d,%d) overlap", f.FileName, a.s, a.e, b.s, b.e)
		}
		if a.name == b.name && a.s == b.s && a.e == b.e && a.s != a.e {
			return nil, kit.Fail("range-dup", "file %s: range [%d,%d) reported twice", f.FileName, a.s, a.e)
		}
	}
	return out, nil
}

// positiveAtoms lists the text atoms of q that are not below a Not.
func positiveAtoms(q query.Q, out *[]query.Q) {
	switch s := q.(type) {
	case *query.And:
		for _, c := range s.Children {
			positiveAtoms(c, out)
		}
	case *query.Or:
		for _, c := range s.Children {
			positiveAtoms(c, out)
		}
	case *query.Boost:
		positiveAtoms(s.Child, out)
	case *query.Type:
		positiveAtoms(s.Child, out)
	case *query.Not:
	case *query.Substring, *query.Regexp, *query.Symbol:
		*out = append(*out, q)
	}
}

func hasAssertion(re *syntax.Regexp) bool {
	switch re.Op {
	case syntax.OpBeginLine, syntax.OpEndLine, syntax.OpBeginText, syntax.OpEndText, syntax.OpWordBoundary, syntax.OpNoWordBoundary:
		return true
	}
	for _, s := range re.Sub {
		if hasAssertion(s) {
			return true
		}
	}
	return false
}

// pieceOf reports whether [s,e) is [ms,me) or, in line mode, one of the
// newline-free pieces [ms,me) is broken into.
func pieceOf(data []byte, s, e, ms, me int, lineMode bool) bool {
	if s == ms && e == me {
		return true
	}
	if !lineMode || s < ms || e > me {
		return false
	}
	if bytes.IndexByte(data[s:e], '\n') >= 0 {
		return false
	}
	startOK := s == ms || data[s-1] == '\n'
	endOK := e == me || data[e] == '\n'
	return startOK && endOK
}

type atomMatcher struct {
	onName, onContent bool
	// match reports whether the atom matches exactly [s,e) of data (or, in
	// line mode, a match of which [s,e) is a newline-free piece).
	match func(data []byte, s, e int, lineMode bool) bool
}

func substrMatcher(q *query.Substring) atomMatcher {
	both := q.FileName == q.Content
	return atomMatcher{
		onName: q.FileName || both, onContent: q.Content || both,
		match: func(data []byte, s, e int, lineMode bool) bool {
			if kit.FoldMatchAt(data[s:e], q.Pattern, q.CaseSensitive) == e-s {
				return true
			}
			if !lineMode {
				return false
			}
			for _, o := range kit.NaiveOccurrences(data, q.Pattern, q.CaseSensitive) {
				if pieceOf(data, s, e, o[0], o[1], true) {
					return true
				}
			}
			return false
		},
	}
}

func regexpMatcher(q *query.Regexp) (atomMatcher, error) {
	re, err := kit.StdRegexp(q)
	if err != nil {
		return atomMatcher{}, err
	}
	prefix := ""
	if !q.CaseSensitive {
		prefix = "(?i)"
	}
	anch, err := regexp.Compile(prefix + `\A(?:` + q.Regexp.String() + `)\z`)
	if err != nil {
		return atomMatcher{}, err
	}
	assertFree := !hasAssertion(q.Regexp)
	both := q.FileName == q.Content
	return atomMatcher{
		onName: q.FileName || both, onContent: q.Content || both,
		match: func(data []byte, s, e int, lineMode bool) bool {
			if assertFree && anch.Match(data[s:e]) {
				return true
			}
			for _, m := range re.FindAllIndex(data, -1) {
				if pieceOf(data, s, e, m[0], m[1], lineMode) {
					return true
				}
			}
			return false
		},
	}, nil
}

func symbolMatcher(q *query.Symbol, d *kit.Doc) (atomMatcher, error) {
	am := atomMatcher{onContent: true}
	switch x := q.Expr.(type) {
	case *query.Substring:
		am.match = func(data []byte, s, e int, lineMode bool) bool {
			if kit.FoldMatchAt(data[s:e], x.Pattern, x.CaseSensitive) != e-s {
				return false
			}
			for _, sec := range d.Symbols {
				if s >= sec.Start && e <= sec.End {
					return true
				}
			}
			return false
		}
	case *query.Regexp:
		re, err := kit.StdRegexp(x)
		if err != nil {
			return am, err
		}
		am.match = func(data []byte, s, e int, lineMode bool) bool {
			for _, sec := range d.Symbols {
				if s >= sec.Start && e <= sec.End {
					if m := re.FindIndex(data[sec.Start:sec.End]); m != nil && pieceOf(data, s, e, sec.Start+m[0], sec.Start+m[1], lineMode) {
						return true
					}
				}
			}
			return false
		}
	default:
		return am, fmt.Errorf("unsupported symbol expr %T", q.Expr)
	}
	return am, nil
}

// checkRangesReal is C02 (c): every range is matched there by a non-negated atom.
func checkRangesReal(q query.Q, d *kit.Doc, f *zoekt.FileMatch, rs []rng, lineMode bool) error {
	var atoms []query.Q
	positiveAtoms(q, &atoms)
	var ms []atomMatcher
	for _, a := range atoms {
		switch x := a.(type) {
		case *query.Substring:
			ms = append(ms, substrMatcher(x))
		case *query.Regexp:
			m, err := regexpMatcher(x)
			if err != nil {
				return nil // outside the reference's domain
			}
			ms = append(ms, m)
		case *query.Symbol:
			m, err := symbolMatcher(x, d)
			if err != nil {
				return nil
			}
			ms = append(ms, m)
		}
	}
	content := d.EffectiveContent()
	for _, r := range rs {
		if r.name && len(rs) == 1 && r.s == 0 && r.e == len(d.Name) {
			// the documented fallback: a file that matched without any text
			// candidate reports its whole name
			continue
		}
		data := content
		if r.name {
			data = []byte(d.Name)
		}
		ok := false
		for _, m := range ms {
			if (r.name && !m.onName) || (!r.name && !m.onContent) {
				continue
			}
			if m.match(data, r.s, r.e, lineMode && !r.name) {
				ok = true
				break
			}
		}
		if !ok {
			return kit.Fail("range-not-a-match", "file %s: range [%d,%d) name=%v %q is not matched there by any non-negated atom of %s", f.FileName, r.s, r.e, r.name, data[r.s:r.e], q)
		}
	}
	return nil
}

func contentRanges(rs []rng) [][2]int {
	var out [][2]int
	for _, r := range rs {
		if !r.name {
			out = append(out, [2]int{r.s, r.e})
		}
	}
	sort.Slice(out, func(i, j int) bool { return out[i][0] < out[j][0] })
	return out
}

func splitAtNewlines(data []byte, rs [][2]int) [][2]int {
	var out [][2]int
	for _, r := range rs {
		st := r[0]
		for i := r[0]; i < r[1]; i++ {
			if data[i] == '\n' {
				if i > st {
					out = append(out, [2]int{st, i})
				}
				st = i + 1
			}
		}
		if r[1] > st {
			out = append(out, [2]int{st, r[1]})
		}
	}
	return out
}

// checkSingleSubstring is C02 (d).
func checkSingleSubstring(q *query.Substring, d *kit.Doc, f *zoekt.FileMatch, rs []rng, lineMode bool) error {
	content := d.EffectiveContent()
	var want [][2]int
	last := 0
	for _, o := range kit.NaiveOccurrences(content, q.Pattern, q.CaseSensitive) {
		if o[0] >= last {
			want = append(want, o)
			last = o[1]
		}
	}
	if lineMode {
		want = splitAtNewlines(content, want)
	}
	got := contentRanges(rs)
	if fmt.Sprint(want) != fmt.Sprint(got) {
		return kit.Fail("substring-occurrences", "file %s: substring %q (case=%v): reported ranges %v, leftmost non-overlapping occurrences %v", f.FileName, q.Pattern, q.CaseSensitive, got, want)
	}
	return nil
}

func coveredBytes(n int, rs [][2]int, data []byte, dropNewlines bool) []bool {
	cov := make([]bool, n)
	for _, r := range rs {
		for i := r[0]; i < r[1]; i++ {
			if dropNewlines && data[i] == '\n' {
				continue
			}
			cov[i] = true
		}
	}
	return cov
}

// checkSingleRegexp is C02 (e).
func checkSingleRegexp(q *query.Regexp, d *kit.Doc, f *zoekt.FileMatch, rs []rng, lineMode bool) error {
	re, err := kit.StdRegexp(q)
	if err != nil {
		return nil
	}
	content := d.EffectiveContent()
	var want [][2]int
	for _, m := range re.FindAllIndex(content, -1) {
		if m[1] > m[0] {
			want = append(want, [2]int{m[0], m[1]})
		}
	}
	got := contentRanges(rs)
	a := coveredBytes(len(content), want, content, lineMode)
	b := coveredBytes(len(content), got, content, lineMode)
	for i := range a {
		if a[i] != b[i] {
			return classifyC02(q, kit.Fail("regexp-coverage", "file %s: regexp %s (case=%v): byte %d covered by engine=%v reported=%v; engine matches %v, reported %v", f.FileName, q.Regexp, q.CaseSensitive, i, a[i], b[i], want, got))
		}
	}
	return nil
}

func classifyC02(q *query.Regexp, d *kit.Discrepancy) *kit.Discrepancy {
	return d
}

// ---- C03: locations and context ----

type lineTable struct {
	data   []byte
	starts []int // start offset of each line (1-based line n starts at starts[n-1])
}

func newLineTable(data []byte) *lineTable {
	lt := &lineTable{data: data, starts: []int{0}}
	for i, b := range data {
		if b == '\n' {
			lt.starts = append(lt.starts, i+1)
		}
	}
	return lt
}

// lineOf returns the 1-based number of the line containing offset p (a
// newline byte belongs to the line it ends).
func (lt *lineTable) lineOf(p int) int {
	return 1 + bytes.Count(lt.data[:p], []byte{'\n'})
}

// start of line n, clamped to [0,len]
func (lt *lineTable) start(n int) int {
	if n < 1 {
		return 0
	}
	if n-1 >= len(lt.starts) {
		return len(lt.data)
	}
	return lt.starts[n-1]
}

func checkLineMatch(lt *lineTable, f *zoekt.FileMatch, lm *zoekt.LineMatch, k int) error {
	data := lt.data
	if lm.LineStart < 0 || lm.LineEnd > len(data) || lm.LineStart > lm.LineEnd {
		return kit.Fail("line-bounds", "file %s: line [%d,%d) outside content of %d bytes", f.FileName, lm.LineStart, lm.LineEnd, len(data))
	}
	if lm.LineStart != 0 && data[lm.LineStart-1] != '\n' {
		return kit.Fail("line-start", "file %s: LineStart %d is not the start of a line", f.FileName, lm.LineStart)
	}
	if lm.LineEnd != len(data) && (lm.LineEnd == 0 || data[lm.LineEnd-1] != '\n') {
		return kit.Fail("line-end", "file %s: LineEnd %d is neither end of file nor just after a newline", f.FileName, lm.LineEnd)
	}
	n := lt.lineOf(lm.LineStart)
	if lm.LineNumber != n {
		return kit.Fail("line-number", "file %s: LineNumber %d, content says %d", f.FileName, lm.LineNumber, n)
	}
	if lm.LineEnd != lt.start(n+1) {
		return kit.Fail("line-end", "file %s: line %d spans [%d,%d) but the line ends at %d", f.FileName, n, lm.LineStart, lm.LineEnd, lt.start(n+1))
	}
	if !bytes.Equal(lm.Line, data[lm.LineStart:lm.LineEnd]) {
		return kit.Fail("line-text", "file %s: Line %q != content[%d:%d] %q", f.FileName, lm.Line, lm.LineStart, lm.LineEnd, data[lm.LineStart:lm.LineEnd])
	}
	for _, fr := range lm.LineFragments {
		if fr.LineOffset != int(fr.Offset)-lm.LineStart {
			return kit.Fail("fragment-offset", "file %s: LineOffset %d != Offset %d - LineStart %d", f.FileName, fr.LineOffset, fr.Offset, lm.LineStart)
		}
		if int(fr.Offset) < lm.LineStart || int(fr.Offset)+fr.MatchLength > lm.LineEnd {
			return kit.Fail("fragment-outside-line", "file %s: fragment [%d,+%d) outside its line [%d,%d)", f.FileName, fr.Offset, fr.MatchLength, lm.LineStart, lm.LineEnd)
		}
	}
	if k > 0 {
		wantBefore := data[lt.start(n-k):lm.LineStart]
		wantAfter := data[lm.LineEnd:lt.start(n+1+k)]
		if !bytes.Equal(lm.Before, wantBefore) {
			return kit.Fail("context-before", "file %s line %d k=%d: Before %q want %q", f.FileName, n, k, lm.Before, wantBefore)
		}
		if !bytes.Equal(lm.After, wantAfter) {
			return kit.Fail("context-after", "file %s line %d k=%d: After %q want %q", f.FileName, n, k, lm.After, wantAfter)
		}
	} else if len(lm.Before) > 0 || len(lm.After) > 0 {
		return kit.Fail("context-unrequested", "file %s: context returned without being requested", f.FileName)
	}
	return nil
}

func checkLocation(lt *lineTable, f *zoekt.FileMatch, loc zoekt.Location, isEnd bool, start int) error {
	p := int(loc.ByteOffset)
	col := func(line int) int { return 1 + utf8.RuneCount(lt.data[lt.start(line):p]) }
	n := lt.lineOf(p)
	if int(loc.LineNumber) == n && int(loc.Column) == col(n) {
		return nil
	}
	if isEnd && p > start {
		// exclusive end: the line of the last byte of the range is accepted too
		m := lt.lineOf(p - 1)
		if int(loc.LineNumber) == m && int(loc.Column) == col(m) {
			return nil
		}
	}
	return kit.Fail("location", "file %s: offset %d reported as line %d column %d; content says line %d column %d", f.FileName, p, loc.LineNumber, loc.Column, n, col(n))
}

func checkChunks(lt *lineTable, f *zoekt.FileMatch, k int) (merged bool, err error) {
	data := lt.data
	type span struct{ first, last int }
	var spans []span
	for ci := range f.ChunkMatches {
		cm := &f.ChunkMatches[ci]
		if cm.FileName {
			continue
		}
		cs := int(cm.ContentStart.ByteOffset)
		if cs > len(data) || cs+len(cm.Content) > len(data) {
			return false, kit.Fail("chunk-bounds", "file %s: chunk [%d,+%d) outside content", f.FileName, cs, len(cm.Content))
		}
		if cm.ContentStart.Column != 1 || (cs != 0 && data[cs-1] != '\n') {
			return false, kit.Fail("chunk-start", "file %s: chunk content start %d (column %d) is not the start of a line", f.FileName, cs, cm.ContentStart.Column)
		}
		if int(cm.ContentStart.LineNumber) != lt.lineOf(cs) {
			return false, kit.Fail("chunk-line", "file %s: chunk start line %d, content says %d", f.FileName, cm.ContentStart.LineNumber, lt.lineOf(cs))
		}
		if !bytes.Equal(cm.Content, data[cs:cs+len(cm.Content)]) {
			return false, kit.Fail("chunk-text", "file %s: chunk content differs from the file at %d", f.FileName, cs)
		}
		ce := cs + len(cm.Content)
		if ce != len(data) && (ce == 0 || data[ce-1] != '\n') {
			return false, kit.Fail("chunk-end", "file %s: chunk content [%d,%d) does not end at a line end", f.FileName, cs, ce)
		}
		lo, hi := -1, -1
		for _, r := range cm.Ranges {
			s, e := int(r.Start.ByteOffset), int(r.End.ByteOffset)
			if s < cs || e > ce {
				return false, kit.Fail("chunk-contains", "file %s: range [%d,%d) outside its chunk [%d,%d)", f.FileName, s, e, cs, ce)
			}
			if err := checkLocation(lt, f, r.Start, false, s); err != nil {
				return false, err
			}
			if err := checkLocation(lt, f, r.End, true, s); err != nil {
				return false, err
			}
			first := lt.lineOf(s)
			last := first
			if e > s {
				last = lt.lineOf(e - 1)
			}
			if lo < 0 || first < lo {
				lo = first
			}
			if last > hi {
				hi = last
			}
		}
		// whole lines [lo-k, hi+k] clamped
		wantStart := lt.start(max(lo-k, 1))
		wantEnd := lt.start(hi + k + 1)
		if cs != wantStart || ce != wantEnd {
			return false, kit.Fail("chunk-lines", "file %s: chunk covers [%d,%d) but its ranges span lines %d-%d which with %d context lines is [%d,%d)", f.FileName, cs, ce, lo, hi, k, wantStart, wantEnd)
		}
		if cm.BestLineMatch != 0 && (int(cm.BestLineMatch) < lo || int(cm.BestLineMatch) > hi) {
			return false, kit.Fail("best-line", "file %s: BestLineMatch %d outside matched lines %d-%d", f.FileName, cm.BestLineMatch, lo, hi)
		}
		firstLine, lastLine := lt.lineOf(cs), lt.lineOf(cs)
		if ce > cs {
			lastLine = lt.lineOf(ce - 1)
		}
		spans = append(spans, span{firstLine, lastLine})
		if len(cm.Ranges) > 1 && hi-lo >= 1 {
			merged = true
		}
	}
	sort.Slice(spans, func(i, j int) bool { return spans[i].first < spans[j].first })
	for i := 1; i < len(spans); i++ {
		if spans[i].first <= spans[i-1].last {
			return false, kit.Fail("chunk-overlap", "file %s: chunks share line %d", f.FileName, spans[i].first)
		}
	}
	return merged, nil
}

// checkLocations is the C03 oracle for one file.
func checkLocations(d *kit.Doc, f *zoekt.FileMatch, chunk bool, k int) (nontrivial bool, err error) {
	content := d.EffectiveContent()
	lt := newLineTable(content)
	nlines := len(lt.starts)
	if chunk {
		for i := range f.ChunkMatches {
			cm := &f.ChunkMatches[i]
			if cm.FileName {
				if string(cm.Content) != d.Name {
					return false, kit.Fail("filename-text", "file %s: file-name chunk carries %q", f.FileName, cm.Content)
				}
				if cm.ContentStart != (zoekt.Location{ByteOffset: 0, LineNumber: 1, Column: 1}) {
					return false, kit.Fail("filename-start", "file %s: file-name chunk starts at %+v", f.FileName, cm.ContentStart)
				}
				nt := newLineTable([]byte(d.Name))
				for _, r := range cm.Ranges {
					if err := checkLocation(nt, f, r.Start, false, int(r.Start.ByteOffset)); err != nil {
						return false, err
					}
					if err := checkLocation(nt, f, r.End, true, int(r.Start.ByteOffset)); err != nil {
						return false, err
					}
				}
			}
		}
		merged, err := checkChunks(lt, f, k)
		if err != nil {
			return false, err
		}
		nontrivial = merged
		for i := range f.ChunkMatches {
			cm := &f.ChunkMatches[i]
			if cm.FileName {
				continue
			}
			first := int(cm.ContentStart.LineNumber)
			if k > 0 && (first == 1 || lt.lineOf(int(cm.ContentStart.ByteOffset)+max(len(cm.Content)-1, 0)) >= nlines-1) {
				nontrivial = true
			}
			if bytes.Contains(cm.Content, []byte("\r\n")) || !isASCII(cm.Content) {
				nontrivial = true
			}
		}
		return nontrivial, nil
	}
	for i := range f.LineMatches {
		lm := &f.LineMatches[i]
		if lm.FileName {
			if string(lm.Line) != d.Name {
				return false, kit.Fail("filename-text", "file %s: file-name line match carries %q", f.FileName, lm.Line)
			}
			for _, fr := range lm.LineFragments {
				if fr.LineOffset != int(fr.Offset) || fr.LineOffset+fr.MatchLength > len(d.Name) {
					return false, kit.Fail("filename-fragment", "file %s: file-name fragment %+v", f.FileName, fr)
				}
			}
			continue
		}
		if err := checkLineMatch(lt, f, lm, k); err != nil {
			return false, err
		}
		if k > 0 && (lm.LineNumber <= k || lm.LineNumber > nlines-k-1) {
			nontrivial = true
		}
		if bytes.Contains(lm.Line, []byte("\r\n")) || !isASCII(lm.Line) {
			nontrivial = true
		}
	}
	return nontrivial, nil
}

func isASCII(b []byte) bool {
	for _, c := range b {
		if c >= 0x80 {
			return false
		}
	}
	return true
}

// ---- drivers ----

type rangeStats struct {
	multi, multiline, mbBefore bool
}

func runRanges(rec *kit.Recorder, c matchCase, labels [][]string, doC02, doC03 bool) error {
	tmp, err := os.MkdirTemp("", "c02")
	if err != nil {
		return err
	}
	defer os.RemoveAll(tmp)
	e, err := openEnv(&c, tmp)
	if err != nil {
		return kit.Fail("build", "%v", err)
	}
	defer e.close()
	docs := docIndex(&c.Corpus)
	ckey := fmt.Sprintf("%x", kit.Checksum([]byte(fmt.Sprintf("%+v", c.Corpus))))
	anyNT := false
	for i, qs := range c.Queries {
		q, err := qs.Q()
		if err != nil {
			continue
		}
		if _, err := kit.Expected(&c.Corpus, q); err != nil {
			continue
		}
		var files []zoekt.FileMatch
		err = kit.Guard(func() error {
			var err error
			files, err = e.search(q, &zoekt.SearchOptions{ChunkMatches: c.Chunk, NumContextLines: c.Context})
			return err
		})
		if err != nil {
			// errors and crashes are C01's subject
			continue
		}
		nt := false
		var l []string
		if i < len(labels) {
			l = labels[i]
		}
		for fi := range files {
			f := &files[fi]
			d := docs[kit.Key(f.Repository, f.FileName, f.Checksum)]
			if d == nil {
				continue // C01's subject
			}
			if doC02 {
				rs, err := collectRanges(f, d, c.Chunk)
				if err != nil {
					return err
				}
				if err := checkRangesReal(q, d, f, rs, !c.Chunk); err != nil {
					return err
				}
				switch x := q.(type) {
				case *query.Substring:
					if x.Content && !x.FileName {
						if err := checkSingleSubstring(x, d, f, rs, !c.Chunk); err != nil {
							return err
						}
						l = append(l, "single-substring")
					}
				case *query.Regexp:
					if x.Content && !x.FileName {
						if err := checkSingleRegexp(x, d, f, rs, !c.Chunk); err != nil {
							return err
						}
						l = append(l, "single-regexp")
					}
				}
				content := d.EffectiveContent()
				ncontent := 0
				for _, r := range rs {
					if r.name {
						continue
					}
					ncontent++
					if bytes.IndexByte(content[r.s:r.e], '\n') >= 0 {
						nt = true
						l = append(l, "nt:multiline")
					}
					if utf8.RuneCount(content) > 100 && !isASCII(content[:r.s]) {
						nt = true
						l = append(l, "nt:multibyte-before")
					}
				}
				if ncontent >= 2 {
					nt = true
					l = append(l, "nt:multi-range")
				}
			}
			if doC03 {
				n, err := checkLocations(d, f, c.Chunk, c.Context)
				if err != nil {
					return err
				}
				nt = nt || n
			}
		}
		anyNT = anyNT || nt
		mode := "mode:line"
		if c.Chunk {
			mode = "mode:chunk"
		}
		rec.Eval(ckey+"|"+fmt.Sprintf("%+v|%v|%d", qs, c.Chunk, c.Context), nt, append(l, mode, fmt.Sprintf("context:%d", c.Context))...)
	}
	rec.Sample(c, anyNT)
	return nil
}

// genRangeCase biases the batch towards single content atoms (C02 d, e).
func genRangeCase(rt *rapid.T, labels *[][]string) matchCase {
	c := genMatchCase(rt, kit.DefaultCorpus, kit.DefaultQuery, labels)
	g := kit.G{T: rt}
	n := g.Int(2, 5, "nsingle")
	for i := 0; i < n; i++ {
		var q kit.QSpec
		var l []string
		if g.Bool(50, "singlere") {
			pat, ll := kit.GenRegexpText(g, &c.Corpus, false, true)
			q = kit.QSpec{Op: "regex", Pat: pat, Content: true, CS: g.Bool(50, "scs"), Opt: g.Bool(50, "sopt")}
			l = ll
		} else {
			q = kit.QSpec{Op: "substr", Pat: kit.GenPattern(g, &c.Corpus, false), Content: true, CS: g.Bool(50, "scs")}
		}
		if !q.CS && !kit.CaseSafe(q.Pat) {
			q.CS = true
		}
		c.Queries = append(c.Queries, q)
		*labels = append(*labels, l)
	}
	return c
}

func TestVerif_C02(t *testing.T) {
	rec := kit.Open(t, "C02",
		"C01 corpora x query batches (with 2-5 extra single content atoms) in line and chunk mode with 0-5 context lines; a case = (corpus, query, mode); non-trivial = some file has >= 2 content ranges, a multi-line match, or a multi-byte rune before a match in a document of > 100 runes; distinct by hash",
		"increasing order is checked within a line / chunk (lines and chunks themselves are ordered by score); all ranges of a file must be pairwise disjoint",
		"a file that matched without any text candidate reports its whole name as the only range",
		"in line mode a multi-line match is reported as its newline-free pieces",
	)
	var labels [][]string
	kit.Property(t, rec, func(rt *rapid.T) matchCase {
		labels = nil
		return genRangeCase(rt, &labels)
	}, func(c matchCase) error {
		return runRanges(rec, c, labels, true, false)
	})
}

func TestVerif_C03(t *testing.T) {
	rec := kit.Open(t, "C03",
		"C01 corpora x query batches in line and chunk mode with 0-5 context lines, judged against an independent newline table; a case = (corpus, query, mode, context); non-trivial = context requested with a match near either end of the file, chunks merged over several lines, or CRLF / multi-byte text on a matched line; distinct by hash",
		"Line includes its terminating newline (LineEnd is the byte after it, or end of file)",
		"for the exclusive End location of a range both the line of the end offset and the line of the last byte are accepted",
	)
	var labels [][]string
	kit.Property(t, rec, func(rt *rapid.T) matchCase {
		labels = nil
		return genRangeCase(rt, &labels)
	}, func(c matchCase) error {
		return runRanges(rec, c, labels, false, true)
	})
}
