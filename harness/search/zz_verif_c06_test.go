//go:build verif

package search_test

// C06: query strings mean what doc/query_syntax.md says.
//
// The oracle in this file is an independent parser + interpreter of the
// documented query language (c06Parse / c06Interp). It never calls
// query.Parse and never looks at zoekt's query tree; it only reads the query
// string and the corpus model. The code under test is query.Parse + the real
// search engine (bare shard searchers and the directory searcher).

import (
	"bytes"
	"context"
	"fmt"
	"math/bits"
	"os"
	"regexp" // standard library engine on purpose (zoekt: grafana/regexp, go-re2)
	"regexp/syntax"
	"sort"
	"strings"
	"testing"
	"unicode"
	"unicode/utf8"

	"pgregory.net/rapid"

	"github.com/sourcegraph/zoekt"
	"github.com/sourcegraph/zoekt/internal/verifkit/kit"
	"github.com/sourcegraph/zoekt/query"
	"github.com/sourcegraph/zoekt/search"
)

// ---------------------------------------------------------------------------
// Oracle, part 1: parser of the documented grammar
//
//	query       = conjunction , { "or" , conjunction } ;
//	conjunction = expression , { expression } ;
//	expression  = [ "-" ] , ( grouping | text | field ) ;
//	grouping    = "(" , query , ")" ;
//	text        = quoted | unquoted ;
// ---------------------------------------------------------------------------

type c06Node struct {
	Kind  string // group text file content regex repo branch lang sym archived fork public meta case type
	Neg   bool
	Val   string // decoded value: a regular expression for pattern fields, plain text otherwise
	Field string // meta.<Field>:
	Group *c06Group
}

type c06Group struct {
	Conjs [][]*c06Node // disjunction of conjunctions, directives removed
	Case  string       // "", yes, no, auto: the group's case: directive
	Type  string       // "", filematch, filename, file, repo: the group's type: directive
}

// c06Stats records which constructs a string uses.
type c06Stats struct {
	Groups, Tight, Negs, Ors, Cases, Types, Quoted, Escapes int
	Depth                                                   int
	Labels                                                  map[string]bool
}

type c06Reject struct{ why string }

func (e *c06Reject) Error() string { return "outside the documented grammar: " + e.why }

func c06Rejectf(format string, a ...any) error { return &c06Reject{fmt.Sprintf(format, a...)} }

type c06Parser struct {
	s  string
	i  int
	st *c06Stats
}

// c06Fields is the field table of doc/query_syntax.md: prefix as written -> field.
var c06Fields = []struct{ prefix, kind string }{
	{"archived:", "archived"}, {"case:", "case"}, {"content:", "content"}, {"c:", "content"},
	{"file:", "file"}, {"f:", "file"}, {"fork:", "fork"}, {"lang:", "lang"}, {"public:", "public"},
	{"regex:", "regex"}, {"repo:", "repo"}, {"r:", "repo"}, {"sym:", "sym"}, {"branch:", "branch"},
	{"b:", "branch"}, {"type:", "type"}, {"t:", "type"},
}

func c06Parse(s string) (*c06Group, *c06Stats, error) {
	p := &c06Parser{s: s, st: &c06Stats{Labels: map[string]bool{}}}
	g, err := p.query(0)
	if err != nil {
		return nil, nil, err
	}
	if p.i != len(p.s) {
		return nil, nil, c06Rejectf("unbalanced ')' at %d", p.i)
	}
	return g, p.st, nil
}

func (p *c06Parser) eof() bool { return p.i >= len(p.s) }

func (p *c06Parser) skipSpaces() {
	for !p.eof() && p.s[p.i] == ' ' {
		p.i++
	}
}

func (p *c06Parser) atOr() bool {
	if !strings.HasPrefix(p.s[p.i:], "or") {
		return false
	}
	j := p.i + 2
	return j == len(p.s) || p.s[j] == ' ' || p.s[j] == ')'
}

func (p *c06Parser) query(depth int) (*c06Group, error) {
	if depth > p.st.Depth {
		p.st.Depth = depth
	}
	g := &c06Group{}
	var cur []*c06Node
	flush := func() error {
		if len(cur) == 0 {
			return c06Rejectf("a conjunction needs an expression that is not a case:/type: directive")
		}
		g.Conjs = append(g.Conjs, cur)
		cur = nil
		return nil
	}
	for {
		p.skipSpaces()
		if p.eof() || p.s[p.i] == ')' {
			break
		}
		if p.atOr() {
			p.i += 2
			p.st.Ors++
			if err := flush(); err != nil {
				return nil, err
			}
			continue
		}
		n, err := p.expr(depth)
		if err != nil {
			return nil, err
		}
		switch n.Kind {
		case "case", "type":
			if n.Neg {
				return nil, c06Rejectf("negated %s: directive (left to C07)", n.Kind)
			}
			if n.Kind == "case" {
				if g.Case != "" {
					return nil, c06Rejectf("two case: directives in one group: the document does not say which wins")
				}
				g.Case = n.Val
				p.st.Cases++
				p.st.Labels["case:"+n.Val] = true
			} else {
				if g.Type != "" {
					return nil, c06Rejectf("two type: directives in one group: the document does not say which wins")
				}
				g.Type = n.Val
				p.st.Types++
				p.st.Labels["type:"+n.Val] = true
			}
		default:
			cur = append(cur, n)
		}
	}
	if err := flush(); err != nil {
		return nil, err
	}
	return g, nil
}

// groupParen decides what the '(' at p.i is. The document has both grouping
// parentheses and (through "Go regular expressions") regexp groups such as
// (foo|bar); it does not say how they are told apart. Reading used here: a
// parenthesis that starts an expression is a grouping iff it encloses more than
// one token, i.e. there is an unquoted, unescaped space before its matching
// ')'. A parenthesised single token is pattern text.
func (p *c06Parser) groupParen() (bool, error) {
	depth := 0
	for j := p.i; j < len(p.s); j++ {
		switch p.s[j] {
		case '\\':
			j++
		case '"':
			j++
			for j < len(p.s) && p.s[j] != '"' {
				if p.s[j] == '\\' {
					j++
				}
				j++
			}
		case '(':
			depth++
		case ')':
			depth--
			if depth == 0 {
				return false, nil
			}
		case ' ':
			return true, nil
		}
	}
	return false, c06Rejectf("unbalanced '('")
}

func (p *c06Parser) expr(depth int) (*c06Node, error) {
	neg := false
	if p.s[p.i] == '-' {
		neg = true
		p.i++
		p.st.Negs++
		if p.eof() || p.s[p.i] == ' ' || p.s[p.i] == '-' || p.s[p.i] == ')' {
			return nil, c06Rejectf("'-' must be followed by one grouping, text or field")
		}
	}
	if p.s[p.i] == '(' {
		isGroup, err := p.groupParen()
		if err != nil {
			return nil, err
		}
		if isGroup {
			p.i++
			p.st.Groups++
			if p.s[p.i] != ' ' {
				p.st.Tight++
			}
			g, err := p.query(depth + 1)
			if err != nil {
				return nil, err
			}
			p.skipSpaces()
			if p.eof() || p.s[p.i] != ')' {
				return nil, c06Rejectf("missing ')'")
			}
			p.i++
			if !p.eof() && p.s[p.i] != ' ' && p.s[p.i] != ')' {
				return nil, c06Rejectf("text glued to ')'")
			}
			return &c06Node{Kind: "group", Neg: neg, Group: g}, nil
		}
	}
	n, err := p.token()
	if err != nil {
		return nil, err
	}
	n.Neg = neg
	return n, nil
}

// token reads one text or field token.
func (p *c06Parser) token() (*c06Node, error) {
	start := p.i
	depth := 0
scan:
	for !p.eof() {
		switch c := p.s[p.i]; c {
		case ' ':
			if depth > 0 {
				return nil, c06Rejectf("space inside a parenthesised pattern that does not start the expression")
			}
			break scan
		case '\t', '\n', '\r':
			return nil, c06Rejectf("white space other than ' ' is not documented as a separator")
		case '(':
			depth++
		case ')':
			if depth == 0 {
				break scan
			}
			depth--
		case '\\':
			p.i++
			if p.eof() {
				return nil, c06Rejectf("lone backslash")
			}
		case '"':
			p.i++
			for {
				if p.eof() {
					return nil, c06Rejectf("unterminated quote")
				}
				if p.s[p.i] == '"' {
					break
				}
				if p.s[p.i] == '\\' {
					p.i++
					if p.eof() {
						return nil, c06Rejectf("unterminated quote")
					}
				}
				p.i++
			}
		}
		p.i++
	}
	raw := p.s[start:p.i]
	if raw == "" {
		return nil, c06Rejectf("empty token")
	}
	if depth != 0 {
		return nil, c06Rejectf("unbalanced '(' in pattern")
	}
	kind, field, rest := "text", "", raw
	if raw[0] != '"' {
		for _, f := range c06Fields {
			if strings.HasPrefix(raw, f.prefix) {
				kind, rest = f.kind, raw[len(f.prefix):]
				p.st.Labels["field:"+f.prefix] = true
				break
			}
		}
		if kind == "text" && strings.HasPrefix(raw, "meta.") {
			k := strings.IndexByte(raw, ':')
			if k < 0 || k == len("meta.") {
				return nil, c06Rejectf("meta.<field>: needs a field name and a value")
			}
			kind, field, rest = "meta", raw[len("meta."):k], raw[k+1:]
			for _, c := range field {
				if !(c == '_' || c == '-' || c >= '0' && c <= '9' || c >= 'a' && c <= 'z' || c >= 'A' && c <= 'Z') {
					return nil, c06Rejectf("metadata name %q", field)
				}
			}
			p.st.Labels["field:meta."] = true
		}
	}
	if kind == "text" {
		p.st.Labels["bare"] = true
		if raw[0] == '(' {
			p.st.Labels["pattern:parenthesised-single-token"] = true
		}
	}
	val, err := p.decode(rest)
	if err != nil {
		return nil, err
	}
	if val == "" {
		return nil, c06Rejectf("empty value")
	}
	switch kind {
	case "text", "content", "regex", "file", "sym":
		if c06IsLiteral(val) {
			p.st.Labels["pattern:literal"] = true
		} else {
			p.st.Labels["pattern:regexp-operators"] = true
		}
	case "lang":
		if l, ok := c06LangAlias[strings.ToLower(val)]; !ok {
			p.st.Labels["lang:unknown"] = true
		} else if !strings.EqualFold(l, val) {
			p.st.Labels["lang:alias"] = true
		}
	}
	switch kind {
	case "archived", "fork", "public":
		if rest != "yes" && rest != "no" {
			return nil, c06Rejectf("%s: takes yes or no", kind)
		}
	case "case":
		if rest != "yes" && rest != "no" && rest != "auto" {
			return nil, c06Rejectf("case: takes yes, no or auto")
		}
	case "type":
		if rest != "filematch" && rest != "filename" && rest != "file" && rest != "repo" {
			return nil, c06Rejectf("type: takes filematch, filename, file or repo")
		}
	}
	return &c06Node{Kind: kind, Val: val, Field: field}, nil
}

// decode turns `text = quoted | unquoted` into its value. Inside quotes a
// backslash escapes the next character (the backslash is dropped: "use two
// backslashes when the regular expression itself needs a backslash"); outside
// quotes the backslash and the escaped character both reach the regular
// expression ("to include special characters, use backslashes", e.g.
// file:main\.go$).
func (p *c06Parser) decode(rest string) (string, error) {
	if rest == "" {
		return "", nil
	}
	if rest[0] == '"' {
		p.st.Quoted++
		var out []byte
		for j := 1; j < len(rest); j++ {
			switch rest[j] {
			case '\\':
				j++
				if j >= len(rest) {
					return "", c06Rejectf("unterminated quote")
				}
				p.st.Escapes++
				out = append(out, rest[j])
			case '"':
				if j != len(rest)-1 {
					return "", c06Rejectf("text = quoted | unquoted: characters after the closing quote")
				}
				return string(out), nil
			default:
				out = append(out, rest[j])
			}
		}
		return "", c06Rejectf("unterminated quote")
	}
	for j := 0; j < len(rest); j++ {
		switch rest[j] {
		case '\\':
			j++
			p.st.Escapes++
		case '"':
			return "", c06Rejectf("text = quoted | unquoted: quote inside an unquoted value")
		}
	}
	return rest, nil
}

// ---------------------------------------------------------------------------
// Oracle, part 2: interpreter over the corpus model
// ---------------------------------------------------------------------------

// c06Reading fixes the points on which the document is silent or contradicts
// long-standing behaviour; a string is only compared when every reading gives
// the same document set.
type c06Reading struct {
	BareName     bool // a bare pattern also matches file names
	RegexName    bool // regex: also matches file names (the document says "content")
	MetaAnchored bool // meta.<f>: value must match the whole metadata value
	Multiline    bool // ^ and $ in content patterns match at line boundaries
	// ASCIIUpper: case:auto looks at ASCII upper-case letters only. Not a
	// reading of the document (it says "uppercase letters"); used by the
	// recognizer of known finding C06-case-auto-nonascii-upper.
	ASCIIUpper bool
	// WordClassUpper: case:auto treats \w (whose expansion [0-9A-Za-z_] has
	// A-Z in it) like an upper-case letter. Not a reading of the document
	// either; recognizer of known finding C06-case-auto-word-class.
	WordClassUpper bool
}

type c06Interp struct {
	c   *kit.Corpus
	rd  c06Reading
	res map[string]*regexp.Regexp
	err error
}

// c06Flags says which silent points of the document a string touches.
type c06Flags struct {
	usesBare, usesRegexField, usesMeta, usesAnchor bool
	escUpperOnly                                   bool  // an auto-mode pattern whose only upper-case letters are escape classes (\S \W \D \B …), or inline flags
	nonASCIIUpperAuto                              bool  // an auto-mode pattern with a non-ASCII upper-case letter and no ASCII one
	wordClassAuto                                  bool  // an auto-mode pattern with \w and no ASCII upper-case letter
	invalid                                        error // a pattern the standard library does not compile
	autoUpper, autoLower                           bool  // auto-mode patterns with / without upper-case letters
	autoRepCaps                                    bool  // an auto-mode pattern whose upper-case letters are all under * + ? {n,m}
}

// c06CapsOnlyRepeated reports (for the evidence labels only) that every
// upper-case letter of the pattern sits inside a repeated sub-expression.
func c06CapsOnlyRepeated(v string) bool {
	re, err := syntax.Parse(v, syntax.Perl)
	if err != nil {
		return false
	}
	outside, inside := false, false
	var walk func(r *syntax.Regexp, rep bool)
	walk = func(r *syntax.Regexp, rep bool) {
		switch r.Op {
		case syntax.OpLiteral, syntax.OpCharClass:
			for _, c := range r.Rune {
				if c >= 'A' && c <= 'Z' {
					if rep {
						inside = true
					} else {
						outside = true
					}
				}
			}
		case syntax.OpStar, syntax.OpPlus, syntax.OpQuest, syntax.OpRepeat:
			rep = true
		}
		for _, sub := range r.Sub {
			walk(sub, rep)
		}
	}
	walk(re, false)
	return inside && !outside
}

// c06InlineFlags matches (?i) (?s: … but not (?: and (?P<.
var c06InlineFlags = regexp.MustCompile(`\(\?[^:P]`)

// c06Analyze walks the parsed string with the same case scoping as the interpreter.
func c06Analyze(g *c06Group, mode string, f *c06Flags) {
	if g.Case != "" {
		mode = g.Case
	}
	for _, conj := range g.Conjs {
		for _, n := range conj {
			switch n.Kind {
			case "text", "regex", "content", "file", "sym", "repo", "meta":
				if _, err := regexp.Compile(n.Val); err != nil && f.invalid == nil {
					f.invalid = err
				}
			}
			switch n.Kind {
			case "group":
				c06Analyze(n.Group, mode, f)
				continue
			case "text":
				f.usesBare = true
			case "regex":
				f.usesRegexField = true
			case "meta":
				f.usesMeta = true
			}
			switch n.Kind {
			case "text", "regex", "content":
				if strings.ContainsAny(n.Val, "^$") {
					f.usesAnchor = true
				}
				fallthrough
			case "file", "sym":
				if c06InlineFlags.MatchString(n.Val) {
					f.escUpperOnly = true
				}
				if mode == "auto" {
					ascii, other, esc, wordClass := c06Upper(n.Val)
					if esc && !ascii && !other {
						f.escUpperOnly = true
					}
					if other && !ascii {
						f.nonASCIIUpperAuto = true
					}
					if wordClass && !ascii {
						f.wordClassAuto = true
					}
					if ascii || other {
						f.autoUpper = true
						if c06CapsOnlyRepeated(n.Val) {
							f.autoRepCaps = true
						}
					} else {
						f.autoLower = true
					}
				}
			}
		}
	}
}

// c06LangAlias: lang: takes a language name or alias, case-insensitively (the
// document's examples are lang:python, lang:javascript, lang:go for Python,
// JavaScript, Go). The corpus only uses these languages.
var c06LangAlias = map[string]string{
	"go": "Go", "golang": "Go", "python": "Python", "py": "Python", "python3": "Python", "c": "C", "text": "Text",
	"markdown": "Markdown", "md": "Markdown", "shell": "Shell", "sh": "Shell", "bash": "Shell",
}

const c06RegexpOps = `\.+*?()|[]{}^$`

func c06IsLiteral(v string) bool { return !strings.ContainsAny(v, c06RegexpOps) }

// c06Upper looks for upper-case letters in a pattern: ASCII ones, other ones,
// ones that only name an escape class, and the class \w.
func c06Upper(v string) (ascii, other, esc, wordClass bool) {
	for i := 0; i < len(v); {
		if v[i] == '\\' && i+1 < len(v) {
			if c := v[i+1]; c >= 'A' && c <= 'Z' {
				esc = true
			} else if c == 'w' {
				wordClass = true
			}
			_, sz := utf8.DecodeRuneInString(v[i+1:])
			i += 1 + sz
			continue
		}
		r, sz := utf8.DecodeRuneInString(v[i:])
		i += sz
		if r >= 'A' && r <= 'Z' {
			ascii = true
		} else if unicode.IsUpper(r) {
			other = true
		}
	}
	return
}

// upper reports whether the pattern "contains uppercase letters".
func (in *c06Interp) upper(v string) bool {
	ascii, other, _, wordClass := c06Upper(v)
	if in.rd.ASCIIUpper {
		other = false
	}
	return ascii || other || in.rd.WordClassUpper && wordClass
}

func (in *c06Interp) compile(v string, sensitive, multiline, anchored bool) *regexp.Regexp {
	flags := ""
	if !sensitive {
		flags += "i"
	}
	if multiline {
		flags += "m"
	}
	src := v
	if flags != "" {
		src = "(?" + flags + ":" + v + ")"
	}
	if anchored {
		src = "^(?:" + src + ")$"
	}
	if re, ok := in.res[src]; ok {
		return re
	}
	re, err := regexp.Compile(src)
	if err != nil {
		if in.err == nil {
			in.err = fmt.Errorf("oracle cannot compile %q: %v", src, err)
		}
		re = regexp.MustCompile(`a^`)
	}
	in.res[src] = re
	return re
}

func c06Contains(text []byte, pat string, sensitive bool) bool {
	if sensitive {
		return bytes.Contains(text, []byte(pat))
	}
	for i := 0; i < len(text); {
		if kit.FoldMatchAt(text[i:], pat, false) >= 0 {
			return true
		}
		_, sz := utf8.DecodeRune(text[i:])
		i += sz
	}
	return false
}

// match evaluates a pattern value on one text. mode is the case mode in scope.
func (in *c06Interp) match(v, mode string, text []byte, multiline bool) bool {
	sensitive := mode == "yes"
	if mode == "auto" {
		sensitive = in.upper(v)
	}
	if c06IsLiteral(v) {
		// "Patterns that contain no regular expression operations are … substring searches."
		return c06Contains(text, v, sensitive)
	}
	return in.compile(v, sensitive, multiline && in.rd.Multiline, false).Match(text)
}

func (in *c06Interp) group(g *c06Group, r *kit.Repo, d *kit.Doc, mode string) bool {
	if g.Case != "" {
		mode = g.Case // applies to the whole group, nested groups included, unless they set their own
	}
	base := func(d *kit.Doc) bool {
		for _, conj := range g.Conjs {
			all := true
			for _, n := range conj {
				if !in.node(n, r, d, mode) {
					all = false
					break
				}
			}
			if all {
				return true
			}
		}
		return false
	}
	if g.Type == "repo" {
		// "returns repository names instead of file matches": the group selects
		// the repositories that contain a match, i.e. all of their documents.
		for i := range r.Docs {
			if base(&r.Docs[i]) {
				return true
			}
		}
		return false
	}
	// filematch (the default), filename, file: kinds of result for the selected
	// documents, not a different selection.
	return base(d)
}

func (in *c06Interp) node(n *c06Node, r *kit.Repo, d *kit.Doc, mode string) bool {
	v := in.atom(n, r, d, mode)
	if n.Neg {
		return !v
	}
	return v
}

func (in *c06Interp) atom(n *c06Node, r *kit.Repo, d *kit.Doc, mode string) bool {
	switch n.Kind {
	case "group":
		return in.group(n.Group, r, d, mode)
	case "text":
		if in.match(n.Val, mode, d.EffectiveContent(), true) {
			return true
		}
		return in.rd.BareName && in.match(n.Val, mode, []byte(d.Name), false)
	case "regex":
		if in.match(n.Val, mode, d.EffectiveContent(), true) {
			return true
		}
		return in.rd.RegexName && in.match(n.Val, mode, []byte(d.Name), false)
	case "content":
		return in.match(n.Val, mode, d.EffectiveContent(), true)
	case "file":
		return in.match(n.Val, mode, []byte(d.Name), false)
	case "sym":
		for _, s := range d.Symbols {
			if in.match(n.Val, mode, d.Content[s.Start:s.End], false) {
				return true
			}
		}
		return false
	case "repo":
		return in.compile(n.Val, true, false, false).MatchString(r.Name)
	case "meta":
		v, ok := r.Metadata[n.Field]
		return ok && in.compile(n.Val, true, false, in.rd.MetaAnchored).MatchString(v)
	case "branch":
		for _, b := range d.Branches {
			if n.Val == "HEAD" {
				if b == r.Branches[0].Name {
					return true
				}
			} else if strings.Contains(b, n.Val) {
				return true
			}
		}
		return false
	case "lang":
		l, ok := c06LangAlias[strings.ToLower(n.Val)]
		return ok && l == d.Language
	case "archived", "fork", "public":
		return (r.RawConfig[n.Kind] == "1") == (n.Val == "yes")
	}
	if in.err == nil {
		in.err = fmt.Errorf("oracle: unknown node kind %q", n.Kind)
	}
	return false
}

// expected returns the keys of the documents selected under one reading.
func (in *c06Interp) expected(g *c06Group) map[string]bool {
	out := map[string]bool{}
	for i := range in.c.Repos {
		r := &in.c.Repos[i]
		if !in.c.Live(r) {
			continue
		}
		for j := range r.Docs {
			if in.group(g, r, &r.Docs[j], "auto") { // "case:auto … (default)"
				out[kit.DocKey(r, &r.Docs[j])] = true
			}
		}
	}
	return out
}

func c06SameSet(a, b map[string]bool) bool {
	if len(a) != len(b) {
		return false
	}
	for k := range a {
		if !b[k] {
			return false
		}
	}
	return true
}

type c06Oracle struct {
	fl        c06Flags
	want      map[string]bool
	ambiguous string   // non-empty: the document does not decide this string on this corpus
	alts      []c06Alt // results under the deviating case:auto rules of the known findings
}

type c06Alt struct {
	known string
	set   map[string]bool
}

// c06Expected interprets g under every reading of the silent points.
func c06Expected(c *kit.Corpus, g *c06Group, cache map[string]*regexp.Regexp) (*c06Oracle, error) {
	var fl c06Flags
	c06Analyze(g, "auto", &fl)
	if fl.invalid != nil {
		return nil, fl.invalid
	}
	base := &c06Interp{c: c, res: cache}
	o := &c06Oracle{fl: fl, want: base.expected(g)}
	if base.err != nil {
		return nil, base.err
	}
	if fl.escUpperOnly {
		o.ambiguous = "case:auto with upper-case letters only in escape classes or inline flags"
		return o, nil
	}
	type dim struct {
		used bool
		name string
		set  func(*c06Reading)
	}
	dims := []dim{
		{fl.usesBare, "bare pattern vs file names", func(r *c06Reading) { r.BareName = true }},
		{fl.usesRegexField, "regex: vs file names", func(r *c06Reading) { r.RegexName = true }},
		{fl.usesMeta, "meta value anchoring", func(r *c06Reading) { r.MetaAnchored = true }},
		{fl.usesAnchor, "^/$ in content patterns: text or line", func(r *c06Reading) { r.Multiline = true }},
	}
	var used []dim
	for _, d := range dims {
		if d.used {
			used = append(used, d)
		}
	}
	for mask := 1; mask < 1<<len(used); mask++ {
		in := &c06Interp{c: c, res: cache}
		var names []string
		for k, d := range used {
			if mask&(1<<k) != 0 {
				d.set(&in.rd)
				names = append(names, d.name)
			}
		}
		got := in.expected(g)
		if in.err != nil {
			return nil, in.err
		}
		if !c06SameSet(o.want, got) {
			o.ambiguous = strings.Join(names, " + ")
			return o, nil
		}
	}
	// The deviating case:auto rules of the known findings are combined with
	// every reading of the points the document leaves open (above): the
	// readings agree on what is expected, but a deviation can make them differ
	// (e.g. a negated bare pattern next to an atom the deviation switches off).
	alt := func(known string, rd c06Reading) {
		for mask := 0; mask < 1<<len(used); mask++ {
			r := rd
			for k, d := range used {
				if mask&(1<<k) != 0 {
					d.set(&r)
				}
			}
			in := &c06Interp{c: c, res: cache, rd: r}
			o.alts = append(o.alts, c06Alt{known, in.expected(g)})
		}
	}
	if fl.nonASCIIUpperAuto {
		alt("C06-case-auto-nonascii-upper", c06Reading{ASCIIUpper: true})
	}
	if fl.wordClassAuto {
		alt("C06-case-auto-word-class", c06Reading{WordClassUpper: true})
	}
	if fl.nonASCIIUpperAuto && fl.wordClassAuto {
		alt("C06-case-auto-word-class", c06Reading{ASCIIUpper: true, WordClassUpper: true})
	}
	return o, nil
}

// ---------------------------------------------------------------------------
// Corpus: structure from kit.GenCorpus; names and contents re-drawn from two
// disjoint alphabets
// ---------------------------------------------------------------------------

// content letters: a b d f n o r z é; name letters: c e g h i j k l m p q s t u v w x y
var c06Words = []string{
	"foo", "Foo", "FOO", "bar", "Bar", "BAR", "baz", "foobar", "fooBar", "barfoo", "ab", "aba", "abab", "abba", "and", "or",
	"nor", "for", "bad", "dab", "food", "fob", "bob", "Bob", "zoo", "far", "born", "band", "Band", "brand", "na", "oo",
	"éon", "Éon", "ÉON", "-foo", "-bar", "a.b", "foo.bar", "f(o)", "a+b", `foo"bar`, "a*b", "b|d", "foo?", `a\b`, "[ab]", "fo{2}", "$foo", "ba^",
}

var c06Seps = []string{" ", " ", " ", " ", "\n", "\n", "  ", "\t", ", ", ";", " = ", "", "\n\n"}

var c06Names = []string{
	"util.py", "pkg/util.py", "pkg/test_util.py", "list.c", "sys/list.c", "sys/List.h", "MEMS.txt", "mems.txt", "key",
	"sys/key.g", "kit.g", "pkg/kit_test.g", "style.sh", "check.sh", "GUILE.mk", "guile.mk", "the guile.txt", "x", "pkg/x.py",
	"tmp/empty.txt", "CHECK", "pkg/Type.g", "v1.5/list.h", "c++/vec.h",
}

var c06LangByExt = map[string]string{".py": "Python", ".c": "C", ".h": "C", ".txt": "Text", ".g": "Go", ".sh": "Shell", ".mk": "Markdown"}

func c06LangFor(name string) string {
	if i := strings.LastIndex(name, "."); i >= 0 {
		if l, ok := c06LangByExt[name[i:]]; ok {
			return l
		}
	}
	return "Text"
}

// c06AlphabetsDisjoint is checked once per run: no letter (case-folded) occurs
// both in a file name and in content vocabulary.
func c06AlphabetsDisjoint() error {
	cl := map[rune]bool{}
	for _, w := range c06Words {
		for _, r := range strings.ToLower(w) {
			if unicode.IsLetter(r) || unicode.IsDigit(r) {
				cl[r] = true
			}
		}
	}
	for _, n := range c06Names {
		for _, r := range strings.ToLower(n) {
			if cl[r] {
				return fmt.Errorf("letter %q occurs in file name %q and in the content vocabulary", r, n)
			}
		}
	}
	return nil
}

type c06Case struct {
	Corpus  kit.Corpus
	Queries []string
	Via     string // "shard": bare index searchers (type:repo strings still go through the directory searcher); "dir": everything through search.NewDirectorySearcher
}

var c06CorpusOpts = kit.CorpusOpts{MaxRepos: 3, MaxDocs: 6, MaxTokens: 1, Compound: 20}

func c06GenCorpus(g kit.G) kit.Corpus {
	c := kit.GenCorpus(g, c06CorpusOpts)
	u := c06U{g.T}
	for i := range c.Repos {
		r := &c.Repos[i]
		rename := map[string]string{}
		taken := map[string]bool{}
		seen := map[string]int{}
		for j := range r.Docs {
			d := &r.Docs[j]
			nn, ok := rename[d.Name]
			if !ok {
				k := u.rng(0, len(c06Names)-1, "name")
				for taken[c06Names[k]] {
					k = (k + 1) % len(c06Names)
				}
				nn = c06Names[k]
				taken[nn] = true
				rename[d.Name] = nn
			}
			d.Name = nn
			d.Language = c06LangFor(nn)
			var sb strings.Builder
			var toks [][2]int
			n := u.rng(0, 9, "ntok")
			for k := 0; k < n; k++ {
				st := sb.Len()
				sb.WriteString(c06Pick(u, c06Words, "w"))
				toks = append(toks, [2]int{st, sb.Len()})
				if k < n-1 {
					sb.WriteString(c06Pick(u, c06Seps, "sep"))
				}
			}
			if n > 0 && u.pct(60, "nl") {
				sb.WriteString("\n")
			}
			// same-named documents of a repository are distinct blobs
			sb.WriteString(strings.Repeat("zab ", seen[nn]))
			seen[nn]++
			d.Content = kit.Text(sb.String())
			d.Symbols = nil
			if u.pct(50, "syms") {
				for _, tk := range toks {
					if u.pct(35, "sym") {
						d.Symbols = append(d.Symbols, kit.Sym{Start: tk[0], End: tk[1], Kind: "function"})
					}
				}
			}
		}
	}
	return c
}

// ---------------------------------------------------------------------------
// Generator of query strings from the documented EBNF
// ---------------------------------------------------------------------------

// c06U draws uniformly. rapid's IntRange is deliberately biased towards small
// values, which would turn every "30 %" below into "most of the time"; single
// rapid.Bool draws are fair bits, and all-zero bits (what shrinking converges
// to) mean "no" / the first alternative.
type c06U struct{ t *rapid.T }

func (u c06U) intn(n int) int {
	if n <= 1 {
		return 0
	}
	k := bits.Len(uint(n - 1))
	for try := 0; try < 6; try++ {
		v := 0
		for i := 0; i < k; i++ {
			v <<= 1
			if rapid.Bool().Draw(u.t, "bit") {
				v |= 1
			}
		}
		if v < n {
			return v
		}
	}
	return 0
}

func (u c06U) rng(lo, hi int, _ string) int { return lo + u.intn(hi-lo+1) }
func (u c06U) pct(p int, _ string) bool     { return u.intn(100) >= 100-p }

func c06Pick[T any](u c06U, xs []T, _ string) T { return xs[u.intn(len(xs))] }

type c06Gen struct {
	u        c06U
	c        *kit.Corpus
	contents []string
	names    []string
	symbols  []string
	last     string // the text pattern (regexp source) of the previous text atom
}

func newC06Gen(g kit.G, c *kit.Corpus) *c06Gen {
	x := &c06Gen{u: c06U{g.T}, c: c}
	for i := range c.Repos {
		for j := range c.Repos[i].Docs {
			d := &c.Repos[i].Docs[j]
			if len(d.Content) > 0 {
				x.contents = append(x.contents, string(d.Content))
			}
			x.names = append(x.names, d.Name)
			for _, s := range d.Symbols {
				x.symbols = append(x.symbols, string(d.Content[s.Start:s.End]))
			}
		}
	}
	if len(x.names) == 0 {
		x.names = []string{"util.py"}
	}
	return x
}

func (x *c06Gen) weighted(label string, w ...int) int {
	tot := 0
	for _, v := range w {
		tot += v
	}
	k := x.u.rng(0, tot-1, label)
	for i, v := range w {
		if k < v {
			return i
		}
		k -= v
	}
	return len(w) - 1
}

func c06Substring(g c06U, s string, lo, hi int) string {
	rs := []rune(s)
	if len(rs) == 0 {
		return ""
	}
	n := g.rng(min(lo, len(rs)), min(hi, len(rs)), "sublen")
	st := g.rng(0, len(rs)-n, "substart")
	return string(rs[st : st+n])
}

func c06Clean(s string) string {
	s = strings.NewReplacer("\n", " ", "\t", " ", "\r", " ").Replace(s)
	return s
}

func (x *c06Gen) recase(s string) string {
	switch x.weighted("recase", 60, 15, 15, 10) {
	case 1:
		return strings.ToLower(s)
	case 2:
		return strings.ToUpper(s)
	case 3:
		rs := []rune(s)
		for i := range rs {
			if x.u.pct(40, "flip") {
				if unicode.IsUpper(rs[i]) {
					rs[i] = unicode.ToLower(rs[i])
				} else {
					rs[i] = unicode.ToUpper(rs[i])
				}
			}
		}
		return string(rs)
	}
	return s
}

// contentLiteral draws literal text aimed at the document contents.
func (x *c06Gen) contentLiteral() string {
	var s string
	switch x.weighted("clit", 35, 35, 15, 15) {
	case 0:
		s = c06Pick(x.u, c06Words, "w")
	case 1:
		if len(x.contents) > 0 {
			s = c06Substring(x.u, c06Pick(x.u, x.contents, "doc"), 2, 9)
		}
	case 2:
		s = c06Pick(x.u, c06Words, "w1") + " " + c06Pick(x.u, c06Words, "w2")
	case 3:
		s = c06Pick(x.u, c06Words, "w") + c06Pick(x.u, []string{"z", "o", "b", " a", "x"}, "mut")
	}
	s = c06Clean(s)
	if strings.TrimSpace(s) == "" {
		s = "foo"
	}
	return x.recase(s)
}

func (x *c06Gen) word() string { return regexp.QuoteMeta(x.recase(c06Pick(x.u, c06Words[:31], "rw"))) }

// contentRegexp draws a regular expression (with operators) aimed at contents.
// No ^ $ (text vs line anchors), no upper-case escape classes, no inline flags.
// c06RepCapsContent: regexps whose only upper-case letters sit under * + ? or
// {n,m} (literal, group or class). case:auto must still be case-sensitive; the
// vocabulary has the exact-case and the lower-case variant of each target
// (fooBar/foobar, Foo/foo, FOO, Bar/bar, Bob/bob, Band/band).
var c06RepCapsContent = []string{
	"fooB+ar", "foo(B)+ar", "foo(B)?ar", "fooB*ar", "foo(B){0,2}ar", "foo[A-Z]+ar", "foo[A-Z]?ar", "foo(B|Z)+ar", "fooB{1,2}ar",
	"F+oo", "(F)+oo", "[FB]+oo", "(Foo)+", "(FOO|BAR)+", "(FOO)+", "F{1,2}oo", "(F|Z)+oo", "[A-Z]+oo",
	"B+ar", "(Bar)+", "(B)+ob", "(Bob){1,2}", "B+and", "(Band)+", "[A-Z]{1,2}and", "(B)?and", "b(A)?r", "fo(O)*d", "(Foo|Bar)+",
}

var c06RepCapsFile = []string{
	"L+ist", "(L)+ist", "l(I)?st", "[A-Z]+\\.txt", "(MEMS)+\\.", "(T)+ype", "(GUILE){1,2}", "[A-Z]+\\.mk$", "(CHECK)+", "[A-Z]{3}", "(L|K)+ist", "T{1,2}ype",
}

func (x *c06Gen) contentRegexp() string {
	if x.u.pct(15, "repcaps") {
		return c06Pick(x.u, c06RepCapsContent, "repcapsv")
	}
	switch x.u.rng(0, 13, "cre") {
	case 0:
		return x.word() + ".*" + x.word()
	case 1:
		return x.word() + "|" + x.word()
	case 2:
		return "(" + x.word() + "|" + x.word() + ")"
	case 3:
		return x.word() + `\s+` + x.word()
	case 4:
		return c06Pick(x.u, []string{"fo+", "Fo+", "ab+a", "o{2}", "(ab)+", "a?ba", "fo*b", "FO+"}, "rep")
	case 5:
		return x.word() + "[a-z]*"
	case 6:
		return c06Pick(x.u, []string{"ba[rz]", "[fb]oo", "[A-Z]oo", "[BF][ao]", "b[^a]r", "[a-f]{3}"}, "cls")
	case 7:
		return `\b` + c06Pick(x.u, []string{"foo", "bar", "ab", "Foo", "and", "or", "aba"}, "bw") + `\b`
	case 8:
		return x.word() + `\w*`
	case 9:
		return c06Pick(x.u, []string{"f.o", "b.r", "a.b", "fo.", ".oo", "B.r"}, "dot")
	case 10:
		return c06Pick(x.u, []string{"f(o|a)o", "(foo|bar)+", "(foo)?bar", "ba(r|z)", "(a|b)(b|a)", "(Foo|bar)"}, "grp")
	case 11:
		return x.word() + " " + x.word() + "?"
	case 12:
		return x.word() + `\d*` + x.word()
	default:
		return c06Pick(x.u, []string{`a\.b`, `a\+b`, `f\(o\)`, `foo\.bar`, `b\|d`, `\$foo`, `a\\b`, `\[ab\]`, `foo\?`}, "esc") + c06Pick(x.u, []string{"", "", "?", ".*"}, "esctail")
	}
}

func (x *c06Gen) fileLiteral() string {
	s := c06Substring(x.u, c06Pick(x.u, x.names, "fn"), 2, 7)
	if x.u.pct(15, "fmiss") {
		s += "q"
	}
	return x.recase(s)
}

func (x *c06Gen) fileRegexp() string {
	if x.u.pct(20, "frepcaps") {
		return c06Pick(x.u, c06RepCapsFile, "frepcapsv")
	}
	re := c06Pick(x.u, []string{
		`\.py$`, `^pkg/`, `list\.(c|h)$`, `[kl]i[st]`, `_test`, `\.(c|h)$`, `^[^/]+$`, `/.*/`, `\.g$`, `^sys/.*\.c$`, `util|kit`,
		`(?:util|list)\.`, `c\+\+`, `v1\.5`, `the guile`, `^x$`, `t.t`, `e+`, `[A-Z]{3}`, `\.(txt|mk)$`, `^(pkg|sys)/`,
	}, "fre")
	if strings.Contains(re, "A-Z") {
		return re // a character range must not be re-cased
	}
	return x.recase(re)
}

// renderText renders a value (a regular expression source) as quoted or
// unquoted text after the given field prefix.
func (x *c06Gen) renderText(prefix, re string) string {
	if prefix == "" || prefix == "c:" || prefix == "content:" || prefix == "regex:" || prefix == "f:" || prefix == "file:" {
		x.last = re
	}
	needQuote := re == "or" || strings.ContainsAny(re, "\t\n")
	unq := strings.NewReplacer(" ", `\ `, `"`, `\"`).Replace(re)
	if prefix == "" {
		if strings.HasPrefix(unq, "-") {
			unq = `\` + unq
		}
		for _, f := range c06Fields {
			if strings.HasPrefix(unq, f.prefix) {
				needQuote = true
			}
		}
		if strings.HasPrefix(unq, "meta.") {
			needQuote = true
		}
	}
	// an unquoted token must keep its parentheses balanced outside escapes
	depth := 0
	for i := 0; i < len(re); i++ {
		switch re[i] {
		case '\\':
			i++
		case '(':
			depth++
		case ')':
			depth--
			if depth < 0 {
				needQuote = true
			}
		}
	}
	if depth != 0 {
		needQuote = true
	}
	pq := 20
	if strings.ContainsAny(re, ` "`) {
		pq = 60
	}
	if needQuote || x.u.pct(pq, "quote") {
		return prefix + `"` + strings.NewReplacer(`\`, `\\`, `"`, `\"`).Replace(re) + `"`
	}
	return prefix + unq
}

func (x *c06Gen) alias(label string, forms ...string) string { return c06Pick(x.u, forms, label) }

func (x *c06Gen) atom() string {
	if x.last != "" && x.u.pct(8, "samepat") {
		// the previous text pattern once more under another (or the same)
		// field: equal-looking operands that mean different things
		return x.renderText(c06Pick(x.u, []string{"", "c:", "content:", "regex:", "f:", "file:"}, "sameprefix"), x.last)
	}
	if x.u.pct(4, "namepair") {
		// a regexp taken from a file name, bare (content or name) next to its
		// content-only or name-only form, as a conjunction or a disjunction
		re := x.fileRegexp()
		a := x.renderText(c06Pick(x.u, []string{"", "regex:"}, "np1"), re)
		b := x.renderText(c06Pick(x.u, []string{"c:", "content:", "f:"}, "np2"), re)
		if x.u.pct(50, "nporder") {
			a, b = b, a
		}
		if x.u.pct(40, "npor") {
			return "( " + a + " or " + b + " )"
		}
		return a + " " + b
	}
	switch x.weighted("atom", 30, 14, 5, 13, 6, 7, 7, 6, 7, 5) {
	case 0: // bare pattern
		if x.u.pct(35, "re") {
			return x.renderText("", x.contentRegexp())
		}
		if x.u.pct(6, "tightpat") {
			// (x) around one bare pattern: a group or a regexp group, same documents either way
			if w := c06Pick(x.u, c06Words[:31], "tw"); w != "or" {
				return "(" + w + ")"
			}
		}
		return x.renderText("", regexp.QuoteMeta(x.contentLiteral()))
	case 1:
		p := x.alias("calias", "content:", "c:")
		if x.u.pct(35, "re") {
			return x.renderText(p, x.contentRegexp())
		}
		return x.renderText(p, regexp.QuoteMeta(x.contentLiteral()))
	case 2:
		if x.u.pct(60, "re") {
			return x.renderText("regex:", x.contentRegexp())
		}
		return x.renderText("regex:", regexp.QuoteMeta(x.contentLiteral()))
	case 3:
		p := x.alias("falias", "file:", "f:")
		if x.u.pct(45, "re") {
			return x.renderText(p, x.fileRegexp())
		}
		return x.renderText(p, regexp.QuoteMeta(x.fileLiteral()))
	case 4:
		p := x.alias("ralias", "repo:", "r:")
		return x.renderText(p, c06Pick(x.u, []string{"foo", "github", "^r1$", "a/", `github\.com/a/`, "foo$", "(foo|bar)$", "gitlab|r1", "nope", `\.com`, "b.r", "r"}, "rpat"))
	case 5:
		p := x.alias("balias", "branch:", "b:")
		v := c06Pick(x.u, []string{"HEAD", "HEAD", "main", "dev", "release", "feature/x", "feature", "v1.0", "e", "nope", "a"}, "bpat")
		if x.u.pct(15, "bq") {
			return p + `"` + v + `"`
		}
		return p + v
	case 6:
		v := c06Pick(x.u, []string{"go", "golang", "Go", "python", "py", "Python", "c", "C", "text", "markdown", "md", "shell", "sh", "bash", "zzz"}, "lang")
		if x.u.pct(10, "lq") {
			return `lang:"` + v + `"`
		}
		return "lang:" + v
	case 7:
		var v string
		if len(x.symbols) > 0 && x.u.pct(60, "symfrom") {
			v = regexp.QuoteMeta(x.recase(c06Substring(x.u, c06Pick(x.u, x.symbols, "symw"), 2, 6)))
		} else if x.u.pct(50, "symre") {
			v = c06Pick(x.u, []string{"^foo$", "foo|bar", "fo+", "^ba[rz]$", "^[A-Z]", "a.b", "^ab"}, "symre2")
		} else {
			v = x.word()
		}
		return x.renderText("sym:", v)
	case 8:
		return c06Pick(x.u, []string{"archived:", "fork:", "public:"}, "boolf") + c06Pick(x.u, []string{"yes", "no"}, "boolv")
	default:
		switch x.u.rng(0, 2, "metaf") {
		case 0:
			return x.renderText("meta.team:", c06Pick(x.u, []string{"alpha", "beta", "alphabet", "^alpha$", "al.*", "a", "nope", "^(alpha|beta)$", "bet"}, "mteam"))
		case 1:
			return x.renderText("meta.lang:", c06Pick(x.u, []string{"go", "py", "g.", "^go$", "^(go|py)$"}, "mlang"))
		}
		return "meta.nope:x"
	}
}

// query renders `conjunction { "or" conjunction }` with at most one case: and
// one type: directive; multi reports that it has more than one token.
func (x *c06Gen) query(depth int) (string, bool) {
	nconj := 1 + x.weighted("nconj", 62-6*depth, 28, 10)
	conjs := make([][]string, nconj)
	ntok := 0
	for i := range conjs {
		n := 1 + x.weighted("nexpr", 40+10*depth, 40, 20)
		for k := 0; k < n; k++ {
			conjs[i] = append(conjs[i], x.expr(depth))
			ntok++
		}
	}
	insert := func(tok string) {
		i := x.u.rng(0, nconj-1, "dirconj")
		k := x.u.rng(0, len(conjs[i]), "dirpos")
		conjs[i] = append(conjs[i][:k], append([]string{tok}, conjs[i][k:]...)...)
		ntok++
	}
	if x.u.pct(30, "case") {
		insert("case:" + c06Pick(x.u, []string{"yes", "yes", "no", "no", "auto"}, "casev"))
	}
	if x.u.pct(14, "type") {
		insert(x.alias("talias", "type:", "t:") + c06Pick(x.u, []string{"repo", "repo", "repo", "file", "file", "filename", "filename", "filematch"}, "typev"))
	}
	parts := make([]string, nconj)
	for i := range conjs {
		sep := " "
		if x.u.pct(4, "wide") {
			sep = "  "
		}
		parts[i] = strings.Join(conjs[i], sep)
	}
	return strings.Join(parts, " or "), ntok > 1 || nconj > 1
}

func (x *c06Gen) expr(depth int) string {
	neg := x.u.pct(20, "neg")
	var s string
	if depth < 3 && x.u.pct(24-4*depth, "group") {
		inner, multi := x.query(depth + 1)
		if multi && x.u.pct(30, "tight") {
			// the document's own examples: (repo:repo1 or repo:repo2), (type:repo foo) or bar
			s = "(" + inner + ")"
		} else {
			s = "( " + inner + " )"
		}
	} else {
		s = x.atom()
	}
	if neg {
		return "-" + s
	}
	return s
}

func genC06Case(rt *rapid.T) c06Case {
	g := kit.G{T: rt}
	c := c06Case{Corpus: c06GenCorpus(g)}
	x := newC06Gen(g, &c.Corpus)
	n := x.u.rng(40, 60, "nq")
	for i := 0; i < n; i++ {
		s, _ := x.query(0)
		c.Queries = append(c.Queries, s)
	}
	if x.u.pct(30, "viadir") {
		c.Via = "dir"
	} else {
		c.Via = "shard"
	}
	return c
}

// ---------------------------------------------------------------------------
// Code under test: query.Parse + search
// ---------------------------------------------------------------------------

type c06Env struct {
	built *kit.Built
	tmp   string
	dir   zoekt.Streamer
}

func (e *c06Env) close() {
	if e.dir != nil {
		e.dir.Close()
	}
	if e.built != nil {
		e.built.Close()
	}
}

func (e *c06Env) dirSearcher() (zoekt.Streamer, error) {
	if e.dir == nil {
		ds, err := search.NewDirectorySearcher(e.tmp)
		if err != nil {
			return nil, err
		}
		e.dir = ds
	}
	return e.dir, nil
}

// c06Search runs the parsed query and returns the keys of the returned files.
func (e *c06Env) search(q query.Q, viaDir bool) (map[string]bool, error) {
	ctx := context.Background()
	var files []zoekt.FileMatch
	if viaDir {
		ds, err := e.dirSearcher()
		if err != nil {
			return nil, err
		}
		res, err := ds.Search(ctx, q, &zoekt.SearchOptions{})
		if err != nil {
			return nil, err
		}
		if res.Stats.Crashes > 0 {
			return nil, kit.Fail("crash", "sharded searcher reported %d crashed shard(s)", res.Stats.Crashes)
		}
		files = res.Files
	} else {
		for _, s := range e.built.Shards {
			res, err := s.Search(ctx, q, &zoekt.SearchOptions{})
			if err != nil {
				return nil, err
			}
			files = append(files, res.Files...)
		}
	}
	out := map[string]bool{}
	for i := range files {
		k := kit.Key(files[i].Repository, files[i].FileName, files[i].Checksum)
		if out[k] {
			return nil, kit.Fail("duplicate-file", "file returned twice: %q", strings.ReplaceAll(k, "\x00", "|"))
		}
		out[k] = true
	}
	return out, nil
}

func c06Diff(want, got map[string]bool) (missing, extra []string) {
	for k := range want {
		if !got[k] {
			missing = append(missing, strings.ReplaceAll(k, "\x00", "|"))
		}
	}
	for k := range got {
		if !want[k] {
			extra = append(extra, strings.ReplaceAll(k, "\x00", "|"))
		}
	}
	sort.Strings(missing)
	sort.Strings(extra)
	return
}

// c06Repos projects document keys to repository names.
func c06Repos(m map[string]bool) map[string]bool {
	out := map[string]bool{}
	for k := range m {
		out[k[:strings.IndexByte(k, 0)]] = true
	}
	return out
}

func c06HasTypeRepo(g *c06Group) bool {
	if g.Type == "repo" {
		return true
	}
	for _, conj := range g.Conjs {
		for _, n := range conj {
			if n.Kind == "group" && c06HasTypeRepo(n.Group) {
				return true
			}
		}
	}
	return false
}

// c06FilematchRE matches a type:filematch directive token.
var c06FilematchRE = regexp.MustCompile(`(^|[ (])(type|t):filematch( |\)|$)`)

type c06Result struct {
	nExpected  int
	compared   bool
	labels     []string
	features   int
	discrepant *kit.Discrepancy
}

// c06Check is the oracle for one query string.
func c06Check(c *c06Case, e *c06Env, s string, cache map[string]*regexp.Regexp) c06Result {
	var r c06Result
	g, st, err := c06Parse(s)
	if err != nil {
		r.labels = []string{"skip:oracle-rejects"}
		return r
	}
	for _, f := range []struct {
		n    int
		name string
	}{{st.Groups, "group"}, {st.Negs, "negation"}, {st.Ors, "or"}, {st.Cases + st.Types, "scope"}, {st.Quoted + st.Escapes, "quoting"}} {
		if f.n > 0 {
			r.features++
			r.labels = append(r.labels, "construct:"+f.name)
		}
	}
	for l := range st.Labels {
		r.labels = append(r.labels, l)
	}
	if st.Tight > 0 {
		r.labels = append(r.labels, "group:tight")
	}
	if st.Groups > st.Tight {
		r.labels = append(r.labels, "group:spaced")
	}
	if st.Quoted > 0 {
		r.labels = append(r.labels, "quoted")
	}
	if st.Escapes > 0 {
		r.labels = append(r.labels, "escape")
	}
	if st.Ors > 1 {
		r.labels = append(r.labels, "or:chain")
	}
	r.labels = append(r.labels, fmt.Sprintf("depth:%d", st.Depth), fmt.Sprintf("features:%d", r.features))
	if strings.Contains(s, "HEAD") {
		r.labels = append(r.labels, "branch:HEAD")
	}
	sort.Strings(r.labels)

	o, err := c06Expected(&c.Corpus, g, cache)
	if err != nil {
		r.labels = append(r.labels, "skip:oracle-error")
		return r
	}
	if o.fl.autoUpper {
		r.labels = append(r.labels, "auto:pattern-with-upper")
	}
	if o.fl.autoLower {
		r.labels = append(r.labels, "auto:pattern-without-upper")
	}
	if o.fl.autoRepCaps {
		r.labels = append(r.labels, "auto:capitals-only-under-repetition")
	}
	if o.ambiguous != "" {
		r.labels = append(r.labels, "skip:document-silent", "silent:"+o.ambiguous)
		return r
	}
	typeRepo := c06HasTypeRepo(g)
	topRepo := g.Type == "repo"
	viaDir := c.Via == "dir" || typeRepo
	if viaDir {
		r.labels = append(r.labels, "via:dir")
	} else {
		r.labels = append(r.labels, "via:shard")
	}
	hasFilematch := st.Labels["type:filematch"]

	classify := func(d *kit.Discrepancy) *kit.Discrepancy {
		d.Detail = fmt.Sprintf("query string %q via %s: %s", s, map[bool]string{true: "dir", false: "shard"}[viaDir], d.Detail)
		if hasFilematch && d.Known == "" {
			// Known finding: type:filematch (documented as the default) panics in
			// newMatchTree; inside a type:repo group the crash is swallowed by
			// List and shows up as a wrong result. Recognised iff the string
			// with type:file in place of each type:filematch (same selection
			// of documents) is handled correctly.
			if s2 := c06FilematchRE.ReplaceAllString(s, "$1$2:file$3"); s2 != s {
				// (s2 may still hit one of the other known findings)
				if r2 := c06Check(c, e, s2, cache); r2.compared && (r2.discrepant == nil || r2.discrepant.Known != "") {
					d.Known = "C06-type-filematch-panic"
				}
			}
		}
		return d
	}

	var got map[string]bool
	var q query.Q
	err = kit.Guard(func() error {
		var err error
		q, err = query.Parse(s)
		if err != nil {
			return kit.Fail("parse-rejected", "query.Parse rejects a string of the documented grammar: %v", err)
		}
		got, err = e.search(q, viaDir)
		return err
	})
	if err != nil {
		if d, ok := err.(*kit.Discrepancy); ok {
			r.discrepant = classify(d)
		} else {
			r.discrepant = classify(kit.Fail("search-error", "parsed as %v: %v", q, err))
		}
		return r
	}
	r.compared = true
	want := o.want
	cmpGot, cmpWant, what := got, want, "documents"
	if topRepo {
		// the result of a top-level type:repo is a set of repositories
		cmpGot, cmpWant, what = c06Repos(got), c06Repos(want), "repositories"
	}
	if !c06SameSet(cmpWant, cmpGot) {
		missing, extra := c06Diff(cmpWant, cmpGot)
		d := kit.Fail("docset", "parsed as %v; %s missing %q extra %q", q, what, missing, extra)
		{
			for _, a := range o.alts {
				set := a.set
				if topRepo {
					set = c06Repos(set)
				}
				if c06SameSet(set, cmpGot) {
					d.Known = a.known
					break
				}
			}
		}
		if d.Known == "" {
			for _, a := range o.alts {
				set := a.set
				if topRepo {
					set = c06Repos(set)
				}
				am, ax := c06Diff(set, cmpGot)
				d.Detail += fmt.Sprintf("; under the reading of %s: missing %q extra %q", a.known, am, ax)
			}
			d = classify(d)
		} else {
			d.Detail = fmt.Sprintf("query string %q: %s", s, d.Detail)
		}
		r.discrepant = d
		return r
	}
	r.nExpected = len(want)
	return r
}

func runC06(rec *kit.Recorder, c c06Case) error {
	tmp, err := os.MkdirTemp("", "c06")
	if err != nil {
		return err
	}
	defer os.RemoveAll(tmp)
	b, err := kit.Build(&c.Corpus, tmp)
	if err != nil {
		return kit.Fail("build", "%v", err)
	}
	e := &c06Env{built: b, tmp: tmp}
	defer e.close()
	total := 0
	for i := range c.Corpus.Repos {
		if c.Corpus.Live(&c.Corpus.Repos[i]) {
			total += len(c.Corpus.Repos[i].Docs)
		}
	}
	cache := map[string]*regexp.Regexp{}
	var known, violation *kit.Discrepancy
	anyNT := false
	if len(c.Queries) == 0 {
		rec.Eval("empty", false, "skip:no-queries")
	}
	for _, s := range c.Queries {
		r := c06Check(&c, e, s, cache)
		nt := r.compared && r.discrepant == nil && r.features >= 2 && r.nExpected > 0 && r.nExpected < total
		anyNT = anyNT || nt
		if r.compared {
			rec.Add("strings_compared", 1)
			if r.nExpected > 0 {
				rec.Add("strings_with_nonempty_result", 1)
			}
		}
		layout := "layout:simple"
		if c.Corpus.Compound {
			layout = "layout:compound"
		}
		rec.Eval(s, nt, append(r.labels, layout)...)
		if d := r.discrepant; d != nil {
			if d.Known != "" {
				rec.Add("strings_hitting:"+d.Known, 1)
				if known == nil {
					known = d
				}
			} else if violation == nil {
				violation = d
			}
		}
	}
	rec.Sample(c, anyNT)
	if violation != nil {
		return violation
	}
	if known != nil {
		return known
	}
	return nil
}

func TestVerif_C06(t *testing.T) {
	if err := c06AlphabetsDisjoint(); err != nil {
		t.Fatalf("harness: %v", err)
	}
	rec := kit.Open(t, "C06",
		"rapid-generated corpora (1-3 repositories; file names and contents over disjoint alphabets) x 40-60 query strings drawn from the EBNF of doc/query_syntax.md (all fields and aliases, bare/quoted/escaped text, '-', groups '( q )' and '(a b)', or-chains, one case: and one type: per group at any position); a case = one query string on one corpus; the oracle parses the string itself and interprets it over the corpus model; non-trivial = the string uses >= 2 of {group, negation, or, case/type scope, quoting/escape} and the expected set is neither empty nor all documents; distinct by query string",
		"bare patterns: the document does not say whether they also match file names (implementation: name or content); file-name and content alphabets are disjoint and a string is only compared when both readings select the same documents",
		"regex: is documented as matching content; the implementation also matches file names; same treatment (both readings must agree)",
		"meta.<field>: the document does not say whether the value regexp is anchored (implementation: unanchored); both readings must agree",
		"^ and $ in content patterns: 'Go regular expressions' would anchor at the text, the implementation at lines; not generated for content, and both readings must agree",
		"parentheses: '(' starting an expression is a grouping iff it encloses more than one token (a space before its matching ')'); a parenthesised single token is regexp text as in the documented (foo|bar). Generated tight single tokens are bare patterns only, where group and regexp group select the same documents; '(lang:go)' and '(-foo)' (implementation: literal text) are not generated",
		"case: and type: scope = the innermost enclosing group (the whole string at top level) including its or-branches and nested groups without their own directive, at any position in the group; two case: or two type: in one group, a conjunction made only of directives, and negated directives (C07) are not generated",
		"case: is assumed to affect bare, content:, regex:, file: and sym: patterns only; repository names, branch names and metadata values are lower-case in corpus and queries so that repo:/branch:/meta. agree under either reading",
		"case:auto: upper-case letters that occur only in escape classes (\\S \\W \\D \\B) or inline flags are not generated (textual vs semantic reading of 'contains uppercase letters')",
		"type:filename/file/filematch change the kind of result, not the selected documents; a type:repo group selects every document of the repositories that contain a match of the group (top level: compared as repository sets, through search.NewDirectorySearcher; nested: compared as document sets)",
		"lang: takes linguist names or aliases case-insensitively (table hard-coded in the oracle for Go, Python, C, Text, Markdown, Shell); unknown languages select nothing",
		"branch:HEAD = the repository's first branch; other values match branch names by substring",
		"expressions are separated by one or more spaces; tabs/newlines as separators, text glued to a closing parenthesis, and values mixing quoted and unquoted parts are not generated",
		"case-insensitive matching restricted to ASCII and é/É (C08 covers Unicode folding)",
	)
	kit.Property(t, rec, genC06Case, func(c c06Case) error { return runC06(rec, c) })
}
