//go:build verif

package search_test

import (
	"context"
	"fmt"
	"os"
	"path/filepath"
	"reflect"
	"sort"
	"strings"
	"testing"

	"pgregory.net/rapid"

	"github.com/sourcegraph/zoekt"
	"github.com/sourcegraph/zoekt/index"
	"github.com/sourcegraph/zoekt/internal/verifkit/kit"
	"github.com/sourcegraph/zoekt/query"
)

type c16Case struct {
	Corpus  kit.Corpus // simple repositories; Tombstone = tombstoned after the merge
	Queries []kit.QSpec
	Chunk   bool
}

type stageResult struct {
	files   map[string]map[string]string // query -> file key -> signature
	noRange map[string]map[string]string // same without the match ranges
	specs   map[string]kit.QSpec
	repos   map[string]string // repository name -> metadata signature
}

func repoSig(e *zoekt.RepoListEntry) string {
	r := e.Repository
	var bs []string
	for _, b := range r.Branches {
		bs = append(bs, b.Name+"@"+b.Version)
	}
	rc := kit.SortedKeys(r.RawConfig)
	var rcs []string
	for _, k := range rc {
		rcs = append(rcs, k+"="+r.RawConfig[k])
	}
	md := kit.SortedKeys(r.Metadata)
	var mds []string
	for _, k := range md {
		mds = append(mds, k+"="+r.Metadata[k])
	}
	var subs []string
	for _, k := range kit.SortedKeys(r.SubRepoMap) {
		subs = append(subs, k+"→"+r.SubRepoMap[k].Name)
	}
	return fmt.Sprintf("id=%d tenant=%d url=%s branches=%v raw=%v meta=%v file=%s line=%s commit=%s rank=%d prio=%v subs=%v docs=%d content=%d",
		r.ID, r.TenantID, r.URL, bs, rcs, mds, r.FileURLTemplate, r.LineFragmentTemplate, r.CommitURLTemplate, r.Rank, r.GetPriority(), subs,
		e.Stats.Documents, e.Stats.ContentBytes)
}

func stageSearch(shards []zoekt.Searcher, qs []query.Q, specs []kit.QSpec, chunk bool, onlyRepos map[string]bool) (*stageResult, error) {
	ctx := context.Background()
	out := &stageResult{files: map[string]map[string]string{}, noRange: map[string]map[string]string{}, specs: map[string]kit.QSpec{}, repos: map[string]string{}}
	for qi, q := range qs {
		m := map[string]string{}
		nr := map[string]string{}
		for _, s := range shards {
			res, err := s.Search(ctx, q, &zoekt.SearchOptions{ChunkMatches: chunk, Whole: true})
			if err != nil {
				return nil, kit.Fail("search-error", "query %s: %v", q, err)
			}
			sig, err := resultSig(res.Files)
			if err != nil {
				return nil, err
			}
			for i := range res.Files {
				f := &res.Files[i]
				if onlyRepos != nil && !onlyRepos[f.Repository] {
					continue
				}
				k := strings.ReplaceAll(kit.Key(f.Repository, f.FileName, f.Checksum), "\x00", "|")
				rest := fmt.Sprintf("content=%x sub=%s/%s version=%s", kit.Checksum(f.Content), f.SubRepositoryPath, f.SubRepositoryName, f.Version)
				m[k] = fmt.Sprintf("%+v %s", sig[k], rest)
				sg := sig[k]
				sg.Ranges = ""
				sg.Branches = ""
				nr[k] = fmt.Sprintf("%+v %s", sg, rest)
			}
		}
		qk := fmt.Sprintf("%d:%s", qi, q)
		out.files[qk] = m
		out.noRange[qk] = nr
		out.specs[qk] = specs[qi]
	}
	for _, s := range shards {
		rl, err := s.List(ctx, &query.Const{Value: true}, nil)
		if err != nil {
			return nil, kit.Fail("list-error", "%v", err)
		}
		for _, e := range rl.Repos {
			if onlyRepos != nil && !onlyRepos[e.Repository.Name] {
				continue
			}
			if _, dup := out.repos[e.Repository.Name]; dup {
				return nil, kit.Fail("duplicate-repo", "repository %s listed by two shards", e.Repository.Name)
			}
			out.repos[e.Repository.Name] = repoSig(e)
		}
	}
	return out, nil
}

func diffStage(name string, want, got *stageResult) error {
	if !reflect.DeepEqual(want.repos, got.repos) {
		return kit.Fail("listing-changed", "%s: repository listing differs:\n inputs %v\n output %v", name, want.repos, got.repos)
	}
	qs := kit.SortedKeys(want.files)
	for _, q := range qs {
		if !reflect.DeepEqual(want.files[q], got.files[q]) {
			var d []string
			for k, v := range want.files[q] {
				if g, ok := got.files[q][k]; !ok {
					d = append(d, "lost "+k)
				} else if g != v {
					d = append(d, fmt.Sprintf("%s: %s → %s", k, v, g))
				}
			}
			for k := range got.files[q] {
				if _, ok := want.files[q][k]; !ok {
					d = append(d, "gained "+k)
				}
			}
			sort.Strings(d)
			known := ""
			if reflect.DeepEqual(want.noRange[q], got.noRange[q]) && orWithFilterBranch(want.specs[q]) {
				known = "C16-or-with-repo-filter-drops-matches"
			}
			return kit.FailKnown(known, "content-changed", "%s: query %s: %s", name, q, strings.Join(d, "; "))
		}
	}
	return nil
}

func openPaths(paths []string) ([]zoekt.Searcher, func(), error) {
	var ss []zoekt.Searcher
	closeAll := func() {
		for _, s := range ss {
			s.Close()
		}
	}
	for _, p := range paths {
		f, err := os.Open(p)
		if err != nil {
			closeAll()
			return nil, nil, err
		}
		inf, err := index.NewIndexFile(f)
		if err != nil {
			closeAll()
			return nil, nil, err
		}
		s, err := index.NewSearcher(inf)
		if err != nil {
			closeAll()
			return nil, nil, fmt.Errorf("%s: %w", p, err)
		}
		ss = append(ss, s)
	}
	return ss, closeAll, nil
}

func runC16(rec *kit.Recorder, c c16Case) error {
	tmp, err := os.MkdirTemp("", "c16")
	if err != nil {
		return err
	}
	defer os.RemoveAll(tmp)

	var qs []query.Q
	var specs []kit.QSpec
	qs = append(qs, &query.Const{Value: true})
	specs = append(specs, kit.QSpec{Op: "const", Val: true})
	for _, s := range c.Queries {
		if q, err := s.Q(); err == nil {
			if _, err := kit.Expected(&c.Corpus, q); err == nil {
				qs = append(qs, q)
				specs = append(specs, s)
			}
		}
	}

	// stage 0: the input simple shards
	simple := c.Corpus
	simple.Compound = false
	in, err := kit.Build(&simple, "")
	if err != nil {
		return kit.Fail("build", "%v", err)
	}
	defer in.Close()
	r0, err := stageSearch(in.Shards, qs, specs, c.Chunk, nil)
	if err != nil {
		return err
	}
	live := map[string]bool{}
	nlive, withSyms := 0, false
	for i := range c.Corpus.Repos {
		r := &c.Corpus.Repos[i]
		if !r.Tombstone {
			live[r.Name] = true
			nlive++
		}
		if len(r.SubRepos) > 0 {
			withSyms = true
		}
		for j := range r.Docs {
			if len(r.Docs[j].Symbols) > 0 {
				withSyms = true
			}
		}
	}
	r0live, err := stageSearch(in.Shards, qs, specs, c.Chunk, live)
	if err != nil {
		return err
	}

	// stage 1: merged into a compound shard
	mdir := filepath.Join(tmp, "merged")
	os.MkdirAll(mdir, 0o755)
	var files []index.IndexFile
	for i := range c.Corpus.Repos {
		data, err := kit.BuildSimple(&c.Corpus.Repos[i])
		if err != nil {
			return kit.Fail("build", "%v", err)
		}
		files = append(files, &kit.MemFile{Data: data, Nm: fmt.Sprintf("in%d.zoekt", i)})
	}
	tmpName, dstName, err := index.Merge(mdir, files...)
	if err != nil {
		return kit.Fail("merge-error", "%v", err)
	}
	if err := os.Rename(tmpName, dstName); err != nil {
		return err
	}
	ms, closeM, err := openPaths([]string{dstName})
	if err != nil {
		return kit.Fail("load", "merged shard: %v", err)
	}
	r1, err := stageSearch(ms, qs, specs, c.Chunk, nil)
	closeM()
	if err != nil {
		return err
	}
	if err := diffStage("merge", r0, r1); err != nil {
		return err
	}

	// tombstone, then the compound shard must show exactly the live repositories
	for i := range c.Corpus.Repos {
		if c.Corpus.Repos[i].Tombstone {
			if err := index.SetTombstone(dstName, c.Corpus.Repos[i].ID); err != nil {
				return kit.Fail("tombstone-error", "%v", err)
			}
		}
	}
	ms, closeM, err = openPaths([]string{dstName})
	if err != nil {
		return kit.Fail("load", "merged shard after tombstoning: %v", err)
	}
	r1t, err := stageSearch(ms, qs, specs, c.Chunk, nil)
	closeM()
	if err != nil {
		return err
	}
	if err := diffStage("merge+tombstones", r0live, r1t); err != nil {
		return err
	}

	// stage 1b: "vacuum" - merging the tombstoned compound shard again drops the
	// tombstoned repositories and keeps everything else
	if nlive > 0 {
		vdir := filepath.Join(tmp, "vacuum")
		os.MkdirAll(vdir, 0o755)
		cf, err := os.Open(dstName)
		if err != nil {
			return err
		}
		cif, err := index.NewIndexFile(cf)
		if err != nil {
			return err
		}
		vtmp, vdst, err := index.Merge(vdir, cif)
		cif.Close()
		if err != nil {
			return kit.Fail("merge-error", "re-merging the tombstoned compound shard: %v", err)
		}
		if err := os.Rename(vtmp, vdst); err != nil {
			return err
		}
		vs, closeV, err := openPaths([]string{vdst})
		if err != nil {
			return kit.Fail("load", "vacuumed shard: %v", err)
		}
		rv, err := stageSearch(vs, qs, specs, c.Chunk, nil)
		closeV()
		if err != nil {
			return err
		}
		if err := diffStage("vacuum (merge of the tombstoned compound shard)", r0live, rv); err != nil {
			return err
		}
	}

	// stage 2: exploded back into simple shards (tombstoned repositories dropped)
	edir := filepath.Join(tmp, "exploded")
	os.MkdirAll(edir, 0o755)
	if err := index.Explode(edir, dstName); err != nil {
		return kit.Fail("explode-error", "%v", err)
	}
	epaths, _ := filepath.Glob(filepath.Join(edir, "*.zoekt"))
	if len(epaths) != nlive {
		return kit.Fail("explode-count", "explode produced %d shards for %d live repositories: %v", len(epaths), nlive, epaths)
	}
	es, closeE, err := openPaths(epaths)
	if err != nil {
		return kit.Fail("load", "exploded shard: %v", err)
	}
	r2, err := stageSearch(es, qs, specs, c.Chunk, nil)
	closeE()
	if err != nil {
		return err
	}
	if err := diffStage("explode", r0live, r2); err != nil {
		return err
	}

	// stage 3: merging the exploded shards again (compound of compound inputs is covered by stage 1 + tombstones)
	nt := len(c.Corpus.Repos) >= 2 && withSyms
	tomb := "tombstones:0"
	if nlive < len(c.Corpus.Repos) {
		tomb = "tombstones:some"
	}
	rec.Eval(fmt.Sprintf("%+v", c), nt, fmt.Sprintf("repos:%d", len(c.Corpus.Repos)), tomb)
	rec.Sample(c, nt)
	return nil
}

func TestVerif_C16(t *testing.T) {
	rec := kit.Open(t, "C16",
		"2-4 generated repositories (>= 1 document each; priorities, 1-4 branches, symbols, sub-repositories, metadata, file tombstones, skipped documents) as simple shards -> index.Merge -> tombstone a subset -> index.Merge of that shard again (vacuum) and index.Explode; a battery of Const(true) plus 4-7 generated queries (Whole content) and List are compared between inputs, merged shard, tombstoned merged shard (live repositories only) and exploded shards; non-trivial = >= 2 repositories and one with symbols or sub-repositories; distinct by hash",
		"compared per file: checksum, content, branches, language, match ranges, sub-repository, version; per repository: id, tenant, URLs, branches, RawConfig, metadata, rank, priority, sub-repositories, document and content-byte counts",
		"scores and order are excluded",
	)
	kit.Property(t, rec, func(rt *rapid.T) c16Case {
		g := kit.G{T: rt}
		o := kit.DefaultCorpus
		o.Compound = 0
		o.MaxDocs = 6
		c := c16Case{Chunk: g.Bool(50, "chunk")}
		for {
			c.Corpus = kit.GenCorpus(g, o)
			if len(c.Corpus.Repos) >= 2 {
				break
			}
			o.MaxRepos = 4
			c.Corpus.Repos = append(c.Corpus.Repos, kit.GenRepo(g, o, 1, "github.com/a/bar"))
			break
		}
		n := g.Int(4, 7, "nq")
		for i := 0; i < n; i++ {
			q, _ := kit.GenQuery(g, &c.Corpus, kit.DefaultQuery, 0)
			c.Queries = append(c.Queries, q)
		}
		return c
	}, func(c c16Case) error { return runC16(rec, c) })
}
