//go:build verif

package search_test

import (
	"context"
	"fmt"
	"regexp"
	"regexp/syntax"
	"sort"
	"strings"
	"testing"
	"unicode"

	gregexp "github.com/grafana/regexp"
	"pgregory.net/rapid"

	"github.com/sourcegraph/zoekt"
	"github.com/sourcegraph/zoekt/index"
	"github.com/sourcegraph/zoekt/internal/syntaxutil"
	"github.com/sourcegraph/zoekt/internal/verifkit/kit"
	"github.com/sourcegraph/zoekt/query"
)

type c08Case struct {
	Pattern  string
	Contents []string
	Chunk    bool
}

// foldAlphabet: runes with non-trivial case folding, including orbits of
// three and four members and runes whose case forms differ in byte length.
var foldAlphabet = []rune{
	'a', 'b', 'k', 'K', 'K', 's', 'S', 'ſ', 'σ', 'ς', 'Σ', 'µ', 'μ', 'Μ', 'ß', 'ẞ', 'i', 'I', 'İ', 'ı',
	'ǅ', 'ǆ', 'Ǆ', 'ⱥ', 'Ⱥ', 'θ', 'ϑ', 'Θ', 'ϴ', 'ω', 'Ω', 'Ω', 'å', 'Å', 'Å', 'é', 'É',
	'Ꭰ', 'ꭰ', 'ა', 'Ა', '\U00010400', '\U00010428', 'x', 'Z',
	// cased runes that are not letters: circled letters (So), Roman numerals (Nl)
	'Ⓐ', 'ⓐ', 'Ⓩ', 'ⓩ', 'Ⅻ', 'ⅻ', 'Ⅰ', 'ⅰ',
}

// punct20: ASCII non-letters whose partner in bit 0x20 is another byte that
// occurs in text; they have no case, so the partner must never match.
var punct20 = map[rune]rune{'[': '{', '{': '[', ']': '}', '}': ']', '@': '`', '`': '@', '^': '~', '~': '^', '|': '\\', '\\': '|', '*': '\n', ')': '\t'}

var punctAlphabet = []rune{'[', '{', ']', '}', '@', '`', '^', '~', '|', '\\', '*', ')'}

// asciiOrbitAlphabet: runes that have an ASCII member in their fold orbit
// (K and ſ are the non-ASCII ones), for documents that are plain ASCII.
var asciiOrbitAlphabet = []rune{'a', 'b', 'k', 'K', 'K', 's', 'S', 'ſ', 'i', 'I', 'x', 'Z', 'K', 'ſ'}

func orbit(r rune) []rune {
	out := []rune{r}
	for x := unicode.SimpleFold(r); x != r; x = unicode.SimpleFold(x) {
		out = append(out, x)
	}
	return out
}

func maxOrbit(s string) int {
	m := 1
	for _, r := range s {
		if n := len(orbit(r)); n > m {
			m = n
		}
	}
	return m
}

func genC08(rt *rapid.T) c08Case {
	g := kit.G{T: rt}
	n := g.Int(3, 8, "plen")
	pr := make([]rune, n)
	// modes: fold-rich text (default); plain-ASCII documents searched with a
	// pattern that may hold K / ſ; patterns with ASCII punctuation
	asciiDocs := g.Bool(15, "asciidocs")
	withPunct := !asciiDocs && g.Bool(30, "punct")
	for i := range pr {
		switch {
		case asciiDocs:
			pr[i] = kit.Pick(g, asciiOrbitAlphabet, "prune")
		case withPunct && g.Bool(35, "ispunct"):
			pr[i] = kit.Pick(g, punctAlphabet, "ppunct")
		default:
			pr[i] = kit.Pick(g, foldAlphabet, "prune")
		}
	}
	variant := func() []rune {
		v := make([]rune, len(pr))
		for i, r := range pr {
			o := orbit(r)
			if asciiDocs {
				var a []rune
				for _, x := range o {
					if x < 0x80 {
						a = append(a, x)
					}
				}
				o = a
			}
			v[i] = o[g.Int(0, len(o)-1, "variant")]
		}
		return v
	}
	c := c08Case{Pattern: string(pr), Chunk: g.Bool(50, "chunk")}
	nd := g.Int(1, 3, "ndocs")
	for d := 0; d < nd; d++ {
		var sb strings.Builder
		parts := g.Int(1, 5, "parts")
		for p := 0; p < parts; p++ {
			switch g.Int(0, 6, "part") {
			case 0:
				noise := []string{" ", "\n", "xx ", "ab", "σσ", "kk", "ss"}
				if asciiDocs {
					noise = []string{" ", "\n", "xx ", "ab", "kk", "ss"}
				}
				sb.WriteString(kit.Pick(g, noise, "noise"))
			case 1:
				// a near miss: a variant with one rune replaced (a punctuation
				// rune by its partner in bit 0x20)
				v := variant()
				i := g.Int(0, len(v)-1, "missi")
				if p2, ok := punct20[v[i]]; ok && g.Bool(70, "misspartner") {
					v[i] = p2
				} else {
					v[i] = 'q'
				}
				sb.WriteString(string(v))
			case 2:
				// three runes of a variant (or of a near miss) several times:
				// makes the trigrams around that position frequent, so that the
				// index picks other trigrams of the pattern to find candidates
				v := variant()
				i := g.Int(0, len(v)-3, "wini")
				w := append([]rune(nil), v[i:i+3]...)
				if p2, ok := punct20[w[1]]; ok && g.Bool(50, "winpartner") {
					w[1] = p2
				}
				sb.WriteString(strings.Repeat(string(w)+" ", g.Int(2, 4, "winrep")))
			default:
				sb.WriteString(string(variant()))
			}
			sb.WriteString(kit.Pick(g, []string{" ", "\n", "", "-"}, "sep"))
		}
		c.Contents = append(c.Contents, sb.String())
	}
	return c
}

type fileRanges map[string][][2]int

func searchRanges(s zoekt.Searcher, q query.Q, chunk bool) (fileRanges, error) {
	res, err := s.Search(context.Background(), q, &zoekt.SearchOptions{ChunkMatches: chunk})
	if err != nil {
		return nil, err
	}
	out := fileRanges{}
	for _, f := range res.Files {
		var rs [][2]int
		for _, cm := range f.ChunkMatches {
			for _, r := range cm.Ranges {
				rs = append(rs, [2]int{int(r.Start.ByteOffset), int(r.End.ByteOffset)})
			}
		}
		for _, lm := range f.LineMatches {
			for _, fr := range lm.LineFragments {
				rs = append(rs, [2]int{int(fr.Offset), int(fr.Offset) + fr.MatchLength})
			}
		}
		sort.Slice(rs, func(i, j int) bool { return rs[i][0] < rs[j][0] })
		out[f.FileName] = rs
	}
	return out, nil
}

func runC08(rec *kit.Recorder, c c08Case) error {
	repo := kit.Repo{Name: "r", ID: 1, Branches: []kit.Branch{{Name: "HEAD", Version: "v"}}}
	for i, s := range c.Contents {
		repo.Docs = append(repo.Docs, kit.Doc{Name: fmt.Sprintf("f%d.txt", i), Content: kit.Text(s), Branches: []string{"HEAD"}, Language: "Text"})
	}
	data, err := kit.BuildSimple(&repo)
	if err != nil {
		return kit.Fail("build", "%v", err)
	}
	s, err := index.NewSearcher(&kit.MemFile{Data: data})
	if err != nil {
		return kit.Fail("load", "%v", err)
	}
	defer s.Close()

	qa := &query.Substring{Pattern: c.Pattern, CaseSensitive: false, Content: true}
	// literal · empty match: cannot be distilled into a substring query
	qb := &query.Regexp{Regexp: &syntax.Regexp{Op: syntax.OpConcat, Sub: []*syntax.Regexp{
		{Op: syntax.OpLiteral, Rune: []rune(c.Pattern)}, {Op: syntax.OpEmptyMatch}}}, CaseSensitive: false, Content: true}
	// a second regexp form: one literal per rune, which yields no trigrams, so
	// that the regexp engine alone decides (independent of the index lookups
	// the substring form relies on)
	var perRune []*syntax.Regexp
	for _, r := range c.Pattern {
		perRune = append(perRune, &syntax.Regexp{Op: syntax.OpLiteral, Rune: []rune{r}})
	}
	qc := &query.Regexp{Regexp: &syntax.Regexp{Op: syntax.OpConcat, Sub: perRune}, CaseSensitive: false, Content: true}
	ra, err := searchRanges(s, qa, c.Chunk)
	if err != nil {
		return kit.Fail("search-error", "substring form: %v", err)
	}
	rb, err := searchRanges(s, qb, c.Chunk)
	if err != nil {
		return kit.Fail("search-error", "regexp form: %v", err)
	}
	rc, err := searchRanges(s, qc, c.Chunk)
	if err != nil {
		return kit.Fail("search-error", "per-rune regexp form: %v", err)
	}

	// simple-fold reference (says which side is wrong) and stdlib engine
	std := regexp.MustCompile("(?i)" + regexp.QuoteMeta(c.Pattern))
	ref := fileRanges{}
	stdR := fileRanges{}
	nontrivial := false
	for i := range repo.Docs {
		d := &repo.Docs[i]
		var rs [][2]int
		last := 0
		for _, o := range kit.NaiveOccurrences(d.Content, c.Pattern, false) {
			if o[0] >= last {
				rs = append(rs, o)
				last = o[1]
				if string(d.Content[o[0]:o[1]]) != c.Pattern {
					for _, r := range string(d.Content[o[0]:o[1]]) {
						if r >= 0x80 {
							nontrivial = true
						}
					}
				}
			}
		}
		if !c.Chunk {
			rs = splitAtNewlines(d.Content, rs)
		}
		if len(rs) > 0 {
			ref[d.Name] = rs
		}
		var ss [][2]int
		for _, m := range std.FindAllIndex(d.Content, -1) {
			ss = append(ss, [2]int{m[0], m[1]})
		}
		if len(ss) > 0 {
			stdR[d.Name] = ss
		}
	}
	mo := maxOrbit(c.Pattern)
	rec.Eval(fmt.Sprintf("%+v", c), nontrivial, fmt.Sprintf("max-orbit:%d", mo))
	rec.Sample(c, nontrivial)

	sa, sb, sr, ss := fmt.Sprint(ra), fmt.Sprint(rb), fmt.Sprint(ref), fmt.Sprint(stdR)
	disagreeing := qb
	if sa == sb {
		// the first regexp form agrees; judge the per-rune form the same way
		sb = fmt.Sprint(rc)
		disagreeing = qc
	}
	if sa == sb {
		return nil
	}
	// they disagree: that is the violation; classify by comparing with the reference
	known := ""
	engineSays := ""
	if sa == sr && ss == sr && sb != sr {
		// zoekt's substring form, simple folding and the standard library's
		// engine agree. Confirm that the regexp engine dependency itself
		// deviates from the standard library on this very pattern and text.
		// the very expression zoekt hands to the engine for this form
		gre, err := gregexp.Compile("(?i)" + syntaxutil.RegexpString(disagreeing.Regexp))
		if err == nil {
			deviates := false
			engine := fileRanges{}
			for i := range repo.Docs {
				d := &repo.Docs[i]
				ms := gre.FindAllIndex(d.Content, -1)
				if fmt.Sprint(ms) != fmt.Sprint(std.FindAllIndex(d.Content, -1)) {
					deviates = true
				}
				if disagreeing == qc {
					// zoekt additionally requires, for every rune of three or
					// more bytes, that the engine finds that rune alone
					// (a literal of >= 3 bytes becomes a filter of its own,
					// evaluated as the regexp (?i)<rune>)
					for _, r := range c.Pattern {
						if len(string(r)) < 3 {
							continue
						}
						one := "(?i)" + regexp.QuoteMeta(string(r))
						g1, s1 := gregexp.MustCompile(one), regexp.MustCompile(one)
						if g1.Match(d.Content) != s1.Match(d.Content) {
							deviates = true
						}
						if !g1.Match(d.Content) {
							ms = nil
						}
					}
				}
				var rs [][2]int
				for _, m := range ms {
					rs = append(rs, [2]int{m[0], m[1]})
				}
				if !c.Chunk {
					rs = splitAtNewlines(d.Content, rs)
				}
				if len(rs) > 0 {
					engine[d.Name] = rs
				}
			}
			// known only if the regexp form reports exactly what the engine
			// itself finds: any other wrong answer is still a violation
			engineSays = fmt.Sprintf("; the engine itself, given %q, finds %v", "(?i)"+syntaxutil.RegexpString(disagreeing.Regexp), engine)
			if deviates && sb == fmt.Sprint(engine) {
				known = "C08-regexp-engine-fold"
			}
		}
	}
	return kit.FailKnown(known, "forms-disagree", "pattern %q contents %q chunk=%v: substring form %v, regexp form %v, simple-fold reference %v, stdlib engine %v%s", c.Pattern, c.Contents, c.Chunk, sa, sb, sr, ss, engineSays)
}

func TestVerif_C08(t *testing.T) {
	rec := kit.Open(t, "C08",
		"patterns of 3-8 runes over a fold-rich alphabet (orbits of 2, 3 and 4 members, case forms of different byte length, İ/ı; 30% with ASCII punctuation whose bit-0x20 partner is another punctuation byte; 15% plain-ASCII documents searched with patterns that may hold K / ſ) x 1-3 documents made of random fold-variants of the pattern, near misses (one rune replaced, punctuation by its partner), repeated three-rune windows (so that candidate trigrams vary) and noise; substring form vs two regexp forms that cannot be distilled to a substring (literal followed by an empty match, which still uses the literal's trigrams; one literal per rune, which is decided by the regexp engine alone); non-trivial = a matched occurrence differs from the pattern in a non-ASCII rune; distinct by hash",
		"both forms are searched through index.NewSearcher on one in-memory shard, in line and chunk mode",
		"the simple-fold reference and the standard library engine are only used to classify a disagreement, not to decide it",
	)
	kit.Property(t, rec, genC08, func(c c08Case) error { return runC08(rec, c) })
}
