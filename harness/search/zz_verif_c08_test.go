//go:build verif

package search_test

import (
	"context"
	"fmt"
	"regexp"
	"regexp/syntax"
	"sort"
	"strings"
	"testing"
	"unicode"

	gregexp "github.com/grafana/regexp"
	"pgregory.net/rapid"

	"github.com/sourcegraph/zoekt"
	"github.com/sourcegraph/zoekt/index"
	"github.com/sourcegraph/zoekt/internal/verifkit/kit"
	"github.com/sourcegraph/zoekt/query"
)

type c08Case struct {
	Pattern  string
	Contents []string
	Chunk    bool
}

// foldAlphabet: runes with non-trivial case folding, including orbits of
// three and four members and runes whose case forms differ in byte length.
var foldAlphabet = []rune{
	'a', 'b', 'k', 'K', 'K', 's', 'S', 'ſ', 'σ', 'ς', 'Σ', 'µ', 'μ', 'Μ', 'ß', 'ẞ', 'i', 'I', 'İ', 'ı',
	'ǅ', 'ǆ', 'Ǆ', 'ⱥ', 'Ⱥ', 'θ', 'ϑ', 'Θ', 'ϴ', 'ω', 'Ω', 'Ω', 'å', 'Å', 'Å', 'é', 'É',
	'Ꭰ', 'ꭰ', 'ა', 'Ა', '\U00010400', '\U00010428', 'x', 'Z',
	// cased runes that are not letters: circled letters (So), Roman numerals (Nl)
	'Ⓐ', 'ⓐ', 'Ⓩ', 'ⓩ', 'Ⅻ', 'ⅻ', 'Ⅰ', 'ⅰ',
}

func orbit(r rune) []rune {
	out := []rune{r}
	for x := unicode.SimpleFold(r); x != r; x = unicode.SimpleFold(x) {
		out = append(out, x)
	}
	return out
}

func maxOrbit(s string) int {
	m := 1
	for _, r := range s {
		if n := len(orbit(r)); n > m {
			m = n
		}
	}
	return m
}

func genC08(rt *rapid.T) c08Case {
	g := kit.G{T: rt}
	n := g.Int(3, 8, "plen")
	pr := make([]rune, n)
	for i := range pr {
		pr[i] = kit.Pick(g, foldAlphabet, "prune")
	}
	c := c08Case{Pattern: string(pr), Chunk: g.Bool(50, "chunk")}
	nd := g.Int(1, 3, "ndocs")
	for d := 0; d < nd; d++ {
		var sb strings.Builder
		parts := g.Int(1, 5, "parts")
		for p := 0; p < parts; p++ {
			switch g.Int(0, 5, "part") {
			case 0:
				sb.WriteString(kit.Pick(g, []string{" ", "\n", "xx ", "ab", "σσ", "kk", "ss"}, "noise"))
			case 1:
				// a near miss: a variant with one rune replaced
				v := []rune(c.Pattern)
				v[g.Int(0, len(v)-1, "missi")] = 'q'
				sb.WriteString(string(v))
			default:
				v := make([]rune, len(pr))
				for i, r := range pr {
					o := orbit(r)
					v[i] = o[g.Int(0, len(o)-1, "variant")]
				}
				sb.WriteString(string(v))
			}
			sb.WriteString(kit.Pick(g, []string{" ", "\n", "", "-"}, "sep"))
		}
		c.Contents = append(c.Contents, sb.String())
	}
	return c
}

type fileRanges map[string][][2]int

func searchRanges(s zoekt.Searcher, q query.Q, chunk bool) (fileRanges, error) {
	res, err := s.Search(context.Background(), q, &zoekt.SearchOptions{ChunkMatches: chunk})
	if err != nil {
		return nil, err
	}
	out := fileRanges{}
	for _, f := range res.Files {
		var rs [][2]int
		for _, cm := range f.ChunkMatches {
			for _, r := range cm.Ranges {
				rs = append(rs, [2]int{int(r.Start.ByteOffset), int(r.End.ByteOffset)})
			}
		}
		for _, lm := range f.LineMatches {
			for _, fr := range lm.LineFragments {
				rs = append(rs, [2]int{int(fr.Offset), int(fr.Offset) + fr.MatchLength})
			}
		}
		sort.Slice(rs, func(i, j int) bool { return rs[i][0] < rs[j][0] })
		out[f.FileName] = rs
	}
	return out, nil
}

func runC08(rec *kit.Recorder, c c08Case) error {
	repo := kit.Repo{Name: "r", ID: 1, Branches: []kit.Branch{{Name: "HEAD", Version: "v"}}}
	for i, s := range c.Contents {
		repo.Docs = append(repo.Docs, kit.Doc{Name: fmt.Sprintf("f%d.txt", i), Content: kit.Text(s), Branches: []string{"HEAD"}, Language: "Text"})
	}
	data, err := kit.BuildSimple(&repo)
	if err != nil {
		return kit.Fail("build", "%v", err)
	}
	s, err := index.NewSearcher(&kit.MemFile{Data: data})
	if err != nil {
		return kit.Fail("load", "%v", err)
	}
	defer s.Close()

	qa := &query.Substring{Pattern: c.Pattern, CaseSensitive: false, Content: true}
	// literal · empty match: cannot be distilled into a substring query
	qb := &query.Regexp{Regexp: &syntax.Regexp{Op: syntax.OpConcat, Sub: []*syntax.Regexp{
		{Op: syntax.OpLiteral, Rune: []rune(c.Pattern)}, {Op: syntax.OpEmptyMatch}}}, CaseSensitive: false, Content: true}
	ra, err := searchRanges(s, qa, c.Chunk)
	if err != nil {
		return kit.Fail("search-error", "substring form: %v", err)
	}
	rb, err := searchRanges(s, qb, c.Chunk)
	if err != nil {
		return kit.Fail("search-error", "regexp form: %v", err)
	}

	// simple-fold reference (says which side is wrong) and stdlib engine
	std := regexp.MustCompile("(?i)" + regexp.QuoteMeta(c.Pattern))
	ref := fileRanges{}
	stdR := fileRanges{}
	nontrivial := false
	for i := range repo.Docs {
		d := &repo.Docs[i]
		var rs [][2]int
		last := 0
		for _, o := range kit.NaiveOccurrences(d.Content, c.Pattern, false) {
			if o[0] >= last {
				rs = append(rs, o)
				last = o[1]
				if string(d.Content[o[0]:o[1]]) != c.Pattern {
					for _, r := range string(d.Content[o[0]:o[1]]) {
						if r >= 0x80 {
							nontrivial = true
						}
					}
				}
			}
		}
		if !c.Chunk {
			rs = splitAtNewlines(d.Content, rs)
		}
		if len(rs) > 0 {
			ref[d.Name] = rs
		}
		var ss [][2]int
		for _, m := range std.FindAllIndex(d.Content, -1) {
			ss = append(ss, [2]int{m[0], m[1]})
		}
		if len(ss) > 0 {
			stdR[d.Name] = ss
		}
	}
	mo := maxOrbit(c.Pattern)
	rec.Eval(fmt.Sprintf("%+v", c), nontrivial, fmt.Sprintf("max-orbit:%d", mo))
	rec.Sample(c, nontrivial)

	sa, sb, sr, ss := fmt.Sprint(ra), fmt.Sprint(rb), fmt.Sprint(ref), fmt.Sprint(stdR)
	if sa == sb {
		return nil
	}
	// they disagree: that is the violation; classify by comparing with the reference
	known := ""
	if sa == sr && ss == sr && sb != sr {
		// zoekt's substring form, simple folding and the standard library's
		// engine agree. Confirm that the regexp engine dependency itself
		// deviates from the standard library on this very pattern and text.
		gre, err := gregexp.Compile("(?i)" + regexp.QuoteMeta(c.Pattern) + "(?:)")
		if err == nil {
			for i := range repo.Docs {
				if fmt.Sprint(gre.FindAllIndex(repo.Docs[i].Content, -1)) != fmt.Sprint(std.FindAllIndex(repo.Docs[i].Content, -1)) {
					known = "C08-regexp-engine-fold"
				}
			}
		}
	}
	return kit.FailKnown(known, "forms-disagree", "pattern %q contents %q chunk=%v: substring form %v, regexp form %v, simple-fold reference %v, stdlib engine %v", c.Pattern, c.Contents, c.Chunk, sa, sb, sr, ss)
}

func TestVerif_C08(t *testing.T) {
	rec := kit.Open(t, "C08",
		"patterns of 3-8 runes over a fold-rich alphabet (orbits of 2, 3 and 4 members, case forms of different byte length, İ/ı) x 1-3 documents made of random fold-variants of the pattern, near misses and noise; substring form vs a regexp form that cannot be distilled to a substring (literal followed by an empty match); non-trivial = a matched occurrence differs from the pattern in a non-ASCII rune; distinct by hash",
		"both forms are searched through index.NewSearcher on one in-memory shard, in line and chunk mode",
		"the simple-fold reference and the standard library engine are only used to classify a disagreement, not to decide it",
	)
	kit.Property(t, rec, genC08, func(c c08Case) error { return runC08(rec, c) })
}
