//go:build verif

package search_test

import (
	"encoding/json"
	"fmt"
	"os"
	"testing"

	"github.com/sourcegraph/zoekt"
	"github.com/sourcegraph/zoekt/internal/verifkit/kit"
)

// TestVerifDebug prints, for every query of a match case (VERIF_REPLAY), the
// expected and returned document sets. Development aid only.
func TestVerifDebug(t *testing.T) {
	p := os.Getenv("VERIF_REPLAY")
	if p == "" {
		t.Skip()
	}
	b, _ := os.ReadFile(p)
	var env struct {
		Case matchCase `json:"case"`
	}
	if err := json.Unmarshal(b, &env); err != nil {
		t.Fatal(err)
	}
	c := env.Case
	tmp := t.TempDir()
	e, err := openEnv(&c, tmp)
	if err != nil {
		t.Fatal(err)
	}
	defer e.close()
	for _, qs := range c.Queries {
		q, err := qs.Q()
		if err != nil {
			continue
		}
		want, _ := kit.Expected(&c.Corpus, q)
		files, err := e.search(q, &zoekt.SearchOptions{ChunkMatches: c.Chunk})
		got, _ := fileKeys(files)
		m, x := diffSets(want, got)
		fmt.Printf("Q %s err=%v want=%d got=%d missing=%q extra=%q\n", q, err, len(want), len(got), m, x)
	}
}
