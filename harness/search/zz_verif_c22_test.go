//go:build verif

package search_test

import (
	"bytes"
	"context"
	"fmt"
	"os"
	"path"
	"reflect"
	"sort"
	"strings"
	"sync"
	"testing"
	"time"

	"pgregory.net/rapid"

	"github.com/sourcegraph/zoekt"
	"github.com/sourcegraph/zoekt/index"
	"github.com/sourcegraph/zoekt/internal/verifkit/kit"
	"github.com/sourcegraph/zoekt/query"
	"github.com/sourcegraph/zoekt/search"
)

type c22Case struct {
	matchCase
	MaxDocs    int
	MaxMatches int
	Order      []int // arrival order of the shards' results (indexes, taken modulo the shard count)
}

func countMatches(f *zoekt.FileMatch) int {
	n := 0
	for _, lm := range f.LineMatches {
		n += len(lm.LineFragments)
	}
	for _, cm := range f.ChunkMatches {
		n += len(cm.Ranges)
	}
	return n
}

// perShard runs the query on every shard and returns fresh results.
func perShard(shards []zoekt.Searcher, q query.Q, opts zoekt.SearchOptions) ([]*zoekt.SearchResult, error) {
	var out []*zoekt.SearchResult
	for _, s := range shards {
		o := opts
		res, err := s.Search(context.Background(), q, &o)
		if err != nil {
			return nil, err
		}
		out = append(out, res)
	}
	return out, nil
}

// checkCutFile verifies that got is ref with its matches cut to a prefix.
// Only the last returned file may be cut.
func checkCutFile(d *kit.Doc, ref, got *zoekt.FileMatch, chunk bool, k int, mayCut bool) (cut bool, err error) {
	r, g := normFile(*ref), normFile(*got)
	if reflect.DeepEqual(r.LineMatches, g.LineMatches) && reflect.DeepEqual(r.ChunkMatches, g.ChunkMatches) {
		return false, nil
	}
	if !mayCut {
		return true, kit.Fail("cut-not-last", "file %s is not the last returned file but its matches differ from the unlimited result", got.FileName)
	}
	if !chunk {
		n := len(g.LineMatches)
		if n == 0 || n > len(r.LineMatches) {
			return true, kit.Fail("not-a-prefix", "file %s: %d line matches, unlimited %d", got.FileName, n, len(r.LineMatches))
		}
		if !reflect.DeepEqual(r.LineMatches[:n-1], g.LineMatches[:n-1]) {
			return true, kit.Fail("not-a-prefix", "file %s: leading line matches differ from the unlimited result", got.FileName)
		}
		rl, gl := r.LineMatches[n-1], g.LineMatches[n-1]
		m := len(gl.LineFragments)
		if m == 0 || m > len(rl.LineFragments) || !reflect.DeepEqual(rl.LineFragments[:m], gl.LineFragments) {
			return true, kit.Fail("not-a-prefix", "file %s: fragments of the last line match are not a prefix: %+v vs %+v", got.FileName, gl.LineFragments, rl.LineFragments)
		}
		rl.LineFragments, gl.LineFragments = nil, nil
		if !reflect.DeepEqual(rl, gl) {
			return true, kit.Fail("cut-line-changed", "file %s: the cut line match differs beyond its fragments", got.FileName)
		}
		return true, nil
	}
	n := len(g.ChunkMatches)
	if n == 0 || n > len(r.ChunkMatches) {
		return true, kit.Fail("not-a-prefix", "file %s: %d chunks, unlimited %d", got.FileName, n, len(r.ChunkMatches))
	}
	if !reflect.DeepEqual(r.ChunkMatches[:n-1], g.ChunkMatches[:n-1]) {
		return true, kit.Fail("not-a-prefix", "file %s: leading chunks differ from the unlimited result", got.FileName)
	}
	rc, gc := r.ChunkMatches[n-1], g.ChunkMatches[n-1]
	m := len(gc.Ranges)
	if m == 0 || m > len(rc.Ranges) || !reflect.DeepEqual(rc.Ranges[:m], gc.Ranges) {
		return true, kit.Fail("not-a-prefix", "file %s: ranges of the cut chunk are not a prefix", got.FileName)
	}
	if gc.SymbolInfo != nil && !reflect.DeepEqual(rc.SymbolInfo[:m], gc.SymbolInfo) {
		return true, kit.Fail("not-a-prefix", "file %s: symbol info of the cut chunk is not a prefix", got.FileName)
	}
	if gc.ContentStart != rc.ContentStart || gc.FileName != rc.FileName {
		return true, kit.Fail("cut-chunk-changed", "file %s: cut chunk moved", got.FileName)
	}
	if gc.FileName {
		return true, nil
	}
	// the cut chunk must be whole lines covering exactly its remaining ranges plus context
	data := d.EffectiveContent()
	lt := newLineTable(data)
	lo, hi := -1, -1
	for _, x := range gc.Ranges {
		s, e := int(x.Start.ByteOffset), int(x.End.ByteOffset)
		first := lt.lineOf(s)
		last := first
		if e > s {
			last = lt.lineOf(e - 1)
		}
		if lo < 0 || first < lo {
			lo = first
		}
		if last > hi {
			hi = last
		}
	}
	want := data[lt.start(max(lo-k, 1)):lt.start(hi+k+1)]
	if !bytes.Equal(want, gc.Content) {
		known := ""
		// limitChunkMatches miscounts the lines to drop from the end of Content
		// (see known_findings.json). The known defect is pinned exactly: the
		// shortened content must be what that arithmetic produces from the
		// uncut chunk by some chain of cuts (a partial aggregate may be cut
		// more than once); anything else is a new violation.
		if pinnedCutReachable(&rc, m, gc.Content) {
			known = "C22-cut-chunk-trailing-lines"
		}
		return true, kit.FailKnown(known, "cut-chunk-content", "file %s: chunk cut to %d of %d ranges (lines %d-%d, %d context lines) has content %q, whole lines would be %q", got.FileName, m, len(rc.Ranges), lo, hi, k, gc.Content, want)
	}
	return true, nil
}

// pinnedCut reproduces the arithmetic of index.limitChunkMatches as it is on
// the pinned tree: drop n = lastEndLine(old) - lastEndLine(new) lines from the
// end of content by counting newlines backwards (the terminating newline of
// the content counts as a line; if fewer newlines exist the content is kept).
func pinnedCut(content []byte, oldEndLine, newEndLine uint32) []byte {
	n := int(oldEndLine) - int(newEndLine)
	if n <= 0 {
		return content
	}
	for b := len(content) - 1; b >= 0; b-- {
		if content[b] == '\n' {
			n--
		}
		if n == 0 {
			return content[:b]
		}
	}
	return content
}

// pinnedCutReachable reports whether got is reachable from the uncut chunk by
// a chain of cuts M -> ... -> m of that arithmetic.
func pinnedCutReachable(uncut *zoekt.ChunkMatch, m int, got []byte) bool {
	M := len(uncut.Ranges)
	reach := make([]map[string]bool, M+1)
	reach[M] = map[string]bool{string(uncut.Content): true}
	for k := M - 1; k >= m; k-- {
		reach[k] = map[string]bool{}
		for j := k + 1; j <= M; j++ {
			for c := range reach[j] {
				reach[k][string(pinnedCut([]byte(c), uncut.Ranges[j-1].End.LineNumber, uncut.Ranges[k-1].End.LineNumber))] = true
			}
		}
	}
	return reach[m][string(got)]
}

// checkPrefix: got is the beginning of the unlimited ranked result ref.
// arrival (nil for the aggregation layer, where the harness itself feeds the
// searcher's aggregation) reports whether got is what that aggregation returns
// for SOME arrival order of the per-shard results; the known finding about
// truncated partial aggregates is only claimed for such results.
func checkPrefix(docs map[string]*kit.Doc, ref, got []zoekt.FileMatch, c *c22Case, what string, oneShot func() []zoekt.FileMatch, arrival func([]zoekt.FileMatch) bool) (cutInside bool, err error) {
	if c.MaxDocs > 0 && len(got) > c.MaxDocs {
		return false, kit.Fail("too-many-files", "%s: %d files returned with MaxDocDisplayCount=%d", what, len(got), c.MaxDocs)
	}
	total := 0
	for i := range got {
		total += countMatches(&got[i])
	}
	if c.MaxMatches > 0 && total > c.MaxMatches {
		return false, kit.Fail("too-many-matches", "%s: %d matches returned with MaxMatchDisplayCount=%d", what, total, c.MaxMatches)
	}
	if len(got) > len(ref) {
		return false, kit.Fail("not-a-prefix", "%s: %d files returned, unlimited result has %d", what, len(got), len(ref))
	}
	refByKey := map[string]*zoekt.FileMatch{}
	for i := range ref {
		refByKey[kit.Key(ref[i].Repository, ref[i].FileName, ref[i].Checksum)] = &ref[i]
	}
	seen := map[string]bool{}
	for i := range got {
		k := kit.Key(got[i].Repository, got[i].FileName, got[i].Checksum)
		r := refByKey[k]
		if r == nil || seen[k] {
			return false, kit.Fail("not-a-prefix", "%s: file %s at position %d is not in the unlimited result (or returned twice)", what, got[i].FileName, i)
		}
		seen[k] = true
		cut, err := checkCutFile(docs[k], r, &got[i], c.Chunk, c.Context, i == len(got)-1)
		if err != nil {
			if d, ok := err.(*kit.Discrepancy); ok {
				d.Detail = what + ": " + d.Detail
				if d.Kind == "cut-not-last" && oneShot != nil && (arrival == nil || arrival(got)) {
					// A file cut by the truncation of a partial aggregate stays
					// cut when later results rank below it. Attribute to that
					// known finding only if ranking and truncating all
					// per-shard results at once cuts nothing but the last file.
					alt := oneShot()
					ok := len(alt) > 0
					for j := range alt {
						ra := refByKey[kit.Key(alt[j].Repository, alt[j].FileName, alt[j].Checksum)]
						if ra == nil {
							ok = false
							break
						}
						if _, err := checkCutFile(docs[kit.Key(alt[j].Repository, alt[j].FileName, alt[j].Checksum)], ra, &alt[j], c.Chunk, c.Context, j == len(alt)-1); err != nil {
							if dd, isD := err.(*kit.Discrepancy); !isD || dd.Known == "" {
								ok = false
								break
							}
						}
					}
					if ok {
						d.Known = "C22-partial-aggregate-truncation"
					}
				}
			}
			return false, err
		}
		if cut && (len(r.ChunkMatches) >= 2 || len(r.LineMatches) >= 2) {
			cutInside = true
		}
	}
	// The returned files must be the top of the ranking. Equal scores may be
	// ordered either way, and the order of ties decides which file the
	// novel-extension promotion picks, so "the" unlimited ranking is only
	// defined up to that. Tolerant formulation: the result has the shape of a
	// ranking (non-increasing scores except for one promoted file in third
	// place), and its scores are the k best scores of the unlimited result -
	// or, when a promoted file is visible, that file plus the k-1 best scores.
	if _, err := checkFileOrder(got, what); err != nil {
		return false, err
	}
	if !validTop(ref, got) {
		known := ""
		// Attribute to the incremental truncation of partial aggregates only if
		// ranking and truncating all per-shard results at once gives a valid top.
		if oneShot != nil && (arrival == nil || arrival(got)) {
			if alt := oneShot(); validTop(ref, alt) {
				known = "C22-partial-aggregate-truncation"
			}
		}
		return false, kit.FailKnown(known, "not-the-top", "%s: the returned files are not the beginning of any ranking of the unlimited result: limited %v, unlimited %v", what, scoresOf(got), scoresOf(ref))
	}
	// maximal: stopping early needs a reached limit
	if len(got) < len(ref) {
		docReached := c.MaxDocs > 0 && len(got) == c.MaxDocs
		matchReached := c.MaxMatches > 0 && total == c.MaxMatches
		if !docReached && !matchReached {
			return false, kit.Fail("stopped-early", "%s: %d of %d files and %d matches returned although neither limit (docs %d, matches %d) is reached", what, len(got), len(ref), total, c.MaxDocs, c.MaxMatches)
		}
	}
	return cutInside, nil
}

func sortedScores(fs []zoekt.FileMatch, skip int) []float64 {
	var out []float64
	for i := range fs {
		if i != skip {
			out = append(out, fs[i].Score)
		}
	}
	sort.Sort(sort.Reverse(sort.Float64Slice(out)))
	return out
}

// validTop reports whether got can be the first len(got) files of a ranking
// of ref: files sorted by non-increasing score - files with equal scores in
// any order - followed by the documented promotion of the first file with a
// novel extension (and at least 0.9 x the score of the file it displaces)
// into third place.
func validTop(ref, got []zoekt.FileMatch) bool {
	k := len(got)
	if k == 0 {
		return true
	}
	best := sortedScores(ref, -1)
	eq := func(a, b []float64) bool { return fmt.Sprint(a) == fmt.Sprint(b) }
	// no promotion among the first k
	if eq(sortedScores(got, -1), best[:k]) {
		return true
	}
	if k < 3 || len(ref) < 4 {
		return false
	}
	// got[2] was promoted
	p := got[2]
	if !eq(sortedScores(got, 2), best[:k-1]) {
		return false
	}
	e0, e1, ep := path.Ext(got[0].FileName), path.Ext(got[1].FileName), path.Ext(p.FileName)
	if ep == e0 || ep == e1 {
		return false
	}
	if p.Score < 0.9*best[2] {
		return false
	}
	// no better-scoring candidate with a novel extension was passed over
	k0 := kit.Key(got[0].Repository, got[0].FileName, got[0].Checksum)
	k1 := kit.Key(got[1].Repository, got[1].FileName, got[1].Checksum)
	for i := range ref {
		f := &ref[i]
		kf := kit.Key(f.Repository, f.FileName, f.Checksum)
		if kf == k0 || kf == k1 || f.Score <= p.Score {
			continue
		}
		if e := path.Ext(f.FileName); e != e0 && e != e1 {
			return false
		}
	}
	return true
}

func runC22(rec *kit.Recorder, c c22Case) error {
	tmp, err := os.MkdirTemp("", "c22")
	if err != nil {
		return err
	}
	defer os.RemoveAll(tmp)
	mc := c.matchCase
	mc.Via = "dir" // both layers are used: shards on disk, directory searcher on top
	e, err := openEnv(&mc, tmp)
	if err != nil {
		return kit.Fail("build", "%v", err)
	}
	defer e.close()
	docs := docIndex(&c.Corpus)
	ckey := fmt.Sprintf("%x", kit.Checksum([]byte(fmt.Sprintf("%+v", c.Corpus))))
	anyNT := false
	for _, qs := range c.Queries {
		q, err := qs.Q()
		if err != nil {
			continue
		}
		if _, err := kit.Expected(&c.Corpus, q); err != nil {
			continue
		}
		unl := zoekt.SearchOptions{ChunkMatches: c.Chunk, NumContextLines: c.Context}
		lim := unl
		lim.MaxDocDisplayCount, lim.MaxMatchDisplayCount = c.MaxDocs, c.MaxMatches

		// unlimited ranked result from the same aggregation without limits
		var refRes, res []*zoekt.SearchResult
		if err := kit.Guard(func() error {
			var err error
			if refRes, err = perShard(e.built.Shards, q, unl); err != nil {
				return err
			}
			res, err = perShard(e.built.Shards, q, lim)
			return err
		}); err != nil {
			continue // C01's subject
		}
		ref := search.VerifAggregate(&unl, refRes)
		// limited, with the generated arrival order
		ordered := make([]*zoekt.SearchResult, 0, len(res))
		used := map[int]bool{}
		for _, o := range c.Order {
			if len(res) == 0 {
				break
			}
			i := o % len(res)
			if !used[i] {
				used[i] = true
				ordered = append(ordered, res[i])
			}
		}
		for i := range res {
			if !used[i] {
				ordered = append(ordered, res[i])
			}
		}
		got := search.VerifAggregate(&lim, ordered)
		what := fmt.Sprintf("query %s docs=%d matches=%d chunk=%v ctx=%d", q, c.MaxDocs, c.MaxMatches, c.Chunk, c.Context)
		oneShot := func() []zoekt.FileMatch {
			fresh, err := perShard(e.built.Shards, q, lim)
			if err != nil {
				return nil
			}
			var all []zoekt.FileMatch
			for _, r := range fresh {
				all = append(all, r.Files...)
			}
			l := lim
			return index.SortAndTruncateFiles(all, &l)
		}
		// is a result what the real aggregation gives for some arrival order?
		arrival := func(res []zoekt.FileMatch) bool {
			sig := func(fs []zoekt.FileMatch) string {
				var ks []string
				for i := range fs {
					n := normFile(fs[i])
					ks = append(ks, fmt.Sprintf("%s|%+v|%+v", kit.Key(fs[i].Repository, fs[i].FileName, fs[i].Checksum), n.LineMatches, n.ChunkMatches))
				}
				sort.Strings(ks)
				return strings.Join(ks, "\n")
			}
			want := sig(res)
			n := len(e.built.Shards)
			if n > 5 {
				return false
			}
			perm := make([]int, n)
			for i := range perm {
				perm[i] = i
			}
			var try func(k int) bool
			try = func(k int) bool {
				if k == n {
					fresh, err := perShard(e.built.Shards, q, lim)
					if err != nil {
						return false
					}
					ord := make([]*zoekt.SearchResult, n)
					for i, p := range perm {
						ord[i] = fresh[p]
					}
					l := lim
					return sig(search.VerifAggregate(&l, ord).Files) == want
				}
				for i := k; i < n; i++ {
					perm[k], perm[i] = perm[i], perm[k]
					if try(k + 1) {
						return true
					}
					perm[k], perm[i] = perm[i], perm[k]
				}
				return false
			}
			return try(0)
		}
		cutInside, err := checkPrefix(docs, ref.Files, got.Files, &c, what+" (aggregation)", oneShot, nil)
		if err != nil {
			return err
		}
		nt := cutInside
		anyNT = anyNT || nt

		// end to end: non-streaming Search must obey the same contract with
		// respect to its own unlimited result
		o := unl
		sref, err := e.dir.Search(context.Background(), q, &o)
		if err != nil {
			return kit.Fail("search-error", "%s: %v", what, err)
		}
		o = lim
		sres, err := e.dir.Search(context.Background(), q, &o)
		if err != nil {
			return kit.Fail("search-error", "%s: %v", what, err)
		}
		if _, err := checkPrefix(docs, sref.Files, sres.Files, &c, what+" (Search)", oneShot, arrival); err != nil {
			return err
		}
		// streaming: counts within limits, every file from the unlimited result, only cut as a prefix
		var mu sync.Mutex
		var streamed []zoekt.FileMatch
		o = lim
		err = e.dir.StreamSearch(context.Background(), q, &o, zoekt.SenderFunc(func(r *zoekt.SearchResult) {
			mu.Lock()
			defer mu.Unlock()
			streamed = append(streamed, r.Files...)
		}))
		if err != nil {
			return kit.Fail("search-error", "%s (stream): %v", what, err)
		}
		if err := checkStream(docs, sref.Files, streamed, &c, what+" (StreamSearch)"); err != nil {
			return err
		}
		// streaming with a flush window longer than the search: everything is
		// collected, ranked and truncated before the single flush, so the
		// concatenated events must obey the same contract as Search
		var flushed []zoekt.FileMatch
		o = lim
		o.FlushWallTime = time.Hour
		err = e.dir.StreamSearch(context.Background(), q, &o, zoekt.SenderFunc(func(r *zoekt.SearchResult) {
			mu.Lock()
			defer mu.Unlock()
			flushed = append(flushed, r.Files...)
		}))
		if err != nil {
			return kit.Fail("search-error", "%s (stream, flush window): %v", what, err)
		}
		if _, err := checkPrefix(docs, sref.Files, flushed, &c, what+" (StreamSearch, FlushWallTime 1h)", oneShot, arrival); err != nil {
			return err
		}
		rec.Eval(ckey+fmt.Sprintf("|%+v|%d|%d|%v|%d|%v", qs, c.MaxDocs, c.MaxMatches, c.Chunk, c.Context, c.Order), nt,
			fmt.Sprintf("files:%d", min(len(ref.Files), 6)), fmt.Sprintf("cut:%v", len(got.Files) < len(ref.Files)), fmt.Sprintf("mode-chunk:%v", c.Chunk))
	}
	rec.Sample(c, anyNT)
	return nil
}

func checkStream(docs map[string]*kit.Doc, ref, got []zoekt.FileMatch, c *c22Case, what string) error {
	if c.MaxDocs > 0 && len(got) > c.MaxDocs {
		return kit.Fail("too-many-files", "%s: %d files streamed with MaxDocDisplayCount=%d", what, len(got), c.MaxDocs)
	}
	total := 0
	refByKey := map[string]*zoekt.FileMatch{}
	for i := range ref {
		refByKey[kit.Key(ref[i].Repository, ref[i].FileName, ref[i].Checksum)] = &ref[i]
	}
	seen := map[string]bool{}
	ncut := 0
	for i := range got {
		total += countMatches(&got[i])
		k := kit.Key(got[i].Repository, got[i].FileName, got[i].Checksum)
		r := refByKey[k]
		if r == nil || seen[k] {
			return kit.Fail("stream-unknown-file", "%s: file %s is not in the unlimited result (or delivered twice)", what, got[i].FileName)
		}
		seen[k] = true
		cut, err := checkCutFile(docs[k], r, &got[i], c.Chunk, c.Context, true)
		if err != nil {
			if d, ok := err.(*kit.Discrepancy); ok {
				d.Detail = what + ": " + d.Detail
			}
			return err
		}
		if cut {
			ncut++
		}
	}
	if ncut > 1 {
		return kit.Fail("stream-several-cuts", "%s: %d files were cut", what, ncut)
	}
	if c.MaxMatches > 0 && total > c.MaxMatches {
		return kit.Fail("too-many-matches", "%s: %d matches streamed with MaxMatchDisplayCount=%d", what, total, c.MaxMatches)
	}
	return nil
}

var _ = index.SortFiles

func TestVerif_C22(t *testing.T) {
	rec := kit.Open(t, "C22",
		"C01 corpora (several shards) and query batches x MaxDocDisplayCount in {0,1,2,3,5} x MaxMatchDisplayCount in {0,1,2,3,4,7} x line/chunk mode x 0-5 context lines x a generated arrival order of the per-shard results; the per-shard results are fed through the searcher's own aggregation (sendByRepository -> collectSender) in that order; the same contract is checked end to end on Search, and event-wise (counts, integrity, single cut) on StreamSearch; non-trivial = the cut falls inside a file with >= 2 chunks / line matches; distinct by hash",
		"the unlimited ranked result is the same aggregation without limits; files with equal scores may be ordered either way (which also decides the novel-extension promotion), so the returned files must be the beginning of some ranking of the unlimited result: sorted by score with ties in any order, then the documented promotion",
		"stopping before the unlimited result is exhausted requires a reached limit",
		"StreamSearch has no global ranking across flushes: only counts, membership and prefix-cuts are checked there",
	)
	kit.Property(t, rec, func(rt *rapid.T) c22Case {
		var labels [][]string
		g := kit.G{T: rt}
		o := kit.DefaultCorpus
		o.MaxDocs = 10
		c := c22Case{matchCase: genMatchCase(rt, o, kit.DefaultQuery, &labels)}
		c.Queries = append(c.Queries, kit.QSpec{Op: "substr", Pat: kit.Pick(g, []string{"foo", "a", "o", "e", "needle"}, "broad"), Content: true})
		c.Queries = append(c.Queries, kit.QSpec{Op: "regex", Pat: kit.Pick(g, []string{"[a-z]+", "o+", "\\w\\w"}, "broadre"), Content: true, CS: true})
		// matches that span line ends (the cut of a chunk counts lines)
		c.Queries = append(c.Queries, kit.QSpec{Op: "regex", Pat: kit.Pick(g, []string{"\\w+\\n\\w+", "o\\n+[a-z]", "[a-z]\\s+[a-zA-Z]"}, "multiline"), Content: true, CS: true})
		c.MaxDocs = kit.Pick(g, []int{0, 1, 2, 3, 4, 5, 6}, "maxdocs")
		c.MaxMatches = kit.Pick(g, []int{0, 0, 1, 2, 3, 4, 7, 12}, "maxmatches")
		if c.MaxDocs == 0 && c.MaxMatches == 0 {
			c.MaxMatches = 2
		}
		n := g.Int(0, 6, "norder")
		for i := 0; i < n; i++ {
			c.Order = append(c.Order, g.Int(0, 7, "ord"))
		}
		return c
	}, func(c c22Case) error { return runC22(rec, c) })
}
