//go:build verif

package search

// C20: the search scheduler bounds concurrency and never leaks slots.
//
// The harness owns the schedule. A case is a list of operations over a set of
// "searches" (start-acquire, cancel, yield with the interactive time slice
// forced exceeded or not, release, second release). Every Acquire / Yield runs
// in its own goroutine; after each operation the harness waits for a *stable*
// state: every call in flight has either returned or sits in the waiter list
// of one of the two semaphores. That is decided exactly (no sleeps, no "it
// probably blocked"): both semaphores are locked at once and their waiter
// lists and occupancy are read (c20Probe), which is the observer hook the
// property asks for. A wall-clock watchdog only turns a hang into a report.
//
// Oracle, evaluated in every stable state: a model that counts the holders of
// interactive and batch slots from what Acquire/Yield/Release returned.

import (
	"context"
	"encoding/json"
	"errors"
	"fmt"
	"io"
	"log"
	"os"
	"reflect"
	"runtime"
	"strconv"
	"strings"
	"sync"
	"sync/atomic"
	"testing"
	"time"
	"unsafe"

	"github.com/prometheus/client_golang/prometheus"
	"golang.org/x/sync/semaphore"
	"pgregory.net/rapid"

	"github.com/sourcegraph/zoekt/internal/verifkit/kit"
)

type c20Op struct {
	// K: start | startdone | startg | cancel | cancelw | yield | yieldx | yieldp | yieldg | release | rerelease
	// (startg / yieldg: the context is cancelled exactly when the interactive / batch slot is handed over)
	K string
	// S selects the search the operation applies to: index (mod n) into the
	// searches that are eligible for K in the current state, in start order.
	S int
}

type c20Case struct {
	Kind     string // "multi" (newMultiScheduler) | "single" (semaphoreScheduler)
	Cap      int
	BatchDiv int // ZOEKTSCHED batchdiv tunable; 0 = unset (default 4)
	Ops      []c20Op

	// Stress marks the schedule-stress variant: Workers goroutines run Plan
	// against the scheduler with no harness control over the interleaving.
	Stress  bool    `json:",omitempty"`
	Workers int     `json:",omitempty"`
	Plan    []uint8 `json:",omitempty"`
}

// ---------------------------------------------------------------------------
// observer hook: exact occupancy and waiter count of a semaphore.Weighted

type c20Probe struct {
	w    *semaphore.Weighted
	mu   *sync.Mutex
	cur  reflect.Value
	wlen reflect.Value
}

func newC20Probe(w *semaphore.Weighted) (*c20Probe, error) {
	v := reflect.ValueOf(w).Elem()
	mu, cur, wl := v.FieldByName("mu"), v.FieldByName("cur"), v.FieldByName("waiters")
	if !mu.IsValid() || mu.Type() != reflect.TypeOf(sync.Mutex{}) || !cur.IsValid() || cur.Kind() != reflect.Int64 || !wl.IsValid() || wl.Kind() != reflect.Struct {
		return nil, fmt.Errorf("semaphore.Weighted layout not recognised")
	}
	ln := wl.FieldByName("len")
	if !ln.IsValid() || ln.Kind() != reflect.Int {
		return nil, fmt.Errorf("list.List layout not recognised")
	}
	return &c20Probe{w: w, mu: (*sync.Mutex)(unsafe.Pointer(mu.UnsafeAddr())), cur: cur, wlen: ln}, nil
}

// free counts the free capacity through the public API only: TryAcquire until
// it fails, then give everything back.
func (p *c20Probe) free() int {
	n := 0
	for n < 64 && p.w.TryAcquire(1) {
		n++
	}
	if n > 0 {
		p.w.Release(int64(n))
	}
	return n
}

type c20Snap struct{ curI, waitI, curB, waitB int }

// ---------------------------------------------------------------------------

const (
	c20Idle = iota
	c20PendingAcq
	c20HoldI
	c20PendingYield
	c20HoldB
	c20YieldFailed
	c20Released
	c20AcqFailed
)

type c20Res struct {
	proc     *process
	err      error
	panicked string
}

type c20Call struct {
	yield    bool
	exceeded bool // the yield is expected to move the search to the batch queue
	res      chan c20Res
}

type c20Search struct {
	ctx    context.Context
	cancel context.CancelFunc
	done   atomic.Bool // ctx was cancelled (by the harness thread or by the hand-over hook)
	// armed: cancel ctx at the moment a semaphore hands a slot to this search
	// (in the acquiring goroutine, right after the acquisition: c20Gauge)
	armed         atomic.Bool
	cancelAtGrant atomic.Bool // the hook fired
	state         int
	proc          *process
	call          *c20Call
	// waited: the call in flight was observed blocked in a stable state
	waited bool
}

type c20Run struct {
	c        *c20Case
	sched    scheduler
	multi    *multiScheduler
	cap      int
	bcap     int
	pI, pB   *c20Probe
	searches []*c20Search
	labels   map[string]int
	nt       bool
	skipped  int
	aborted  bool
	byG      sync.Map // goroutine id -> *c20Search whose Acquire/Yield runs there
}

// c20Gauge wraps the "running" gauge of a sema. sema.Acquire increments it
// right after the semaphore handed over a slot, in the acquiring goroutine and
// before Acquire / yieldFunc look at anything else: the one place where a
// cancellation that races with a successful acquisition can be placed exactly.
type c20Gauge struct {
	prometheus.Gauge
	hook func()
}

func (g c20Gauge) Inc() {
	g.Gauge.Inc()
	g.hook()
}

// handOver runs in the goroutine that just acquired a slot.
func (r *c20Run) handOver() {
	v, ok := r.byG.Load(c20Goid())
	if !ok {
		return
	}
	s := v.(*c20Search)
	if s.armed.CompareAndSwap(true, false) {
		s.cancelAtGrant.Store(true)
		s.done.Store(true)
		s.cancel()
	}
}

// c20Goid is the id of the calling goroutine (from the stack header).
func c20Goid() int64 {
	var buf [64]byte
	n := runtime.Stack(buf[:], false)
	f := strings.Fields(string(buf[:n]))
	if len(f) < 2 {
		return -1
	}
	id, err := strconv.ParseInt(f[1], 10, 64)
	if err != nil {
		return -1
	}
	return id
}

var c20StuckTimeout = 240 * time.Second

func (r *c20Run) label(l string) { r.labels[l]++ }

func (r *c20Run) snapshot() c20Snap {
	r.pI.mu.Lock()
	if r.pB != nil {
		r.pB.mu.Lock()
	}
	s := c20Snap{curI: int(r.pI.cur.Int()), waitI: int(r.pI.wlen.Int())}
	if r.pB != nil {
		s.curB, s.waitB = int(r.pB.cur.Int()), int(r.pB.wlen.Int())
		r.pB.mu.Unlock()
	}
	r.pI.mu.Unlock()
	return s
}

// collect takes the result of every call that has returned.
func (r *c20Run) collect() error {
	for id, s := range r.searches {
		if s.call == nil {
			continue
		}
		select {
		case res := <-s.call.res:
			if err := r.handle(id, s, res); err != nil {
				return err
			}
		default:
		}
	}
	return nil
}

func (r *c20Run) handle(id int, s *c20Search, res c20Res) error {
	call := s.call
	s.call = nil
	waited := s.waited
	s.waited = false
	if res.panicked != "" {
		return kit.Fail("panic", "search %d: %s panicked: %s", id, map[bool]string{false: "Acquire", true: "Yield"}[call.yield], res.panicked)
	}
	what := "acquire"
	if call.yield {
		what = "yield"
	}
	if res.err != nil {
		// "an acquisition fails only when its context is done"
		if !s.done.Load() || s.ctx.Err() == nil {
			return kit.Fail("failed-with-live-context", "search %d: %s returned %v although its context is not done", id, what, res.err)
		}
		if !errors.Is(res.err, s.ctx.Err()) {
			return kit.Fail("wrong-error", "search %d: %s returned %v, context error is %v", id, what, res.err, s.ctx.Err())
		}
	}
	if !call.yield {
		switch {
		case res.err != nil:
			if res.proc != nil {
				return kit.Fail("process-with-error", "search %d: Acquire returned a process together with %v", id, res.err)
			}
			s.state = c20AcqFailed
			if waited {
				r.label("acquire:cancelled-while-waiting")
			} else {
				r.label("acquire:refused-done-context")
			}
		default:
			if res.proc == nil {
				return kit.Fail("nil-process", "search %d: Acquire returned (nil, nil)", id)
			}
			s.proc = res.proc
			s.state = c20HoldI
			switch {
			case waited:
				r.label("acquire:granted-after-waiting")
			case s.cancelAtGrant.Load():
				r.label("acquire:granted,cancelled-at-hand-over")
			case s.done.Load():
				r.label("acquire:granted-despite-done-context")
			default:
				r.label("acquire:granted-at-once")
			}
		}
		return nil
	}
	switch {
	case res.err != nil:
		// the interactive slot is gone, no batch slot was obtained
		s.state = c20YieldFailed
		r.nt = true
		if waited {
			r.label("yield:cancelled-while-waiting-for-batch")
		} else {
			r.label("yield:refused-done-context")
		}
	case call.exceeded:
		s.state = c20HoldB
		if waited {
			r.nt = true
			r.label("yield:batch-granted-after-waiting")
		} else if s.cancelAtGrant.Load() {
			r.label("yield:batch-granted,cancelled-at-hand-over")
		} else if s.done.Load() {
			r.label("yield:batch-granted-despite-done-context")
		} else {
			r.label("yield:batch-granted-at-once")
		}
	default:
		// time slice not used up, or already in the batch queue: nothing moves
	}
	return nil
}

// settle waits for a stable state and checks the oracle in it.
func (r *c20Run) settle(after string) error {
	deadline := time.Now().Add(c20StuckTimeout)
	var snap c20Snap
	for spins := 0; ; spins++ {
		if err := r.collect(); err != nil {
			return err
		}
		live, doneCtx := 0, 0
		for _, s := range r.searches {
			if s.call != nil {
				if s.done.Load() {
					doneCtx++
				} else {
					live++
				}
			}
		}
		// A call whose context is done always returns; the others are stable
		// once all of them sit in a waiter list (both lists read atomically).
		if doneCtx == 0 {
			snap = r.snapshot()
			if snap.waitI+snap.waitB == live {
				break
			}
			if snap.waitI+snap.waitB > live {
				return kit.Fail("phantom-waiter", "after %s: %d+%d waiters but only %d calls in flight", after, snap.waitI, snap.waitB, live)
			}
		}
		if spins < 100 {
			runtime.Gosched()
		} else {
			time.Sleep(20 * time.Microsecond)
		}
		if spins%1000 == 999 && time.Now().After(deadline) {
			return kit.Fail("stuck", "after %s: %d call(s) with live and %d with done context neither returned nor queued within %v", after, live, doneCtx, c20StuckTimeout)
		}
	}
	return r.check(after, snap)
}

func (r *c20Run) check(after string, snap c20Snap) error {
	hI, hB, pA, pY := 0, 0, 0, 0
	for _, s := range r.searches {
		switch s.state {
		case c20HoldI:
			hI++
		case c20HoldB:
			hB++
		case c20PendingAcq:
			pA++
			if !s.waited {
				s.waited = true
				r.label("acquire:blocked")
			}
		case c20PendingYield:
			pY++
			if !s.waited {
				s.waited = true
				r.nt = true
				r.label("yield:blocked-on-batch")
			}
		}
	}
	if hI > r.cap {
		return kit.Fail("interactive-bound", "after %s: %d searches hold an interactive slot, capacity %d", after, hI, r.cap)
	}
	if hB > r.bcap {
		return kit.Fail("batch-bound", "after %s: %d searches hold a batch slot, batch capacity %d", after, hB, r.bcap)
	}
	if snap.waitI != pA || snap.waitB != pY {
		return kit.Fail("waiters", "after %s: waiting interactive=%d batch=%d, model acquire=%d yield=%d", after, snap.waitI, snap.waitB, pA, pY)
	}
	if pA > 0 && hI < r.cap {
		return kit.Fail("blocked-while-free", "after %s: %d acquire(s) blocked while only %d of %d interactive slots are held", after, pA, hI, r.cap)
	}
	if pY > 0 && hB < r.bcap {
		return kit.Fail("blocked-while-free", "after %s: %d yield(s) blocked while only %d of %d batch slots are held", after, pY, hB, r.bcap)
	}
	if snap.curI != hI || snap.curB != hB {
		return kit.Fail("occupancy", "after %s: semaphores hold interactive=%d batch=%d, model holders interactive=%d batch=%d", after, snap.curI, snap.curB, hI, hB)
	}
	if f := r.pI.free(); f != r.cap-hI {
		return kit.Fail("free-capacity", "after %s: %d interactive slots free (TryAcquire), want capacity %d - holders %d", after, f, r.cap, hI)
	}
	if r.pB != nil {
		if f := r.pB.free(); f != r.bcap-hB {
			return kit.Fail("free-capacity", "after %s: %d batch slots free (TryAcquire), want batch capacity %d - holders %d", after, f, r.bcap, hB)
		}
	}
	return nil
}

func (r *c20Run) eligible(pred func(*c20Search) bool) []int {
	var out []int
	for i, s := range r.searches {
		if pred(s) {
			out = append(out, i)
		}
	}
	return out
}

func c20Guard(f func()) (panicked string) {
	defer func() {
		if p := recover(); p != nil {
			panicked = fmt.Sprint(p)
			if panicked == "" {
				panicked = "panic"
			}
		}
	}()
	f()
	return ""
}

func (r *c20Run) apply(i int, op c20Op) error {
	pick := func(ids []int) (int, *c20Search) {
		id := ids[op.S%len(ids)]
		return id, r.searches[id]
	}
	name := fmt.Sprintf("op %d (%s)", i, op.K)
	switch op.K {
	case "start", "startdone", "startg":
		active := len(r.eligible(func(s *c20Search) bool { return s.state != c20Released && s.state != c20AcqFailed }))
		if active >= 2*r.cap+r.bcap+3 || len(r.searches) >= 40 {
			r.skipped++
			return nil
		}
		ctx, cancel := context.WithCancel(context.Background())
		s := &c20Search{ctx: ctx, cancel: cancel, state: c20PendingAcq}
		if op.K == "startdone" {
			cancel()
			s.done.Store(true)
		}
		if op.K == "startg" {
			s.armed.Store(true)
		}
		call := &c20Call{res: make(chan c20Res, 1)}
		s.call = call
		r.searches = append(r.searches, s)
		sched := r.sched
		go func() {
			var res c20Res
			g := c20Goid()
			r.byG.Store(g, s)
			res.panicked = c20Guard(func() { res.proc, res.err = sched.Acquire(ctx) })
			r.byG.Delete(g)
			call.res <- res
		}()
		r.label("op:" + op.K)

	case "cancel", "cancelw":
		ids := r.eligible(func(s *c20Search) bool { return !s.done.Load() && s.call != nil })
		if op.K == "cancel" || len(ids) == 0 {
			ids = r.eligible(func(s *c20Search) bool {
				return !s.done.Load() && (s.call != nil || s.state == c20HoldI || s.state == c20HoldB)
			})
		}
		if len(ids) == 0 {
			r.skipped++
			return nil
		}
		_, s := pick(ids)
		s.done.Store(true)
		s.cancel()
		if s.call != nil {
			r.label("op:cancel-waiting")
		} else {
			r.label("op:cancel-holder")
		}

	case "yield", "yieldx", "yieldp", "yieldg":
		// Yield may be called again after it failed: streamSearch calls
		// `_ = proc.Yield(ctx)` on every iteration and ignores the error.
		ids := r.eligible(func(s *c20Search) bool {
			return s.call == nil && (s.state == c20HoldI || s.state == c20HoldB || s.state == c20YieldFailed)
		})
		if len(ids) == 0 {
			r.skipped++
			return nil
		}
		_, s := pick(ids)
		p := s.proc
		forced := false
		if p.yieldTimer != nil {
			switch op.K {
			case "yieldx", "yieldg":
				// a stopped deadlineTimer reports Exceeded
				p.yieldTimer.Stop()
				forced = true
			case "yieldp":
				// a real timer whose deadline has passed
				p.yieldTimer.Stop()
				p.yieldTimer = newDeadlineTimer(time.Now().Add(-time.Second))
				forced = true
			}
		}
		call := &c20Call{yield: true, res: make(chan c20Res, 1)}
		if s.state == c20YieldFailed {
			// The failed Yield left yieldTimer in place and it stays exceeded (a
			// deadlineTimer that fired or was stopped reports Exceeded for good),
			// so whatever the mode yieldFunc runs again: the process holds no
			// slot ("sem" is nil), nothing may be released, and it queues for a
			// batch slot once more with its (done) context.
			if p.yieldTimer == nil {
				return kit.Fail("harness", "failed yield cleared the yield timer")
			}
			call.exceeded = true
			s.state = c20PendingYield
			r.label("op:yield-again-after-failed-yield")
		} else if s.state == c20HoldI && forced {
			if r.multi == nil {
				return kit.Fail("harness", "yield timer on a single-semaphore process")
			}
			call.exceeded = true
			s.state = c20PendingYield // the interactive slot is given up first
			if op.K == "yieldg" {
				s.armed.Store(true) // cancel exactly when the batch slot is handed over
				r.label("op:yield-exceeded-cancel-at-hand-over")
			} else {
				r.label("op:yield-exceeded")
			}
		} else if s.state == c20HoldB {
			r.label("op:yield-already-batch")
		} else {
			r.label("op:yield-within-slice")
		}
		s.call = call
		ctx := s.ctx
		go func() {
			var res c20Res
			g := c20Goid()
			r.byG.Store(g, s)
			res.panicked = c20Guard(func() { res.err = p.Yield(ctx) })
			r.byG.Delete(g)
			call.res <- res
		}()

	case "release":
		ids := r.eligible(func(s *c20Search) bool {
			return s.call == nil && (s.state == c20HoldI || s.state == c20HoldB || s.state == c20YieldFailed)
		})
		if len(ids) == 0 {
			r.skipped++
			return nil
		}
		id, s := pick(ids)
		switch s.state {
		case c20HoldI:
			r.label("op:release-interactive")
		case c20HoldB:
			r.label("op:release-batch")
		default:
			r.label("op:release-after-failed-yield")
		}
		if p := c20Guard(s.proc.Release); p != "" {
			return kit.Fail("panic", "search %d: Release panicked: %s", id, p)
		}
		s.state = c20Released

	case "rerelease":
		// multiScheduler documents that its release function is safe against a
		// second call ("the nil value will prevent us from releasing twice").
		// A second Release must therefore change nothing; a panic inside
		// semaphore ("released more than held") would be the other documented
		// behaviour and ends the case.
		if r.multi == nil {
			r.skipped++
			return nil
		}
		ids := r.eligible(func(s *c20Search) bool { return s.state == c20Released })
		if len(ids) == 0 {
			r.skipped++
			return nil
		}
		_, s := pick(ids)
		if p := c20Guard(s.proc.Release); p != "" {
			if strings.Contains(p, "released more than held") {
				r.label("op:second-release-panicked")
				r.aborted = true
				return nil
			}
			return kit.Fail("panic", "second Release panicked: %s", p)
		}
		r.label("op:second-release")

	default:
		return kit.Fail("harness", "unknown op %q", op.K)
	}
	return r.settle(name)
}

var c20TuneMu sync.Mutex

func newC20Run(c *c20Case) (*c20Run, error) {
	r := &c20Run{c: c, cap: c.Cap, labels: map[string]int{}}
	if c.Cap < 1 {
		return nil, kit.Fail("harness", "capacity %d", c.Cap)
	}
	switch c.Kind {
	case "multi":
		c20TuneMu.Lock()
		old, had := zoektSched["batchdiv"]
		if c.BatchDiv != 0 {
			zoektSched["batchdiv"] = c.BatchDiv
		} else {
			delete(zoektSched, "batchdiv")
		}
		m := newMultiScheduler(int64(c.Cap))
		if had {
			zoektSched["batchdiv"] = old
		} else {
			delete(zoektSched, "batchdiv")
		}
		c20TuneMu.Unlock()
		// Time never moves the search by itself: the harness decides when the
		// interactive slice is used up.
		m.interactiveDuration = time.Hour
		div := c.BatchDiv
		if div == 0 {
			div = 4
		}
		// documented: batch queue size is 1/batchdiv of the interactive one, at least 1
		r.bcap = c.Cap / div
		if r.bcap == 0 {
			r.bcap = 1
		}
		r.multi, r.sched = m, m
		for _, sm := range []*sema{m.semInteractive, m.semBatch} {
			sm.metricRunning = &gaugeCounter{gauge: c20Gauge{Gauge: sm.metricRunning.gauge, hook: r.handOver}, counter: sm.metricRunning.counter}
		}
		var err error
		if r.pI, err = newC20Probe(m.semInteractive.sem); err != nil {
			return nil, err
		}
		if r.pB, err = newC20Probe(m.semBatch.sem); err != nil {
			return nil, err
		}
	case "single":
		s := &semaphoreScheduler{throttle: semaphore.NewWeighted(int64(c.Cap)), capacity: int64(c.Cap)}
		r.sched = s
		var err error
		if r.pI, err = newC20Probe(s.throttle); err != nil {
			return nil, err
		}
	default:
		return nil, kit.Fail("harness", "kind %q", c.Kind)
	}
	return r, nil
}

func runC20(rec *kit.Recorder, c c20Case) error {
	if c.Stress {
		return runC20Stress(rec, c)
	}
	r, err := newC20Run(&c)
	if err != nil {
		return err
	}
	// never leave goroutines blocked behind, whatever happens
	defer func() {
		for _, s := range r.searches {
			s.cancel()
		}
	}()
	err = func() error {
		if err := r.settle("start"); err != nil {
			return err
		}
		for i, op := range c.Ops {
			if err := r.apply(i, op); err != nil {
				return err
			}
			if r.aborted {
				return nil
			}
		}
		// wind down: cancel whoever still waits, release whoever still holds
		for _, s := range r.searches {
			if s.call != nil && !s.done.Load() {
				s.done.Store(true)
				s.cancel()
			}
		}
		if err := r.settle("final cancel"); err != nil {
			return err
		}
		for id, s := range r.searches {
			if s.call != nil {
				return kit.Fail("stuck", "search %d still in flight after its context was cancelled", id)
			}
			if s.state == c20HoldI || s.state == c20HoldB || s.state == c20YieldFailed {
				if p := c20Guard(s.proc.Release); p != "" {
					return kit.Fail("panic", "search %d: final Release panicked: %s", id, p)
				}
				s.state = c20Released
			}
		}
		if err := r.settle("final release"); err != nil {
			return err
		}
		// after all are released both semaphores are full again
		if f := r.pI.free(); f != r.cap {
			return kit.Fail("leak", "after every search was released %d of %d interactive slots are free", f, r.cap)
		}
		if r.pB != nil {
			if f := r.pB.free(); f != r.bcap {
				return kit.Fail("leak", "after every search was released %d of %d batch slots are free", f, r.bcap)
			}
		}
		return nil
	}()
	ls := []string{"kind:" + c.Kind, fmt.Sprintf("cap:%d/batch:%d", r.cap, r.bcap), fmt.Sprintf("ops:%02d-%02d", len(c.Ops)/10*10, len(c.Ops)/10*10+9)}
	for l, n := range r.labels {
		ls = append(ls, l)      // Eval counts a label once per case ...
		rec.Add("events/"+l, n) // ... the event totals are kept as well
	}
	if r.skipped > 0 {
		rec.Add("ops_not_applicable", r.skipped)
	}
	key, _ := json.Marshal(c)
	rec.Eval(string(key), r.nt, ls...)
	rec.Sample(c, r.nt)
	return err
}

// ---------------------------------------------------------------------------
// stress variant: no control over the interleaving; the only oracles are the
// bounds (counted conservatively), "fails only with a done context", no panic
// and both semaphores full at the end.

func runC20Stress(rec *kit.Recorder, c c20Case) error {
	c2 := c
	c2.Kind = "multi"
	r, err := newC20Run(&c2)
	if err != nil {
		return err
	}
	if c.Workers < 1 || len(c.Plan) == 0 {
		return kit.Fail("harness", "empty stress plan")
	}
	var holdI, holdB atomic.Int64
	var acquired, yielded, failed atomic.Int64
	var firstErr atomic.Value
	var stop atomic.Bool
	var active atomic.Int64 // workers that have not finished their plan
	active.Store(int64(c.Workers))
	fail := func(d *kit.Discrepancy) {
		firstErr.CompareAndSwap(nil, d)
	}
	cancels := make([]atomic.Pointer[context.CancelFunc], c.Workers)
	var wg sync.WaitGroup
	for w := 0; w < c.Workers; w++ {
		wg.Add(1)
		go func(w int) {
			defer wg.Done()
			defer active.Add(-1)
			if p := c20Guard(func() {
				for k := 0; k < len(c.Plan) && !stop.Load(); k++ {
					b := c.Plan[(k+w*7)%len(c.Plan)] + uint8(w)
					ctx, cancel := context.WithCancel(context.Background())
					cancels[w].Store(&cancel)
					if b&1 != 0 {
						// cancel a neighbour's current context at some point
						if cf := cancels[(w+1)%c.Workers].Load(); cf != nil {
							(*cf)()
						}
					}
					proc, err := r.sched.Acquire(ctx)
					if err != nil {
						failed.Add(1)
						if ctx.Err() == nil {
							fail(kit.Fail("failed-with-live-context", "stress: Acquire returned %v with a live context", err))
						}
						cancel()
						continue
					}
					acquired.Add(1)
					if n := holdI.Add(1); n > int64(r.cap) {
						fail(kit.Fail("interactive-bound", "stress: %d concurrent interactive holders, capacity %d", n, r.cap))
					}
					inBatch, holds := false, true
					if b&2 != 0 {
						runtime.Gosched()
					}
					if b&4 != 0 {
						proc.yieldTimer.Stop() // slice used up
						holdI.Add(-1)
						holds = false
						if err := proc.Yield(ctx); err != nil {
							if ctx.Err() == nil {
								fail(kit.Fail("failed-with-live-context", "stress: Yield returned %v with a live context", err))
							}
						} else {
							yielded.Add(1)
							inBatch, holds = true, true
							if n := holdB.Add(1); n > int64(r.bcap) {
								fail(kit.Fail("batch-bound", "stress: %d concurrent batch holders, batch capacity %d", n, r.bcap))
							}
						}
					}
					if b&8 != 0 {
						runtime.Gosched()
					}
					if holds {
						if inBatch {
							holdB.Add(-1)
						} else {
							holdI.Add(-1)
						}
					}
					proc.Release()
					cancel()
				}
			}); p != "" {
				fail(kit.Fail("panic", "stress worker panicked: %s", p))
			}
		}(w)
	}
	// Deadlock monitor (exact, not a timeout): if every worker that still runs
	// sits in a waiter list nobody is left to release or cancel, so slots must
	// have leaked.
	finished := make(chan struct{})
	go func() { wg.Wait(); close(finished) }()
monitor:
	for {
		select {
		case <-finished:
			break monitor
		default:
		}
		// read before the snapshot: a worker that finishes in between only makes the test stricter
		n := int(active.Load())
		if snap := r.snapshot(); n > 0 && snap.waitI+snap.waitB >= n {
			fail(kit.Fail("leak", "stress: all %d unfinished workers wait for a slot (interactive %d, batch %d waiting; semaphores hold %d/%d) and nobody holds one", n, snap.waitI, snap.waitB, snap.curI, snap.curB))
			stop.Store(true)
			for i := range cancels {
				if cf := cancels[i].Load(); cf != nil {
					(*cf)()
				}
			}
		}
		time.Sleep(200 * time.Microsecond)
	}
	rec.Add("stress_acquired", int(acquired.Load()))
	rec.Add("stress_yielded_to_batch", int(yielded.Load()))
	rec.Add("stress_failed_with_done_context", int(failed.Load()))
	key, _ := json.Marshal(c)
	rec.Eval(string(key), false, "mode:stress")
	if d, _ := firstErr.Load().(*kit.Discrepancy); d != nil {
		return d
	}
	snap := r.snapshot()
	if snap.curI != 0 || snap.curB != 0 || snap.waitI != 0 || snap.waitB != 0 {
		return kit.Fail("leak", "stress: after all workers finished the semaphores hold interactive=%d batch=%d (waiters %d/%d)", snap.curI, snap.curB, snap.waitI, snap.waitB)
	}
	if f := r.pI.free(); f != r.cap {
		return kit.Fail("leak", "stress: %d of %d interactive slots free at the end", f, r.cap)
	}
	if f := r.pB.free(); f != r.bcap {
		return kit.Fail("leak", "stress: %d of %d batch slots free at the end", f, r.bcap)
	}
	return nil
}

// ---------------------------------------------------------------------------

func genC20(rt *rapid.T) c20Case {
	// rare alternatives are written !g.Bool(100-pct): kit draws shrink towards
	// Bool == true, so cases shrink away from the rare alternative
	g := kit.G{T: rt}
	c := c20Case{Kind: "multi"}
	c.Cap = g.Int(1, 4, "cap")
	if !g.Bool(95, "cap8") {
		c.Cap = 8
	}
	// VERIF_C20_STRESS=off (sensitivity experiments): deterministic part only
	if !g.Bool(98, "stress") && os.Getenv("VERIF_C20_STRESS") != "off" {
		c.Stress = true
		c.BatchDiv = kit.Pick(g, []int{0, 1, 2}, "batchdiv")
		c.Workers = g.Int(2, 3*c.Cap+2, "workers")
		c.Plan = rapid.SliceOfN(rapid.Uint8(), 20, 120).Draw(rt, "plan")
		return c
	}
	if !g.Bool(92, "single") {
		c.Kind = "single"
	} else {
		c.BatchDiv = kit.Pick(g, []int{0, 1, 2, 3}, "batchdiv")
	}
	// weights: enough starts to fill the queues, many forced yields so that the
	// (small) batch queue blocks, releases to make waiters move
	kinds := []string{
		"start", "yieldx", "release", "start", "yieldx", "release", "start", "yieldp", "cancelw", "release",
		"start", "yieldx", "yield", "cancel", "start", "yieldp", "release", "cancelw", "startdone", "rerelease",
		"startg", "yieldg", "yieldx", "start",
	}
	op := rapid.Custom(func(t *rapid.T) c20Op {
		return c20Op{K: kit.Pick(kit.G{T: t}, kinds, "op"), S: rapid.IntRange(0, 11).Draw(t, "sel")}
	})
	// rapid's slice lengths average min+max(min,5): vary the minimum to get long schedules too
	lo := kit.Pick(g, []int{4, 10, 18}, "minops")
	c.Ops = rapid.SliceOfN(op, lo, 60).Draw(rt, "ops")
	return c
}

func TestVerif_C20(t *testing.T) {
	log.SetOutput(io.Discard) // newMultiScheduler logs the batchdiv tunable
	rec := kit.Open(t, "C20",
		"rapid-generated schedules: scheduler kind (two-semaphore multiScheduler, 10% single-semaphore fallback), capacity 1-4 (6% 8), batchdiv tunable unset/1/2/3, then 4-45 operations start-acquire / start with cancelled context / start whose context is cancelled exactly when its slot is handed over / cancel / yield within the time slice / yield with the slice forced used up (stopped timer or a real timer with a past deadline; also with cancellation exactly at the batch hand-over; also repeated after a failed yield) / release / second release, each applied to a search picked by a selector among the searches the operation applies to; every Acquire and Yield runs in its own goroutine and the harness proceeds only in a stable state (every call returned or queued in a semaphore's waiter list, both lists read under both locks); non-trivial = some yield had to wait for a batch slot or failed because its context was cancelled; distinct by the JSON of the case; 3% of the cases are an uncontrolled stress run (mode:stress) whose only oracles are bounds, error-implies-done-context, no panic and full semaphores at the end",
		"a search that gave up its interactive slot and waits for a batch slot holds no slot (sched.go yieldFunc releases before it acquires)",
		"occupancy and waiter counts are read from semaphore.Weighted's unexported fields under its own mutex (observer hook); free capacity is additionally probed with TryAcquire",
		"which of several waiters receives a freed slot is not asserted",
		"Yield may be called again after it failed (streamSearch ignores the error): the process then holds no slot, releases nothing and queues for a batch slot again; Yield is not called concurrently with itself or Release (documented contract); a second Release is only issued on multiScheduler processes",
		"startg / yieldg place a cancellation exactly at the hand-over of a slot through the sema's running-gauge (in-package hook), identified by goroutine id",
	)
	if _, err := newC20Probe(semaphore.NewWeighted(1)); err != nil {
		t.Fatalf("cannot observe semaphore state: %v", err)
	}
	kit.Property(t, rec, genC20, func(c c20Case) error { return runC20(rec, c) })
}
