//go:build verif

package search_test

import (
	"context"
	"fmt"
	"os"
	"path/filepath"
	"reflect"
	"strconv"
	"sync"
	"testing"

	"pgregory.net/rapid"

	"github.com/sourcegraph/zoekt"
	"github.com/sourcegraph/zoekt/index"
	"github.com/sourcegraph/zoekt/internal/verifkit/kit"
	"github.com/sourcegraph/zoekt/query"
)

type c04Case struct {
	Corpus    kit.Corpus
	History   []kit.QSpec
	CacheSize int // 0 = ZOEKT_DOCMATCHTREE_CACHE unset
	Workers   int // 1 = sequential; > 1 = that many goroutines share the history
	Chunk     bool
	Split     bool // two compound shards instead of one
}

func genMetaAtom(g kit.G) kit.QSpec {
	return kit.QSpec{Op: "meta", Field: kit.Pick(g, []string{"team", "lang", "team", "nope"}, "mf"), Pat: kit.Pick(g, []string{"alpha", "^alpha$", "beta", "go", "py", ".", "a"}, "mv")}
}

func openShards(paths []string) ([]zoekt.Searcher, error) {
	var out []zoekt.Searcher
	for _, p := range paths {
		f, err := os.Open(p)
		if err != nil {
			return nil, err
		}
		inf, err := index.NewIndexFile(f)
		if err != nil {
			return nil, err
		}
		s, err := index.NewSearcher(inf)
		if err != nil {
			return nil, err
		}
		out = append(out, s)
	}
	return out, nil
}

func searchNorm(shards []zoekt.Searcher, q query.Q, chunk bool) (map[string]zoekt.FileMatch, error) {
	out := map[string]zoekt.FileMatch{}
	for _, s := range shards {
		res, err := s.Search(context.Background(), q, &zoekt.SearchOptions{ChunkMatches: chunk})
		if err != nil {
			return nil, err
		}
		for _, f := range res.Files {
			out[kit.Key(f.Repository, f.FileName, f.Checksum)] = normFile(f)
		}
	}
	return out, nil
}

func runC04(rec *kit.Recorder, c c04Case) error {
	tmp, err := os.MkdirTemp("", "c04")
	if err != nil {
		return err
	}
	defer os.RemoveAll(tmp)
	// In "preset" processes the cache variable is set for the whole life of the
	// process (as in a real server) and never touched by the harness.
	preset := os.Getenv("VERIF_C04_PRESET") != ""
	if preset {
		c.CacheSize, _ = strconv.Atoi(os.Getenv("ZOEKT_DOCMATCHTREE_CACHE"))
	}
	// write the shards once (cache setting is read when a shard is loaded)
	if !preset {
		os.Unsetenv("ZOEKT_DOCMATCHTREE_CACHE")
	}
	built := &kit.Built{}
	if c.Split && len(c.Corpus.Repos) >= 2 {
		// two compound shards with different repository layouts
		h := len(c.Corpus.Repos) / 2
		for i, part := range [][]kit.Repo{c.Corpus.Repos[:h], c.Corpus.Repos[h:]} {
			dir := filepath.Join(tmp, fmt.Sprint(i))
			os.MkdirAll(dir, 0o755)
			pc := kit.Corpus{Repos: part, Compound: true}
			b, err := kit.Build(&pc, dir)
			if err != nil {
				return kit.Fail("build", "%v", err)
			}
			b.Close()
			built.Paths = append(built.Paths, b.Paths...)
		}
	} else {
		b, err := kit.Build(&c.Corpus, tmp)
		if err != nil {
			return kit.Fail("build", "%v", err)
		}
		b.Close()
		built.Paths = b.Paths
	}

	var qs []query.Q
	var specs []kit.QSpec
	for _, s := range c.History {
		q, err := s.Q()
		if err != nil {
			continue
		}
		if _, err := kit.Expected(&c.Corpus, q); err != nil {
			continue
		}
		qs = append(qs, q)
		specs = append(specs, s)
	}
	// expected: each query alone on a freshly loaded index with the cache off
	want := make([]map[string]zoekt.FileMatch, len(qs))
	for i, q := range qs {
		fresh, err := openShards(built.Paths)
		if err != nil {
			return kit.Fail("load", "%v", err)
		}
		var w map[string]zoekt.FileMatch
		err = kit.Guard(func() error {
			var err error
			w, err = searchNorm(fresh, q, c.Chunk)
			return err
		})
		for _, s := range fresh {
			s.Close()
		}
		if err != nil {
			want[i] = nil // C01's subject; the history still runs the query
			continue
		}
		want[i] = w
		if preset {
			// with a process-wide setting even a freshly loaded index may be
			// affected by earlier searches: anchor the expectation in the
			// reference evaluator as well
			exp, err := kit.Expected(&c.Corpus, q)
			if err == nil {
				got := map[string]bool{}
				for k := range w {
					got[k] = true
				}
				if m, x := diffSets(exp, got); len(m)+len(x) > 0 {
					return kit.Fail("history-dependent", "query %s on a freshly loaded index (process-wide cache=%d, %d shards): missing %q extra %q with respect to the reference evaluation", q, c.CacheSize, len(built.Paths), m, x)
				}
			}
		}
	}

	// the history on one loaded index with the configured cache
	if c.CacheSize > 0 && !preset {
		os.Setenv("ZOEKT_DOCMATCHTREE_CACHE", fmt.Sprint(c.CacheSize))
	}
	loaded, err := openShards(built.Paths)
	if !preset {
		os.Unsetenv("ZOEKT_DOCMATCHTREE_CACHE")
	}
	if err != nil {
		return kit.Fail("load", "%v", err)
	}
	defer func() {
		for _, s := range loaded {
			s.Close()
		}
	}()
	check := func(i int) error {
		var got map[string]zoekt.FileMatch
		err := kit.Guard(func() error {
			var err error
			got, err = searchNorm(loaded, qs[i], c.Chunk)
			return err
		})
		if want[i] == nil {
			return nil
		}
		if err != nil {
			return kit.Fail("history-dependent", "search %d (%s) of the history fails (%v) but succeeds alone on a fresh index; cache=%d workers=%d", i, qs[i], err, c.CacheSize, c.Workers)
		}
		if !reflect.DeepEqual(got, want[i]) {
			return kit.Fail("history-dependent", "search %d (%s) of the history returns %d files, alone on a fresh index %d files; cache=%d workers=%d; history %v", i, qs[i], len(got), len(want[i]), c.CacheSize, c.Workers, qs)
		}
		return nil
	}
	if c.Workers <= 1 {
		for i := range qs {
			if err := check(i); err != nil {
				return err
			}
		}
	} else {
		var wg sync.WaitGroup
		errs := make([]error, c.Workers)
		for w := 0; w < c.Workers; w++ {
			wg.Add(1)
			go func(w int) {
				defer wg.Done()
				for r := 0; r < 2; r++ {
					for i := range qs {
						j := (i + w) % len(qs)
						if err := check(j); err != nil && errs[w] == nil {
							errs[w] = err
						}
					}
				}
			}(w)
		}
		wg.Wait()
		for _, e := range errs {
			if e != nil {
				return e
			}
		}
	}
	// non-trivial: cache on and two queries share a Meta atom with a non-empty expected result
	metaSeen := map[string]int{}
	for i, s := range specs {
		if want[i] == nil || len(want[i]) == 0 {
			continue
		}
		s.Atoms(func(a kit.QSpec) {
			if a.Op == "meta" {
				metaSeen[a.Field+":"+a.Pat]++
			}
		})
	}
	nt := false
	for _, n := range metaSeen {
		if n >= 2 && c.CacheSize > 0 {
			nt = true
		}
	}
	mode := "sequential"
	if c.Workers > 1 {
		mode = "concurrent"
	}
	rec.Eval(fmt.Sprintf("%+v", c), nt, fmt.Sprintf("cache:%d", c.CacheSize), mode, fmt.Sprintf("shards:%d", len(built.Paths)), fmt.Sprintf("preset:%v", preset))
	rec.Sample(c, nt)
	return nil
}

func TestVerif_C04(t *testing.T) {
	rec := kit.Open(t, "C04",
		"one or two generated compound shards (2-4 repositories with differing metadata, so that Meta atoms select some but not all of them) loaded with ZOEKT_DOCMATCHTREE_CACHE in {unset,1,2,64} (set per load, or - in every second process - set for the whole life of the process) x a history of 2-12 queries biased towards repeated Meta atoms (also three or four distinct ones in a single query) and towards repository id / name sets of equal size with different members, run sequentially or by 2-6 goroutines (twice each, rotated); each result must equal the same query alone on a freshly loaded index with the cache off; non-trivial = cache on and >= 2 queries of the history share a Meta atom and have a non-empty expected result; distinct by hash",
		"results are compared per file (line / chunk matches, branches) without scores' debug strings",
		"concurrent runs explore the interleavings the Go scheduler produces",
	)
	kit.Property(t, rec, func(rt *rapid.T) c04Case {
		g := kit.G{T: rt}
		o := kit.DefaultCorpus
		yes := true
		o.ForceCompound = &yes
		o.MaxDocs = 5
		o.MaxTokens = 15
		c := c04Case{Corpus: kit.GenCorpus(g, o), CacheSize: kit.Pick(g, []int{0, 1, 2, 64, 64}, "cache"), Chunk: g.Bool(50, "chunk")}
		for len(c.Corpus.Repos) < 2 {
			c.Corpus.Repos = append(c.Corpus.Repos, kit.GenRepo(g, o, len(c.Corpus.Repos), fmt.Sprintf("extra.example/r%d", len(c.Corpus.Repos))))
		}
		// make sure metadata differs between repositories
		for i := range c.Corpus.Repos {
			r := &c.Corpus.Repos[i]
			if r.Metadata == nil {
				r.Metadata = map[string]string{}
			}
			if i%2 == 0 {
				r.Metadata["team"] = kit.Pick(g, []string{"alpha", "alphabet"}, "teamA")
			} else if g.Bool(70, "teamB") {
				r.Metadata["team"] = "beta"
			}
			if g.Bool(70, "langmd") {
				r.Metadata["lang"] = []string{"go", "py"}[(i/2+g.U(2, "langv"))%2]
			}
			r.Tombstone = false
		}
		if len(c.Corpus.Repos) < 3 && g.Bool(60, "threerepos") {
			c.Corpus.Repos = append(c.Corpus.Repos, kit.GenRepo(g, o, len(c.Corpus.Repos), fmt.Sprintf("extra.example/r%d", len(c.Corpus.Repos))))
			c.Corpus.Repos[len(c.Corpus.Repos)-1].Tombstone = false
		}
		pool := []kit.QSpec{genMetaAtom(g), genMetaAtom(g), genMetaAtom(g), genMetaAtom(g)}
		if g.Bool(50, "distinctpool") {
			// atoms that tend to select different, proper subsets of the repositories
			all := []kit.QSpec{{Op: "meta", Field: "team", Pat: "^alpha$"}, {Op: "meta", Field: "team", Pat: "beta"}, {Op: "meta", Field: "lang", Pat: "go"},
				{Op: "meta", Field: "lang", Pat: "py"}, {Op: "meta", Field: "team", Pat: "alphabet"}, {Op: "meta", Field: "team", Pat: "alpha"}}
			pool = nil
			for _, k := range rapid.Permutation([]int{0, 1, 2, 3, 4, 5}).Draw(g.T, "poolperm")[:4] {
				pool = append(pool, all[k])
			}
		}
		// repository filters that print alike (same number of members) and
		// select different repositories: id sets of equal size, name sets of
		// more than five names
		var rpool []kit.QSpec
		nr := len(c.Corpus.Repos)
		for k := 0; k < 2; k++ {
			a, b := g.U(nr, "ridA"), g.U(nr, "ridB")
			rpool = append(rpool, kit.QSpec{Op: "repoids", IDs: []uint32{c.Corpus.Repos[a].ID, c.Corpus.Repos[(a+1)%nr].ID}},
				kit.QSpec{Op: "repoids", IDs: []uint32{c.Corpus.Repos[b].ID, 999}},
				kit.QSpec{Op: "reposet", Strs: []string{c.Corpus.Repos[a].Name, "n1", "n2", "n3", "n4", "n5"}},
				kit.QSpec{Op: "reposet", Strs: []string{c.Corpus.Repos[b].Name, c.Corpus.Repos[(b+1)%nr].Name, "n2", "n3", "n4", "n5"}})
		}
		n := g.Int(2, 12, "nhist")
		for i := 0; i < n; i++ {
			switch g.U(10, "hk") {
			case 6, 7:
				// a repository filter of the pool, alone or with text
				f := kit.Pick(g, rpool, "rpool")
				if g.Bool(50, "rpooltxt") {
					txt, _ := kit.GenQuery(g, &c.Corpus, kit.QueryOpts{MaxDepth: 1, FoldSafe: true}, 0)
					f = kit.QSpec{Op: "and", Kids: []kit.QSpec{f, txt}}
				}
				c.History = append(c.History, f)
			case 8, 9:
				// one query with three or four metadata atoms (more than a small cache holds)
				q := kit.QSpec{Op: kit.Pick(g, []string{"and", "or"}, "manyop")}
				for _, k := range rapid.Permutation([]int{0, 1, 2, 3}).Draw(g.T, "manyperm")[:3+g.U(2, "manyn")] {
					a := pool[k]
					if g.Bool(25, "manynot") {
						a = kit.QSpec{Op: "not", Kids: []kit.QSpec{a}}
					}
					q.Kids = append(q.Kids, a)
				}
				c.History = append(c.History, q)
			case 0, 1:
				c.History = append(c.History, kit.Pick(g, pool, "pool"))
			case 2, 3:
				txt, _ := kit.GenQuery(g, &c.Corpus, kit.QueryOpts{MaxDepth: 1, FoldSafe: true}, 0)
				c.History = append(c.History, kit.QSpec{Op: "and", Kids: []kit.QSpec{kit.Pick(g, pool, "pool"), txt}})
			case 4:
				c.History = append(c.History, kit.QSpec{Op: "or", Kids: []kit.QSpec{kit.Pick(g, pool, "pool"), {Op: "not", Kids: []kit.QSpec{kit.Pick(g, pool, "pool")}}}})
			default:
				q, _ := kit.GenQuery(g, &c.Corpus, kit.DefaultQuery, 0)
				c.History = append(c.History, q)
			}
		}
		c.Workers = kit.Pick(g, []int{1, 1, 1, 2, 4, 6}, "workers")
		c.Split = g.Bool(40, "split")
		return c
	}, func(c c04Case) error { return runC04(rec, c) })
}
