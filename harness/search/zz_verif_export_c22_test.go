//go:build verif

package search

import "github.com/sourcegraph/zoekt"

// VerifAggregate feeds per-shard results, in the given order, through the
// aggregation the sharded searcher uses for a non-streaming search
// (sendByRepository -> collectSender) and returns the aggregate. It lets the
// external verification test own the arrival order.
func VerifAggregate(opts *zoekt.SearchOptions, results []*zoekt.SearchResult) *zoekt.SearchResult {
	cs := newCollectSender(opts)
	for _, r := range results {
		sendByRepository(r, opts, cs)
	}
	agg, ok := cs.Done()
	if !ok {
		return &zoekt.SearchResult{}
	}
	return agg
}
