//go:build verif

package search_test

import (
	"context"
	"fmt"
	"os"
	"path/filepath"
	"sort"
	"strings"
	"testing"

	"pgregory.net/rapid"

	"github.com/sourcegraph/zoekt"
	"github.com/sourcegraph/zoekt/index"
	"github.com/sourcegraph/zoekt/internal/verifkit/kit"
	"github.com/sourcegraph/zoekt/search"
)

type buildConfig struct {
	Cfg      kit.BuilderConfig
	Order    [][]int // per repository: insertion order of its documents
	Compound bool    // merge the resulting simple shards into one compound shard (only if every repository got one shard)
}

type c10Case struct {
	Corpus  kit.Corpus
	A, B    buildConfig
	Queries []kit.QSpec
	Chunk   bool
}

func genBuildConfig(g kit.G, c *kit.Corpus, tag string) buildConfig {
	bc := buildConfig{
		Cfg: kit.BuilderConfig{
			ShardMax:    kit.Pick(g, []int{60, 150, 400, 2000, 100 << 20}, tag+"shardmax"),
			SizeMax:     2 << 20,
			TrigramMax:  20000,
			Parallelism: kit.Pick(g, []int{1, 2, 4, 16}, tag+"par"),
		},
		Compound: g.Bool(35, tag+"compound"),
	}
	for i := range c.Repos {
		n := len(c.Repos[i].Docs)
		perm := rapid.Permutation(seq(n)).Draw(g.T, tag+"order")
		bc.Order = append(bc.Order, perm)
	}
	return bc
}

// genBuildConfigKeep redraws the insertion orders after the corpus changed.
func genBuildConfigKeep(g kit.G, c *kit.Corpus, bc buildConfig, tag string) buildConfig {
	bc.Order = nil
	for i := range c.Repos {
		bc.Order = append(bc.Order, rapid.Permutation(seq(len(c.Repos[i].Docs))).Draw(g.T, tag+"order"))
	}
	return bc
}

func seq(n int) []int {
	out := make([]int, n)
	for i := range out {
		out[i] = i
	}
	return out
}

// buildInto indexes the corpus under one configuration and returns the number
// of shards produced and whether they were compounded.
func buildInto(c *kit.Corpus, bc buildConfig, dir string) (nshards int, compound bool, err error) {
	for i := range c.Repos {
		if err := kit.BuildWithBuilder(&c.Repos[i], dir, bc.Cfg, bc.Order[i]); err != nil {
			return 0, false, err
		}
	}
	paths, _ := filepath.Glob(filepath.Join(dir, "*.zoekt"))
	nshards = len(paths)
	if bc.Compound && nshards == len(c.Repos) && nshards >= 2 {
		var files []index.IndexFile
		for _, p := range paths {
			f, err := os.Open(p)
			if err != nil {
				return 0, false, err
			}
			inf, err := index.NewIndexFile(f)
			if err != nil {
				return 0, false, err
			}
			defer inf.Close()
			files = append(files, inf)
		}
		tmp, dst, err := index.Merge(dir, files...)
		if err != nil {
			return 0, false, fmt.Errorf("merge: %w", err)
		}
		if err := os.Rename(tmp, dst); err != nil {
			return 0, false, err
		}
		for _, p := range paths {
			os.Remove(p)
		}
		return 1, true, nil
	}
	return nshards, false, nil
}

// hasTextAtom / orWithFilterBranch support the known-finding recognizer shared
// by C10 and C16: an Or with a branch that contains a repository-level filter
// next to a branch with a text atom. Per-shard simplification folds such a filter to
// TRUE when every repository of the shard satisfies it, which replaces the
// whole Or by TRUE and drops the matches of its text branches; whether that
// happens depends on which repositories share a shard.
func specHasText(q kit.QSpec) bool {
	t := false
	q.Atoms(func(a kit.QSpec) {
		if a.Op == "substr" || a.Op == "regex" || a.Op == "sym" {
			t = true
		}
	})
	return t
}

func specHasBranch(q kit.QSpec) bool {
	t := false
	q.Atoms(func(a kit.QSpec) {
		if a.Op == "branch" {
			t = true
		}
	})
	return t
}

func specHasRepoFilter(q kit.QSpec) bool {
	t := false
	q.Atoms(func(a kit.QSpec) {
		switch a.Op {
		case "repo", "reporegex", "reposet", "repoids", "rawconfig", "meta", "branchesrepos", "lang":
			// "lang": a shard that holds no document of the language folds
			// the atom to FALSE (TRUE under a negation)
			t = true
		}
	})
	return t
}

func orWithFilterBranch(q kit.QSpec) bool {
	if q.Op == "or" {
		// some branch holds a repository-level filter (which a shard may fold
		// to a constant, possibly making the branch TRUE) and another branch
		// holds a text or branch atom (whose matches / branch restriction are then dropped)
		for i, k := range q.Kids {
			if !specHasRepoFilter(k) {
				continue
			}
			for j, o := range q.Kids {
				if i != j && (specHasText(o) || specHasBranch(o)) {
					return true
				}
			}
		}
	}
	for _, k := range q.Kids {
		if orWithFilterBranch(k) {
			return true
		}
	}
	return false
}

// singleBranchList returns the branch of a single-entry branch / repository
// list at the query's top level (alone or in the top-level conjunction), the
// shape the sharded searcher rewrites into a branch atom when the entry covers
// every repository of the selected shards.
func singleBranchList(q kit.QSpec) string {
	kids := []kit.QSpec{q}
	if q.Op == "and" {
		kids = q.Kids
	}
	for _, k := range kids {
		if k.Op == "branchesrepos" && len(k.BR) == 1 {
			return k.BR[0].Branch
		}
	}
	return ""
}

type fileSig struct {
	Branches string
	Ranges   string
	Language string
}

func resultSig(files []zoekt.FileMatch) (map[string]fileSig, error) {
	out := map[string]fileSig{}
	for i := range files {
		f := &files[i]
		k := strings.ReplaceAll(kit.Key(f.Repository, f.FileName, f.Checksum), "\x00", "|")
		if _, dup := out[k]; dup {
			return nil, kit.Fail("duplicate-file", "file returned twice: %s", k)
		}
		var rs []string
		for _, cm := range f.ChunkMatches {
			for _, r := range cm.Ranges {
				rs = append(rs, fmt.Sprintf("%v:%d-%d", cm.FileName, r.Start.ByteOffset, r.End.ByteOffset))
			}
		}
		for _, lm := range f.LineMatches {
			for _, fr := range lm.LineFragments {
				rs = append(rs, fmt.Sprintf("%v:%d-%d", lm.FileName, fr.Offset, int(fr.Offset)+fr.MatchLength))
			}
		}
		sort.Strings(rs)
		bs := append([]string(nil), f.Branches...)
		sort.Strings(bs)
		out[k] = fileSig{Branches: strings.Join(bs, ","), Ranges: strings.Join(rs, " "), Language: f.Language}
	}
	return out, nil
}

func runC10(rec *kit.Recorder, c c10Case) error {
	tmp, err := os.MkdirTemp("", "c10")
	if err != nil {
		return err
	}
	defer os.RemoveAll(tmp)
	var searchers [2]zoekt.Streamer
	var nsh [2]int
	var comp [2]bool
	for i, bc := range []buildConfig{c.A, c.B} {
		dir := filepath.Join(tmp, fmt.Sprint(i))
		os.MkdirAll(dir, 0o755)
		n, cp, err := buildInto(&c.Corpus, bc, dir)
		if err != nil {
			return kit.Fail("build", "config %d: %v", i, err)
		}
		nsh[i], comp[i] = n, cp
		s, err := search.NewDirectorySearcher(dir)
		if err != nil {
			return kit.Fail("load", "config %d: %v", i, err)
		}
		defer s.Close()
		searchers[i] = s
	}
	nontrivial := nsh[0] != nsh[1] || comp[0] != comp[1]
	for _, qs := range c.Queries {
		q, err := qs.Q()
		if err != nil {
			continue
		}
		var sigs [2]map[string]fileSig
		for i := range searchers {
			res, err := searchers[i].Search(context.Background(), q, &zoekt.SearchOptions{ChunkMatches: c.Chunk})
			if err != nil {
				return kit.Fail("search-error", "config %d query %s: %v", i, q, err)
			}
			if res.Stats.Crashes > 0 {
				return kit.Fail("crash", "config %d query %s: %d shard crashes", i, q, res.Stats.Crashes)
			}
			sigs[i], err = resultSig(res.Files)
			if err != nil {
				return err
			}
		}
		for k, a := range sigs[0] {
			b, ok := sigs[1][k]
			if !ok {
				return kit.Fail("build-dependent", "query %s: %s found with build A (%d shards, compound=%v) but not with build B (%d shards, compound=%v)", q, k, nsh[0], comp[0], nsh[1], comp[1])
			}
			if a != b {
				known := ""
				if a.Language == b.Language && orWithFilterBranch(qs) {
					known = "C10-or-with-repo-filter-drops-matches"
				} else if br := singleBranchList(qs); br != "" && a.Language == b.Language && a.Ranges == b.Ranges &&
					(a.Branches == br && strings.Contains(","+b.Branches+",", ","+br+",") || b.Branches == br && strings.Contains(","+a.Branches+",", ","+br+",")) {
					// same file, same matches; one build reports only the
					// list's branch, the other all branches of the document
					known = "C10-single-branchesrepos-rewrite-narrows-branches"
				}
				return kit.FailKnown(known, "build-dependent", "query %s: %s differs: build A %+v, build B %+v", q, k, a, b)
			}
		}
		for k := range sigs[1] {
			if _, ok := sigs[0][k]; !ok {
				return kit.Fail("build-dependent", "query %s: %s found with build B (%d shards, compound=%v) but not with build A (%d shards, compound=%v)", q, k, nsh[1], comp[1], nsh[0], comp[0])
			}
		}
		rec.Eval(fmt.Sprintf("%+v|%+v|%+v|%+v", c.Corpus, c.A, c.B, qs), nontrivial && len(sigs[0]) > 0,
			fmt.Sprintf("shards:%d-vs-%d", min(nsh[0], 5), min(nsh[1], 5)), fmt.Sprintf("compound:%v-vs-%v", comp[0], comp[1]),
			fmt.Sprintf("par:%d-vs-%d", c.A.Cfg.Parallelism, c.B.Cfg.Parallelism))
	}
	rec.Sample(c, nontrivial)
	return nil
}

func TestVerif_C10(t *testing.T) {
	rec := kit.Open(t, "C10",
		"one generated corpus (every repository has >= 1 document; no tombstones) indexed through index.Builder under two configurations (ShardMax forcing 1..N shards, parallelism 1/2/4/16, permuted insertion order, optionally merged into a compound shard) and searched through the directory searcher with 5-8 generated queries; a case = (corpus, config pair, query); non-trivial = the two builds differ in shard count or compounding and the query returns files; distinct by hash",
		"compared: set of (repository, file, checksum), branches, match ranges, language; scores and order excluded (document order is a ranking input)",
		"compounding only when every repository produced exactly one shard (the only situation in which the indexserver merges)",
	)
	kit.Property(t, rec, func(rt *rapid.T) c10Case {
		g := kit.G{T: rt}
		o := kit.DefaultCorpus
		o.Tombstones = false
		o.Skips = false
		o.Compound = 0
		o.MaxRepos = 3
		o.MaxDocs = 10
		c := c10Case{Corpus: kit.GenCorpus(g, o), Chunk: g.Bool(50, "chunk")}
		// content-affecting limits are the same for both builds; small values
		// make some documents skipped (too large / too many trigrams)
		tm := kit.Pick(g, []int{20000, 20000, 25, 60}, "trigrammax")
		sm := kit.Pick(g, []int{2 << 20, 2 << 20, 120}, "sizemax")
		// Skipped documents of one kind all carry the same marker text (also
		// the 1-2 byte documents every build rejects as too small): of
		// same-named documents that are skipped for the same reason only the
		// first is kept, so that (repository, name, checksum) still identifies
		// a document.
		for i := range c.Corpus.Repos {
			seen := map[string]bool{}
			var docs []kit.Doc
			for _, d := range c.Corpus.Repos[i].Docs {
				if why := kit.ModelSkip(d.Content, sm, tm, false); why != 0 {
					k := fmt.Sprintf("%s\x00%d", d.Name, why)
					if seen[k] {
						continue
					}
					seen[k] = true
				}
				docs = append(docs, d)
			}
			c.Corpus.Repos[i].Docs = docs
		}
		c.A = genBuildConfig(g, &c.Corpus, "a")
		c.B = genBuildConfig(g, &c.Corpus, "b")
		c.A.Cfg.TrigramMax, c.B.Cfg.TrigramMax = tm, tm
		c.A.Cfg.SizeMax, c.B.Cfg.SizeMax = sm, sm
		n := g.Int(5, 8, "nq")
		for i := 0; i < n; i++ {
			q, _ := kit.GenQuery(g, &c.Corpus, kit.DefaultQuery, 0)
			c.Queries = append(c.Queries, q)
		}
		return c
	}, func(c c10Case) error { return runC10(rec, c) })
}
