//go:build verif

package search_test

import (
	"context"
	"fmt"
	"os"
	"sort"
	"sync"
	"testing"

	"google.golang.org/grpc/metadata"
	"pgregory.net/rapid"

	"github.com/sourcegraph/zoekt"
	"github.com/sourcegraph/zoekt/internal/tenant"
	"github.com/sourcegraph/zoekt/internal/tenant/systemtenant"
	"github.com/sourcegraph/zoekt/internal/tenant/tenanttest"
	"github.com/sourcegraph/zoekt/internal/verifkit/kit"
	"github.com/sourcegraph/zoekt/query"
)

type c23Case struct {
	matchCase
	Callers []int // tenant ids of the callers; 0 = no tenant in the context; -1 = system context
}

func callerCtx(id int) context.Context {
	ctx := context.Background()
	switch {
	case id < 0:
		return systemtenant.WithUnsafeContext(ctx)
	case id == 0:
		return ctx
	}
	out, err := tenant.Propagator{}.InjectContext(ctx, metadata.MD{"x-sourcegraph-tenant-id": {fmt.Sprint(id)}})
	if err != nil {
		panic(err)
	}
	return out
}

// visible: the corpus restricted to what the caller may see.
func visibleCorpus(c *kit.Corpus, caller int) kit.Corpus {
	out := kit.Corpus{Compound: c.Compound}
	for i := range c.Repos {
		r := c.Repos[i]
		if caller < 0 || (caller > 0 && r.TenantID == caller) {
			out.Repos = append(out.Repos, r)
		}
	}
	return out
}

// allowedIDs is set per caller: ids of the repositories the caller may see
// (repositories of different tenants may share a name).
var allowedIDs map[uint32]bool
var allowedURL map[string]map[string]bool

func checkResultVisible(allowed map[string]bool, res *zoekt.SearchResult, what string) error {
	for _, f := range res.Files {
		if !allowed[f.Repository] || !allowedIDs[f.RepositoryID] {
			return kit.Fail("tenant-leak-file", "%s: file %s of repository %s (id %d) returned", what, f.FileName, f.Repository, f.RepositoryID)
		}
	}
	for name, tpl := range res.RepoURLs {
		if want, ok := allowedURL[name]; ok && !want[tpl] {
			return kit.Fail("tenant-leak-repourl", "%s: RepoURLs[%s] = %q is the template of a repository the caller may not see (visible ones: %v)", what, name, tpl, want)
		}
	}
	for name := range res.RepoURLs {
		if !allowed[name] {
			return kit.Fail("tenant-leak-repourl", "%s: RepoURLs names repository %s (template %q)", what, name, res.RepoURLs[name])
		}
	}
	for name := range res.LineFragments {
		if !allowed[name] {
			return kit.Fail("tenant-leak-linefragment", "%s: LineFragments names repository %s", what, name)
		}
	}
	return nil
}

func runC23(t *testing.T, rec *kit.Recorder, c c23Case) error {
	tmp, err := os.MkdirTemp("", "c23")
	if err != nil {
		return err
	}
	defer os.RemoveAll(tmp)
	// input domain (also for replayed cases): one tenant never has two
	// repositories under one name - results are keyed by repository name
	for i := range c.Corpus.Repos {
		for j := 0; j < i; j++ {
			if c.Corpus.Repos[j].Name == c.Corpus.Repos[i].Name && c.Corpus.Repos[j].TenantID == c.Corpus.Repos[i].TenantID {
				c.Corpus.Repos[i].Name = fmt.Sprintf("%s-%d", c.Corpus.Repos[i].Name, c.Corpus.Repos[i].ID)
			}
		}
	}
	mc := c.matchCase
	mc.Via = "dir"
	e, err := openEnv(&mc, tmp)
	if err != nil {
		return kit.Fail("build", "%v", err)
	}
	defer e.close()
	ckey := fmt.Sprintf("%x", kit.Checksum([]byte(fmt.Sprintf("%+v", c.Corpus))))
	anyNT := false
	for _, caller := range c.Callers {
		ctx := callerCtx(caller)
		vis := visibleCorpus(&c.Corpus, caller)
		allowed := map[string]bool{}
		allowedIDs = map[uint32]bool{}
		allowedURL = map[string]map[string]bool{}
		for i := range vis.Repos {
			allowedIDs[vis.Repos[i].ID] = true
			if allowedURL[vis.Repos[i].Name] == nil {
				allowedURL[vis.Repos[i].Name] = map[string]bool{}
			}
			allowedURL[vis.Repos[i].Name][vis.Repos[i].FileURL] = true
			allowed[vis.Repos[i].Name] = true
			for _, p := range vis.Repos[i].SubRepos {
				allowed[vis.Repos[i].Name+"/"+p] = true
			}
		}
		for _, qs := range c.Queries {
			q, err := qs.Q()
			if err != nil {
				continue
			}
			want, err := kit.Expected(&vis, q)
			if err != nil {
				continue
			}
			others, _ := kit.Expected(&c.Corpus, q)
			what := fmt.Sprintf("caller %d query %s", caller, q)
			opts := zoekt.SearchOptions{ChunkMatches: c.Chunk}
			// bare shards
			got := map[string]bool{}
			failed := false
			for _, s := range e.built.Shards {
				o := opts
				var res *zoekt.SearchResult
				if err := kit.Guard(func() error {
					var err error
					res, err = s.Search(ctx, q, &o)
					return err
				}); err != nil {
					failed = true
					break
				}
				if err := checkResultVisible(allowed, res, what+" (shard Search)"); err != nil {
					return err
				}
				for _, f := range res.Files {
					got[kit.Key(f.Repository, f.FileName, f.Checksum)] = true
				}
			}
			if failed {
				continue // C01's subject
			}
			if m, x := diffSets(want, got); len(m)+len(x) > 0 {
				return kit.Fail("tenant-incomplete", "%s (shard Search): missing %q extra %q", what, m, x)
			}
			// match limits make the search walk the documents differently; the
			// access invariant must hold for every setting
			for _, lo := range []zoekt.SearchOptions{{ShardRepoMaxMatchCount: 1}, {ShardRepoMaxMatchCount: 2}, {ShardMaxMatchCount: 1}, {ShardRepoMaxMatchCount: 1, ChunkMatches: true}} {
				for _, s := range e.built.Shards {
					o := lo
					res, err := s.Search(ctx, q, &o)
					if err != nil {
						break
					}
					if err := checkResultVisible(allowed, res, fmt.Sprintf("%s (shard Search, ShardRepoMaxMatchCount=%d ShardMaxMatchCount=%d)", what, lo.ShardRepoMaxMatchCount, lo.ShardMaxMatchCount)); err != nil {
						return err
					}
				}
			}
			// directory searcher: Search
			o := opts
			res, err := e.dir.Search(ctx, q, &o)
			if err != nil {
				return kit.Fail("search-error", "%s: %v", what, err)
			}
			if err := checkResultVisible(allowed, res, what+" (Search)"); err != nil {
				return err
			}
			// keyed by repository name, file name and checksum; the same file of
			// two same-named repositories (different tenants, both visible to
			// the system context) is one key, but one repository must not
			// return a file twice
			got = map[string]bool{}
			seenByID := map[string]bool{}
			for i := range res.Files {
				k := kit.Key(res.Files[i].Repository, res.Files[i].FileName, res.Files[i].Checksum)
				idk := fmt.Sprintf("%d\x00%s", res.Files[i].RepositoryID, k)
				if seenByID[idk] {
					return kit.Fail("duplicate-file", "%s (Search): file returned twice: %q", what, idk)
				}
				seenByID[idk] = true
				got[k] = true
			}
			if m, x := diffSets(want, got); len(m)+len(x) > 0 {
				if len(m) == 0 && singleHeadList(&c.Corpus, qs) {
					// the sharded searcher's rewrite of a single-entry branch
					// list on HEAD (finding of C18, not a tenancy matter): every
					// returned file was checked to be visible to the caller
					// above; completeness is C18's subject for this query shape
					rec.Label("excluded:single-branchesrepos-head-rewrite(C18)")
				} else {
					return kit.Fail("tenant-incomplete", "%s (Search): missing %q extra %q", what, m, x)
				}
			}
			// StreamSearch: every event
			var mu sync.Mutex
			var evErr error
			o = opts
			err = e.dir.StreamSearch(ctx, q, &o, zoekt.SenderFunc(func(r *zoekt.SearchResult) {
				mu.Lock()
				defer mu.Unlock()
				if evErr == nil {
					evErr = checkResultVisible(allowed, r, what+" (StreamSearch event)")
				}
			}))
			if err != nil {
				return kit.Fail("search-error", "%s (stream): %v", what, err)
			}
			if evErr != nil {
				return evErr
			}
			nt := caller > 0 && len(others) > len(want) // the query matches documents the caller must not see
			anyNT = anyNT || nt
			rec.Eval(ckey+fmt.Sprintf("|%d|%+v", caller, qs), nt, fmt.Sprintf("caller:%d", min(caller, 3)))
		}
		// listings, both fields, bare and sharded
		for _, field := range []zoekt.RepoListField{zoekt.RepoListFieldRepos, zoekt.RepoListFieldReposMap} {
			lopts := &zoekt.ListOptions{Field: field}
			idAllowed := map[uint32]bool{}
			for i := range vis.Repos {
				idAllowed[vis.Repos[i].ID] = true
			}
			checkList := func(rl *zoekt.RepoList, what string) error {
				for _, e := range rl.Repos {
					if !allowed[e.Repository.Name] || !idAllowed[e.Repository.ID] {
						return kit.Fail("tenant-leak-list", "%s: repository %s (id %d, tenant %d) listed", what, e.Repository.Name, e.Repository.ID, e.Repository.TenantID)
					}
				}
				for id := range rl.ReposMap {
					if !idAllowed[id] {
						return kit.Fail("tenant-leak-list", "%s: repository id %d listed", what, id)
					}
				}
				return nil
			}
			var names []string
			for _, s := range e.built.Shards {
				rl, err := s.List(ctx, &query.Const{Value: true}, lopts)
				if err != nil {
					return kit.Fail("list-error", "%v", err)
				}
				if err := checkList(rl, fmt.Sprintf("caller %d shard List field %v", caller, field)); err != nil {
					return err
				}
			}
			// listings restricted by a query take another path than List(TRUE)
			for _, qs := range c.Queries {
				lq, err := qs.Q()
				if err != nil {
					continue
				}
				if _, err := kit.Expected(&vis, lq); err != nil {
					continue
				}
				for _, s := range e.built.Shards {
					var lrl *zoekt.RepoList
					if err := kit.Guard(func() error {
						var err error
						lrl, err = s.List(ctx, lq, lopts)
						return err
					}); err != nil {
						break
					}
					if err := checkList(lrl, fmt.Sprintf("caller %d shard List(%s) field %v", caller, lq, field)); err != nil {
						return err
					}
				}
				if lrl, err := e.dir.List(ctx, lq, lopts); err == nil {
					if err := checkList(lrl, fmt.Sprintf("caller %d List(%s) field %v", caller, lq, field)); err != nil {
						return err
					}
				}
			}
			rl, err := e.dir.List(ctx, &query.Const{Value: true}, lopts)
			if err != nil {
				return kit.Fail("list-error", "%v", err)
			}
			if err := checkList(rl, fmt.Sprintf("caller %d List field %v", caller, field)); err != nil {
				return err
			}
			for _, e := range rl.Repos {
				names = append(names, e.Repository.Name)
			}
			if field == zoekt.RepoListFieldRepos {
				var wantNames []string
				for i := range vis.Repos {
					if vis.Live(&vis.Repos[i]) {
						wantNames = append(wantNames, vis.Repos[i].Name)
					}
				}
				// compared as sets: the sharded List keys its entries by name, and
				// only the system caller can see two repositories of one name
				names, wantNames = uniqSorted(names), uniqSorted(wantNames)
				if fmt.Sprint(names) != fmt.Sprint(wantNames) {
					return kit.Fail("tenant-list-incomplete", "caller %d List: got %v want %v", caller, names, wantNames)
				}
			}
		}
	}
	rec.Sample(c, anyNT)
	return nil
}

func TestVerif_C23(t *testing.T) {
	tenanttest.MockEnforce(t)
	rec := kit.Open(t, "C23",
		"strict tenant enforcement; C01 corpora whose repositories belong to tenants 1-3 or to none, in simple and compound shards; callers: tenant 1-3, no tenant, system context; every C01 query kind plus type:repo; bare shard Search, directory Search, every StreamSearch event, List with both fields; oracle: nothing returned (files, RepoURLs / LineFragments keys, list entries) belongs to a repository the caller may not see, and the caller's own results are complete (reference evaluator on the visible part of the corpus); non-trivial = a tenant caller's query also matches documents of repositories it must not see; distinct by hash",
		"a repository without tenant id is visible to the system context only",
	)
	kit.Property(t, rec, func(rt *rapid.T) c23Case {
		var labels [][]string
		g := kit.G{T: rt}
		o := kit.DefaultCorpus
		o.Tenants = 3
		o.Compound = 60
		o.MaxDocs = 5
		o.MaxTokens = 15
		qo := kit.DefaultQuery
		c := c23Case{matchCase: genMatchCase(rt, o, qo, &labels)}
		c.Queries = append(c.Queries, kit.QSpec{Op: "const", Val: true},
			kit.QSpec{Op: "type", Num: float64(query.TypeRepo), Kids: []kit.QSpec{{Op: "substr", Pat: kit.Pick(g, []string{"foo", "a", "needle"}, "trp")}}},
			kit.QSpec{Op: "substr", Pat: kit.Pick(g, []string{"foo", "a", "o"}, "broad")})
		// repositories of different tenants may share a name (the id differs)
		for i := range c.Corpus.Repos {
			r := &c.Corpus.Repos[i]
			if i > 0 && g.Bool(35, "samename") && c.Corpus.Repos[i-1].TenantID != r.TenantID {
				// never two repositories of one tenant under one name (results are
				// keyed by repository name, file name and checksum)
				clash := false
				for j := 0; j < i; j++ {
					if c.Corpus.Repos[j].Name == c.Corpus.Repos[i-1].Name && c.Corpus.Repos[j].TenantID == r.TenantID {
						clash = true
					}
				}
				if !clash {
					r.Name = c.Corpus.Repos[i-1].Name
				}
			}
			r.FileURL = fmt.Sprintf("http://tenant%d.example/%s/blob/{{.Version}}/{{.Path}}", r.TenantID, r.Name)
		}
		n := g.Int(2, 3, "ncallers")
		for i := 0; i < n; i++ {
			c.Callers = append(c.Callers, kit.Pick(g, []int{1, 2, 3, 1, 2, 0, -1}, "caller"))
		}
		return c
	}, func(c c23Case) error { return runC23(t, rec, c) })
}

func uniqSorted(in []string) []string {
	m := map[string]bool{}
	for _, s := range in {
		m[s] = true
	}
	out := make([]string, 0, len(m))
	for s := range m {
		out = append(out, s)
	}
	sort.Strings(out)
	return out
}
