//go:build verif

package search

// C19: shard reloads are safe under concurrent search and converge to disk.
//
// Part (a), deterministic: a state machine over a temporary index directory.
// Actions: write a shard file (create, or replace by rename with a new content
// version), delete, .meta sidecar update, files whose name carries an older /
// newer / unreadable index format version, and scan() as an explicit action
// of a hand-built DirectoryWatcher whose loader is the real loader of a real
// shardedSearcher (no fsnotify goroutine). Every document carries its
// repository, content version and position, so results reveal which shard
// version served them. File modification times are set by the harness
// (logical clock): every write is visible to the watcher's mtime comparison.
//
// Held calls (action "hold", both parts): one Search / StreamSearch /
// List(query) is stopped at a point the harness controls after it has started
// - a call of the StreamSearch sender (the first one comes right after the
// shard list was taken, later ones between shards), or the n-th time the call
// consults the context it was given - and while it is stopped, shard files are
// replaced / removed / given a sidecar, the watcher scans (unloading them),
// and one to three garbage collections are forced, each followed by a wait
// for the finalizer queue (the deferred close of unloaded shards is a
// finalizer). Then the call continues. It must finish without error or
// crashed shard and show, per repository, the complete documents of the shard
// version loaded before or after that scan; the process dying on unmapped
// shard memory is reported through the case journal.
//
// Part (b), stress (cases with Stress=true, labelled mode:stress): the same
// actions while goroutines search and list continuously, a scanner goroutine
// calls scan() in a loop and runtime.GC() is forced (finalizer munmap of the
// replaced shards). Built with -race. Oracles there: no crash (Stats.Crashes
// == 0, no panic, no fault, no race report: GORACE=halt_on_error=1 plus the
// journal turn process death into a violation), every result shows for each
// repository one version with that version's complete document set, and once
// the directory stops changing a scan converges to disk.

import (
	"bytes"
	"context"
	"encoding/base64"
	"encoding/json"
	"fmt"
	"os"
	"path/filepath"
	"runtime"
	"sort"
	"strconv"
	"strings"
	"sync"
	"sync/atomic"
	"testing"
	"time"

	"pgregory.net/rapid"

	"github.com/sourcegraph/zoekt"
	"github.com/sourcegraph/zoekt/index"
	"github.com/sourcegraph/zoekt/internal/verifkit/kit"
	"github.com/sourcegraph/zoekt/query"
)

type c19Op struct {
	// K: write | delete | meta | scan | search | list | gc | hold
	K string
	// write: repository index and the format version in the file name
	R int `json:",omitempty"`
	F int `json:",omitempty"`
	// delete / meta: selects among the shard files that exist (sorted by path)
	Sel int `json:",omitempty"`
	// write over an existing file: keep its .meta sidecar
	Keep bool `json:",omitempty"`
	// write: the new file gets an mtime *older* than every earlier one (a
	// restored file); its sidecar is dropped
	Old bool `json:",omitempty"`

	// hold: one search or listing that is kept in flight while the directory
	// changes. Via says which call and through which of its callbacks the
	// harness gets control:
	//   stream      StreamSearch, at its At-th call of the sender (0 = the
	//               first one, made after the shard list was taken and before
	//               any shard is searched; later ones come between shards)
	//   stream-ctx  StreamSearch,   |  at the At-th time the call consults its
	//   search      Search,         |  context (Done / Err / Value / Deadline,
	//   listq       List(query),    |  counted from the start of the call)
	// At that point the harness applies the directory actions During, lets the
	// watcher scan (so replaced / removed shards are unloaded), forces GCs
	// garbage collections and waits for the finalizer queue to drain; only then
	// does the call continue.
	Via    string  `json:",omitempty"`
	At     int     `json:",omitempty"`
	GCs    int     `json:",omitempty"`
	During []c19Op `json:",omitempty"`
}

type c19Case struct {
	Repos int
	Ops   []c19Op

	Stress    bool `json:",omitempty"`
	Searchers int  `json:",omitempty"`
}

// ---------------------------------------------------------------------------
// content: a pure function of (repository, content version)

const c19Marker = "zzverif"

// Building a shard costs tens of seconds under the race detector on a loaded
// machine (index.NewShardBuilder allocates two 16 MiB tables and a large map,
// whose shadow memory has to be reset). So only two genuine shards are built
// with index.NewShardBuilder, one per document count, with fixed-width
// placeholders for the repository and the content version; the shard of
// (repository, version) is a copy with the placeholders overwritten (content,
// repository metadata JSON: same length, no checksums involved; the trigram
// index of the placeholder characters goes stale, nothing searches for them).
// c19SelfTest validates the construction through index.NewSearcher before any
// history runs.
const (
	c19RepoTok = "Q"
	c19VerTok  = "WXYZ"
)

func c19NumDocs(repo, ver int) int { return 2 + (ver+repo)%2 }

func c19ContentT(repoTok, verTok string, doc, ndocs int) string {
	var sb strings.Builder
	fmt.Fprintf(&sb, "%s repo=%s ver=%s doc=%d of=%d\n", c19Marker, repoTok, verTok, doc, ndocs)
	for i := 0; i < 1+2*doc; i++ {
		fmt.Fprintf(&sb, "filler line %d of document %d in a shard of %d\n", i, doc, ndocs)
	}
	return sb.String()
}

func c19VerStr(ver int) string { return fmt.Sprintf("%04d", ver) }

func c19Content(repo, ver, doc int) string {
	return c19ContentT(strconv.Itoa(repo), c19VerStr(ver), doc, c19NumDocs(repo, ver))
}

func c19RepoT(id uint32, repoTok, idTok, verTok string) *zoekt.Repository {
	return &zoekt.Repository{
		ID:        id,
		Name:      "r" + repoTok,
		Branches:  []zoekt.RepositoryBranch{{Name: "HEAD", Version: "v" + verTok}},
		RawConfig: map[string]string{"repoid": idTok},
		Metadata:  map[string]string{"cv": verTok},
	}
}

// c19Repo is the repository description of (repo, ver), as the shard carries
// it and as sidecars are derived from.
func c19Repo(repo, ver int) *zoekt.Repository {
	return c19RepoT(uint32(repo+1), strconv.Itoa(repo), strconv.Itoa(repo+1), c19VerStr(ver))
}

var c19Templates = map[int][]byte{} // by number of documents

func c19BuildTemplates() error {
	var wg sync.WaitGroup
	var mu sync.Mutex
	var firstErr error
	for _, n := range []int{2, 3} {
		wg.Add(1)
		go func(n int) {
			defer wg.Done()
			b, err := func() ([]byte, error) {
				sb, err := index.NewShardBuilder(c19RepoT(0, c19RepoTok, c19RepoTok, c19VerTok))
				if err != nil {
					return nil, err
				}
				for d := 0; d < n; d++ {
					if err := sb.Add(index.Document{Name: fmt.Sprintf("d%d.txt", d), Content: []byte(c19ContentT(c19RepoTok, c19VerTok, d, n)), Branches: []string{"HEAD"}}); err != nil {
						return nil, err
					}
				}
				var buf bytes.Buffer
				if err := sb.Write(&buf); err != nil {
					return nil, err
				}
				return buf.Bytes(), nil
			}()
			mu.Lock()
			defer mu.Unlock()
			if err != nil && firstErr == nil {
				firstErr = err
			}
			c19Templates[n] = b
		}(n)
	}
	wg.Wait()
	return firstErr
}

// c19Embedded holds the two template shards as index.NewShardBuilder of the
// pinned tree wrote them when this harness was authored (VERIF_C19_DUMP). The
// quick tier starts from these if they pass c19SelfTest on the tree under
// test (they are ordinary format-16 shards, as a deployment would still have
// them on disk after a binary upgrade); otherwise, and always with
// VERIF_C19_TEMPLATES=fresh (thorough tier), the templates are built anew.
var c19Embedded = map[int]string{
	2: "enp2ZXJpZiByZXBvPVEgdmVyPVdYWVogZG9jPTAgb2Y9MgpmaWxsZXIgbGluZSAwIG9mIGRvY3VtZW50IDAgaW4gYSBzaGFyZCBvZiAyCnp6dmVyaWYgcmVwbz1RIHZlcj1XWFlaIGRvYz0xIG9mPTIKZmlsbGVyIGxpbmUgMCBvZiBkb2N1bWVudCAxIGluIGEgc2hhcmQgb2YgMgpmaWxsZXIgbGluZSAxIG9mIGRvY3VtZW50IDEgaW4gYSBzaGFyZCBvZiAyCmZpbGxlciBsaW5lIDIgb2YgZG9jdW1lbnQgMSBpbiBhIHNoYXJkIG9mIDIKAAAAAAAAAE8CIiwEIiwsLAAAAP4AAAEBAAAAAAAAAAAAAAAAAAAAAAAAAAEAAAAAAAAAAQAAAAABKgAAASsAACgADMAAaQAAgAAGAAAgAACAAAYgACAAAIAABkAACgAAgAAGQAAgAACAAAwgACAAAIAADIAAbwAAgAANIABuAACAAA2AAGkAAIAADeAAZgAAgAAOQABlAACAAA5gAGgAAIAADsAAZQAAwAAEAABpAADAAAQAAG8AAMQABAAAaQAAxAAEAABvAADIAAFAAGYAAMgABAAAbwAA9AAGAAAgAAD0AAYgACAAAPQABkAACgAA9AAKIAAgAAD0AArgAFgAAUQABAAAdgABXAALAABZAAFgAAsgAFoAAWQAC0AAIAABaAAEAABkAAGEAAQAAHMAAYQADkAAZAABjAAHoAAwAAGMAAegADEAAYwADqAAbQABkAAEAABvAAGQAA3gAGMAAZQABAAAMAABlAAEAAAxAAGUAAQAADIAAZQADcAAdAABlAAOAABvAAGUAA5AACAAAZQADkAAPQABlAAOQABpAAGYAAQAADIAAZgABAAAZAABmAAEAAByAAGYAAegADIAAZgADSAAbAABoAAMIAByAAGkAAzAACAAAaQADYAAbAABpAANwAAgAAGkAA3AAGUAAbAADKAAcgABsAANIABuAAGwAA2AAGUAAbQADKAAbgABuAAEAABhAAG4AAygACAAAbgADoAAIAABvAAHoABRAAG8AAxgAD0AAbwADGAAdQABvAAMwAAgAAG8AAzAAD0AAcAADeAAPQAByAAEAABsAAHIAAegAFcAAcgADIAAIAAByAAMoABwAAHIAA0gAGYAAcwADQAAYQAB0AAEAAAwAAHQAAQAADEAAdQADaAAZQAB2AAMoAByAAHoAA7AAGUAAegAD0AAdiJPLCwuDkGLAR4OLExPLCzVAUFPLCwXHDMcLCw+TywsKU8sLB0TGSMTGRMZExkHT0NPLCwOTz0cE0+MASwsaz8hTyws1gEbaiBPDE8STw1PE08UTxVPFk9CTywsRk8sLBppNk8sLEhPLCwYHDMcLCwtT6gB1AE5TywsCU8nTywsEE8DT0tPLCwyTywsBk8fTyNPLCxFTywsBU8kTywsP08sLCtPLCwmTywsKk8sLCVPLCw4TywsQE8sLCxPLCw6TywsC08ZTzVPLCwxGTYZExkTGR5PCk8oTywsEU9HTywsCE8ET0RPLCw7igEsLDdPLCwCDUINAU8ATwAAA6wAAAOwAAADswAAA7gAAAO8AAADvgAAA8IAAAPIAAADzAAAA9AAAAPaAAAD3AAAA+AAAAPiAAAD4wAAA+YAAAPqAAAD7AAAA/AAAAPyAAAD8wAAA/QAAAP2AAAD+AAAA/oAAAP8AAAD/gAABAAAAAQCAAAEBAAABAgAAAQMAAAEDQAABA4AAAQSAAAEFgAABBwAAAQeAAAEIAAABCIAAAQmAAAEKAAABCwAAAQuAAAEMAAABDQAAAQ4AAAEOgAABDwAAARAAAAERAAABEYAAARKAAAETgAABFIAAARWAAAEWgAABF4AAARiAAAEZgAABGoAAARuAAAEcAAABHIAAAR2AAAEfgAABIAAAASCAAAEhgAABIgAAASMAAAEjgAABJAAAASUAAAElQAABJkAAASdAAAEoQAABKMDAGRkAk+nAWQwLnR4dGQxLnR4dAAABekAAAXvAAC4AA6AAHgAAMAABcAAdAAAxAAFwAB0AAGQAAYAAC4AAZAABiAALgAB0AAPAAB0AgYBBwAGAwYAAAYtAAAGLwAABjAAAAYxAAAGMgAABjMBAAIGBgIAANpxjpMpRDQSB/KHzH3kKkEAAAAAAQEAeyJJbmRleEZvcm1hdFZlcnNpb24iOjE2LCJJbmRleEZlYXR1cmVWZXJzaW9uIjoxMiwiSW5kZXhNaW5SZWFkZXJWZXJzaW9uIjoxMCwiSW5kZXhUaW1lIjoiMjAyNi0wOS0yMlQwMzowMjoyOC41MjU4NTQ5NDNaIiwiUGxhaW5BU0NJSSI6dHJ1ZSwiTGFuZ3VhZ2VNYXAiOnsiVGV4dCI6MH0sIlpvZWt0VmVyc2lvbiI6IiIsIklEIjoiIn17IlRlbmFudElEIjowLCJJRCI6MCwiTmFtZSI6InJRIiwiVVJMIjoiIiwiTWV0YWRhdGEiOnsiY3YiOiJXWFlaIn0sIlNvdXJjZSI6IiIsIkJyYW5jaGVzIjpbeyJOYW1lIjoiSEVBRCIsIlZlcnNpb24iOiJ2V1hZWiJ9XSwiU3ViUmVwb01hcCI6e30sIkNvbW1pdFVSTFRlbXBsYXRlIjoiIiwiRmlsZVVSTFRlbXBsYXRlIjoiIiwiTGluZUZyYWdtZW50VGVtcGxhdGUiOiIiLCJSYXdDb25maWciOnsicmVwb2lkIjoiUSJ9LCJSYW5rIjowLCJJbmRleE9wdGlvbnMiOiIiLCJIYXNTeW1ib2xzIjpmYWxzZSwiVG9tYnN0b25lIjpmYWxzZSwiTGF0ZXN0Q29tbWl0RGF0ZSI6IjAwMDEtMDEtMDFUMDA6MDA6MDBaIn0AAAAACG1ldGFEYXRhAAAABmwAAAC/DHJlcG9NZXRhRGF0YQAAAAcrAAABWQxmaWxlQ29udGVudHMBAAAAAAAAAPYAAAD2AAAACAlmaWxlTmFtZXMBAAAF6QAAAAwAAAX1AAAACAxmaWxlU2VjdGlvbnMBAAABKgAAAAIAAAEsAAAACA1maWxlRW5kU3ltYm9sAAAAAQ4AAAAMCXN5bWJvbE1hcAIAAAEaAAAAAAAAARoAAAAADXN5bWJvbEtpbmRNYXABAAABGgAAAAAAAAEaAAAAAA5zeW1ib2xNZXRhRGF0YQAAAAEaAAAAAAhuZXdsaW5lcwEAAAD+AAAACAAAAQYAAAAICW5ncmFtVGV4dAAAAAE0AAACeAhwb3N0aW5ncwEAAAOsAAAA+QAABKUAAAE8DW5hbWVOZ3JhbVRleHQAAAAF/QAAADAMbmFtZVBvc3RpbmdzAQAABi0AAAAIAAAGNQAAABgLYnJhbmNoTWFza3MAAAABGgAAABAIc3ViUmVwb3MAAAAGUgAAAAMLcnVuZU9mZnNldHMAAAAF4QAAAAQPbmFtZVJ1bmVPZmZzZXRzAAAABk0AAAACDGZpbGVFbmRSdW5lcwAAAAXlAAAABAxuYW1lRW5kUnVuZXMAAAAGTwAAAAMQY29udGVudENoZWNrc3VtcwAAAAZVAAAAEAlsYW5ndWFnZXMAAAAGZQAAAAQKY2F0ZWdvcmllcwAAAAZpAAAAAg9ydW5lRG9jU2VjdGlvbnMAAAAGawAAAAEFcmVwb3MAAAAAAAAAAAAOcmVwb3NJRHNCaXRtYXAAAAAAAAAAAAAJbmFtZUJsb29tAAAAAAAAAAAADGNvbnRlbnRCbG9vbQAAAAAAAAAAAAVyYW5rcwAAAAAAAAAAAAAACIQAAAKi",
	3: "enp2ZXJpZiByZXBvPVEgdmVyPVdYWVogZG9jPTAgb2Y9MwpmaWxsZXIgbGluZSAwIG9mIGRvY3VtZW50IDAgaW4gYSBzaGFyZCBvZiAzCnp6dmVyaWYgcmVwbz1RIHZlcj1XWFlaIGRvYz0xIG9mPTMKZmlsbGVyIGxpbmUgMCBvZiBkb2N1bWVudCAxIGluIGEgc2hhcmQgb2YgMwpmaWxsZXIgbGluZSAxIG9mIGRvY3VtZW50IDEgaW4gYSBzaGFyZCBvZiAzCmZpbGxlciBsaW5lIDIgb2YgZG9jdW1lbnQgMSBpbiBhIHNoYXJkIG9mIDMKenp2ZXJpZiByZXBvPVEgdmVyPVdYWVogZG9jPTIgb2Y9MwpmaWxsZXIgbGluZSAwIG9mIGRvY3VtZW50IDIgaW4gYSBzaGFyZCBvZiAzCmZpbGxlciBsaW5lIDEgb2YgZG9jdW1lbnQgMiBpbiBhIHNoYXJkIG9mIDMKZmlsbGVyIGxpbmUgMiBvZiBkb2N1bWVudCAyIGluIGEgc2hhcmQgb2YgMwpmaWxsZXIgbGluZSAzIG9mIGRvY3VtZW50IDIgaW4gYSBzaGFyZCBvZiAzCmZpbGxlciBsaW5lIDQgb2YgZG9jdW1lbnQgMiBpbiBhIHNoYXJkIG9mIDMKAAAAAAAAAE8AAAD2AiIsBCIsLCwGIiwsLCwsAAACAQAAAgQAAAIJAAAAAAAAAAAAAAAAAAAAAAAAAAAAAAABAAAAAAAAAAEAAAAAAAAAAQAAAAAAAkQAAAJFAAACRgAAKAAMwABpAACAAAYAACAAAIAABiAAIAAAgAAGQAAgAACAAAZgAAoAAIAABmAAIAAAgAAGgAAgAACAAAwgACAAAIAADIAAbwAAgAANIABuAACAAA2AAGkAAIAADeAAZgAAgAAOQABlAACAAA5gAGgAAIAADsAAZQAAwAAEAABpAADAAAQAAG8AAMQABAAAaQAAxAAEAABvAADIAAQAAGkAAMgABAAAbwAAzAABQABmAADMAAQAAG8AANAABAAAbwAA9AAGAAAgAAD0AAYgACAAAPQABkAAIAAA9AAGYAAKAAD0AAogACAAAPQACuAAWAABRAAEAAB2AAFcAAsAAFkAAWAACyAAWgABZAALQAAgAAFoAAQAAGQAAYQABAAAcwABhAAOQABkAAGMAAegADAAAYwAB6AAMQABjAAHoAAyAAGMAA6gAG0AAZAABAAAbwABkAAN4ABjAAGUAAQAADAAAZQABAAAMQABlAAEAAAyAAGUAAQAADMAAZQABAAANAABlAANwAB0AAGUAA4AAG8AAZQADkAAIAABlAAOQAA9AAGUAA5AAGkAAZgABAAAMwABmAAEAABkAAGYAAQAAHIAAZgAB6AAMwABmAANIABsAAGgAAwgAHIAAaQADMAAIAABpAANgABsAAGkAA3AACAAAaQADcAAZQABsAAMoAByAAGwAA0gAG4AAbAADYAAZQABtAAMoABuAAG4AAQAAGEAAbgADKAAIAABuAAOgAAgAAG8AAegAFEAAbwADGAAPQABvAAMYAB1AAG8AAzAACAAAbwADMAAPQABwAAN4AA9AAHIAAQAAGwAAcgAB6AAVwAByAAMgAAgAAHIAAygAHAAAcgADSAAZgABzAANAABhAAHQAAQAADAAAdAABAAAMQAB0AAEAAAyAAHUAA2gAGUAAdgADKAAcgAB6AAOwABlAAHoAA9AAHYiTywsTywsLCwuDkGnAYsBHg4sbdUBXSweDiwsTE8sLE8sLCwsqAPUA0FPLCxPLCwsLBccMxwsLDMcLCwsLD5PLCxPLCwsLClPLCxPLCwsLB0TGSMTGRMZExkjExkTGRMZExkTGQdPpwFDTywsTywsLCwOT6cBPRwTT6cBjAEsLGs/pwGzAiwsLCzWATxrIU8sLE8sLCwsqQPVAxtqkQIgT6cBDE+nARJPpwENT6cBE0+nARRPpwEVT6cBFk+nAUJPLCxPLCwsLEZPLCxPLCwsLBppkAI2TywsTywsLCxITywsTywsLCwYHDMcLCwzHCwsLCwtT6cBqAGnAdQBpwGnA9MDOU8sLE8sLCwsCU+nASdPLCxPLCwsLBBPpwEDT6cBS08sLE8sLCwsMk8sLE8sLCwsBk+nAR9PpwEjTywsTywsLCxFTywsTywsLCwFT6cBJE8sLE8sLCwsP08sLE8sLCwsK08sLE8sLCwsJk8sLE8sLCwsKk8sLE8sLCwsJU8sLE8sLCwsOE8sLE8sLCwsQE8sLE8sLCwsLE8sLE8sLCwsOk8sLE8sLCwsC0+nARlPpwE1TywsTywsLCwxGTYZExkTGTYZExkTGRMZExkeT6cBCk+nAShPLCxPLCwsLBFPpwFHTywsTywsLCwIT6cBBE+nAURPLCxPLCwsLDuKASwssQIsLCwsN08sLE8sLCwsAg1CDZoBDQFPpwEAT6cBAAAFGwAABSQAAAUpAAAFLwAABTcAAAVAAAAFQgAABUQAAAVNAAAFWQAABWIAAAVrAAAFgAAABYQAAAWNAAAFkQAABZIAAAWXAAAFmwAABZ8AAAWlAAAFqQAABbIAAAW0AAAFtgAABbcAAAW4AAAFugAABb4AAAXCAAAFxgAABcoAAAXOAAAF0gAABdYAAAXaAAAF4wAABewAAAXtAAAF7gAABfAAAAX5AAAGAgAABg4AAAYSAAAGFgAABhoAAAYcAAAGHgAABicAAAYrAAAGNAAABjgAAAY8AAAGRQAABk4AAAZSAAAGVgAABl8AAAZoAAAGbAAABnUAAAZ+AAAGhwAABpAAAAaZAAAGogAABqsAAAa0AAAGvQAABsYAAAbKAAAGzgAABtcAAAbpAAAG7QAABvEAAAb6AAAG/gAABwcAAAcLAAAHDwAABxgAAAcZAAAHHQAAByMAAAcsAAAHMwAABzcGAGRkZGRkA0+nAf8BZDAudHh0ZDEudHh0ZDIudHh0AAAIrAAACLIAAAi4AAC4AA6AAHgAAMAABcAAdAAAxAAFwAB0AADIAAXAAHQAAZAABgAALgABkAAGIAAuAAGQAAZAAC4AAdAADwAAdAIGBgEHDQAGDAMGBgAACQoAAAkNAAAJDgAACQ8AAAkQAAAJEQAACRIAAAkTAQADBgYGAwAAAMYAPpMpRWVX7oImzCj0jxRldriLwsbzvgAAAAAAAAEBAQB7IkluZGV4Rm9ybWF0VmVyc2lvbiI6MTYsIkluZGV4RmVhdHVyZVZlcnNpb24iOjEyLCJJbmRleE1pblJlYWRlclZlcnNpb24iOjEwLCJJbmRleFRpbWUiOiIyMDI2LTA5LTIyVDAzOjAyOjI1LjQzMDU0OTA2WiIsIlBsYWluQVNDSUkiOnRydWUsIkxhbmd1YWdlTWFwIjp7IlRleHQiOjB9LCJab2VrdFZlcnNpb24iOiIiLCJJRCI6IiJ9eyJUZW5hbnRJRCI6MCwiSUQiOjAsIk5hbWUiOiJyUSIsIlVSTCI6IiIsIk1ldGFkYXRhIjp7ImN2IjoiV1hZWiJ9LCJTb3VyY2UiOiIiLCJCcmFuY2hlcyI6W3siTmFtZSI6IkhFQUQiLCJWZXJzaW9uIjoidldYWVoifV0sIlN1YlJlcG9NYXAiOnt9LCJDb21taXRVUkxUZW1wbGF0ZSI6IiIsIkZpbGVVUkxUZW1wbGF0ZSI6IiIsIkxpbmVGcmFnbWVudFRlbXBsYXRlIjoiIiwiUmF3Q29uZmlnIjp7InJlcG9pZCI6IlEifSwiUmFuayI6MCwiSW5kZXhPcHRpb25zIjoiIiwiSGFzU3ltYm9scyI6ZmFsc2UsIlRvbWJzdG9uZSI6ZmFsc2UsIkxhdGVzdENvbW1pdERhdGUiOiIwMDAxLTAxLTAxVDAwOjAwOjAwWiJ9AAAAAAhtZXRhRGF0YQAAAAliAAAAvgxyZXBvTWV0YURhdGEAAAAKIAAAAVkMZmlsZUNvbnRlbnRzAQAAAAAAAAH1AAAB9QAAAAwJZmlsZU5hbWVzAQAACKwAAAASAAAIvgAAAAwMZmlsZVNlY3Rpb25zAQAAAkQAAAADAAACRwAAAAwNZmlsZUVuZFN5bWJvbAAAAAIcAAAAEAlzeW1ib2xNYXACAAACLAAAAAAAAAIsAAAAAA1zeW1ib2xLaW5kTWFwAQAAAiwAAAAAAAACLAAAAAAOc3ltYm9sTWV0YURhdGEAAAACLAAAAAAIbmV3bGluZXMBAAACAQAAAA8AAAIQAAAADAluZ3JhbVRleHQAAAACUwAAAsgIcG9zdGluZ3MBAAAFGwAAAiAAAAc7AAABZA1uYW1lTmdyYW1UZXh0AAAACMoAAABADG5hbWVQb3N0aW5ncwEAAAkKAAAADAAACRYAAAAgC2JyYW5jaE1hc2tzAAAAAiwAAAAYCHN1YlJlcG9zAAAACTwAAAAEC3J1bmVPZmZzZXRzAAAACJ8AAAAHD25hbWVSdW5lT2Zmc2V0cwAAAAk2AAAAAgxmaWxlRW5kUnVuZXMAAAAIpgAAAAYMbmFtZUVuZFJ1bmVzAAAACTgAAAAEEGNvbnRlbnRDaGVja3N1bXMAAAAJQAAAABgJbGFuZ3VhZ2VzAAAACVgAAAAGCmNhdGVnb3JpZXMAAAAJXgAAAAMPcnVuZURvY1NlY3Rpb25zAAAACWEAAAABBXJlcG9zAAAAAAAAAAAADnJlcG9zSURzQml0bWFwAAAAAAAAAAAACW5hbWVCbG9vbQAAAAAAAAAAAAxjb250ZW50Qmxvb20AAAAAAAAAAAAFcmFua3MAAAAAAAAAAAAAAAt5AAACog==",
}

func c19Setup(fresh bool) (string, error) {
	if !fresh && len(c19Embedded) == 2 {
		ok := true
		for n, s := range c19Embedded {
			b, err := base64.StdEncoding.DecodeString(s)
			if err != nil {
				ok = false
				break
			}
			c19Templates[n] = b
		}
		if ok && c19SelfTest() == nil {
			return "embedded (built by index.NewShardBuilder at authoring time, self-test passed on this tree)", nil
		}
	}
	c19Templates = map[int][]byte{}
	if err := c19BuildTemplates(); err != nil {
		return "", fmt.Errorf("building the template shards: %v", err)
	}
	if err := c19SelfTest(); err != nil {
		return "", fmt.Errorf("self-test: %v", err)
	}
	return "built with index.NewShardBuilder in this run", nil
}

// c19Shard returns the bytes of the shard of (repo, ver).
func c19Shard(repo, ver int) ([]byte, error) {
	if repo < 0 || repo > 8 || ver < 0 || ver > 9999 {
		return nil, fmt.Errorf("c19Shard(%d, %d): out of range", repo, ver)
	}
	t := c19Templates[c19NumDocs(repo, ver)]
	if t == nil {
		return nil, fmt.Errorf("no template")
	}
	b := bytes.ReplaceAll(t, []byte(c19VerTok), []byte(c19VerStr(ver)))
	b = bytes.ReplaceAll(b, []byte(`"r`+c19RepoTok+`"`), []byte(`"r`+strconv.Itoa(repo)+`"`))
	b = bytes.ReplaceAll(b, []byte(`"repoid":"`+c19RepoTok+`"`), []byte(`"repoid":"`+strconv.Itoa(repo+1)+`"`))
	b = bytes.ReplaceAll(b, []byte("repo="+c19RepoTok+" "), []byte("repo="+strconv.Itoa(repo)+" "))
	if len(b) != len(t) {
		return nil, fmt.Errorf("c19Shard: length changed")
	}
	return b, nil
}

// c19SelfTest loads derived shards through the ordinary reader and checks that
// they are what the harness believes they are.
func c19SelfTest() error {
	for _, rv := range [][2]int{{0, 1}, {2, 1}, {1, 9876}, {2, 40}} {
		repo, ver := rv[0], rv[1]
		b, err := c19Shard(repo, ver)
		if err != nil {
			return err
		}
		s, err := index.NewSearcher(&kit.MemFile{Data: b, Nm: fmt.Sprintf("selftest-%d-%d", repo, ver)})
		if err != nil {
			return fmt.Errorf("derived shard (%d,%d) does not load: %v", repo, ver, err)
		}
		res, err := s.Search(context.Background(), c19Query, &zoekt.SearchOptions{Whole: true})
		if err != nil {
			return err
		}
		docs := map[int]bool{}
		for i := range res.Files {
			d, err := c19Parse(&res.Files[i])
			if err != nil {
				return err
			}
			if d.repo != repo || d.ver != ver {
				return fmt.Errorf("derived shard (%d,%d) serves (%d,%d)", repo, ver, d.repo, d.ver)
			}
			docs[d.doc] = true
		}
		if len(docs) != c19NumDocs(repo, ver) || len(res.Files) != len(docs) {
			return fmt.Errorf("derived shard (%d,%d) serves %d files, want %d", repo, ver, len(res.Files), c19NumDocs(repo, ver))
		}
		rl, err := s.List(context.Background(), &query.Const{Value: true}, nil)
		if err != nil {
			return err
		}
		want := c19Repo(repo, ver)
		if len(rl.Repos) != 1 || rl.Repos[0].Repository.Name != want.Name || rl.Repos[0].Repository.ID != want.ID ||
			fmt.Sprint(rl.Repos[0].Repository.Metadata) != fmt.Sprint(want.Metadata) || rl.Repos[0].Stats.Documents != c19NumDocs(repo, ver) ||
			fmt.Sprint(rl.Repos[0].Repository.Branches) != fmt.Sprint(want.Branches) {
			return fmt.Errorf("derived shard (%d,%d) lists as %+v", repo, ver, rl.Repos)
		}
		s.Close()
	}
	return nil
}

// ---------------------------------------------------------------------------
// model of the directory

type c19Meta struct {
	cv, sv int
}

type c19File struct {
	repo, format, cv int
	meta             *c19Meta
}

// c19Served is what a loaded shard must serve.
type c19Served struct {
	repo, cv       int
	metaCV, metaSV int // what List reports; metaSV < 0: no sidecar
}

// c19Ats are the context consultations at which a held call can be stopped.
// On this tree a Search / StreamSearch / List(query) consults the context it
// was given 6 to 9 times (tracing looks values up, WithCancel and the
// per-shard search ask for Done; see the evidence fields
// hold_callbacks_or_context_consultations/<via>), about half of them before
// it takes the shard list: the middle of the range gets extra weight.
var c19Ats = []int{4, 5, 6, 0, 1, 2, 3, 4, 5, 6, 7, 8, 9, 10, 11, 5}

const c19MaxReadable = 17 // max(index.IndexFormatVersion, index.NextIndexFormatVersion), asserted in the test

// c19Expected applies the watcher's documented rule to the model of the
// directory: per repository name the files with the newest format version
// this build reads.
func c19Expected(disk map[string]*c19File) map[string]c19Served {
	newest := map[int]int{}
	for _, f := range disk {
		if f.format <= c19MaxReadable && f.format > newest[f.repo] {
			newest[f.repo] = f.format
		}
	}
	out := map[string]c19Served{}
	for p, f := range disk {
		if f.format != newest[f.repo] {
			continue
		}
		s := c19Served{repo: f.repo, cv: f.cv, metaCV: f.cv, metaSV: -1}
		if f.meta != nil {
			s.metaCV, s.metaSV = f.meta.cv, f.meta.sv
		}
		out[p] = s
	}
	return out
}

// ---------------------------------------------------------------------------

type c19Env struct {
	root, dir, stage string
	ss               *shardedSearcher
	dw               *DirectoryWatcher

	disk    map[string]*c19File
	loaded  map[string]c19Served // as of the last scan (deterministic part)
	vers    []atomic.Int64       // content version counter per repository
	sv      int
	fwd     int
	back    int
	tmpN    int
	labels  map[string]int
	nt      bool
	pending map[string]bool // files replaced while loaded, not yet rescanned
	skipped int
	gcTime  time.Duration

	holdTicks map[string]int64 // per Via: callbacks / context consultations seen
	gcLost    int
}

var c19Base = time.Unix(1_700_000_000, 0)

func newC19Env(c *c19Case) (*c19Env, error) {
	root, err := os.MkdirTemp("", "c19")
	if err != nil {
		return nil, err
	}
	e := &c19Env{root: root, dir: filepath.Join(root, "index"), stage: filepath.Join(root, "stage"),
		disk: map[string]*c19File{}, loaded: map[string]c19Served{}, labels: map[string]int{}, pending: map[string]bool{}}
	e.vers = make([]atomic.Int64, c.Repos)
	for _, d := range []string{e.dir, e.stage} {
		if err := os.Mkdir(d, 0o755); err != nil {
			return nil, err
		}
	}
	e.ss = newShardedSearcher(4)
	// what newDirectoryWatcher builds, minus the goroutines: scan() is an action
	e.dw = &DirectoryWatcher{dir: e.dir, timestamps: map[string]time.Time{}, loader: &loader{ss: e.ss}}
	return e, nil
}

func (e *c19Env) close() {
	e.ss.Close()
	os.RemoveAll(e.root)
}

func (e *c19Env) label(l string) { e.labels[l]++ }

func (e *c19Env) install(data []byte, mtime time.Time, dst string) error {
	e.tmpN++
	tmp := filepath.Join(e.stage, fmt.Sprintf("t%d", e.tmpN))
	if err := os.WriteFile(tmp, data, 0o644); err != nil {
		return err
	}
	if err := os.Chtimes(tmp, mtime, mtime); err != nil {
		return err
	}
	return os.Rename(tmp, dst)
}

func (e *c19Env) tick() time.Time {
	e.fwd++
	return c19Base.Add(time.Duration(e.fwd) * time.Second)
}

func (e *c19Env) sortedPaths() []string {
	ps := make([]string, 0, len(e.disk))
	for p := range e.disk {
		ps = append(ps, p)
	}
	sort.Strings(ps)
	return ps
}

// fsOp applies one directory action to disk and model. ok=false: not applicable.
func (e *c19Env) fsOp(op c19Op, nrepos int) (ok bool, err error) {
	switch op.K {
	case "write":
		repo := op.R % nrepos
		path := filepath.Join(e.dir, fmt.Sprintf("r%d_v%d.%05d.zoekt", repo, op.F, 0))
		cv := int(e.vers[repo].Add(1))
		data, err := c19Shard(repo, cv)
		if err != nil {
			return false, err
		}
		old := e.disk[path]
		mtime := e.tick()
		if op.Old {
			e.back++
			mtime = c19Base.Add(-time.Duration(e.back) * time.Second)
		}
		nf := &c19File{repo: repo, format: op.F, cv: cv}
		if old != nil && old.meta != nil {
			if op.Keep && !op.Old {
				nf.meta = old.meta
			} else if err := os.Remove(path + ".meta"); err != nil {
				return false, err
			}
		}
		if err := e.install(data, mtime, path); err != nil {
			return false, err
		}
		e.disk[path] = nf
		_, wasLoaded := e.loaded[path]
		kind := "create"
		if old != nil {
			kind = "replace-not-loaded"
			if wasLoaded {
				e.pending[path] = true
				kind = "replace-loaded"
			}
			if nf.meta != nil {
				e.label("write:sidecar-kept")
			} else if old.meta != nil {
				e.label("write:sidecar-dropped")
			}
		}
		switch {
		case op.F > c19MaxReadable:
			e.label("write:format-unreadable")
		case op.F < index.IndexFormatVersion:
			e.label("write:format-older")
		case op.F > index.IndexFormatVersion:
			e.label("write:format-next")
		default:
			e.label("write:format-current")
		}
		if op.Old {
			e.label("write:older-mtime")
		}
		e.label("write:" + kind)
		return true, nil

	case "delete":
		ps := e.sortedPaths()
		if len(ps) == 0 {
			return false, nil
		}
		p := ps[op.Sel%len(ps)]
		if err := os.Remove(p); err != nil {
			return false, err
		}
		if e.disk[p].meta != nil {
			if err := os.Remove(p + ".meta"); err != nil {
				return false, err
			}
		}
		if _, ok := e.loaded[p]; ok {
			e.label("delete:loaded")
		} else {
			e.label("delete:not-loaded")
		}
		delete(e.disk, p)
		delete(e.pending, p)
		return true, nil

	case "meta":
		ps := e.sortedPaths()
		if len(ps) == 0 {
			return false, nil
		}
		p := ps[op.Sel%len(ps)]
		f := e.disk[p]
		e.sv++
		r := c19Repo(f.repo, f.cv)
		r.Metadata["sv"] = strconv.Itoa(e.sv)
		b, err := json.Marshal(r)
		if err != nil {
			return false, err
		}
		if err := e.install(b, e.tick(), p+".meta"); err != nil {
			return false, err
		}
		f.meta = &c19Meta{cv: f.cv, sv: e.sv}
		if _, ok := e.loaded[p]; ok {
			e.label("meta:loaded")
		} else {
			e.label("meta:not-loaded")
		}
		return true, nil
	}
	return false, kit.Fail("harness", "unknown op %q", op.K)
}

// ---------------------------------------------------------------------------
// observations

type c19Doc struct{ repo, ver, doc, of int }

// c19Parse checks one returned file in isolation and says what it is.
func c19Parse(f *zoekt.FileMatch) (c19Doc, error) {
	var d c19Doc
	line, _, _ := strings.Cut(string(f.Content), "\n")
	if _, err := fmt.Sscanf(line, c19Marker+" repo=%d ver=%d doc=%d of=%d", &d.repo, &d.ver, &d.doc, &d.of); err != nil {
		return d, kit.Fail("garbled-document", "file %s/%s: content %q", f.Repository, f.FileName, f.Content)
	}
	if string(f.Content) != c19Content(d.repo, d.ver, d.doc) || d.of != c19NumDocs(d.repo, d.ver) {
		return d, kit.Fail("garbled-document", "file %s/%s: content %q is not document %d of r%d version %d", f.Repository, f.FileName, f.Content, d.doc, d.repo, d.ver)
	}
	if f.Repository != fmt.Sprintf("r%d", d.repo) || f.FileName != fmt.Sprintf("d%d.txt", d.doc) {
		return d, kit.Fail("mixed-up-document", "file %s/%s carries the content of r%d/d%d.txt", f.Repository, f.FileName, d.repo, d.doc)
	}
	return d, nil
}

var c19Query = &query.Substring{Pattern: c19Marker, Content: true}

// c19Search returns, per repository, the one version served. It fails if a
// repository shows two versions or an incomplete / duplicated document set.
func c19Search(ss *shardedSearcher) (map[int]int, error) {
	res, err := ss.Search(context.Background(), c19Query, &zoekt.SearchOptions{Whole: true})
	if err != nil {
		return nil, kit.Fail("search-error", "%v", err)
	}
	if res.Stats.Crashes != 0 {
		return nil, kit.Fail("crash", "search reported %d crashed shard(s)", res.Stats.Crashes)
	}
	return c19Versions(res.Files)
}

// c19Versions judges the files of one result: per repository the one version
// they come from, with that version's complete document set.
func c19Versions(files []zoekt.FileMatch) (map[int]int, error) {
	type seen struct {
		ver  int
		docs map[int]bool
	}
	by := map[int]*seen{}
	for i := range files {
		d, err := c19Parse(&files[i])
		if err != nil {
			return nil, err
		}
		s := by[d.repo]
		if s == nil {
			s = &seen{ver: d.ver, docs: map[int]bool{}}
			by[d.repo] = s
		}
		if s.ver != d.ver {
			return nil, kit.Fail("mixed-versions", "one result holds documents of r%d from version %d and version %d", d.repo, s.ver, d.ver)
		}
		if s.docs[d.doc] {
			return nil, kit.Fail("duplicate-document", "r%d version %d: document %d returned twice", d.repo, d.ver, d.doc)
		}
		s.docs[d.doc] = true
	}
	out := map[int]int{}
	for repo, s := range by {
		if len(s.docs) != c19NumDocs(repo, s.ver) {
			return nil, kit.Fail("incomplete-version", "r%d version %d: %d of %d documents returned", repo, s.ver, len(s.docs), c19NumDocs(repo, s.ver))
		}
		out[repo] = s.ver
	}
	return out, nil
}

func c19Served2Repos(m map[string]c19Served) map[int]c19Served {
	out := map[int]c19Served{}
	for _, s := range m {
		out[s.repo] = s
	}
	return out
}

// checkSearch: the results are exactly what the shards in want serve.
func (e *c19Env) checkSearch(when string, want map[string]c19Served) error {
	got, err := c19Search(e.ss)
	if err != nil {
		if d, ok := err.(*kit.Discrepancy); ok {
			d.Detail = when + ": " + d.Detail
		}
		return err
	}
	w := c19Served2Repos(want)
	for repo, s := range w {
		v, ok := got[repo]
		if !ok {
			return kit.Fail("missing-repository", "%s: no results for r%d, version %d should be served", when, repo, s.cv)
		}
		if v != s.cv {
			return kit.Fail("wrong-version", "%s: r%d served from version %d, disk has version %d", when, repo, v, s.cv)
		}
	}
	for repo, v := range got {
		if _, ok := w[repo]; !ok {
			return kit.Fail("ghost-repository", "%s: results for r%d (version %d) which has no loadable shard", when, repo, v)
		}
	}
	return nil
}

func (e *c19Env) checkList(when string, want map[string]c19Served) error {
	rl, err := e.ss.List(context.Background(), &query.Const{Value: true}, nil)
	if err != nil {
		return kit.Fail("list-error", "%s: %v", when, err)
	}
	if rl.Crashes != 0 {
		return kit.Fail("crash", "%s: List reported %d crashed shard(s)", when, rl.Crashes)
	}
	w := c19Served2Repos(want)
	seen := map[int]bool{}
	for _, r := range rl.Repos {
		id := int(r.Repository.ID) - 1
		s, ok := w[id]
		if !ok || r.Repository.Name != fmt.Sprintf("r%d", id) {
			return kit.Fail("ghost-repository", "%s: List returned %s (id %d) which has no loadable shard", when, r.Repository.Name, r.Repository.ID)
		}
		if seen[id] {
			return kit.Fail("duplicate-repository", "%s: List returned r%d twice", when, id)
		}
		seen[id] = true
		wantMeta := map[string]string{"cv": c19VerStr(s.metaCV)}
		if s.metaSV >= 0 {
			wantMeta["sv"] = strconv.Itoa(s.metaSV)
		}
		if fmt.Sprint(r.Repository.Metadata) != fmt.Sprint(wantMeta) {
			return kit.Fail("metadata", "%s: List shows r%d with metadata %v, disk (shard + sidecar) says %v", when, id, r.Repository.Metadata, wantMeta)
		}
		if r.Stats.Documents != c19NumDocs(id, s.cv) {
			return kit.Fail("wrong-version", "%s: List shows r%d with %d documents, version %d has %d", when, id, r.Stats.Documents, s.cv, c19NumDocs(id, s.cv))
		}
	}
	if len(seen) != len(w) {
		return kit.Fail("missing-repository", "%s: List returned %d repositories, %d are loadable", when, len(seen), len(w))
	}
	return nil
}

// checkLoadedSet: the loaded shard set equals the newest-format files on disk.
func (e *c19Env) checkLoadedSet(when string, want map[string]c19Served) error {
	e.ss.mu.Lock()
	var got []string
	for k, s := range e.ss.shards {
		if s != nil {
			got = append(got, k)
		}
	}
	e.ss.mu.Unlock()
	sort.Strings(got)
	w := kit.SortedKeys(want)
	if fmt.Sprint(got) != fmt.Sprint(w) {
		return kit.Fail("loaded-set", "%s: loaded %v, newest-format files on disk %v", when, c19Base2(got), c19Base2(w))
	}
	if n := len(e.ss.getLoaded().shards); n != len(w) {
		return kit.Fail("loaded-set", "%s: %d shards are searched, %d files should be loaded", when, n, len(w))
	}
	return nil
}

func c19Base2(ps []string) []string {
	out := make([]string, len(ps))
	for i, p := range ps {
		out[i] = filepath.Base(p)
	}
	return out
}

// scanBook lets the watcher scan and brings the model up to date; it checks
// the loaded set only (no search).
func (e *c19Env) scanBook(when string) error {
	if err := e.dw.scan(); err != nil {
		return kit.Fail("scan-error", "%s: %v", when, err)
	}
	want := c19Expected(e.disk)
	changed := fmt.Sprint(want) != fmt.Sprint(e.loaded)
	e.loaded = want
	if len(e.pending) > 0 {
		e.nt = true
		e.label("scan:after-replace-of-loaded-shard")
		e.pending = map[string]bool{}
	}
	if changed {
		e.label("scan:state-changed")
	} else {
		e.label("scan:nothing-to-do")
	}
	return e.checkLoadedSet(when, want)
}

func (e *c19Env) scanAndCheck(when string) error {
	if err := e.scanBook(when); err != nil {
		return err
	}
	if err := e.checkSearch(when, e.loaded); err != nil {
		return err
	}
	return e.checkList(when, e.loaded)
}

// ---------------------------------------------------------------------------
// hold: one call kept in flight across a reload and a garbage collection

// c19Hook fires once, at the at-th tick.
type c19Hook struct {
	at    int64
	n     atomic.Int64
	fired atomic.Bool
	fire  func()
}

func (h *c19Hook) tick() {
	if h.n.Add(1)-1 == h.at {
		h.fired.Store(true)
		h.fire()
	}
}

// c19HookCtx is a context that is never cancelled and carries nothing; every
// consultation is a tick of the hook. Contexts derived from it by the code
// under test (WithCancel, WithValue) pass Value lookups, and some of them
// Done, up to it.
type c19HookCtx struct {
	context.Context
	h *c19Hook
}

func (c *c19HookCtx) Done() <-chan struct{}       { c.h.tick(); return nil }
func (c *c19HookCtx) Err() error                  { c.h.tick(); return nil }
func (c *c19HookCtx) Value(any) any               { c.h.tick(); return nil }
func (c *c19HookCtx) Deadline() (time.Time, bool) { c.h.tick(); return time.Time{}, false }

type c19Held struct {
	list    bool
	files   []zoekt.FileMatch
	repos   []*zoekt.RepoListEntry
	crashes int
	err     error
	fired   bool
	ticks   int64
}

// c19RunHeld makes one call on the searcher and runs fire at the chosen
// callback / context consultation of that call.
func c19RunHeld(ss *shardedSearcher, via string, at int, fire func()) c19Held {
	h := &c19Hook{at: int64(at), fire: fire}
	opts := &zoekt.SearchOptions{Whole: true}
	var out c19Held
	hctx := &c19HookCtx{Context: context.Background(), h: h}
	switch via {
	case "stream", "stream-ctx":
		var ctx context.Context = context.Background()
		if via == "stream-ctx" {
			ctx = hctx
		}
		var mu sync.Mutex
		out.err = ss.StreamSearch(ctx, c19Query, opts, zoekt.SenderFunc(func(sr *zoekt.SearchResult) {
			mu.Lock()
			defer mu.Unlock()
			out.files = append(out.files, sr.Files...)
			out.crashes += sr.Stats.Crashes
			if via == "stream" {
				h.tick()
			}
		}))
	case "search":
		res, err := ss.Search(hctx, c19Query, opts)
		out.err = err
		if res != nil {
			out.files, out.crashes = res.Files, res.Stats.Crashes
		}
	default: // listq
		out.list = true
		rl, err := ss.List(hctx, c19Query, nil)
		out.err = err
		if rl != nil {
			out.repos, out.crashes = rl.Repos, rl.Crashes
		}
	}
	out.fired, out.ticks = h.fired.Load(), h.n.Load()
	return out
}

type c19Sentinel struct{ p *int }

//go:noinline
func c19ArmSentinel() chan struct{} {
	ch := make(chan struct{})
	runtime.SetFinalizer(&c19Sentinel{p: new(int)}, func(*c19Sentinel) { close(ch) })
	return ch
}

// c19Collect forces rounds garbage collections. After each it waits until a
// finalizer armed just before the collection has run (finalizers run one
// after the other on one goroutine: from the second round on, everything the
// first collection found unreachable has been finalized), then yields.
func c19Collect(rounds int) (lost int) {
	for i := 0; i < rounds; i++ {
		ch := c19ArmSentinel()
		runtime.GC()
		select {
		case <-ch:
		case <-time.After(5 * time.Second): // watchdog only
			lost++
		}
		runtime.Gosched()
		time.Sleep(time.Millisecond)
	}
	return lost
}

func c19WantMeta(s c19Served) string {
	m := map[string]string{"cv": c19VerStr(s.metaCV)}
	if s.metaSV >= 0 {
		m["sv"] = strconv.Itoa(s.metaSV)
	}
	return fmt.Sprint(m)
}

// c19JudgeHeld judges the outcome of a call that was in flight while the
// loaded set went from before to after (one scan): no error, no crashed
// shard, and per repository the complete results of the shard version of
// before or of after; a repository may be absent only if one of the two
// states does not have it. It returns how many repositories were served from
// a shard that the scan unloaded.
func c19JudgeHeld(when string, r c19Held, before, after map[string]c19Served) (fromUnloaded int, err error) {
	if r.err != nil {
		return 0, kit.Fail("search-error", "%s: %v", when, r.err)
	}
	if r.crashes != 0 {
		return 0, kit.Fail("crash", "%s: the call reported %d crashed shard(s)", when, r.crashes)
	}
	b, a := c19Served2Repos(before), c19Served2Repos(after)
	got := map[int]bool{}
	if !r.list {
		vers, err := c19Versions(r.files)
		if err != nil {
			if d, ok := err.(*kit.Discrepancy); ok {
				d.Detail = when + ": " + d.Detail
			}
			return 0, err
		}
		for repo, v := range vers {
			got[repo] = true
			sb, inB := b[repo]
			sa, inA := a[repo]
			switch {
			case !inB && !inA:
				return 0, kit.Fail("ghost-repository", "%s: results for r%d (version %d), which had no loadable shard before or after the reload", when, repo, v)
			case inB && sb.cv == v:
				if !inA || sa.cv != v {
					fromUnloaded++
				}
			case inA && sa.cv == v:
			default:
				return 0, kit.Fail("wrong-version", "%s: r%d served from version %d; loaded before the reload: %s, after: %s", when, repo, v, c19VerOf(b, repo), c19VerOf(a, repo))
			}
		}
	} else {
		for _, e := range r.repos {
			id := int(e.Repository.ID) - 1
			sb, inB := b[id]
			sa, inA := a[id]
			if (!inB && !inA) || e.Repository.Name != fmt.Sprintf("r%d", id) {
				return 0, kit.Fail("ghost-repository", "%s: List returned %s (id %d), which had no loadable shard before or after the reload", when, e.Repository.Name, e.Repository.ID)
			}
			if got[id] {
				return 0, kit.Fail("duplicate-repository", "%s: List returned r%d twice", when, id)
			}
			got[id] = true
			okB := inB && e.Stats.Documents == c19NumDocs(id, sb.cv) && fmt.Sprint(e.Repository.Metadata) == c19WantMeta(sb)
			okA := inA && e.Stats.Documents == c19NumDocs(id, sa.cv) && fmt.Sprint(e.Repository.Metadata) == c19WantMeta(sa)
			switch {
			case okB:
				if !inA || sa.cv != sb.cv {
					fromUnloaded++
				}
			case okA:
			default:
				return 0, kit.Fail("wrong-version", "%s: List shows r%d with %d documents and metadata %v; loaded before the reload: %s, after: %s", when, id, e.Stats.Documents, e.Repository.Metadata, c19VerOf(b, id), c19VerOf(a, id))
			}
		}
	}
	for repo := range b {
		if _, ok := a[repo]; ok && !got[repo] {
			return 0, kit.Fail("missing-repository", "%s: nothing for r%d, which has a loaded shard before (%s) and after (%s) the reload", when, repo, c19VerOf(b, repo), c19VerOf(a, repo))
		}
	}
	return fromUnloaded, nil
}

func c19VerOf(m map[int]c19Served, repo int) string {
	s, ok := m[repo]
	if !ok {
		return "none"
	}
	return fmt.Sprintf("version %d", s.cv)
}

func (e *c19Env) holdLabels(op c19Op, r c19Held) {
	e.label("hold:via-" + op.Via)
	if !r.fired {
		e.label("hold:callback-not-reached")
	}
	if e.holdTicks == nil {
		e.holdTicks = map[string]int64{}
	}
	e.holdTicks[op.Via] += r.ticks
}

// holdDeterministic: the call is made on this goroutine; at its chosen
// callback the directory changes, the watcher scans, garbage is collected and
// finalizers run; then the call continues.
func (e *c19Env) holdDeterministic(op c19Op, nrepos int, when string) error {
	before := e.loaded
	var hookErr error
	unloaded := 0
	change := func() {
		for _, d := range op.During {
			ok, err := e.fsOp(d, nrepos)
			if err != nil {
				hookErr = err
				return
			}
			if !ok {
				e.skipped++
			}
		}
		if hookErr = e.scanBook(when + ", scan while the call is in flight"); hookErr != nil {
			return
		}
		for p, s := range before {
			if n, ok := e.loaded[p]; !ok || n.cv != s.cv {
				unloaded++
			}
		}
		t0 := time.Now()
		e.gcLost += c19Collect(op.GCs)
		e.gcTime += time.Since(t0)
	}
	r := c19RunHeld(e.ss, op.Via, op.At, change)
	if !r.fired {
		change()
	}
	e.holdLabels(op, r)
	if hookErr != nil {
		return hookErr
	}
	if r.fired && unloaded > 0 {
		e.label("hold:loaded-shard-unloaded-in-flight")
	}
	after := e.loaded
	if !r.fired {
		// the call ran to completion before the directory changed
		after = before
	}
	n, err := c19JudgeHeld(when, r, before, after)
	if err != nil {
		return err
	}
	if n > 0 {
		// the call really read a shard after it was unloaded and garbage collected
		e.label("hold:served-from-unloaded-shard")
		e.nt = true
	} else if r.fired && unloaded > 0 {
		e.label("hold:served-state-after-reload")
	}
	if err := e.checkSearch(when+", afterwards", e.loaded); err != nil {
		return err
	}
	return e.checkList(when+", afterwards", e.loaded)
}

// ---------------------------------------------------------------------------

func runC19(rec *kit.Recorder, c c19Case) (err error) {
	if c.Repos < 1 {
		return kit.Fail("harness", "no repositories")
	}
	e, err := newC19Env(&c)
	if err != nil {
		return err
	}
	defer e.close()
	t0 := time.Now()
	defer func() {
		k := "wall_ms_deterministic_cases"
		if c.Stress {
			k = "wall_ms_stress_cases"
		}
		rec.Add(k, int(time.Since(t0).Milliseconds()))
	}()
	mode := "mode:deterministic"
	if c.Stress {
		mode = "mode:stress"
		err = e.stress(rec, &c)
	} else {
		err = e.deterministic(&c)
	}
	ls := []string{mode, fmt.Sprintf("ops:%02d-%02d", len(c.Ops)/10*10, len(c.Ops)/10*10+9)}
	for l, n := range e.labels {
		ls = append(ls, l)
		rec.Add("events/"+l, n)
	}
	rec.Add("wall_ms_forced_gc_deterministic", int(e.gcTime.Milliseconds()))
	if e.skipped > 0 {
		rec.Add("ops_not_applicable", e.skipped)
	}
	for via, n := range e.holdTicks {
		rec.Add("hold_callbacks_or_context_consultations/"+via, int(n))
	}
	if e.gcLost > 0 {
		rec.Add("hold_finalizer_wait_timed_out", e.gcLost)
	}
	key, _ := json.Marshal(c)
	rec.Eval(string(key), e.nt, ls...)
	rec.Sample(c, e.nt)
	return err
}

func (e *c19Env) deterministic(c *c19Case) error {
	// newDirectoryWatcher scans once before anything else
	if err := e.scanAndCheck("initial scan"); err != nil {
		return err
	}
	for i, op := range c.Ops {
		when := fmt.Sprintf("op %d (%s)", i, op.K)
		switch op.K {
		case "scan":
			if err := e.scanAndCheck(when); err != nil {
				return err
			}
		case "search":
			// nothing reloads without a scan: the state of the last scan is served,
			// whatever happened to the files since (replaced inodes stay mapped)
			if fmt.Sprint(c19Expected(e.disk)) != fmt.Sprint(e.loaded) {
				e.label("search:disk-changed-since-scan")
			} else {
				e.label("search:in-sync")
			}
			if err := e.checkSearch(when, e.loaded); err != nil {
				return err
			}
		case "list":
			e.label("list")
			if err := e.checkList(when, e.loaded); err != nil {
				return err
			}
		case "hold":
			if err := e.holdDeterministic(op, c.Repos, when); err != nil {
				return err
			}
		case "gc":
			// queue and run the finalizers of replaced shards (munmap)
			t0 := time.Now()
			runtime.GC()
			runtime.Gosched()
			e.gcTime += time.Since(t0)
			e.label("gc")
			if err := e.checkSearch(when, e.loaded); err != nil {
				return err
			}
		default:
			ok, err := e.fsOp(op, c.Repos)
			if err != nil {
				return err
			}
			if !ok {
				e.skipped++
			}
		}
	}
	// the directory has stopped changing
	if err := e.scanAndCheck("final scan"); err != nil {
		return err
	}
	// a further scan changes nothing
	return e.scanAndCheck("second final scan")
}

// ---------------------------------------------------------------------------
// stress

var c19StuckTimeout = 240 * time.Second

func (e *c19Env) stress(rec *kit.Recorder, c *c19Case) error {
	if err := e.scanAndCheck("initial scan"); err != nil {
		return err
	}
	var (
		stopAll, stopScan           atomic.Bool
		searches, lists, scans, gcs atomic.Int64
		firstErr                    atomic.Value
		wg, scanWG                  sync.WaitGroup
		absent, present             atomic.Int64
	)
	fail := func(err error) {
		d, ok := err.(*kit.Discrepancy)
		if !ok {
			d = kit.Fail("error", "%v", err)
		}
		firstErr.CompareAndSwap(nil, d)
	}
	guard := func(what string, f func()) {
		defer func() {
			if p := recover(); p != nil {
				fail(kit.Fail("panic", "stress %s goroutine: %v", what, p))
			}
		}()
		f()
	}
	nsearch := c.Searchers
	if nsearch < 1 {
		nsearch = 2
	}
	for i := 0; i < nsearch; i++ {
		wg.Add(1)
		go func() {
			defer wg.Done()
			guard("search", func() {
				for !stopAll.Load() {
					got, err := c19Search(e.ss)
					if err != nil {
						fail(err)
						return
					}
					for repo, v := range got {
						if repo < 0 || repo >= c.Repos || int64(v) > e.vers[repo].Load() || v < 1 {
							fail(kit.Fail("ghost-version", "stress: r%d served from version %d which was never written", repo, v))
							return
						}
					}
					present.Add(int64(len(got)))
					absent.Add(int64(c.Repos - len(got)))
					searches.Add(1)
				}
			})
		}()
	}
	wg.Add(1)
	go func() {
		defer wg.Done()
		guard("list", func() {
			for !stopAll.Load() {
				rl, err := e.ss.List(context.Background(), &query.Const{Value: true}, nil)
				if err != nil {
					fail(kit.Fail("list-error", "stress: %v", err))
					return
				}
				if rl.Crashes != 0 {
					fail(kit.Fail("crash", "stress: List reported %d crashed shard(s)", rl.Crashes))
					return
				}
				names := map[string]bool{}
				for _, r := range rl.Repos {
					id := int(r.Repository.ID) - 1
					if id < 0 || id >= c.Repos || r.Repository.Name != fmt.Sprintf("r%d", id) || names[r.Repository.Name] {
						fail(kit.Fail("ghost-repository", "stress: List returned %q (id %d), duplicate=%v", r.Repository.Name, r.Repository.ID, names[r.Repository.Name]))
						return
					}
					names[r.Repository.Name] = true
				}
				lists.Add(1)
			}
		})
	}()
	wg.Add(1)
	go func() {
		defer wg.Done()
		for !stopAll.Load() {
			runtime.GC()
			gcs.Add(1)
			// one collection per completed search is plenty
			s0 := searches.Load()
			for !stopAll.Load() && searches.Load() == s0 {
				time.Sleep(50 * time.Microsecond)
			}
		}
	}()
	scanWG.Add(1)
	go func() {
		defer scanWG.Done()
		guard("scan", func() {
			for !stopScan.Load() {
				if err := e.dw.scan(); err != nil {
					fail(kit.Fail("scan-error", "stress: %v", err))
					return
				}
				scans.Add(1)
			}
		})
	}()

	// waitFor blocks until the counter moved by n (a positive event; the
	// timeout is only a watchdog).
	waitFor := func(ctr *atomic.Int64, n int64, what string) error {
		target := ctr.Load() + n
		deadline := time.Now().Add(c19StuckTimeout)
		for ctr.Load() < target {
			if d, _ := firstErr.Load().(*kit.Discrepancy); d != nil {
				return d
			}
			if time.Now().After(deadline) {
				return kit.Fail("stuck", "stress: no %s completed within %v", what, c19StuckTimeout)
			}
			time.Sleep(20 * time.Microsecond)
		}
		return nil
	}
	stop := func() {
		stopScan.Store(true)
		scanWG.Wait()
		stopAll.Store(true)
		wg.Wait()
	}

	err := func() error {
		for _, op := range c.Ops {
			switch op.K {
			case "scan":
				// a whole scan after this point
				if err := waitFor(&scans, 2, "scan"); err != nil {
					return err
				}
			case "search":
				if err := waitFor(&searches, int64(nsearch), "search"); err != nil {
					return err
				}
			case "list":
				if err := waitFor(&lists, 1, "list"); err != nil {
					return err
				}
			case "gc":
				if err := waitFor(&gcs, 1, "garbage collection"); err != nil {
					return err
				}
			case "hold":
				// one more call, made from here, that is held at its chosen callback
				// while the directory changes, the scanner goroutine picks the change
				// up and garbage is collected
				var hookErr error
				change := func() {
					for _, d := range op.During {
						if _, err := e.fsOp(d, c.Repos); err != nil {
							hookErr = err
							return
						}
					}
					e.loaded = c19Expected(e.disk)
					if hookErr = waitFor(&scans, 2, "scan"); hookErr != nil {
						return
					}
					e.gcLost += c19Collect(op.GCs)
				}
				r := c19RunHeld(e.ss, op.Via, op.At, change)
				if !r.fired {
					change()
				}
				e.holdLabels(op, r)
				if hookErr != nil {
					return hookErr
				}
				if err := e.judgeHeldStress(r, c.Repos); err != nil {
					return err
				}
			default:
				if _, err := e.fsOp(op, c.Repos); err != nil {
					return err
				}
				// labelling only: with the scanner looping, what is on disk is about to be loaded
				e.loaded = c19Expected(e.disk)
				// every directory state coexists with at least one search
				if err := waitFor(&searches, 1, "search"); err != nil {
					return err
				}
			}
		}
		return nil
	}()
	if err != nil {
		stop()
		return err
	}
	// the directory has stopped changing: quiesce the scanner, one more scan
	// with the searchers still running, then stop them
	stopScan.Store(true)
	scanWG.Wait()
	if d, _ := firstErr.Load().(*kit.Discrepancy); d != nil {
		stop()
		return d
	}
	if err := e.dw.scan(); err != nil {
		stop()
		return kit.Fail("scan-error", "stress, final scan: %v", err)
	}
	if err := waitFor(&searches, int64(nsearch), "search"); err != nil {
		stop()
		return err
	}
	stop()
	if d, _ := firstErr.Load().(*kit.Discrepancy); d != nil {
		return d
	}
	runtime.GC()
	runtime.GC()
	rec.Add("stress_searches", int(searches.Load()))
	rec.Add("stress_lists", int(lists.Load()))
	rec.Add("stress_scans", int(scans.Load()))
	rec.Add("stress_forced_gcs", int(gcs.Load()))
	rec.Add("stress_repository_results_checked", int(present.Load()))
	rec.Add("stress_repository_absent_in_result", int(absent.Load()))
	if len(e.pending) > 0 {
		e.nt = true
	}
	// convergence: deterministic oracle on the quiescent directory
	e.loaded = map[string]c19Served{} // make scanAndCheck's bookkeeping simple
	if err := e.scanAndCheck("stress, after the directory stopped changing"); err != nil {
		return err
	}
	return nil
}

// judgeHeldStress: the stress oracles (no crash, per repository one
// ever-written version with its complete document set) for a held call.
func (e *c19Env) judgeHeldStress(r c19Held, nrepos int) error {
	if r.err != nil {
		return kit.Fail("search-error", "stress, held call: %v", r.err)
	}
	if r.crashes != 0 {
		return kit.Fail("crash", "stress, held call reported %d crashed shard(s)", r.crashes)
	}
	if r.list {
		names := map[string]bool{}
		for _, en := range r.repos {
			id := int(en.Repository.ID) - 1
			if id < 0 || id >= nrepos || en.Repository.Name != fmt.Sprintf("r%d", id) || names[en.Repository.Name] {
				return kit.Fail("ghost-repository", "stress, held List returned %q (id %d), duplicate=%v", en.Repository.Name, en.Repository.ID, names[en.Repository.Name])
			}
			names[en.Repository.Name] = true
		}
		return nil
	}
	got, err := c19Versions(r.files)
	if err != nil {
		return err
	}
	for repo, v := range got {
		if repo < 0 || repo >= nrepos || int64(v) > e.vers[repo].Load() || v < 1 {
			return kit.Fail("ghost-version", "stress, held call: r%d served from version %d which was never written", repo, v)
		}
	}
	return nil
}

// ---------------------------------------------------------------------------

func genC19(rt *rapid.T) c19Case {
	g := kit.G{T: rt}
	c := c19Case{Repos: g.Int(1, 3, "repos")}
	stressPct := 5
	if v, err := strconv.Atoi(os.Getenv("VERIF_C19_STRESS_PCT")); err == nil {
		stressPct = v
	}
	c.Stress = !g.Bool(100-stressPct, "stress") // shrinks towards false
	kinds := []string{
		"write", "write", "write", "write", "write", "write", "write", "scan", "scan", "scan", "scan", "meta", "meta", "search", "search", "delete", "list",
		"write", "write", "write", "write", "write", "write", "write", "scan", "scan", "scan", "scan", "meta", "meta", "search", "search", "delete", "gc",
	}
	// one history in holdEvery ops is a held call (each costs a scan and one to
	// three forced garbage collections)
	holdEvery := 64
	if v, err := strconv.Atoi(os.Getenv("VERIF_C19_HOLD_EVERY")); err == nil && v > 0 {
		holdEvery = v
	}
	formats := []int{16, 16, 16, 16, 16, 16, 17, 17, 15, 18}
	fill := func(t *rapid.T, o *c19Op) {
		tg := kit.G{T: t}
		switch o.K {
		case "write":
			o.R = rapid.IntRange(0, 2).Draw(t, "repo")
			o.F = kit.Pick(tg, formats, "format")
			o.Keep = rapid.Bool().Draw(t, "keep")
			o.Old = !tg.Bool(92, "old")
		case "delete", "meta":
			o.Sel = rapid.IntRange(0, 7).Draw(t, "sel")
		}
	}
	during := rapid.Custom(func(t *rapid.T) c19Op {
		o := c19Op{K: kit.Pick(kit.G{T: t}, []string{"write", "write", "write", "write", "write", "delete", "delete", "meta"}, "during")}
		fill(t, &o)
		return o
	})
	op := rapid.Custom(func(t *rapid.T) c19Op {
		tg := kit.G{T: t}
		o := c19Op{K: kit.Pick(tg, kinds, "op")}
		if tg.U(holdEvery, "hold") == holdEvery-1 { // shrinks towards the plain op
			o.K = "hold"
			o.Via = kit.Pick(tg, []string{"stream", "stream", "stream", "search", "search", "listq", "listq", "stream-ctx"}, "via")
			if o.Via == "stream" {
				o.At = kit.Pick(tg, []int{0, 0, 0, 0, 1, 2}, "at")
			} else {
				o.At = kit.Pick(tg, c19Ats, "at")
			}
			o.GCs = kit.Pick(tg, []int{2, 1, 2, 3}, "gcs")
			o.During = rapid.SliceOfN(during, 1, 3).Draw(t, "during")
			return o
		}
		fill(t, &o)
		return o
	})
	lo := kit.Pick(g, []int{6, 12, 20}, "minops")
	hi := 60
	if c.Stress {
		c.Searchers = g.Int(2, 3, "searchers")
		lo, hi = 20, 70
	}
	c.Ops = rapid.SliceOfN(op, lo, hi).Draw(rt, "ops")
	return c
}

func TestVerif_C19(t *testing.T) {
	if m := max(index.IndexFormatVersion, index.NextIndexFormatVersion); m != c19MaxReadable || index.IndexFormatVersion != 16 {
		t.Fatalf("harness assumes index format 16 / next 17, tree has %d / %d", index.IndexFormatVersion, index.NextIndexFormatVersion)
	}
	rec := kit.Open(t, "C19",
		"rapid-generated histories over a temporary index directory with 1-3 repositories: write a shard file r<i>_v<format>.00000.zoekt (format 16 mostly, 15 / 17 / unreadable 18; create, or replace by rename with a new content version, keeping or dropping the .meta sidecar, 8% with an mtime older than everything before), delete, sidecar update, scan(), search, list, forced GC, and (1 action in 64) a held call: a StreamSearch stopped in a call of its sender (the first, made once the shard list is taken, or a later one between shards) or a Search / StreamSearch / List(query) stopped at the n-th consultation (Done, Err, Value, Deadline) of a harness-owned context, during which 1-3 directory actions are applied, the watcher scans and 1-3 garbage collections run with a wait for the finalizer queue after each, before the call continues; the watcher is a hand-built DirectoryWatcher around the real loader and shardedSearcher, scan() is an explicit action (no fsnotify); every document names its repository, content version and position; non-trivial = a shard file that was loaded got replaced and a scan followed, or a held call was served from a shard that was unloaded and garbage collected while it was in flight; distinct by the JSON of the history; mode:stress cases (5%) run the same actions with concurrent searchers, a lister, a scanner loop and forced GC under -race",
		"file modification times are set by the harness from a logical clock so that every write changes the mtime the watcher compares (two writes within the file system's timestamp granularity are out of scope); a file written with an older mtime has no sidecar",
		"newest-format rule as documented in watcher.go scan(): per name prefix before the last '_', the files whose name carries the highest format version not above max(IndexFormatVersion, NextIndexFormatVersion); one shard file per repository",
		"shards are deleted together with their sidecar; sidecars are never removed on their own",
		"the shard of (repository, content version) is a copy of one of two shards written by index.NewShardBuilder with fixed-width placeholders (repository digit, 4-digit version) overwritten in content and repository metadata; the construction is validated through index.NewSearcher before any history runs (building every shard afresh costs tens of seconds each under the race detector)",
		"between scans the state of the last scan is served (nothing else triggers a reload in this setup)",
		"a held call overlaps exactly one scan: per repository it must show the complete shard version loaded before or after that scan (either is accepted, whichever side of the scan the call took its shard list on), and may omit a repository only if one of the two states has no shard for it; in stress mode held calls get the stress oracles only; a held call whose chosen stopping point is never reached runs to completion and the directory actions are applied afterwards (label hold:callback-not-reached)",
		"garbage collection in a held call: runtime.GC() followed by waiting for a finalizer armed just before it (finalizers run sequentially, so from the second round on everything the first collection found unreachable has been finalized), a yield and a 1 ms pause; a shard that is closed while the held call still has it in its shard list faults on unmapped memory, which kills the process and is reported through the journal",
		"stress mode asserts per search result only: no crash, each repository from exactly one ever-written version with that version's complete, intact document set (a repository may be absent: scan() drops before it loads); convergence is asserted after the directory stopped changing and one more scan ran",
	)
	t0 := time.Now()
	src, err := c19Setup(os.Getenv("VERIF_C19_TEMPLATES") == "fresh")
	if err != nil {
		t.Fatalf("harness setup: %v", err)
	}
	if p := os.Getenv("VERIF_C19_DUMP"); p != "" { // authoring aid: print the templates for c19Embedded
		var sb strings.Builder
		for _, n := range []int{2, 3} {
			fmt.Fprintf(&sb, "\t%d: %q,\n", n, base64.StdEncoding.EncodeToString(c19Templates[n]))
		}
		os.WriteFile(p, []byte(sb.String()), 0o644)
	}
	runtime.GC()
	rec.Set("template_shards", src)
	rec.Set("setup_seconds_wall", int(time.Since(t0).Seconds()))
	rec.EnableJournal()
	kit.Property(t, rec, genC19, func(c c19Case) error { return runC19(rec, c) })
}
