//go:build verif

package search_test

import (
	"fmt"
	"regexp"
	"regexp/syntax"
	"strings"
	"testing"

	gregexp "github.com/grafana/regexp"
	re2regexp "github.com/wasilibs/go-re2"
	"pgregory.net/rapid"

	"github.com/sourcegraph/zoekt/index"
	"github.com/sourcegraph/zoekt/internal/hybridre2"
	"github.com/sourcegraph/zoekt/internal/syntaxutil"
	"github.com/sourcegraph/zoekt/internal/verifkit/kit"
	"github.com/sourcegraph/zoekt/query"
)

type c28Case struct {
	Docs     []string
	Patterns []string
	CS       []bool
	N        int // the size around which thresholds are placed
	Chunk    bool
	// Big: a further document of far more than 64 KiB, given by the filler
	// lengths of its lines ("start" + filler + "end"); the regexps below match
	// across its line ends
	Big []int `json:",omitempty"`
}

// c28Big renders the big document.
func c28Big(lens []int) string {
	var sb strings.Builder
	for i, n := range lens {
		if i > 0 {
			sb.WriteByte('\n')
		}
		sb.WriteString("start")
		sb.WriteString(strings.Repeat("a", n))
		sb.WriteString("end")
	}
	return sb.String()
}

func c28Short(docs []string) []string {
	out := make([]string, len(docs))
	for i, d := range docs {
		if len(d) > 300 {
			d = fmt.Sprintf("%s...(%d bytes)", d[:300], len(d))
		}
		out[i] = d
	}
	return out
}

func runC28(rec *kit.Recorder, c c28Case) error {
	defer hybridre2.VerifSetThreshold(-1)
	repo := kit.Repo{Name: "r", ID: 1, Branches: []kit.Branch{{Name: "HEAD", Version: "v"}}}
	below, above := false, false
	if len(c.Big) > 0 {
		c.Docs = append(append([]string(nil), c.Docs...), c28Big(c.Big))
	}
	for i, s := range c.Docs {
		repo.Docs = append(repo.Docs, kit.Doc{Name: fmt.Sprintf("f%d.txt", i), Content: kit.Text(s), Branches: []string{"HEAD"}, Language: "Text"})
		if len(s) < c.N {
			below = true
		} else {
			above = true
		}
	}
	data, err := kit.BuildSimple(&repo)
	if err != nil {
		return kit.Fail("build", "%v", err)
	}
	s, err := index.NewSearcher(&kit.MemFile{Data: data})
	if err != nil {
		return kit.Fail("load", "%v", err)
	}
	defer s.Close()
	thresholds := []int64{-1, 0, int64(c.N - 1), int64(c.N), int64(c.N + 1), 1 << 40}
	for pi, pat := range c.Patterns {
		re, err := syntax.Parse(pat, kit.RegexpFlags)
		if err != nil {
			continue
		}
		q := &query.Regexp{Regexp: re, Content: true, CaseSensitive: c.CS[pi]}
		prefix := ""
		if !q.CaseSensitive {
			prefix = "(?i)"
		}
		full := prefix + syntaxutil.RegexpString(re)
		if _, err := re2regexp.Compile(full); err != nil {
			continue // RE2 rejects the pattern: documented fail-fast, outside the comparison
		}
		var base fileRanges
		var baseT int64
		for ti, th := range thresholds {
			hybridre2.VerifSetThreshold(th)
			var got fileRanges
			err := kit.Guard(func() error {
				var err error
				got, err = searchRanges(s, q, c.Chunk)
				return err
			})
			if err != nil {
				return kit.Fail("search-error", "pattern %q threshold %d: %v", pat, th, err)
			}
			if ti == 0 {
				base, baseT = got, th
				continue
			}
			if fmt.Sprint(got) != fmt.Sprint(base) {
				// Is it the engines themselves? Call both dependencies directly.
				known := ""
				g, gerr := gregexp.Compile(full)
				r2, rerr := re2regexp.Compile(full)
				std, serr := regexp.Compile(full)
				if gerr == nil && rerr == nil {
					for _, d := range c.Docs {
						a, b := fmt.Sprint(g.FindAllIndex([]byte(d), -1)), fmt.Sprint(r2.FindAllIndex([]byte(d), -1))
						if a != b {
							known = "C28-engines-disagree"
							if serr == nil {
								st := fmt.Sprint(std.FindAllIndex([]byte(d), -1))
								rec.Label(fmt.Sprintf("engine-disagreement:grafana-vs-std=%v,re2-vs-std=%v", a == st, b == st))
							}
						}
					}
				}
				return kit.FailKnown(known, "threshold-dependent", "pattern %q (case=%v) docs %q: threshold %d gives %v, threshold %d gives %v", full, q.CaseSensitive, c28Short(c.Docs), baseT, base, th, got)
			}
		}
		rec.Eval(fmt.Sprintf("%+v|%v|%s|%v", c28Short(c.Docs), c.Big, pat, c.CS[pi]), below && above && len(base) > 0, fmt.Sprintf("matches:%v", len(base) > 0), fmt.Sprintf("bigdoc:%v", len(c.Big) > 0))
	}
	rec.Sample(c, below && above)
	return nil
}

func TestVerif_C28(t *testing.T) {
	rec := kit.Open(t, "C28",
		"2-5 valid UTF-8 documents with sizes placed around a size N (N-1, N, N+1 and far away; in 12% of the cases one more document of 66 KiB - 200 KiB whose regexps match across every line end) x 3-6 regexps (query-syntax shapes, plus empty-matching and case-folding ones) searched with thresholds {-1 (disabled), 0 (always RE2), N-1, N, N+1, 2^40}; all thresholds must give identical files and ranges; non-trivial = a document on each side of N and at least one match; distinct by hash",
		"patterns RE2 refuses to compile are skipped (documented fail-fast)",
		"the threshold is switched through a verification-only setter for the package variable the code documents as reassignable by tests",
	)
	kit.Property(t, rec, func(rt *rapid.T) c28Case {
		g := kit.G{T: rt}
		c := c28Case{N: g.Int(8, 120, "n"), Chunk: g.Bool(50, "chunk")}
		nd := g.Int(2, 5, "ndocs")
		corp := kit.Corpus{Repos: []kit.Repo{{Name: "r"}}}
		for i := 0; i < nd; i++ {
			target := c.N + kit.Pick(g, []int{-30, -1, 0, 1, 30, -2, 2}, "delta")
			var sb strings.Builder
			for sb.Len() < target {
				sb.WriteString(kit.Pick(g, kit.Words, "w"))
				sb.WriteString(kit.Pick(g, kit.Seps, "sep"))
			}
			s := sb.String()
			// trim to the exact byte size on a rune boundary, pad with ASCII
			for len(s) > target && len(s) > 0 {
				rs := []rune(s)
				s = string(rs[:len(rs)-1])
			}
			for len(s) < target {
				s += "x"
			}
			c.Docs = append(c.Docs, s)
			corp.Repos[0].Docs = append(corp.Repos[0].Docs, kit.Doc{Name: fmt.Sprint(i), Content: kit.Text(s)})
		}
		if g.Bool(12, "big") {
			total := 0
			for total < 66000+g.U(3, "bigwin")*65536 {
				n := g.Int(0, 400, "bigline")
				c.Big = append(c.Big, n)
				total += n + 9
			}
			for _, p := range []string{`end\nstart`, `end\s+start`, `d\n+s`, `a+end[^a]start`, `(?s)end.start`} {
				if g.Bool(60, "bigpat") {
					c.Patterns = append(c.Patterns, p)
					c.CS = append(c.CS, g.Bool(50, "cs"))
				}
			}
		}
		np := g.Int(3, 6, "npat")
		for i := 0; i < np; i++ {
			if g.Bool(20, "special") {
				c.Patterns = append(c.Patterns, kit.Pick(g, []string{`\B`, `x*`, `\b`, `(?i)s`, `é*`, `^`, `$`, `\s*`, `[^a]?`, `(foo)?`, `日?`}, "sp"))
			} else {
				p, _ := kit.GenRegexpText(g, &corp, false, true)
				c.Patterns = append(c.Patterns, p)
			}
			c.CS = append(c.CS, g.Bool(50, "cs"))
		}
		return c
	}, func(c c28Case) error { return runC28(rec, c) })
}
