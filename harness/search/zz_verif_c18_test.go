//go:build verif

package search_test

import (
	"context"
	"fmt"
	"os"
	"path/filepath"
	"sort"
	"strings"
	"testing"

	"pgregory.net/rapid"

	"github.com/sourcegraph/zoekt"
	"github.com/sourcegraph/zoekt/index"
	"github.com/sourcegraph/zoekt/internal/verifkit/kit"
	"github.com/sourcegraph/zoekt/query"
	"github.com/sourcegraph/zoekt/search"
)

// c18Case: repositories laid out as simple shards, multi-shard repositories
// (index.Builder with a small ShardMax) and one compound shard, all in one
// directory, and queries whose top level mixes repository-level atoms,
// type:repo and content atoms.
type c18Case struct {
	Corpus  kit.Corpus
	Layout  []string // per repository: "simple" | "multi" | "compound"
	Queries []kit.QSpec
	Lists   []kit.QSpec
	Chunk   bool
}

func genRepoLevelAtom(g kit.G, c *kit.Corpus) kit.QSpec {
	for {
		q, _ := kit.GenQuery(g, c, kit.QueryOpts{MaxDepth: 0, RepoAtoms: true, FoldSafe: true}, 0)
		switch q.Op {
		case "repo", "reposet", "repoids", "branchesrepos", "meta", "reporegex", "rawconfig":
			return q
		}
	}
}

func genC18Query(g kit.G, c *kit.Corpus) kit.QSpec {
	text := func() kit.QSpec {
		q, _ := kit.GenQuery(g, c, kit.QueryOpts{MaxDepth: 1, FoldSafe: true, Symbols: true}, 0)
		return q
	}
	typeRepo := func() kit.QSpec {
		return kit.QSpec{Op: "type", Num: float64(query.TypeRepo), Kids: []kit.QSpec{text()}}
	}
	if g.Bool(12, "allrepos-one-branch") {
		// a single-entry branch / repository list naming every repository: the
		// sharded searcher replaces it by a plain branch filter
		var ids []uint32
		for i := range c.Repos {
			ids = append(ids, c.Repos[i].ID)
		}
		r := &c.Repos[g.U(len(c.Repos), "abrepo")]
		br := kit.QSpec{Op: "branchesrepos", BR: []kit.BRSpec{{Branch: kit.Pick(g, r.Branches, "abbranch").Name, IDs: ids}}}
		if g.Bool(30, "abconst") {
			return kit.QSpec{Op: "and", Kids: []kit.QSpec{br, {Op: "const", Val: true}}}
		}
		return kit.QSpec{Op: "and", Kids: []kit.QSpec{br, text()}}
	}
	if g.Bool(10, "covering-lists") {
		// a branch / repository list with several entries that together name
		// every repository, padded with ids of repositories that are not
		// loaded, so that each entry is as long as the set of repositories
		all := map[string]bool{}
		for i := range c.Repos {
			for _, b := range c.Repos[i].Branches {
				all[b.Name] = true
			}
		}
		var names []string
		for b := range all {
			names = append(names, b)
		}
		sort.Strings(names)
		br := kit.QSpec{Op: "branchesrepos"}
		covered := map[uint32]bool{}
		ne := 2 + g.U(2, "clentries")
		for e := 0; e < ne; e++ {
			spec := kit.BRSpec{Branch: kit.Pick(g, names, "clbranch")}
			for i := range c.Repos {
				if g.Bool(55, "clin") || (e == ne-1 && !covered[c.Repos[i].ID]) {
					spec.IDs = append(spec.IDs, c.Repos[i].ID)
					covered[c.Repos[i].ID] = true
				}
			}
			if g.Bool(70, "clpad") {
				for pad := uint32(900); len(spec.IDs) < len(c.Repos)+g.U(2, "clextra"); pad++ {
					spec.IDs = append(spec.IDs, pad)
				}
			}
			br.BR = append(br.BR, spec)
		}
		return kit.QSpec{Op: "and", Kids: []kit.QSpec{br, text()}}
	}
	switch g.Int(0, 9, "shape") {
	case 0, 1, 2, 3:
		// (and repoatom+ text)
		q := kit.QSpec{Op: "and"}
		n := g.Int(1, 2, "nrepoatoms")
		for i := 0; i < n; i++ {
			q.Kids = append(q.Kids, genRepoLevelAtom(g, c))
		}
		q.Kids = append(q.Kids, text())
		if g.Bool(30, "shuffle") {
			q.Kids[0], q.Kids[len(q.Kids)-1] = q.Kids[len(q.Kids)-1], q.Kids[0]
		}
		return q
	case 4:
		return genRepoLevelAtom(g, c)
	case 5:
		return kit.QSpec{Op: "and", Kids: []kit.QSpec{typeRepo(), text()}}
	case 6:
		return typeRepo()
	case 7:
		return kit.QSpec{Op: "or", Kids: []kit.QSpec{{Op: "and", Kids: []kit.QSpec{genRepoLevelAtom(g, c), text()}}, text()}}
	case 8:
		return kit.QSpec{Op: "and", Kids: []kit.QSpec{{Op: "not", Kids: []kit.QSpec{genRepoLevelAtom(g, c)}}, text()}}
	default:
		return kit.QSpec{Op: "and", Kids: []kit.QSpec{genRepoLevelAtom(g, c), {Op: "not", Kids: []kit.QSpec{typeRepo()}}, text()}}
	}
}

// substituteTypeRepo replaces every type:repo node by the set of repositories
// that have a live document matching its child, judged by the reference
// evaluator over the whole corpus.
func substituteTypeRepo(c *kit.Corpus, q query.Q) (query.Q, error) {
	var ferr error
	out := query.Map(q, func(q query.Q) query.Q {
		t, ok := q.(*query.Type)
		if !ok || t.Type != query.TypeRepo {
			return q
		}
		rs := query.NewRepoSet()
		for i := range c.Repos {
			r := &c.Repos[i]
			if !c.Live(r) {
				continue
			}
			ft := map[string]bool{}
			for _, f := range r.FileTombstones {
				ft[f] = true
			}
			for j := range r.Docs {
				if ft[r.Docs[j].Name] {
					continue
				}
				v, err := kit.Eval(t.Child, kit.Env{R: r, D: &r.Docs[j]})
				if err != nil {
					ferr = err
				}
				if v {
					rs.Set[r.Name] = true
					break
				}
			}
		}
		return rs
	})
	return out, ferr
}

func buildC18(c *c18Case, dir string) error {
	var compound []index.IndexFile
	for i := range c.Corpus.Repos {
		r := &c.Corpus.Repos[i]
		switch c.Layout[i] {
		case "multi":
			if err := kit.BuildWithBuilder(r, dir, kit.BuilderConfig{ShardMax: 120, SizeMax: 2 << 20, TrigramMax: 20000, Parallelism: 2}, nil); err != nil {
				return err
			}
		case "compound":
			data, err := kit.BuildSimple(r)
			if err != nil {
				return err
			}
			compound = append(compound, &kit.MemFile{Data: data, Nm: fmt.Sprintf("c%d", i)})
		default:
			data, err := kit.BuildSimple(r)
			if err != nil {
				return err
			}
			if err := os.WriteFile(filepath.Join(dir, fmt.Sprintf("simple%d_v16.00000.zoekt", i)), data, 0o644); err != nil {
				return err
			}
		}
	}
	if len(compound) > 0 {
		tmp, dst, err := index.Merge(dir, compound...)
		if err != nil {
			return err
		}
		if err := os.Rename(tmp, dst); err != nil {
			return err
		}
	}
	return nil
}

func headMismatch(c *kit.Corpus, qs kit.QSpec) bool {
	// a single-entry branch/repository list on "HEAD" at the top-level
	// conjunction, and a selected repository whose first branch has another name
	kids := []kit.QSpec{qs}
	if qs.Op == "and" {
		kids = qs.Kids
	}
	for _, k := range kids {
		if k.Op == "branchesrepos" && len(k.BR) == 1 && k.BR[0].Branch == "HEAD" {
			for i := range c.Repos {
				for _, id := range k.BR[0].IDs {
					if c.Repos[i].ID == id && c.Repos[i].Branches[0].Name != "HEAD" {
						return true
					}
				}
			}
		}
	}
	return false
}

func runC18(rec *kit.Recorder, c c18Case) error {
	dir, err := os.MkdirTemp("", "c18")
	if err != nil {
		return err
	}
	defer os.RemoveAll(dir)
	// repositories indexed through index.Builder get its skip decisions
	// (e.g. a 2-byte file is replaced by the NOT-INDEXED marker): the model
	// used for type:repo must see the same effective content
	for i := range c.Corpus.Repos {
		if c.Layout[i] != "multi" {
			continue
		}
		docs := append([]kit.Doc(nil), c.Corpus.Repos[i].Docs...)
		for j := range docs {
			if docs[j].Skip == 0 {
				docs[j].Skip = kit.ModelSkip(docs[j].Content, 2<<20, 20000, false)
				if docs[j].Skip != 0 {
					docs[j].Symbols = nil
				}
			}
		}
		c.Corpus.Repos[i].Docs = docs
	}
	if err := buildC18(&c, dir); err != nil {
		return kit.Fail("build", "%v", err)
	}
	per, err := kit.OpenDir(dir)
	if err != nil {
		return kit.Fail("load", "%v", err)
	}
	defer per.Close()
	ds, err := search.NewDirectorySearcher(dir)
	if err != nil {
		return kit.Fail("load", "%v", err)
	}
	defer ds.Close()
	ctx := context.Background()

	// which repositories does each shard hold (for the non-triviality rule)
	shardRepos := make([]map[string]bool, len(per.Shards))
	for i, s := range per.Shards {
		rl, err := s.List(ctx, &query.Const{Value: true}, nil)
		if err != nil {
			return kit.Fail("list-error", "%v", err)
		}
		shardRepos[i] = map[string]bool{}
		for _, e := range rl.Repos {
			shardRepos[i][e.Repository.Name] = true
		}
	}

	for _, qs := range c.Queries {
		q, err := qs.Q()
		if err != nil {
			continue
		}
		if _, err := kit.Expected(&c.Corpus, q); err != nil {
			continue
		}
		pq, err := substituteTypeRepo(&c.Corpus, q)
		if err != nil {
			continue
		}
		var union []zoekt.FileMatch
		shardsHit := 0
		perShardFailed := false
		for _, s := range per.Shards {
			var res *zoekt.SearchResult
			err := kit.Guard(func() error {
				var err error
				res, err = s.Search(ctx, pq, &zoekt.SearchOptions{ChunkMatches: c.Chunk})
				return err
			})
			if err != nil {
				perShardFailed = true // the bare shard cannot evaluate it: C01/C07's subject
				break
			}
			if len(res.Files) > 0 {
				shardsHit++
			}
			union = append(union, res.Files...)
		}
		if perShardFailed {
			continue
		}
		want, err := resultSig(union)
		if err != nil {
			return err
		}
		res, err := ds.Search(ctx, q, &zoekt.SearchOptions{ChunkMatches: c.Chunk})
		if err != nil {
			return kit.Fail("search-error", "sharded search %s: %v", q, err)
		}
		if res.Stats.Crashes > 0 {
			return kit.Fail("crash", "sharded search %s: %d crashes", q, res.Stats.Crashes)
		}
		got, err := resultSig(res.Files)
		if err != nil {
			return err
		}
		// the property speaks of files and matches: the reported branch list is
		// not compared (a rewritten branch filter legitimately narrows it)
		for k, v := range want {
			v.Branches = ""
			want[k] = v
		}
		for k, v := range got {
			v.Branches = ""
			got[k] = v
		}
		var diffs []string
		for k, w := range want {
			if g, ok := got[k]; !ok {
				diffs = append(diffs, "missing "+k)
			} else if g != w {
				diffs = append(diffs, fmt.Sprintf("%s: per-shard %+v sharded %+v", k, w, g))
			}
		}
		for k := range got {
			if _, ok := want[k]; !ok {
				diffs = append(diffs, "extra "+k)
			}
		}
		nt := shardsHit >= 1 && shardsHit < len(per.Shards) && (specHasRepoFilter(qs) || strings.Contains(fmt.Sprint(qs.Ops()), "type"))
		rec.Eval(fmt.Sprintf("%+v|%+v|%+v", c.Corpus, c.Layout, qs), nt, append(qs.Ops(), fmt.Sprintf("shards:%d", min(len(per.Shards), 6)))...)
		if len(diffs) > 0 {
			sort.Strings(diffs)
			known := ""
			if headMismatch(&c.Corpus, qs) {
				known = "C18-single-branchesrepos-head-rewrite"
			}
			return kit.FailKnown(known, "not-the-union", "query %s (per shard: %s): %s", q, pq, strings.Join(diffs, "; "))
		}
	}

	// listings
	for _, qs := range c.Lists {
		q, err := qs.Q()
		if err != nil {
			continue
		}
		if _, err := kit.Expected(&c.Corpus, q); err != nil {
			continue
		}
		pq, err := substituteTypeRepo(&c.Corpus, q)
		if err != nil {
			continue
		}
		type agg struct {
			shards, docs int
			content      int64
		}
		want := map[string]*agg{}
		failed := false
		for _, s := range per.Shards {
			var rl *zoekt.RepoList
			err := kit.Guard(func() error {
				var err error
				rl, err = s.List(ctx, pq, nil)
				return err
			})
			if err != nil {
				failed = true
				break
			}
			for _, e := range rl.Repos {
				a := want[e.Repository.Name]
				if a == nil {
					a = &agg{}
					want[e.Repository.Name] = a
				}
				a.shards += e.Stats.Shards
				a.docs += e.Stats.Documents
				a.content += e.Stats.ContentBytes
			}
		}
		if failed {
			continue
		}
		rl, err := ds.List(ctx, q, nil)
		if err != nil {
			return kit.Fail("list-error", "sharded list %s: %v", q, err)
		}
		if rl.Crashes > 0 {
			return kit.Fail("crash", "sharded list %s: %d crashes", q, rl.Crashes)
		}
		seen := map[string]bool{}
		for _, e := range rl.Repos {
			n := e.Repository.Name
			if seen[n] {
				return kit.Fail("list-duplicate", "list %s: repository %s listed twice", q, n)
			}
			seen[n] = true
			w := want[n]
			if w == nil {
				known := ""
				if headMismatch(&c.Corpus, qs) {
					known = "C18-single-branchesrepos-head-rewrite"
				}
				return kit.FailKnown(known, "list-extra", "list %s: repository %s listed by the sharded searcher but by no shard", q, n)
			}
			if e.Stats.Shards != w.shards || e.Stats.Documents != w.docs || e.Stats.ContentBytes != w.content {
				return kit.Fail("list-stats", "list %s: repository %s: stats shards=%d docs=%d content=%d, summed over its shards shards=%d docs=%d content=%d", q, n, e.Stats.Shards, e.Stats.Documents, e.Stats.ContentBytes, w.shards, w.docs, w.content)
			}
		}
		for n := range want {
			if !seen[n] {
				known := ""
				if headMismatch(&c.Corpus, qs) {
					known = "C18-single-branchesrepos-head-rewrite"
				}
				return kit.FailKnown(known, "list-missing", "list %s: repository %s listed by a shard but not by the sharded searcher", q, n)
			}
		}
		multi := false
		for _, a := range want {
			if a.shards > 1 {
				multi = true
			}
		}
		rec.Eval(fmt.Sprintf("list|%+v|%+v|%+v", c.Corpus, c.Layout, qs), multi, "list")
	}
	rec.Sample(c, true)
	return nil
}

func TestVerif_C18(t *testing.T) {
	rec := kit.Open(t, "C18",
		"2-4 generated repositories laid out in one directory as simple shards, multi-shard repositories (index.Builder, ShardMax 120) and a compound shard (no tombstones) x 5-8 queries whose top level combines repository sets / ids / branch-repository lists / repository regexps / metadata / rawconfig / type:repo with content atoms, plus 2-3 List queries; oracle: search.NewDirectorySearcher result = union of per-shard index.NewSearcher results of the original query (type:repo replaced by the repository set the reference evaluator derives); non-trivial (search) = the query has a repository-level atom and hits some but not all shards; (list) = a repository spans several shards; distinct by hash",
		"compared as sets: (repository, file, checksum), match ranges, language (the reported branch list is not compared: the statement names files and matches); List: each repository once, shard / document / content-byte counts summed",
		"queries the bare shard searcher cannot evaluate are skipped here (C01/C07)",
	)
	kit.Property(t, rec, func(rt *rapid.T) c18Case {
		g := kit.G{T: rt}
		o := kit.DefaultCorpus
		o.Tombstones = false
		o.Compound = 0
		o.MaxDocs = 6
		o.MaxTokens = 20
		c := c18Case{Corpus: kit.GenCorpus(g, o), Chunk: g.Bool(50, "chunk")}
		if len(c.Corpus.Repos) < 2 {
			c.Corpus.Repos = append(c.Corpus.Repos, kit.GenRepo(g, o, 1, "github.com/a/bar"))
		}
		if g.Bool(40, "sharedbranches") {
			// every repository has the branches "dev" and "dev-old" (one name
			// contains the other) and documents that are on only one of them
			for i := range c.Corpus.Repos {
				r := &c.Corpus.Repos[i]
				for _, b := range []string{"dev", "dev-old"} {
					has := false
					for _, rb := range r.Branches {
						has = has || rb.Name == b
					}
					if !has {
						r.Branches = append(r.Branches, kit.Branch{Name: b, Version: "v-" + b})
					}
				}
				for j := range r.Docs {
					switch g.U(4, "docbranch") {
					case 0:
						r.Docs[j].Branches = []string{"dev"}
					case 1:
						r.Docs[j].Branches = []string{"dev-old"}
					case 2:
						r.Docs[j].Branches = []string{"dev", "dev-old"}
					}
				}
			}
		}
		if g.Bool(15, "noid") {
			// a repository indexed without an id (older indexes): listings
			// report it in Repos instead of ReposMap
			c.Corpus.Repos[g.U(len(c.Corpus.Repos), "noidrepo")].ID = 0
		}
		ncomp := 0
		for range c.Corpus.Repos {
			l := kit.Pick(g, []string{"simple", "multi", "compound", "compound"}, "layout")
			if l == "compound" {
				ncomp++
			}
			c.Layout = append(c.Layout, l)
		}
		n := g.Int(5, 8, "nq")
		for i := 0; i < n; i++ {
			c.Queries = append(c.Queries, genC18Query(g, &c.Corpus))
		}
		n = g.Int(2, 3, "nl")
		for i := 0; i < n; i++ {
			if g.Bool(30, "listall") {
				c.Lists = append(c.Lists, kit.QSpec{Op: "const", Val: true})
			} else {
				c.Lists = append(c.Lists, genC18Query(g, &c.Corpus))
			}
		}
		return c
	}, func(c c18Case) error { return runC18(rec, c) })
}
