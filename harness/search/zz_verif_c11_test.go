//go:build verif

package search_test

// C11: a corrupted shard file never crashes or hangs the serving process.
//
// A case is (base shard, list of byte-level mutations). The mutated bytes are
// written to their own file in a fresh directory next to a healthy neighbour
// shard, the directory is opened with search.NewDirectorySearcher (the real
// loader path) and a fixed battery of searches and listings is run.
//
// Oracle (nothing more than the property says):
//   - the process survives (a death leaves the journal file behind, which the
//     driver reports as a violation),
//   - every call returns before the watchdog expires,
//   - no panic reaches the caller of NewDirectorySearcher/Search/List,
//   - what the healthy neighbour contributes to every result equals its baseline.
//
// Wrong or missing results from the corrupted shard itself, crash counts and
// error returns are allowed and only counted.

import (
	"bytes"
	"context"
	"encoding/binary"
	"encoding/json"
	"errors"
	"fmt"
	"io"
	"log"
	"os"
	"path/filepath"
	"regexp"
	"runtime"
	"runtime/debug"
	"runtime/metrics"
	"slices"
	"sort"
	"strconv"
	"strings"
	"sync"
	"sync/atomic"
	"testing"
	"time"

	"pgregory.net/rapid"

	"github.com/sourcegraph/zoekt"
	"github.com/sourcegraph/zoekt/index"
	"github.com/sourcegraph/zoekt/internal/verifkit/kit"
	"github.com/sourcegraph/zoekt/search"
)

const (
	c11NeighbourName = "neighbour.example/healthy-zq"
	c11NeighbourID   = 987654
	c11FixedTime     = "2020-01-02T03:04:05.123456789Z"
)

// ---- the case ----

type c11Mut struct {
	// trunc: keep the first Pos bytes. bitflip: flip bit N of byte Pos.
	// run: N bytes of value Val at Pos. splice: overwrite with Data at Pos.
	// insert: insert Data at Pos. delete: remove N bytes at Pos. zero: N zero
	// bytes at Pos. swap: exchange the 4-byte words at Pos and Pos2.
	Kind string
	Pos  int
	Pos2 int      `json:",omitempty"`
	N    int      `json:",omitempty"`
	Val  int      `json:",omitempty"`
	Data kit.Text `json:",omitempty"`
}

type c11Case struct {
	Base    int
	BaseLen int    `json:",omitempty"` // informational: the base shard when the case was generated
	BaseSum string `json:",omitempty"`
	Muts    []c11Mut
}

// c11Apply is a pure function of (base bytes, mutations). Positions are
// reduced modulo the current length so that every descriptor is applicable.
func c11Apply(base []byte, muts []c11Mut) []byte {
	d := append([]byte(nil), base...)
	for _, m := range muts {
		n := len(d)
		pos := m.Pos
		if pos < 0 {
			pos = -pos
		}
		switch m.Kind {
		case "trunc":
			if pos < n {
				d = d[:pos]
			}
			continue
		case "insert":
			if n > 0 {
				pos %= n + 1
			} else {
				pos = 0
			}
			d = append(d[:pos:pos], append(append([]byte(nil), m.Data...), d[pos:]...)...)
			continue
		}
		if n == 0 {
			continue
		}
		pos %= n
		cnt := m.N
		if cnt < 0 {
			cnt = -cnt
		}
		switch m.Kind {
		case "bitflip":
			d[pos] ^= 1 << uint(cnt%8)
		case "run":
			for i := 0; i < cnt && pos+i < n; i++ {
				d[pos+i] = byte(m.Val)
			}
		case "zero":
			for i := 0; i < cnt && pos+i < n; i++ {
				d[pos+i] = 0
			}
		case "splice":
			for i := 0; i < len(m.Data) && pos+i < n; i++ {
				d[pos+i] = m.Data[i]
			}
		case "delete":
			end := min(pos+cnt, n)
			d = append(d[:pos:pos], d[end:]...)
		case "swap":
			p2 := m.Pos2
			if p2 < 0 {
				p2 = -p2
			}
			p2 %= n
			if pos+4 <= n && p2+4 <= n {
				var a, b [4]byte
				copy(a[:], d[pos:pos+4])
				copy(b[:], d[p2:p2+4])
				copy(d[pos:], b[:])
				copy(d[p2:], a[:])
			}
		}
	}
	return d
}

// ---- shard layout (only used to aim mutations and to label them) ----

type c11Region struct {
	Name     string
	Off, End int
}

// c11Layout parses the tagged table of contents of a valid shard.
func c11Layout(d []byte) (regs []c11Region, tocOff int, err error) {
	n := len(d)
	if n < 12 {
		return nil, 0, fmt.Errorf("short shard")
	}
	tocOff = int(binary.BigEndian.Uint32(d[n-8:]))
	tocSz := int(binary.BigEndian.Uint32(d[n-4:]))
	if tocOff+tocSz != n-8 || tocOff+4 > n {
		return nil, 0, fmt.Errorf("unexpected toc position %d+%d in %d bytes", tocOff, tocSz, n)
	}
	p := tocOff
	if binary.BigEndian.Uint32(d[p:]) != 0 {
		return nil, 0, fmt.Errorf("untagged toc")
	}
	p += 4
	end := tocOff + tocSz
	uv := func() (int, error) {
		v, k := binary.Uvarint(d[p:end])
		if k <= 0 {
			return 0, fmt.Errorf("bad varint in toc")
		}
		p += k
		return int(v), nil
	}
	sec := func(name string) error {
		if p+8 > end {
			return fmt.Errorf("toc overrun")
		}
		off := int(binary.BigEndian.Uint32(d[p:]))
		sz := int(binary.BigEndian.Uint32(d[p+4:]))
		p += 8
		if off+sz > n {
			return fmt.Errorf("section %s out of file", name)
		}
		regs = append(regs, c11Region{name, off, off + sz})
		return nil
	}
	for p < end {
		l, err := uv()
		if err != nil {
			return nil, 0, err
		}
		if p+l > end {
			return nil, 0, fmt.Errorf("toc tag overrun")
		}
		tag := string(d[p : p+l])
		p += l
		kind, err := uv()
		if err != nil {
			return nil, 0, err
		}
		if err := sec(tag); err != nil {
			return nil, 0, err
		}
		if kind == 1 || kind == 2 {
			if err := sec(tag + ".index"); err != nil {
				return nil, 0, err
			}
		} else if kind != 0 {
			return nil, 0, fmt.Errorf("section kind %d", kind)
		}
	}
	regs = append(regs, c11Region{"toc", tocOff, n - 8}, c11Region{"tocptr", n - 8, n})
	return regs, tocOff, nil
}

func c11RegionOf(regs []c11Region, pos int) string {
	for _, r := range regs {
		if pos >= r.Off && pos < r.End {
			return r.Name
		}
	}
	return "gap"
}

// ---- the battery ----

type c11Op struct {
	Name string
	List bool
	// DirOnly: only meaningful through the directory searcher (type:repo is
	// rewritten there; a bare shard rejects it even when healthy).
	DirOnly bool
	Q       kit.QSpec
	Opts    zoekt.SearchOptions
	LOpts   zoekt.ListOptions
}

func c11Battery() []c11Op {
	sub := func(p string) kit.QSpec { return kit.QSpec{Op: "substr", Pat: p} }
	return []c11Op{
		{Name: "substr-content", Q: kit.QSpec{Op: "substr", Pat: "foo", Content: true}, Opts: zoekt.SearchOptions{ChunkMatches: true, NumContextLines: 1}},
		{Name: "substr-cs-lines", Q: kit.QSpec{Op: "substr", Pat: "needle", CS: true}, Opts: zoekt.SearchOptions{NumContextLines: 2}},
		{Name: "regexp", Q: kit.QSpec{Op: "regex", Pat: `ne+dle|ba[rz]\s*\w+|été`, Opt: true}, Opts: zoekt.SearchOptions{ChunkMatches: true}},
		{Name: "symbol", Q: kit.QSpec{Op: "sym", Kids: []kit.QSpec{{Op: "regex", Pat: `[a-zA-Z]+`, Opt: true}}}, Opts: zoekt.SearchOptions{ChunkMatches: true}},
		{Name: "symbol-substr", Q: kit.QSpec{Op: "sym", Kids: []kit.QSpec{sub("foo")}}},
		{Name: "branch-filter", Q: kit.QSpec{Op: "and", Kids: []kit.QSpec{{Op: "branch", Pat: "dev"}, sub("bar")}}, Opts: zoekt.SearchOptions{ChunkMatches: true}},
		{Name: "const-whole", Q: kit.QSpec{Op: "const", Val: true}, Opts: zoekt.SearchOptions{Whole: true}},
		{Name: "file-name", Q: kit.QSpec{Op: "substr", Pat: "foo", File: true}, Opts: zoekt.SearchOptions{ChunkMatches: true}},
		{Name: "lang-short", Q: kit.QSpec{Op: "and", Kids: []kit.QSpec{{Op: "lang", Pat: "Go"}, sub("ab")}}},
		{Name: "type-repo", DirOnly: true, Q: kit.QSpec{Op: "type", Num: 2, Kids: []kit.QSpec{sub("日本")}}},
		{Name: "list-repos", List: true, Q: kit.QSpec{Op: "const", Val: true}, LOpts: zoekt.ListOptions{Field: zoekt.RepoListFieldRepos}},
		{Name: "list-reposmap", List: true, Q: kit.QSpec{Op: "const", Val: true}, LOpts: zoekt.ListOptions{Field: zoekt.RepoListFieldReposMap}},
		{Name: "list-repo-regexp", List: true, Q: kit.QSpec{Op: "repo", Pat: "e"}, LOpts: zoekt.ListOptions{Field: zoekt.RepoListFieldRepos}},
	}
}

// c11OpResult is what one call of the battery produced.
type c11OpResult struct {
	Err       string
	Crashes   int
	Neighbour string // normalised contribution of the healthy neighbour
	Others    string // everything else
}

func c11NormFile(f zoekt.FileMatch) string {
	f.Score, f.Debug = 0, ""
	f.LineMatches = append([]zoekt.LineMatch(nil), f.LineMatches...)
	for i := range f.LineMatches {
		f.LineMatches[i].Score, f.LineMatches[i].DebugScore = 0, ""
	}
	f.ChunkMatches = append([]zoekt.ChunkMatch(nil), f.ChunkMatches...)
	for i := range f.ChunkMatches {
		f.ChunkMatches[i].Score, f.ChunkMatches[i].DebugScore = 0, ""
	}
	b, err := json.Marshal(f)
	if err != nil {
		return "unmarshalable:" + err.Error()
	}
	return string(b)
}

func c11RunOp(ctx context.Context, s zoekt.Searcher, op *c11Op) (r c11OpResult) {
	q, err := op.Q.Q()
	if err != nil {
		r.Err = "harness: " + err.Error()
		return r
	}
	var mine, others []string
	if op.List {
		lo := op.LOpts
		rl, err := s.List(ctx, q, &lo)
		if err != nil {
			r.Err = err.Error()
			return r
		}
		r.Crashes = rl.Crashes
		for _, e := range rl.Repos {
			b, _ := json.Marshal(e)
			if e.Repository.Name == c11NeighbourName {
				mine = append(mine, string(b))
			} else {
				others = append(others, string(b))
			}
		}
		for id, e := range rl.ReposMap {
			b, _ := json.Marshal(e)
			if id == c11NeighbourID {
				mine = append(mine, string(b))
			} else {
				others = append(others, fmt.Sprintf("%d:%s", id, b))
			}
		}
	} else {
		so := op.Opts
		sr, err := s.Search(ctx, q, &so)
		if err != nil {
			r.Err = err.Error()
			return r
		}
		r.Crashes = sr.Stats.Crashes
		for _, f := range sr.Files {
			if f.Repository == c11NeighbourName {
				mine = append(mine, c11NormFile(f))
			} else {
				others = append(others, c11NormFile(f))
			}
		}
	}
	sort.Strings(mine)
	sort.Strings(others)
	r.Neighbour = strings.Join(mine, "\n")
	r.Others = strings.Join(others, "\n")
	return r
}

// ---- environment: base shards, neighbour, baselines (built once per process) ----

type c11Base struct {
	Label    string
	File     string // file name used in the directory
	Data     []byte
	Sum      string
	Regions  []c11Region
	TocOff   int
	MetaOff  int // start of the metadata JSON (TOC + metadata tail starts here)
	Baseline []c11OpResult
	pick     map[string][]c11Region
}

type c11Env struct {
	bases     []c11Base
	neighbour []byte
	baseline  []c11OpResult // neighbour alone
	battery   []c11Op
	watchdog  time.Duration
}

var (
	c11EnvOnce sync.Once
	c11TheEnv  *c11Env
	c11EnvErr  error
)

var c11TimeRe = regexp.MustCompile(`"IndexTime":"([^"]*)"`)

// c11FixTime overwrites the index time (the only run-dependent bytes of a
// shard) in place. It reports false when the serialised time does not have
// the full length, in which case the caller builds again.
func c11FixTime(d []byte) bool {
	locs := c11TimeRe.FindAllSubmatchIndex(d, -1)
	if len(locs) != 1 {
		return false
	}
	a, b := locs[0][2], locs[0][3]
	if b-a != len(c11FixedTime) {
		return false
	}
	copy(d[a:b], c11FixedTime)
	return true
}

func c11BuildBytes(c *kit.Corpus) ([]byte, error) {
	for try := 0; try < 200; try++ {
		var data []byte
		if c.Compound {
			dir, err := os.MkdirTemp("", "c11-build-")
			if err != nil {
				return nil, err
			}
			b, err := kit.Build(c, dir)
			if err != nil {
				os.RemoveAll(dir)
				return nil, err
			}
			if len(b.Paths) != 1 {
				b.Close()
				os.RemoveAll(dir)
				return nil, fmt.Errorf("compound build produced %d files", len(b.Paths))
			}
			data, err = os.ReadFile(b.Paths[0])
			b.Close()
			os.RemoveAll(dir)
			if err != nil {
				return nil, err
			}
		} else {
			if len(c.Repos) != 1 {
				return nil, fmt.Errorf("simple base needs exactly one repository")
			}
			var err error
			data, err = kit.BuildSimple(&c.Repos[0])
			if err != nil {
				return nil, err
			}
		}
		if c11FixTime(data) {
			return data, nil
		}
	}
	return nil, fmt.Errorf("could not normalise the index time")
}

func c11Example(o kit.CorpusOpts, pred func(*kit.Corpus) bool) kit.Corpus {
	gen := rapid.Custom(func(t *rapid.T) kit.Corpus { return kit.GenCorpus(kit.G{T: t}, o) })
	for seed := 1; ; seed++ {
		c := gen.Example(seed)
		for i := range c.Repos {
			c.Repos[i].Tombstone = false
		}
		if pred(&c) {
			return c
		}
	}
}

func c11NeighbourCorpus() kit.Corpus {
	doc := func(name, content string, branches []string, syms ...string) kit.Doc {
		d := kit.Doc{Name: name, Content: kit.Text(content), Branches: branches, Language: "Go"}
		for _, s := range syms {
			if i := strings.Index(content, s); i >= 0 {
				d.Symbols = append(d.Symbols, kit.Sym{Start: i, End: i + len(s), Kind: "function"})
			}
		}
		return d
	}
	return kit.Corpus{Repos: []kit.Repo{{
		Name: c11NeighbourName, ID: c11NeighbourID,
		Branches:  []kit.Branch{{Name: "HEAD", Version: "n0"}, {Name: "dev", Version: "n1"}},
		RawConfig: map[string]string{"public": "1"},
		Docs: []kit.Doc{
			doc("foo/needle.go", "package foo\n\nfunc needle() {\n\treturn bar baz\n}\n// foo bar Needle été\n", []string{"HEAD", "dev"}, "needle", "foo"),
			doc("main.go", "func main() { foo(); abab() }\nbar x\n日本語 needle\n", []string{"HEAD"}, "main"),
			doc("docs/foo.md", "no newline at the end: foobar barfoo", []string{"dev"}),
			doc("empty.go", "", []string{"HEAD"}),
		},
	}}}
}

func c11NonASCII(c *kit.Corpus) bool {
	for i := range c.Repos {
		for j := range c.Repos[i].Docs {
			for _, b := range c.Repos[i].Docs[j].Content {
				if b >= 0x80 {
					return true
				}
			}
		}
	}
	return false
}

func c11HasSyms(r *kit.Repo) bool {
	for j := range r.Docs {
		if len(r.Docs[j].Symbols) > 0 {
			return true
		}
	}
	return false
}

func c11GetEnv() (*c11Env, error) {
	c11EnvOnce.Do(func() { c11TheEnv, c11EnvErr = c11NewEnv() })
	return c11TheEnv, c11EnvErr
}

func c11NewEnv() (*c11Env, error) {
	e := &c11Env{battery: c11Battery(), watchdog: 10 * time.Second}
	if ms, err := strconv.Atoi(os.Getenv("VERIF_C11_WATCHDOG_MS")); err == nil && ms > 0 {
		e.watchdog = time.Duration(ms) * time.Millisecond
	}
	no, yes := false, true
	one := kit.CorpusOpts{MaxRepos: 1, MaxDocs: 6, MaxTokens: 25, Skips: true, Symbols: true, ForceCompound: &no}
	tiny := kit.CorpusOpts{MaxRepos: 1, MaxDocs: 2, MaxTokens: 6, Symbols: true, ForceCompound: &no}
	medium := kit.CorpusOpts{MaxRepos: 1, MaxDocs: 14, MaxTokens: 60, Skips: true, Symbols: true, SubRepos: true, LongLines: true, ForceCompound: &no}
	comp := kit.CorpusOpts{MaxRepos: 3, MaxDocs: 5, MaxTokens: 20, Skips: true, Symbols: true, ForceCompound: &yes}
	type spec struct {
		label, file string
		corpus      kit.Corpus
	}
	specs := []spec{
		{"symbols-branches-multibyte", "base0_v16.00000.zoekt", c11Example(one, func(c *kit.Corpus) bool {
			r := &c.Repos[0]
			return len(r.Docs) >= 3 && len(r.Branches) >= 3 && c11HasSyms(r) && c11NonASCII(c)
		})},
		{"tiny", "base1_v16.00000.zoekt", c11Example(tiny, func(c *kit.Corpus) bool {
			r := &c.Repos[0]
			return len(r.Docs) == 2 && len(r.Docs[0].Content) >= 8 && len(r.Branches) >= 2 && c11HasSyms(r)
		})},
		{"medium-subrepos-longlines", "base2_v16.00000.zoekt", c11Example(medium, func(c *kit.Corpus) bool {
			r := &c.Repos[0]
			long := false
			for j := range r.Docs {
				if len(r.Docs[j].Content) > 250 {
					long = true
				}
			}
			return len(r.Docs) >= 8 && len(r.SubRepos) > 0 && long && len(r.Branches) == 4 && c11HasSyms(r)
		})},
		{"compound", "compound-base3_v17.00000.zoekt", c11Example(comp, func(c *kit.Corpus) bool {
			if len(c.Repos) != 3 {
				return false
			}
			for i := range c.Repos {
				if len(c.Repos[i].Docs) < 2 {
					return false
				}
			}
			return c11NonASCII(c) && c11HasSyms(&c.Repos[1])
		})},
	}
	nc := c11NeighbourCorpus()
	nb, err := c11BuildBytes(&nc)
	if err != nil {
		return nil, fmt.Errorf("neighbour: %w", err)
	}
	e.neighbour = nb
	for _, s := range specs {
		data, err := c11BuildBytes(&s.corpus)
		if err != nil {
			return nil, fmt.Errorf("base %s: %w", s.label, err)
		}
		regs, tocOff, err := c11Layout(data)
		if err != nil {
			return nil, fmt.Errorf("base %s: %w", s.label, err)
		}
		b := c11Base{Label: s.label, File: s.file, Data: data, Sum: fmt.Sprintf("%x", kit.Checksum(data)), Regions: regs, TocOff: tocOff, MetaOff: tocOff, pick: map[string][]c11Region{}}
		for _, r := range regs {
			if r.End <= r.Off {
				continue
			}
			switch r.Name {
			case "metaData", "repoMetaData":
				b.pick["meta"] = append(b.pick["meta"], r)
				b.MetaOff = min(b.MetaOff, r.Off)
			case "newlines", "fileSections", "postings", "namePostings", "runeOffsets", "nameRuneOffsets", "fileEndRunes",
				"nameEndRunes", "subRepos", "runeDocSections", "repos", "reposIDsBitmap", "symbolMap", "symbolKindMap":
				b.pick["varint"] = append(b.pick["varint"], r)
			case "toc", "tocptr":
			default:
				if strings.HasSuffix(r.Name, ".index") || r.Name == "ngramText" || r.Name == "nameNgramText" ||
					r.Name == "branchMasks" || r.Name == "fileEndSymbol" || r.Name == "symbolMetaData" {
					b.pick["fixed"] = append(b.pick["fixed"], r)
				}
			}
			b.pick["any"] = append(b.pick["any"], r)
		}
		e.bases = append(e.bases, b)
	}

	// Baselines, and a self-check of the oracle: next to every unmutated base
	// the neighbour contributes exactly what it contributes alone.
	res, _, err := e.serveBytes(nil, "")
	if err != nil {
		return nil, fmt.Errorf("baseline: %w", err)
	}
	e.baseline = res
	nonEmpty := 0
	for i, r := range res {
		if r.Err != "" || r.Crashes != 0 {
			return nil, fmt.Errorf("baseline %s: err=%q crashes=%d", e.battery[i].Name, r.Err, r.Crashes)
		}
		if r.Neighbour != "" {
			nonEmpty++
		}
	}
	if nonEmpty < len(res)-1 {
		return nil, fmt.Errorf("baseline: only %d of %d battery calls return neighbour results", nonEmpty, len(res))
	}
	for bi := range e.bases {
		b := &e.bases[bi]
		res, _, err := e.serveBytes(b.Data, b.File)
		if err != nil {
			return nil, fmt.Errorf("healthy base %s: %w", b.Label, err)
		}
		hits := 0
		for i, r := range res {
			if r.Err != "" || r.Crashes != 0 {
				return nil, fmt.Errorf("healthy base %s / %s: err=%q crashes=%d", b.Label, e.battery[i].Name, r.Err, r.Crashes)
			}
			if r.Neighbour != e.baseline[i].Neighbour {
				return nil, fmt.Errorf("oracle self-check: neighbour results next to the healthy base %s differ for %s", b.Label, e.battery[i].Name)
			}
			if r.Others != "" {
				hits++
			}
		}
		if hits < 6 {
			return nil, fmt.Errorf("base %s: only %d battery calls hit it", b.Label, hits)
		}
		b.Baseline = res
	}
	return e, nil
}

// serveBytes writes the neighbour (and, if data != nil, the shard under test)
// into a fresh directory, opens it through the real loader and runs the
// battery. It is only used for healthy inputs; mutated inputs go through
// serveDir under the watchdog.
func (e *c11Env) serveBytes(data []byte, file string) ([]c11OpResult, string, error) {
	dir, err := e.writeDir(data, file)
	if err != nil {
		return nil, "", err
	}
	defer os.RemoveAll(dir)
	res, err := e.serveDir(dir, func() {})
	return res, dir, err
}

func (e *c11Env) writeDir(data []byte, file string) (string, error) {
	dir, err := os.MkdirTemp("", "c11-")
	if err != nil {
		return "", err
	}
	if err := os.WriteFile(filepath.Join(dir, "neighbour_v16.00000.zoekt"), e.neighbour, 0o644); err != nil {
		return dir, err
	}
	if data != nil {
		if err := os.WriteFile(filepath.Join(dir, file), data, 0o644); err != nil {
			return dir, err
		}
	}
	return dir, nil
}

var errC11Deadline = errors.New("a call only returned when its context deadline expired")

func (e *c11Env) serveDir(dir string, beat func()) ([]c11OpResult, error) {
	ds, err := search.NewDirectorySearcher(dir)
	if err != nil {
		return nil, fmt.Errorf("NewDirectorySearcher: %w", err)
	}
	defer ds.Close()
	beat()
	out := make([]c11OpResult, len(e.battery))
	for i := range e.battery {
		ctx, cancel := context.WithTimeout(context.Background(), e.watchdog)
		out[i] = c11RunOp(ctx, ds, &e.battery[i])
		late := ctx.Err() != nil
		cancel()
		beat()
		if late {
			return out, fmt.Errorf("%s: %w", e.battery[i].Name, errC11Deadline)
		}
	}
	return out, nil
}

// ---- guard, watchdog ----

type c11Panic struct {
	Val   string
	Stack string
}

func (p *c11Panic) Error() string { return "panic: " + p.Val }

func c11Guard(f func() error) (err error) {
	defer func() {
		if p := recover(); p != nil {
			err = &c11Panic{Val: fmt.Sprint(p), Stack: string(debug.Stack())}
		}
	}()
	return f()
}

// c11PanicSite names the innermost zoekt frame of a recovered panic.
func c11PanicSite(stack string) string {
	if i := strings.Index(stack, "\npanic("); i >= 0 {
		stack = stack[i+1:]
	}
	const pfx = "github.com/sourcegraph/zoekt"
	for _, ln := range strings.Split(stack, "\n") {
		if !strings.HasPrefix(ln, pfx) || strings.Contains(ln, "verifkit") || strings.Contains(ln, "search_test.") {
			continue
		}
		if i := strings.LastIndex(ln, "("); i > 0 {
			ln = ln[:i]
		}
		return strings.TrimPrefix(strings.TrimPrefix(ln, pfx), "/")
	}
	return "unknown"
}

// c11Watch runs f in its own goroutine and reports whether it returned. f
// calls beat after every completed call into zoekt; the watchdog expires when
// no call completed for d. On expiry the goroutine is left behind.
func c11Watch(d time.Duration, f func(beat func()) error) (err error, hung bool) {
	done := make(chan error, 1)
	var last atomic.Int64
	last.Store(time.Now().UnixNano())
	beat := func() { last.Store(time.Now().UnixNano()) }
	go func() { done <- c11Guard(func() error { return f(beat) }) }()
	tick := time.NewTicker(50 * time.Millisecond)
	defer tick.Stop()
	for {
		select {
		case err = <-done:
			return err, false
		case <-tick.C:
			if time.Since(time.Unix(0, last.Load())) > d+d/10 {
				return nil, true
			}
		}
	}
}

var c11MemGuardOnce sync.Once

// c11StartMemGuard polls the size of the Go heap and calls onExceed once it
// passes the limit (default 1 GiB). It is started after the set-up (whose
// shard builders allocate large tables); healthy cases keep the heap below
// 30 MiB. It
// turns an allocation blow-up into a reported case with a stack instead of a
// bare "fatal error: out of memory".
func c11StartMemGuard(onExceed func(total uint64)) {
	c11MemGuardOnce.Do(func() {
		runtime.GC()
		limit := uint64(1 << 30)
		if mb, err := strconv.Atoi(os.Getenv("VERIF_C11_MEMGUARD_MB")); err == nil && mb > 0 {
			limit = uint64(mb) << 20
		}
		go func() {
			sample := []metrics.Sample{{Name: "/memory/classes/heap/objects:bytes"}}
			for {
				time.Sleep(5 * time.Millisecond)
				metrics.Read(sample)
				var total uint64
				for _, s := range sample {
					if s.Value.Kind() == metrics.KindUint64 {
						total += s.Value.Uint64()
					}
				}
				if total > limit {
					onExceed(total)
					return
				}
			}
		}()
	})
}

// c11StuckStacks returns the goroutines that are inside zoekt code.
func c11StuckStacks() string {
	buf := make([]byte, 1<<20)
	buf = buf[:runtime.Stack(buf, true)]
	var out []string
	gs := strings.Split(string(buf), "\n\n")
	// goroutines that are executing come first: a spinning loop is what we look for
	sort.SliceStable(gs, func(i, j int) bool {
		busy := func(g string) bool {
			h, _, _ := strings.Cut(g, "\n")
			return strings.Contains(h, "[running") || strings.Contains(h, "[runnable")
		}
		return busy(gs[i]) && !busy(gs[j])
	})
	for _, g := range gs {
		if !strings.Contains(g, "sourcegraph/zoekt/index.") && !strings.Contains(g, "sourcegraph/zoekt/search.") {
			continue
		}
		if strings.Contains(g, "c11StuckStacks") || strings.Contains(g, "[chan receive") && !strings.Contains(g, "zoekt/index.") {
			continue
		}
		if len(g) > 1800 {
			g = g[:1800] + "…"
		}
		out = append(out, g)
		if len(out) == 3 {
			break
		}
	}
	if len(out) == 0 {
		// nothing inside zoekt: show what is running instead
		for _, g := range gs {
			if len(out) < 6 && !strings.Contains(g, "c11StuckStacks") {
				out = append(out, c11Trim(g, 900))
			}
		}
	}
	return strings.Join(out, "\n\n")
}

// ---- running one case ----

type c11Outcome struct {
	NonTrivial bool
	Labels     []string
	Err        error // discrepancy
	Hung       string
}

var c11LoadErrClasses = []string{
	"out of bounds", "beyond", "invalid character", "unexpected end of JSON", "cannot unmarshal", "section count mismatch",
	"unknown section kind", "file is v", "feature version", "want", "barf", "Cannot backfill", "EOF", "overflow", "corrupt", "invalid",
}

func c11LoadErrClass(err error) string {
	s := err.Error()
	for _, c := range c11LoadErrClasses {
		if strings.Contains(s, c) {
			return strings.ReplaceAll(c, " ", "-")
		}
	}
	return "other"
}

var (
	c11Mu         sync.Mutex
	c11CrashSites = map[string]string{} // site -> example
	c11QueryErrs  = map[string]string{}
)

func c11Note(m map[string]string, key, example string) {
	c11Mu.Lock()
	defer c11Mu.Unlock()
	if _, ok := m[key]; !ok && len(m) < 64 {
		if len(example) > 700 {
			example = example[:700] + "…"
		}
		m[key] = example
	}
}

func (e *c11Env) run(c c11Case) (o c11Outcome) {
	if c.Base < 0 || c.Base >= len(e.bases) {
		o.Err = kit.Fail("bad-case", "base %d out of range", c.Base)
		return o
	}
	b := &e.bases[c.Base]
	if c.BaseSum != "" && c.BaseSum != b.Sum {
		fmt.Fprintf(os.Stderr, "C11: note: base shard %d has checksum %s, the case was generated against %s\n", c.Base, b.Sum, c.BaseSum)
	}
	data := c11Apply(b.Data, c.Muts)
	o.NonTrivial = !bytes.Equal(data, b.Data)
	kind, region := "none", "none"
	if len(c.Muts) > 0 {
		m := c.Muts[0]
		kind = m.Kind
		pos := m.Pos
		if pos < 0 {
			pos = -pos
		}
		if len(b.Data) > 0 {
			pos %= len(b.Data) + 1
		}
		region = c11RegionOf(b.Regions, pos)
		if pos == len(b.Data) {
			region = "eof"
		}
	}
	o.Labels = append(o.Labels, "kind:"+kind, "region:"+region, "base:"+b.Label)
	if len(c.Muts) > 1 {
		o.Labels = append(o.Labels, "multi-mutation")
	}
	if !o.NonTrivial {
		o.Labels = append(o.Labels, "outcome:noop")
		return o
	}
	dir, err := e.writeDir(data, b.File)
	if err != nil {
		os.RemoveAll(dir)
		o.Err = kit.Fail("harness-io", "%v", err)
		return o
	}

	// 1. the real loader path
	var res []c11OpResult
	err, hung := c11Watch(e.watchdog, func(beat func()) error {
		var err error
		res, err = e.serveDir(dir, beat)
		return err
	})
	if hung || errors.Is(err, errC11Deadline) {
		o.Hung = fmt.Sprintf("directory searcher over the mutated shard did not finish within the watchdog (%v per call): %v\n%s", e.watchdog, err, c11StuckStacks())
		return o // directory is left in place: files may still be mapped by the stuck goroutine
	}
	defer os.RemoveAll(dir)
	var p *c11Panic
	if errors.As(err, &p) {
		o.Err = kit.Fail("panic-escaped", "a panic reached the caller of the directory searcher: %s\n%s", p.Val, c11Trim(p.Stack, 3000))
		return o
	}
	if err != nil {
		o.Err = kit.Fail("directory-searcher", "%v", err)
		return o
	}
	crashes, qerrs := 0, 0
	sameOthers := true
	for i, r := range res {
		op := e.battery[i].Name
		if r.Err != "" {
			qerrs++
			c11Note(c11QueryErrs, c11Digits.ReplaceAllString(strings.SplitN(r.Err, ", name ", 2)[0], "N"), op+": "+r.Err)
			continue // the whole call failed: there are no results to compare
		}
		crashes += r.Crashes
		if r.Neighbour != e.baseline[i].Neighbour {
			o.Err = kit.Fail("neighbour-affected", "%s: the healthy neighbour's part of the result differs from its baseline (crashes=%d)\n got: %s\nwant: %s",
				op, r.Crashes, c11Trim(r.Neighbour, 1500), c11Trim(e.baseline[i].Neighbour, 1500))
			return o
		}
		if r.Others != b.Baseline[i].Others {
			sameOthers = false
		}
	}

	// 2. the bare shard, only to classify the outcome and to localise contained crashes
	var loadErr error
	sites := map[string]bool{}
	err, hung = c11Watch(e.watchdog, func(beat func()) error {
		s, err := index.NewSearcher(&kit.MemFile{Data: data, Nm: filepath.Join(dir, b.File)})
		if err != nil {
			loadErr = err
			return nil
		}
		beat()
		for i := range e.battery {
			op := &e.battery[i]
			if op.DirOnly {
				continue
			}
			ctx, cancel := context.WithTimeout(context.Background(), e.watchdog)
			perr := c11Guard(func() error { c11RunOp(ctx, s, op); return nil })
			cancel()
			beat()
			var p *c11Panic
			if errors.As(perr, &p) {
				site := c11PanicSite(p.Stack)
				sites[site] = true
				c11Note(c11CrashSites, site, fmt.Sprintf("%s: %s | case %s", op.Name, p.Val, c11JSON(c)))
			}
		}
		return nil
	})
	if hung {
		o.Hung = fmt.Sprintf("bare index.NewSearcher/Search over the mutated shard did not finish within the watchdog although the directory searcher did:\n%s", c11StuckStacks())
		return o
	}
	if errors.As(err, &p) {
		// The directory searcher survived, so this panic is contained there
		// (or the loader rejected the file earlier); it is only recorded.
		site := c11PanicSite(p.Stack)
		sites["load:"+site] = true
		c11Note(c11CrashSites, "load:"+site, fmt.Sprintf("NewSearcher: %s | case %s", p.Val, c11JSON(c)))
		loadErr = p
	}
	switch {
	case loadErr != nil:
		o.Labels = append(o.Labels, "outcome:load-error", "loaderr:"+c11LoadErrClass(loadErr))
	case crashes > 0:
		o.Labels = append(o.Labels, "outcome:served-with-crash-count")
	case qerrs > 0:
		o.Labels = append(o.Labels, "outcome:served-query-error")
	case sameOthers:
		o.Labels = append(o.Labels, "outcome:served-ok", "served:results-identical")
	default:
		o.Labels = append(o.Labels, "outcome:served-ok", "served:results-differ")
	}
	if loadErr == nil && qerrs > 0 {
		o.Labels = append(o.Labels, "served:some-call-returned-error")
	}
	for s := range sites {
		o.Labels = append(o.Labels, "crash-site:"+s)
	}
	return o
}

var c11Digits = regexp.MustCompile(`[0-9]+`)

func c11Trim(s string, n int) string {
	if len(s) > n {
		return s[:n] + "…"
	}
	return s
}

func c11JSON(v any) string {
	b, _ := json.Marshal(v)
	return string(b)
}

// c11Record runs one case for the recorder. A hang is reported and ends the
// process: the stuck goroutine keeps spinning (and possibly allocating), so
// nothing that follows could be trusted.
func (e *c11Env) record(rec *kit.Recorder, c c11Case) error {
	rec.Journal(c)
	c11Current.Store(&c)
	o := e.run(c)
	rec.Eval(c11JSON(c), o.NonTrivial, o.Labels...)
	if o.Hung != "" {
		c11ReportAndExit(rec, c, kit.Fail("hang", "%s", o.Hung))
		return nil
	}
	rec.JournalDone()
	rec.Sample(c, o.NonTrivial)
	if o.Err != nil {
		return o.Err
	}
	return nil
}

var c11Current atomic.Pointer[c11Case]

// c11ReportAndExit records a violation that leaves the process unusable (a
// goroutine that spins or allocates without bound) and ends the process.
func c11ReportAndExit(rec *kit.Recorder, c c11Case, err error) {
	if rec.Judge(c, err) != nil {
		c11FlushNotes(rec)
		rec.Flush()
		fmt.Fprintf(os.Stderr, "C11: %v\ncase: %s\n", err, c11JSON(c))
		os.Exit(1)
	}
}

func c11FlushNotes(rec *kit.Recorder) {
	c11Mu.Lock()
	defer c11Mu.Unlock()
	cs := map[string]string{}
	for k, v := range c11CrashSites {
		cs[k] = v
	}
	qe := map[string]string{}
	for k, v := range c11QueryErrs {
		qe[k] = v
	}
	rec.Set("contained_crash_sites", cs)
	rec.Set("query_errors", qe)
}

// ---- generator ----

// rapid's integer generators strongly favour small values (a geometric number
// of significant bits), which would concentrate kinds and positions on the
// first alternatives. c11G derives evenly spread choices from rapid draws by
// mixing two draws; it stays a pure function of the draws, so replay and
// shrinking work as usual.
type c11G struct{ T *rapid.T }

func c11Mix(x uint64) uint64 {
	x += 0x9e3779b97f4a7c15
	x = (x ^ (x >> 30)) * 0xbf58476d1ce4e5b9
	x = (x ^ (x >> 27)) * 0x94d049bb133111eb
	return x ^ (x >> 31)
}

func (g c11G) U64(label string) uint64 {
	a := rapid.Uint64().Draw(g.T, label)
	b := rapid.Uint64().Draw(g.T, label+"'")
	return c11Mix(a) ^ c11Mix(b^0x5851f42d4c957f2d)
}

func (g c11G) Int(lo, hi int, label string) int {
	if hi <= lo {
		return lo
	}
	return lo + int(g.U64(label)%uint64(hi-lo+1))
}

func (g c11G) Bool(pct int, label string) bool { return g.Int(0, 99, label) < pct }

func c11Pick[T any](g c11G, xs []T, label string) T { return xs[g.Int(0, len(xs)-1, label)] }

func c11PickRegion(g c11G, b *c11Base, class string) (lo, hi int) {
	rs := b.pick[class]
	if len(rs) == 0 {
		return 0, len(b.Data) - 1
	}
	r := rs[g.Int(0, len(rs)-1, "region")]
	return r.Off, r.End - 1
}

func c11GenPos(g c11G, b *c11Base) int {
	n := len(b.Data)
	lo, hi := 0, n-1
	switch w := g.Int(0, 99, "where"); {
	case w < 12:
	case w < 24:
		lo = max(0, n-2048)
	case w < 44:
		lo = b.TocOff
	case w < 58:
		lo, hi = c11PickRegion(g, b, "meta")
	case w < 84:
		lo, hi = c11PickRegion(g, b, "varint")
	case w < 96:
		lo, hi = c11PickRegion(g, b, "fixed")
	default:
		hi = min(16, n-1)
	}
	return g.Int(lo, hi, "pos")
}

func c11GenMut(g c11G, b *c11Base) c11Mut {
	n := len(b.Data)
	switch k := g.Int(0, 99, "kind"); {
	case k < 20:
		m := c11Mut{Kind: "trunc"}
		switch w := g.Int(0, 99, "truncwhere"); {
		case w < 28:
			m.Pos = g.Int(0, n-1, "k")
		case w < 58:
			m.Pos = g.Int(max(0, n-2048), n-1, "k")
		case w < 70:
			m.Pos = g.Int(0, 16, "k")
		case w < 82:
			m.Pos = g.Int(n-16, n-1, "k")
		default:
			lo, hi := c11PickRegion(g, b, "any")
			m.Pos = min(n-1, max(0, c11Pick(g, []int{lo, hi + 1}, "edge")+g.Int(-1, 1, "delta")))
		}
		return m
	case k < 48:
		bit := g.Int(0, 7, "bit")
		if g.Bool(30, "contbit") {
			bit = 7
		}
		return c11Mut{Kind: "bitflip", Pos: c11GenPos(g, b), N: bit}
	case k < 62:
		return c11Mut{Kind: "run", Pos: c11GenPos(g, b), N: g.Int(1, 16, "runlen"), Val: c11Pick(g, []int{0xFF, 0x80, 0xFF, 0x80, 0x7F, 0x81}, "runval")}
	case k < 74:
		data := rapid.SliceOfN(rapid.Byte(), 1, 24).Draw(g.T, "garbage")
		kind := "splice"
		if g.Bool(30, "ins") {
			kind = "insert"
		}
		return c11Mut{Kind: kind, Pos: c11GenPos(g, b), Data: data}
	case k < 84:
		return c11Mut{Kind: "zero", Pos: c11GenPos(g, b), N: c11Pick(g, []int{1, 2, 4, 8, 16, 64, 256}, "zerolen")}
	case k < 90:
		return c11Mut{Kind: "delete", Pos: c11GenPos(g, b), N: c11Pick(g, []int{1, 1, 2, 4, 8, 32}, "dellen")}
	default:
		return c11Mut{Kind: "swap", Pos: g.Int(b.TocOff, n-5, "w1"), Pos2: g.Int(b.TocOff, n-5, "w2")}
	}
}

func c11GenCase(rt *rapid.T, e *c11Env) c11Case {
	g := c11G{T: rt}
	bi := g.Int(0, len(e.bases)-1, "base")
	b := &e.bases[bi]
	c := c11Case{Base: bi, BaseLen: len(b.Data), BaseSum: b.Sum}
	nm := 1
	switch x := g.Int(0, 99, "nmut"); {
	case x >= 95:
		nm = 3
	case x >= 82:
		nm = 2
	}
	for i := 0; i < nm; i++ {
		c.Muts = append(c.Muts, c11GenMut(g, b))
	}
	return c
}

// ---- exhaustive enumeration (thorough tier) ----

func c11Exhaustive(t *testing.T, rec *kit.Recorder, e *c11Env) {
	proc, _ := strconv.Atoi(os.Getenv("VERIF_PROC"))
	nproc, _ := strconv.Atoi(os.Getenv("VERIF_NPROC"))
	if nproc <= 0 {
		nproc, proc = 1, 0
	}
	do := func(c c11Case) {
		err := c11Guard(func() error { return e.record(rec, c) })
		if err := rec.Judge(c, err); err != nil {
			c11FlushNotes(rec)
			t.Fatalf("exhaustive enumeration: %v\ncase: %s", err, c11JSON(c))
		}
	}
	i := 0
	mine := func() bool { i++; return i%nproc == proc }
	// every truncation length of the two smallest bases
	order := make([]int, len(e.bases))
	for k := range order {
		order[k] = k
	}
	sort.Slice(order, func(x, y int) bool { return len(e.bases[order[x]].Data) < len(e.bases[order[y]].Data) })
	for _, bi := range order[:2] {
		b := &e.bases[bi]
		for k := 0; k < len(b.Data); k++ {
			if mine() {
				do(c11Case{Base: bi, BaseLen: len(b.Data), BaseSum: b.Sum, Muts: []c11Mut{{Kind: "trunc", Pos: k}}})
				rec.Add("exhaustive_truncations", 1)
			}
		}
	}
	// every single-bit flip in the metadata + TOC tail of the smallest base
	// and of the compound base
	for _, bi := range []int{order[0], len(e.bases) - 1} {
		b := &e.bases[bi]
		for pos := b.MetaOff; pos < len(b.Data); pos++ {
			for bit := 0; bit < 8; bit++ {
				if mine() {
					do(c11Case{Base: bi, BaseLen: len(b.Data), BaseSum: b.Sum, Muts: []c11Mut{{Kind: "bitflip", Pos: pos, N: bit}}})
					rec.Add("exhaustive_tail_bitflips", 1)
				}
			}
		}
	}
	// bit 7 (the varint continuation bit) of every byte of the smallest base
	b := &e.bases[order[0]]
	for pos := 0; pos < b.MetaOff; pos++ {
		if mine() {
			do(c11Case{Base: order[0], BaseLen: len(b.Data), BaseSum: b.Sum, Muts: []c11Mut{{Kind: "bitflip", Pos: pos, N: 7}}})
			rec.Add("exhaustive_continuation_bit_flips", 1)
		}
	}
}

// ---- tests ----

func TestVerif_C11(t *testing.T) {
	log.SetOutput(io.Discard)
	rec := kit.Open(t, "C11",
		"a case = (one of 4 valid base shards: symbols+branches+multi-byte, tiny, medium with sub-repositories and long lines, compound v17) x 1-3 byte-level mutations "+
			"(truncation at byte k; single-bit flip; run of 0xFF/0x80/0x7F over 1-16 bytes; overwritten or inserted garbage; deleted block; zeroed block; two TOC words swapped), positions biased to the TOC, "+
			"the metadata JSON, varint-encoded sections and section index tables; the mutated bytes get their own file next to a healthy neighbour shard and are opened with search.NewDirectorySearcher; "+
			"13 searches/listings per case. Non-trivial = the mutated bytes differ from the base; distinct by hash of the case. Thorough tier adds every truncation length of the two smallest bases, "+
			"every single-bit flip in the metadata+TOC tail of the smallest and the compound base and every continuation-bit flip of the smallest base.",
		"the shard file is not modified after it was loaded; no .meta sidecar is present",
		"a query over the directory that returns an error (one shard's read error fails the whole call) is counted as completed; neighbour results are compared whenever a result is returned",
		"wrong or missing results from the corrupted shard itself are allowed",
	)
	rec.EnableJournal()
	e, err := c11GetEnv()
	if err != nil {
		t.Fatalf("C11 harness set-up failed (cannot check): %v", err)
	}
	sums := []string{}
	for _, b := range e.bases {
		sums = append(sums, fmt.Sprintf("%s:%d bytes:%s", b.Label, len(b.Data), b.Sum))
	}
	rec.Set("base_shards", sums)
	t.Cleanup(func() { c11FlushNotes(rec) })
	c11StartMemGuard(func(total uint64) {
		st := c11StuckStacks()
		if c := c11Current.Load(); c != nil {
			c11ReportAndExit(rec, *c, kit.Fail("memory-blowup", "the heap grew to %d MiB while the mutated shard was loaded or searched (a healthy case needs a few MiB); goroutines inside zoekt:\n%s", total>>20, st))
		}
	})
	c11ConvertFuzzReplay(t, e)
	if rec.Thorough() && os.Getenv("VERIF_REPLAY") == "" {
		c11Exhaustive(t, rec, e)
	}
	kit.Property(t, rec, func(rt *rapid.T) c11Case { return c11GenCase(rt, e) }, func(c c11Case) error { return e.record(rec, c) })
}

// c11ConvertFuzzReplay lets `bin/check C11 --replay` accept a crasher written
// by the native fuzzing engine: the mutation program is decoded into the case
// it stands for and handed to kit.Property as an ordinary replay file.
func c11ConvertFuzzReplay(t *testing.T, e *c11Env) {
	p := os.Getenv("VERIF_REPLAY")
	if p == "" {
		return
	}
	b, err := os.ReadFile(p)
	if err != nil || !bytes.HasPrefix(b, []byte("go test fuzz v1")) {
		return
	}
	lines := strings.Split(strings.TrimSpace(string(b)), "\n")
	if len(lines) < 2 || !strings.HasPrefix(lines[1], "[]byte(") || !strings.HasSuffix(lines[1], ")") {
		t.Fatalf("replay %s: not a FuzzVerifC11 corpus file", p)
	}
	prog, err := strconv.Unquote(lines[1][len("[]byte(") : len(lines[1])-1])
	if err != nil {
		t.Fatalf("replay %s: %v", p, err)
	}
	c := c11FuzzCase(e, []byte(prog))
	env, _ := json.Marshal(map[string]any{"property": "C11", "case": c})
	out := filepath.Join(t.TempDir(), "fuzz-replay.json")
	if err := os.WriteFile(out, env, 0o644); err != nil {
		t.Fatal(err)
	}
	t.Logf("replay %s = case %s", p, c11JSON(c))
	os.Setenv("VERIF_REPLAY", out)
}

// c11FuzzCase decodes a mutation program: byte 0 selects the base shard, then
// 8-byte records (kind, 3 bytes position, count, value, 2 bytes second
// position / garbage). Bit 7 of the kind byte addresses the position from the
// end of the file.
func c11FuzzCase(e *c11Env, prog []byte) c11Case {
	if len(prog) == 0 {
		return c11Case{}
	}
	bi := int(prog[0]) % len(e.bases)
	n := len(e.bases[bi].Data)
	c := c11Case{Base: bi}
	prog = prog[1:]
	kinds := []string{"trunc", "bitflip", "run", "splice", "insert", "delete", "zero", "swap", "bitflip", "run"}
	for len(prog) >= 8 && len(c.Muts) < 4 {
		r := prog[:8]
		prog = prog[8:]
		pos := (int(r[1])<<16 | int(r[2])<<8 | int(r[3])) % n
		if r[0]&0x80 != 0 {
			pos = n - 1 - pos
		}
		m := c11Mut{Kind: kinds[int(r[0]&0x7f)%len(kinds)], Pos: pos, N: int(r[4]), Val: int(r[5])}
		switch m.Kind {
		case "run":
			m.N = 1 + m.N%16
			if r[5]&1 == 0 {
				m.Val = 0xFF
			} else if r[5]&2 == 0 {
				m.Val = 0x80
			}
		case "splice", "insert":
			m.Data = append(kit.Text(nil), r[4:8]...)
		case "swap":
			m.Pos2 = n - 5 - (int(r[6])<<8|int(r[7]))%(n-e.bases[bi].TocOff-4)
		case "delete":
			m.N = 1 + m.N%32
		}
		c.Muts = append(c.Muts, m)
	}
	return c
}

func FuzzVerifC11(f *testing.F) {
	log.SetOutput(io.Discard)
	e, err := c11GetEnv()
	if err != nil {
		f.Fatalf("C11 harness set-up failed: %v", err)
	}
	// A no-progress loop allocates until the machine is out of memory, and the
	// driver applies no ulimit to fuzz workers (RLIMIT_AS set from inside makes
	// the workers of the fuzzing engine fail to start): watch the heap instead.
	// Only in the workers - the heap of the coordinating process grows steadily
	// by itself (about 10 MiB/s here) and runs no case.
	if slices.Contains(os.Args, "-test.fuzzworker") {
		c11StartMemGuard(func(total uint64) {
			fmt.Fprintf(os.Stderr, "C11 memory blow-up: %d MiB\n%s\n", total>>20, c11StuckStacks())
			os.Exit(3)
		})
	}
	// The seeds are harmless on every tree (they change one bit of document
	// content): a failing seed would not be written out as a crasher by the
	// fuzzing engine, so the driver could not report it. Everything dangerous
	// is reached by mutating kind, position and value bytes from here.
	for bi := range e.bases {
		f.Add([]byte{byte(bi), 0x01, 0, 0, 5, 0, 0, 0, 0})
		f.Add([]byte{byte(bi), 0x01, 0, 0, 6, 1, 0, 0, 0, 0x06, 0, 0, 7, 1, 0, 0, 0})
	}
	f.Fuzz(func(t *testing.T, prog []byte) {
		if len(prog) < 9 || len(prog) > 64 {
			return
		}
		c := c11FuzzCase(e, prog)
		o := e.run(c)
		if o.Hung != "" {
			// Exiting makes the fuzzing engine record the input; returning would
			// leave a spinning goroutine behind in this worker.
			fmt.Fprintf(os.Stderr, "C11 hang: %s\ncase: %s\n", o.Hung, c11JSON(c))
			os.Exit(3)
		}
		if o.Err != nil {
			t.Fatalf("%v\ncase: %s", o.Err, c11JSON(c))
		}
	})
}
