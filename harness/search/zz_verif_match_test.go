//go:build verif

package search_test

import (
	"context"
	"fmt"
	"os"
	"sort"
	"strings"
	"testing"

	"pgregory.net/rapid"

	"github.com/sourcegraph/zoekt"
	"github.com/sourcegraph/zoekt/internal/verifkit/kit"
	"github.com/sourcegraph/zoekt/query"
	"github.com/sourcegraph/zoekt/search"
)

// matchCase is the shared case of C01/C02/C03: a corpus, a batch of queries
// and the result mode.
type matchCase struct {
	Corpus  kit.Corpus
	Queries []kit.QSpec
	Via     string // "shard": each shard through index.NewSearcher; "dir": search.NewDirectorySearcher
	Chunk   bool
	Context int
}

func genMatchCase(rt *rapid.T, co kit.CorpusOpts, qo kit.QueryOpts, labels *[][]string) matchCase {
	g := kit.G{T: rt}
	c := matchCase{Corpus: kit.GenCorpus(g, co)}
	n := g.Int(4, 8, "nq")
	for i := 0; i < n; i++ {
		q, l := kit.GenQuery(g, &c.Corpus, qo, 0)
		c.Queries = append(c.Queries, q)
		*labels = append(*labels, l)
	}
	if g.Bool(30, "viadir") {
		c.Via = "dir"
	} else {
		c.Via = "shard"
	}
	c.Chunk = g.Bool(50, "chunk")
	c.Context = []int{0, 0, 1, 2, 3, 5}[g.Int(0, 5, "ctx")]
	return c
}

// searchAll runs q over the built corpus and returns the files.
type searchEnv struct {
	built *kit.Built
	dir   zoekt.Streamer
}

func openEnv(c *matchCase, tmp string) (*searchEnv, error) {
	needDir := c.Via == "dir" || c.Corpus.Compound
	d := ""
	if needDir {
		d = tmp
	}
	b, err := kit.Build(&c.Corpus, d)
	if err != nil {
		return nil, err
	}
	e := &searchEnv{built: b}
	if c.Via == "dir" {
		ds, err := search.NewDirectorySearcher(d)
		if err != nil {
			b.Close()
			return nil, err
		}
		e.dir = ds
	}
	return e, nil
}

func (e *searchEnv) close() {
	if e.dir != nil {
		e.dir.Close()
	}
	e.built.Close()
}

func (e *searchEnv) search(q query.Q, opts *zoekt.SearchOptions) ([]zoekt.FileMatch, error) {
	ctx := context.Background()
	if e.dir != nil {
		o := *opts
		res, err := e.dir.Search(ctx, q, &o)
		if err != nil {
			return nil, err
		}
		if res.Stats.Crashes > 0 {
			return nil, kit.Fail("crash", "sharded searcher reported %d crashed shard(s)", res.Stats.Crashes)
		}
		return res.Files, nil
	}
	var files []zoekt.FileMatch
	for _, s := range e.built.Shards {
		o := *opts
		res, err := s.Search(ctx, q, &o)
		if err != nil {
			return nil, err
		}
		files = append(files, res.Files...)
	}
	return files, nil
}

func fileKeys(files []zoekt.FileMatch) (map[string]bool, error) {
	out := map[string]bool{}
	for i := range files {
		k := kit.Key(files[i].Repository, files[i].FileName, files[i].Checksum)
		if out[k] {
			return nil, kit.Fail("duplicate-file", "file returned twice: %q", k)
		}
		out[k] = true
	}
	return out, nil
}

func diffSets(want, got map[string]bool) (missing, extra []string) {
	for k := range want {
		if !got[k] {
			missing = append(missing, strings.ReplaceAll(k, "\x00", "|"))
		}
	}
	for k := range got {
		if !want[k] {
			extra = append(extra, strings.ReplaceAll(k, "\x00", "|"))
		}
	}
	sort.Strings(missing)
	sort.Strings(extra)
	return
}

func liveDocs(c *kit.Corpus) int {
	n := 0
	for i := range c.Repos {
		if c.Live(&c.Repos[i]) {
			n += len(c.Repos[i].Docs)
		}
	}
	return n
}

func hasTextAtom(q kit.QSpec) bool {
	found := false
	q.Atoms(func(a kit.QSpec) {
		if a.Op == "substr" || a.Op == "regex" || a.Op == "sym" {
			found = true
		}
	})
	return found
}

// checkDocSet is the C01 oracle for one query.
func checkDocSet(c *matchCase, e *searchEnv, qs kit.QSpec) (nExpected int, err error) {
	q, err := qs.Q()
	if err != nil {
		return 0, nil // not a valid query: outside the domain
	}
	want, err := kit.Expected(&c.Corpus, q)
	if err != nil {
		return 0, nil // the reference cannot interpret it (e.g. stdlib rejects the regexp)
	}
	var files []zoekt.FileMatch
	err = kit.Guard(func() error {
		var err error
		files, err = e.search(q, &zoekt.SearchOptions{ChunkMatches: c.Chunk, NumContextLines: c.Context})
		return err
	})
	if err != nil {
		if d, ok := err.(*kit.Discrepancy); ok {
			d.Detail = fmt.Sprintf("query %s: %s", q, d.Detail)
			return 0, classifyC01(qs, d)
		}
		return 0, classifyC01(qs, kit.Fail("search-error", "query %s: %v", q, err))
	}
	got, err := fileKeys(files)
	if err != nil {
		return 0, err
	}
	missing, extra := diffSets(want, got)
	if len(missing)+len(extra) > 0 {
		d := kit.Fail("docset", "query %s via %s: missing %q extra %q", q, c.Via, missing, extra)
		if c.Via == "dir" && len(missing) == 0 && singleHeadList(&c.Corpus, qs) {
			// the sharded searcher's rewrite of a single-entry branch /
			// repository list on HEAD (finding of C18): nothing is missing
			// and every extra document belongs to a repository whose first
			// branch is not named HEAD
			other := map[string]bool{}
			for i := range c.Corpus.Repos {
				if c.Corpus.Repos[i].Branches[0].Name != "HEAD" {
					other[c.Corpus.Repos[i].Name] = true
				}
			}
			only := true
			for _, k := range extra {
				only = only && other[strings.SplitN(k, "|", 2)[0]]
			}
			if only {
				d.Known = "C01-single-branchesrepos-head-rewrite"
			}
		}
		return 0, classifyC01(qs, d)
	}
	return len(want), nil
}

// singleHeadList: the query's top level holds a single-entry branch /
// repository list on "HEAD" that names a repository whose first branch has
// another name (the input class of finding C18-single-branchesrepos-head-rewrite).
func singleHeadList(c *kit.Corpus, qs kit.QSpec) bool {
	kids := []kit.QSpec{qs}
	if qs.Op == "and" {
		kids = qs.Kids
	}
	for _, k := range kids {
		if k.Op == "branchesrepos" && len(k.BR) == 1 && k.BR[0].Branch == "HEAD" {
			for i := range c.Repos {
				for _, id := range k.BR[0].IDs {
					if c.Repos[i].ID == id && c.Repos[i].Branches[0].Name != "HEAD" {
						return true
					}
				}
			}
		}
	}
	return false
}

// classifyC01 attaches known-finding ids to recognised discrepancies.
func classifyC01(qs kit.QSpec, d *kit.Discrepancy) *kit.Discrepancy {
	return d
}

func runC01(rec *kit.Recorder, c matchCase, labels [][]string) error {
	tmp, err := os.MkdirTemp("", "c01")
	if err != nil {
		return err
	}
	defer os.RemoveAll(tmp)
	e, err := openEnv(&c, tmp)
	if err != nil {
		return kit.Fail("build", "%v", err)
	}
	defer e.close()
	total := liveDocs(&c.Corpus)
	ckey := fmt.Sprintf("%x", kit.Checksum([]byte(fmt.Sprintf("%+v", c.Corpus))))
	anyNT := false
	for i, qs := range c.Queries {
		n, err := checkDocSet(&c, e, qs)
		var l []string
		if i < len(labels) {
			l = labels[i]
		}
		nt := hasTextAtom(qs) && n > 0 && n < total
		anyNT = anyNT || nt
		layout := "layout:simple"
		if c.Corpus.Compound {
			layout = "layout:compound"
		}
		rec.Eval(ckey+"|"+fmt.Sprintf("%+v", qs), nt, append(l, layout, "via:"+c.Via)...)
		if err != nil {
			return err
		}
	}
	rec.Sample(c, anyNT)
	return nil
}

func TestVerif_C01(t *testing.T) {
	rec := kit.Open(t, "C01",
		"rapid-generated corpora (1-4 repositories, simple or compound shards, tombstones, skipped documents) x 4-8 query trees over every atom kind; a case = (corpus, query); non-trivial = the query has a text atom and the reference document set is neither empty nor all live documents; distinct by hash of corpus+query",
		"case-insensitive text atoms restricted to runes whose lower-casing and simple folding agree on the whole fold orbit",
		"Branch pattern HEAD means the repository's first branch",
		"symbol regexps are evaluated on each symbol's text in isolation; symbol substrings must lie inside one symbol",
		"RepoSet maps only carry true values (every constructor does)",
	)
	var labels [][]string
	kit.Property(t, rec, func(rt *rapid.T) matchCase {
		labels = nil
		return genMatchCase(rt, kit.DefaultCorpus, kit.DefaultQuery, &labels)
	}, func(c matchCase) error {
		return runC01(rec, c, labels)
	})
}
